package sio

// S3 "retry queue replacement ack without the head guard" (client_packet_queue.go, addToQueue).
// Public API only, untouched library, no schedule patch; deterministic (4.5 s).
//
// Retries: 1, AckTimeout: 3 s. p1 is sent (try 1), the network drops before the answer, the client reconnects and
// the queue re-sends p1 (try 2), which is answered: p1 is done and p2 is sent. When the ack timer of try 1 fires,
// the replacement ack of p1 runs again: it removes the head of the queue, which is now p2 (still in flight), and
// calls the user's callback of p1 a second time with ErrAckTimeout. When the answer of p2 arrives later, the queue
// is empty: the slice expression panics (recovered, reported by Manager.OnError) and the callback of p2 never runs.

import (
	"io"
	"net"
	"strings"
	"sync"
	"sync/atomic"
	"testing"
	"time"

	eio "github.com/karagenc/socket.io-go/engine.io"
	"nhooyr.io/websocket"
)

// dropProxy is a TCP forwarder in front of the test server: dropAll cuts every open connection (a network drop).
type dropProxy struct {
	ln     net.Listener
	target string
	mu     sync.Mutex
	conns  []net.Conn
}

func newDropProxy(t *testing.T, target string) *dropProxy {
	ln, err := net.Listen("tcp", "127.0.0.1:0")
	if err != nil {
		t.Fatal(err)
	}
	p := &dropProxy{ln: ln, target: target}
	go func() {
		for {
			c, err := ln.Accept()
			if err != nil {
				return
			}
			d, err := net.Dial("tcp", p.target)
			if err != nil {
				c.Close()
				continue
			}
			p.mu.Lock()
			p.conns = append(p.conns, c, d)
			p.mu.Unlock()
			go func() { _, _ = io.Copy(d, c); d.Close(); c.Close() }()
			go func() { _, _ = io.Copy(c, d); d.Close(); c.Close() }()
		}
	}()
	return p
}

func (p *dropProxy) dropAll() {
	p.mu.Lock()
	defer p.mu.Unlock()
	for _, c := range p.conns {
		c.Close()
	}
	p.conns = nil
}

func (p *dropProxy) url() string { return "http://" + p.ln.Addr().String() }

func TestS3StaleRetryAck(t *testing.T) {
	var (
		ackTimeout        = 3 * time.Second
		reconnectionDelay = 1 * time.Second
		noJitter          = float32(0)
	)
	io, ts, _, closeAll := newTestServerAndClient(t, nil, nil)
	defer closeAll()
	proxy := newDropProxy(t, strings.TrimPrefix(ts.URL, "http://"))
	defer proxy.ln.Close()
	defer proxy.dropAll()
	manager := NewManager(proxy.url(), &ManagerConfig{
		ReconnectionDelay:    &reconnectionDelay,
		ReconnectionDelayMax: &reconnectionDelay,
		RandomizationFactor:  &noJitter,
		EIO: eio.ClientConfig{
			Transports:           []string{"websocket"},
			WebSocketDialOptions: &websocket.DialOptions{CompressionMode: websocket.CompressionDisabled},
		},
	})

	var (
		conns     int32
		releaseP2 = make(chan struct{})
		srvMu     sync.Mutex
		srvGot    = map[string]int{}
	)
	io.OnConnection(func(socket ServerSocket) {
		n := atomic.AddInt32(&conns, 1)
		note := func(name string) {
			srvMu.Lock()
			srvGot[name]++
			srvMu.Unlock()
		}
		socket.OnEvent("p1", func(ack func(string)) {
			note("p1")
			if n == 1 {
				return // the first connection never answers p1 (its reply is "lost")
			}
			ack("p1-ok")
		})
		socket.OnEvent("p2", func(ack func(string)) {
			note("p2")
			select {
			case <-releaseP2:
			case <-time.After(20 * time.Second):
			}
			ack("p2-ok")
		})
		socket.OnEvent("p3", func(ack func(string)) {
			note("p3")
			ack("p3-ok")
		})
	})

	type call struct {
		err   string // "" = nil error
		reply string
	}
	var (
		mu    sync.Mutex
		calls = map[string][]call{}
		errs  []error
	)
	record := func(name string) func(err error, reply string) {
		return func(err error, reply string) {
			mu.Lock()
			c := call{reply: reply}
			if err != nil {
				c.err = err.Error()
			}
			calls[name] = append(calls[name], c)
			mu.Unlock()
		}
	}
	manager.OnError(func(err error) {
		mu.Lock()
		errs = append(errs, err)
		mu.Unlock()
	})

	socket := manager.Socket("/", &ClientSocketConfig{Retries: 1, AckTimeout: ackTimeout})
	connected := make(chan struct{}, 4)
	socket.OnConnect(func() { connected <- struct{}{} })
	socket.Connect()
	select {
	case <-connected:
	case <-time.After(5 * time.Second):
		t.Fatal("no connect")
	}

	t0 := time.Now()
	socket.Emit("p1", record("p1"))
	socket.Emit("p2", record("p2"))
	socket.Emit("p3", record("p3"))

	// The network drops 300 ms later: p1 was sent (try 1) and is waiting for its ack.
	time.Sleep(300 * time.Millisecond)
	proxy.dropAll()

	select {
	case <-connected: // reconnected: the queue re-sends its head, p1 (try 2), which is answered at once
	case <-time.After(10 * time.Second):
		t.Fatal("no reconnect")
	}

	// Wait until the ack timer of try 1 of p1 has certainly fired, p2 (sent after the reconnection) still being in flight.
	time.Sleep(time.Until(t0.Add(ackTimeout + 500*time.Millisecond)))
	close(releaseP2)
	time.Sleep(1 * time.Second)

	mu.Lock()
	defer mu.Unlock()
	srvMu.Lock()
	defer srvMu.Unlock()
	t.Logf("server received: %v", srvGot)
	t.Logf("client callbacks: %+v", calls)
	t.Logf("manager errors: %v", errs)
	for _, name := range []string{"p1", "p2", "p3"} {
		if n := len(calls[name]); n != 1 {
			t.Errorf("the callback of %s ran %d times, want exactly once: %+v", name, n, calls[name])
		} else if c := calls[name][0]; c.err != "" || c.reply != name+"-ok" {
			t.Errorf("the callback of %s got (err %q, %q), want (nil, %q)", name, c.err, c.reply, name+"-ok")
		}
	}
	socket.Disconnect()
}
