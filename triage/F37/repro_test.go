package sio

// S1 "event stranded in receiveBuffer". Needs schedule.patch (a nil-by-default test hook, no logic change),
// which is used to hold two goroutines of the client at the two points of the race:
//
//	G_event   (go socket.onPacket for the EVENT)         G_connect (go socket.onPacket for the CONNECT)
//	onEvent: reads state != connected
//	                                                     onConnect: state = connected
//	                                                     emitBuffered: receiveBuffer is empty; receiveBuffer = nil
//	                                                     connect handlers
//	onEvent: receiveBuffer = append(receiveBuffer, ev)   -> nobody replays it
//
// The server is the real one and does what every server does: it emits right after the connection.
// See repro_natural_test.go for the same loss without any patch (statistical).

import (
	"sync"
	"testing"
	"time"
)

func TestS1EventStrandedInReceiveBuffer(t *testing.T) {
	io, _, manager, closeAll := newTestServerAndClient(t, nil, &ManagerConfig{NoReconnection: true})
	defer closeAll()

	io.OnConnection(func(socket ServerSocket) {
		socket.Emit("hello", "world")
	})

	socket := manager.Socket("/", nil)
	cs := socket.(*clientSocket)

	var (
		eventSawNotConnected = make(chan struct{}) // G_event has read the state (not connected) and is about to buffer
		connectDone          = make(chan struct{}) // G_connect is past emitBuffered (the connect handlers run after it)
		once1, once2         sync.Once
	)
	testHookClientSocket = func(s *clientSocket, point string) {
		if s != cs {
			return
		}
		switch point {
		case "onConnect:enter":
			select {
			case <-eventSawNotConnected:
			case <-time.After(5 * time.Second):
			}
		case "onEvent:beforeBuffer":
			once1.Do(func() { close(eventSawNotConnected) })
			select {
			case <-connectDone:
			case <-time.After(5 * time.Second):
			}
		}
	}
	defer func() { testHookClientSocket = nil }()

	socket.OnConnect(func() {
		once2.Do(func() { close(connectDone) })
	})
	got := make(chan string, 8)
	socket.OnEvent("hello", func(v string) {
		got <- v
	})
	socket.Connect()

	select {
	case v := <-got:
		if v != "world" {
			t.Fatalf("got %q", v)
		}
	case <-time.After(3 * time.Second):
		cs.receiveBufferMu.Lock()
		n := len(cs.receiveBuffer)
		cs.receiveBufferMu.Unlock()
		t.Fatalf("the event the server emitted right after the connection never reached the handler "+
			"(socket connected: %v, events sitting in receiveBuffer: %d)", socket.Connected(), n)
	}
	select {
	case v := <-got:
		t.Fatalf("the event was delivered twice (%q)", v)
	case <-time.After(300 * time.Millisecond):
	}
	socket.Disconnect()
}
