package sio

// S1 "event stranded in receiveBuffer", WITHOUT any patch: public API only, untouched library, statistical.
//
// A scripted, conforming server answers the CONNECT and emits a burst of events right after it (one polling payload:
// CONNECT reply first, then the events). The client dispatches every packet on its own goroutine, so some events
// are processed before the CONNECT and go through receiveBuffer; now and then one of them reads "not connected",
// loses the race for receiveBufferMu against emitBuffered, and is appended to the buffer after it was replayed.
// The connection is repeated (several clients in parallel) until an event is lost.

import (
	"context"
	"fmt"
	"io"
	"net/http"
	"net/http/httptest"
	"strings"
	"sync"
	"sync/atomic"
	"testing"
	"time"

	eio "github.com/karagenc/socket.io-go/engine.io"
	"nhooyr.io/websocket"
)

func TestS1EventStrandedNatural(t *testing.T) {
	const (
		workers     = 8
		connections = 500 // per worker
		burst       = 64  // events emitted right after the CONNECT reply
	)
	ts := s1NewRawServer(t, func(send func(...string), recv <-chan string) {
		for p := range recv {
			if p == "40" {
				batch := []string{`40{"sid":"s1"}`}
				for k := 0; k < burst; k++ {
					batch = append(batch, fmt.Sprintf(`42["e",%d]`, k))
				}
				send(batch...)
			}
		}
	})
	defer func() { ts.CloseClientConnections(); ts.Close() }()

	var (
		stop  int32
		total int32
		wg    sync.WaitGroup
		start = time.Now()
	)
	for w := 0; w < workers; w++ {
		wg.Add(1)
		go func(w int) {
			defer wg.Done()
			for i := 0; i < connections && atomic.LoadInt32(&stop) == 0 && time.Since(start) < 20*time.Second; i++ {
				manager := NewManager(ts.URL, &ManagerConfig{
					NoReconnection: true,
					EIO: eio.ClientConfig{
						Transports:           []string{"polling"},
						WebSocketDialOptions: &websocket.DialOptions{CompressionMode: websocket.CompressionDisabled},
					},
				})
				socket := manager.Socket("/", nil)
				var (
					nth  = atomic.AddInt32(&total, 1)
					mu   sync.Mutex
					seen = make(map[int]int)
				)
				socket.OnEvent("e", func(k int) {
					mu.Lock()
					seen[k]++
					mu.Unlock()
				})
				socket.Connect()

				count := func() int {
					mu.Lock()
					defer mu.Unlock()
					return len(seen)
				}
				deadline := time.Now().Add(2 * time.Second)
				for count() < burst && time.Now().Before(deadline) {
					time.Sleep(2 * time.Millisecond)
				}
				if count() < burst && atomic.CompareAndSwapInt32(&stop, 0, 1) {
					var missing []int
					mu.Lock()
					for k := 0; k < burst; k++ {
						if seen[k] == 0 {
							missing = append(missing, k)
						}
					}
					mu.Unlock()
					cs := socket.(*clientSocket) // diagnostics only
					cs.receiveBufferMu.Lock()
					n := len(cs.receiveBuffer)
					cs.receiveBufferMu.Unlock()
					t.Errorf("connection no. %d (worker %d, its connection no. %d): %d of the %d events emitted right after "+
						"the CONNECT reply never reached the handler within 2 s: %v (socket connected: %v, events sitting in receiveBuffer: %d)",
						nth, w, i, len(missing), burst, missing, socket.Connected(), n)
				}
				socket.Disconnect()
			}
		}(w)
	}
	wg.Wait()
	t.Logf("%d connections in %v", atomic.LoadInt32(&total), time.Since(start))
}

// A scripted Engine.IO v4 server (WebSocket-only or polling-only sessions), used when a test needs exact
// control of WHAT the "Socket.IO server" sends and WHEN. Everything it sends is a conforming packet sequence
// unless a test says otherwise.
//
// s1RawScript is run once per Engine.IO session, after the OPEN packet was delivered.
// send delivers whole Engine.IO packets (e.g. `40{"sid":"x"}`, `42["e",1]`): one text frame each on WebSocket,
// ONE payload (joined with 0x1e) on polling. recv yields the packets the client sends (e.g. `40`, `431["late"]`),
// PING/PONG filtered out; it is closed when the session ends.
type s1RawScript func(send func(packets ...string), recv <-chan string)

const s1RawOpenPacket = `0{"sid":"%s","upgrades":[],"pingInterval":25000,"pingTimeout":20000,"maxPayload":1000000}`

type s1RawPollSession struct {
	mu    sync.Mutex
	out   [][]string
	wake  chan struct{}
	recv  chan string
	done  chan struct{}
	close sync.Once
}

func s1NewRawServer(_ *testing.T, script s1RawScript) *httptest.Server {
	var (
		sidSeq   int32
		sessions sync.Map // sid -> *s1RawPollSession
	)
	return httptest.NewServer(http.HandlerFunc(func(w http.ResponseWriter, r *http.Request) {
		q := r.URL.Query()
		switch q.Get("transport") {
		case "websocket":
			c, err := websocket.Accept(w, r, &websocket.AcceptOptions{CompressionMode: websocket.CompressionDisabled})
			if err != nil {
				return
			}
			defer c.Close(websocket.StatusNormalClosure, "")
			c.SetReadLimit(-1)
			ctx, cancel := context.WithTimeout(context.Background(), 30*time.Second)
			defer cancel()

			var wmu sync.Mutex
			send := func(packets ...string) {
				wmu.Lock()
				defer wmu.Unlock()
				for _, p := range packets {
					_ = c.Write(ctx, websocket.MessageText, []byte(p))
				}
			}
			send(fmt.Sprintf(s1RawOpenPacket, fmt.Sprintf("raw%d", atomic.AddInt32(&sidSeq, 1))))

			recv := make(chan string, 4096)
			go func() {
				defer close(recv)
				for {
					_, data, err := c.Read(ctx)
					if err != nil {
						return
					}
					s := string(data)
					if s == "" || s[0] == '2' || s[0] == '3' { // PING / PONG
						continue
					}
					recv <- s
				}
			}()
			script(send, recv)

		case "polling":
			sid := q.Get("sid")
			if sid == "" {
				sid = fmt.Sprintf("raw%d", atomic.AddInt32(&sidSeq, 1))
				sess := &s1RawPollSession{wake: make(chan struct{}, 1), recv: make(chan string, 4096), done: make(chan struct{})}
				sessions.Store(sid, sess)
				send := func(packets ...string) {
					sess.mu.Lock()
					sess.out = append(sess.out, packets)
					sess.mu.Unlock()
					select {
					case sess.wake <- struct{}{}:
					default:
					}
				}
				go script(send, sess.recv)
				_, _ = io.WriteString(w, fmt.Sprintf(s1RawOpenPacket, sid))
				return
			}
			v, ok := sessions.Load(sid)
			if !ok {
				http.Error(w, "unknown sid", http.StatusBadRequest)
				return
			}
			sess := v.(*s1RawPollSession)
			if r.Method == "POST" {
				body, _ := io.ReadAll(r.Body)
				for _, p := range strings.Split(string(body), "\x1e") {
					if p == "" || p[0] == '2' || p[0] == '3' {
						continue
					}
					if p[0] == '1' { // CLOSE
						sess.close.Do(func() { close(sess.recv); close(sess.done) })
						continue
					}
					func() {
						defer func() { _ = recover() }() // recv closed
						sess.recv <- p
					}()
				}
				_, _ = io.WriteString(w, "ok")
				return
			}
			// GET: long poll. One batch handed to send() = one payload.
			timeout := time.After(5 * time.Second)
			for {
				sess.mu.Lock()
				if len(sess.out) > 0 {
					batch := sess.out[0]
					sess.out = sess.out[1:]
					sess.mu.Unlock()
					_, _ = io.WriteString(w, strings.Join(batch, "\x1e"))
					return
				}
				sess.mu.Unlock()
				select {
				case <-sess.wake:
				case <-sess.done:
					_, _ = io.WriteString(w, "6") // NOOP
					return
				case <-r.Context().Done():
					return
				case <-timeout:
					_, _ = io.WriteString(w, "6") // NOOP
					return
				}
			}
		default:
			http.Error(w, "bad transport", http.StatusBadRequest)
		}
	}))
}
