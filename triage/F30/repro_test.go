package sio

import "testing"

// F30: OffEvent(name) with no handler must remove every handler of that event
// (C18: "given none removes all handlers of that event"). The exported
// OffEvent passes an empty non-nil slice, and eventHandlerStore.off tested
// `handler == nil` for its remove-all branch, so nothing was removed.
func TestTriageF30(t *testing.T) {
	m := NewManager("http://127.0.0.1:1", nil)
	s := m.Socket("/", nil).(*clientSocket)
	s.OnEvent("x", func() {})
	s.OnceEvent("x", func() {})
	s.OffEvent("x")
	if n := len(s.eventHandlers.getAll("x")); n != 0 {
		t.Fatalf("OffEvent(\"x\") with no handler left %d handler(s) registered", n)
	}
}
