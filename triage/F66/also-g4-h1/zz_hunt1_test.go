package eio

import (
	"context"
	"net/http"
	"net/http/httptest"
	"strings"
	"testing"
	"time"

	"nhooyr.io/websocket"
)

// C14: a peer that goes silent without closing the transport must be reported
// (OnClose, reason "ping timeout") within pingInterval + pingTimeout.
//
// Over the websocket transport the report comes 5 s late on both sides: close() calls
// transport.Close() *before* the OnClose callback (and, on the server, before the session
// is removed from the store), and the websocket transport's Close() performs the blocking
// close handshake of nhooyr.io/websocket (waits up to 5 s for the silent peer's close frame).
func TestHunt1(t *testing.T) {
	const (
		pingInterval = 1 * time.Second
		pingTimeout  = 1 * time.Second
		bound        = pingInterval + pingTimeout
		slack        = 1500 * time.Millisecond
		giveUp       = 15 * time.Second
	)

	t.Run("server", func(t *testing.T) {
		type closeInfo struct {
			reason Reason
			at     time.Time
		}
		closed := make(chan closeInfo, 1)
		onSocket := func(socket ServerSocket) *Callbacks {
			return &Callbacks{
				OnClose: func(reason Reason, err error) {
					closed <- closeInfo{reason, time.Now()}
				},
			}
		}
		io := NewServer(onSocket, &ServerConfig{PingInterval: pingInterval, PingTimeout: pingTimeout})
		if err := io.Run(); err != nil {
			t.Fatal(err)
		}
		defer io.Close()
		ts := httptest.NewServer(io)
		defer ts.Close()

		ctx, cancel := context.WithTimeout(context.Background(), 25*time.Second)
		defer cancel()
		u := "ws" + strings.TrimPrefix(ts.URL, "http") + "/?EIO=4&transport=websocket"
		conn, _, err := websocket.Dial(ctx, u, nil)
		if err != nil {
			t.Fatal(err)
		}
		defer conn.CloseNow()
		_, open, err := conn.Read(ctx)
		if err != nil {
			t.Fatal(err)
		}
		start := time.Now()
		if len(open) == 0 || open[0] != '0' {
			t.Fatalf("expected OPEN, got %q", open)
		}
		// From now on the peer is silent: it never reads (so it answers neither pings nor the close frame)
		// and it never closes the TCP connection.

		select {
		case ci := <-closed:
			took := ci.at.Sub(start)
			t.Logf("server: OnClose(%q) %v after the handshake (bound: %v)", ci.reason, took, bound)
			if ci.reason != ReasonPingTimeout {
				t.Errorf("server: reason = %q, want %q", ci.reason, ReasonPingTimeout)
			}
			if took > bound+slack {
				t.Errorf("server: dead peer reported after %v, want <= pingInterval+pingTimeout (%v) + slack (%v)", took, bound, slack)
			}
		case <-time.After(giveUp):
			t.Errorf("server: dead peer not reported within %v", giveUp)
		}
	})

	t.Run("client", func(t *testing.T) {
		release := make(chan struct{})
		defer close(release)
		// A scripted server: sends OPEN over websocket and then goes silent (never reads, never pings, never closes).
		ts := httptest.NewServer(http.HandlerFunc(func(w http.ResponseWriter, r *http.Request) {
			conn, err := websocket.Accept(w, r, nil)
			if err != nil {
				return
			}
			defer conn.CloseNow()
			err = conn.Write(r.Context(), websocket.MessageText,
				[]byte(`0{"sid":"hunt1","upgrades":[],"pingInterval":1000,"pingTimeout":1000,"maxPayload":1000000}`))
			if err != nil {
				return
			}
			<-release
		}))
		defer ts.Close()

		type closeInfo struct {
			reason Reason
			at     time.Time
		}
		closed := make(chan closeInfo, 1)
		socket, err := Dial(ts.URL, &Callbacks{
			OnClose: func(reason Reason, err error) {
				closed <- closeInfo{reason, time.Now()}
			},
		}, &ClientConfig{Transports: []string{"websocket"}})
		if err != nil {
			t.Fatal(err)
		}
		start := time.Now()
		defer socket.Close()

		select {
		case ci := <-closed:
			took := ci.at.Sub(start)
			t.Logf("client: OnClose(%q) %v after the handshake (bound: %v)", ci.reason, took, bound)
			if ci.reason != ReasonPingTimeout {
				t.Errorf("client: reason = %q, want %q", ci.reason, ReasonPingTimeout)
			}
			if took > bound+slack {
				t.Errorf("client: dead peer reported after %v, want <= pingInterval+pingTimeout (%v) + slack (%v)", took, bound, slack)
			}
		case <-time.After(giveUp):
			t.Errorf("client: dead peer not reported within %v", giveUp)
		}
	})
}
