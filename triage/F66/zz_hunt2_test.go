package eio

import (
	"context"
	"net/http/httptest"
	"strings"
	"testing"
	"time"

	"github.com/karagenc/socket.io-go/engine.io/parser"
	"nhooyr.io/websocket"
)

// C14: "A peer that stops responding without closing the transport is detected, and the connection
// closed with a ping-timeout reason, within pingInterval + pingTimeout" - also "in the middle of a burst".
//
// The server's heartbeat loop sends the PING synchronously (`s.Send(ping)` in `pingPong`) and arms the
// pingTimeout timer only after `Send` has returned. Over websocket, `Send` is a blocking write that needs the
// connection's write lock. If the peer stops reading while the application is sending (the TCP window fills up,
// the application's write blocks while holding the write lock), the PING write waits for that lock forever:
// the timer is never armed and the dead peer is never detected - the session stays in the store, OnClose
// is never called, for as long as the TCP connection exists.
func TestHunt2(t *testing.T) {
	const (
		pingInterval = 1 * time.Second
		pingTimeout  = 1 * time.Second
		// The bound of the property is pingInterval + pingTimeout = 2s. This test is lenient on purpose: it allows
		// 10 times the bound, so that it only fails when the peer is not detected at all (and not because of the
		// blocking websocket close handshake, which delays the report by 5-10 seconds and is filed separately as h1).
		giveUp = 20 * time.Second
	)

	closed := make(chan Reason, 1)
	sending := make(chan struct{})
	onSocket := func(socket ServerSocket) *Callbacks {
		// The application streams data to the client: 64 messages of 512 KiB.
		go func() {
			<-sending
			payload := []byte(strings.Repeat("a", 512<<10))
			for i := 0; i < 64; i++ {
				p, err := parser.NewPacket(parser.PacketTypeMessage, false, payload)
				if err != nil {
					return
				}
				socket.Send(p)
			}
		}()
		return &Callbacks{
			OnClose: func(reason Reason, err error) {
				closed <- reason
			},
		}
	}
	io := NewServer(onSocket, &ServerConfig{PingInterval: pingInterval, PingTimeout: pingTimeout})
	if err := io.Run(); err != nil {
		t.Fatal(err)
	}
	defer io.Close()
	ts := httptest.NewServer(io)
	defer ts.Close()

	ctx, cancel := context.WithTimeout(context.Background(), 28*time.Second)
	defer cancel()
	u := "ws" + strings.TrimPrefix(ts.URL, "http") + "/?EIO=4&transport=websocket"
	conn, _, err := websocket.Dial(ctx, u, nil)
	if err != nil {
		t.Fatal(err)
	}
	defer conn.CloseNow()
	_, open, err := conn.Read(ctx)
	if err != nil {
		t.Fatal(err)
	}
	if len(open) == 0 || open[0] != '0' {
		t.Fatalf("expected OPEN, got %q", open)
	}
	m := strings.Index(string(open), `"sid":"`)
	if m < 0 {
		t.Fatalf("no sid in %q", open)
	}
	sid := string(open)[m+7:]
	sid = sid[:strings.Index(sid, `"`)]

	// From now on the peer is frozen: it does not read any more (so it answers no ping), but it keeps the TCP connection open.
	start := time.Now()
	close(sending)

	select {
	case reason := <-closed:
		t.Logf("OnClose(%q) %v after the peer froze (pingInterval+pingTimeout = %v)", reason, time.Since(start), pingInterval+pingTimeout)
		if reason != ReasonPingTimeout {
			t.Errorf("reason = %q, want %q", reason, ReasonPingTimeout)
		}
	case <-time.After(giveUp):
		t.Errorf("a peer that stopped reading in the middle of a burst was not detected within %v (pingInterval+pingTimeout = %v): the heartbeat is stuck",
			giveUp, pingInterval+pingTimeout)
		if _, ok := io.store.get(sid); ok {
			t.Errorf("the session %s is still in the store", sid)
		}
	}
}
