package sio

import (
	"fmt"
	"net/http/httptest"
	"testing"
	"time"
)

// F23: registerAckHandler (timeout == 0 branch) of both clientSocket and serverSocket does
//
//	s.acksMu.Lock(); h, err := newAckHandler(f, false); if err != nil { panic(err) }; ...; s.acksMu.Unlock()
//
// so an invalid ack function (here: one with a return value) makes Emit panic while acksMu
// is held. An application that recovers from that panic has a socket on which every later
// Emit with an ack blocks forever.
func TestTriageF23(t *testing.T) {
	badAck := func() int { return 0 } // newAckHandler: "ack handler must not have a return value"

	// Emit with an invalid ack must panic (documented behaviour, kept by the fix) ...
	emitBadAck := func(t *testing.T, socket Socket) {
		t.Helper()
		var recovered any
		func() {
			defer func() { recovered = recover() }()
			socket.Emit("x", badAck)
		}()
		if recovered == nil {
			t.Fatal("precondition: Emit with an ack function that has a return value did not panic")
		}
		t.Logf("Emit panicked as expected: %v", recovered)
	}

	// ... but the socket must stay usable afterwards.
	emitGoodAck := func(t *testing.T, socket Socket) {
		t.Helper()
		done := make(chan any, 1)
		go func() {
			defer func() { done <- recover() }()
			socket.Emit("y", func() {})
		}()
		select {
		case r := <-done:
			if r != nil {
				t.Fatalf("Emit with a valid ack panicked: %v", r)
			}
		case <-time.After(2 * time.Second):
			t.Fatal("Emit with a valid ack blocks forever after a previous Emit panicked on an invalid ack: acksMu was left locked")
		}
	}

	t.Run("clientSocket", func(t *testing.T) {
		manager := NewManager("http://127.0.0.1:1", nil)
		socket := manager.Socket("/", nil) // Not connected: emitted packets are just buffered.
		emitBadAck(t, socket)
		emitGoodAck(t, socket)
	})

	t.Run("serverSocket", func(t *testing.T) {
		io := NewServer(nil)
		if err := io.Run(); err != nil {
			t.Fatal(err)
		}
		ts := httptest.NewServer(io)
		defer func() {
			// Bounded cleanup: do not hang the test if the socket is wedged.
			closed := make(chan struct{})
			go func() {
				defer close(closed)
				if err := io.Close(); err != nil {
					fmt.Println("io.Close:", err)
				}
				ts.Close()
			}()
			select {
			case <-closed:
			case <-time.After(3 * time.Second):
			}
		}()

		connected := make(chan ServerSocket, 1)
		io.Of("/").OnConnection(func(socket ServerSocket) { connected <- socket })
		manager := NewManager(ts.URL, nil)
		manager.Socket("/", nil).Connect()

		var socket ServerSocket
		select {
		case socket = <-connected:
		case <-time.After(5 * time.Second):
			t.Fatal("precondition: client did not connect within 5s")
		}
		emitBadAck(t, socket)
		emitGoodAck(t, socket)
	})
}
