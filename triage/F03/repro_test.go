package sio

import (
	"sync/atomic"
	"testing"
	"time"

	eioparser "github.com/karagenc/socket.io-go/engine.io/parser"
)

// F03: (*Manager).OffAll clears every handler registry of the manager except pingHandlers.
func TestTriageF03(t *testing.T) {
	m := NewManager("http://127.0.0.1:1", nil)

	var calls atomic.Int32
	m.OnPing(func() { calls.Add(1) })
	m.OncePing(func() { calls.Add(1) })
	// Control: another registry, which OffAll does clear.
	m.OnOpen(func() {})

	m.OffAll()

	if n := len(m.openHandlers.getAll()); n != 0 {
		t.Fatalf("control: %d open handler(s) left after OffAll", n)
	}

	// An Engine.IO PING is what fires the ping handlers (in a new goroutine).
	m.onEIOPacket(&eioparser.Packet{Type: eioparser.PacketTypePing})
	time.Sleep(200 * time.Millisecond)
	if n := calls.Load(); n != 0 {
		t.Errorf("ping handlers were called %d time(s) after OffAll, want 0", n)
	}

	m.OnPing(func() {})
	m.OncePing(func() {})
	m.OffAll()
	if n := len(m.pingHandlers.getAll()); n != 0 {
		t.Errorf("%d ping handler(s) still registered after OffAll, want 0", n)
	}
}
