package sio

import (
	"testing"
	"time"

	"github.com/karagenc/socket.io-go/internal/sync"
)

// F26: serverConn.connect: nsp.add -> doConnect -> socket.onConnect() sends the CONNECT
// reply to the client, and only after nsp.add has returned does connect do
// c.sockets.set(socket). An EVENT of the client for that namespace arriving in between
// (every packet is dispatched on its own goroutine) finds no socket in c.sockets, takes the
// "Invalid state" branch of onParserFinish and the server closes the whole connection.
//
// Needs a forced schedule to be deterministic: schedule.patch (a 100 ms sleep right before
// `c.sockets.set(socket)` in serverConn.connect).
func TestTriageF26(t *testing.T) {
	io, _, manager, closeAll := newTestServerAndClient(
		t,
		nil,
		&ManagerConfig{NoReconnection: true},
	)
	defer closeAll()

	var (
		mu           sync.Mutex
		disconnects  []Reason
		received     = make(chan int, 1)
		disconnected = make(chan struct{}, 1)
	)

	io.OnConnection(func(socket ServerSocket) {
		socket.OnEvent("hi", func(n int) {
			received <- n
		})
	})

	socket := manager.Socket("/", nil)
	socket.OnConnect(func() {
		// The client got the CONNECT reply: it is entitled to emit right away.
		socket.Emit("hi", 1)
	})
	socket.OnDisconnect(func(reason Reason) {
		mu.Lock()
		disconnects = append(disconnects, reason)
		mu.Unlock()
		select {
		case disconnected <- struct{}{}:
		default:
		}
	})
	socket.Connect()

	select {
	case n := <-received:
		if n != 1 {
			t.Errorf("server handler got %d, want 1", n)
		}
	case <-disconnected:
		mu.Lock()
		t.Errorf("F26: the event emitted from the client's OnConnect handler was not delivered; instead the server closed the connection (client disconnect reasons: %v)", disconnects)
		mu.Unlock()
	case <-time.After(5 * time.Second):
		t.Errorf("F26: the event emitted from the client's OnConnect handler never reached the server handler")
	}

	// The connection must stay up.
	time.Sleep(500 * time.Millisecond)
	mu.Lock()
	defer mu.Unlock()
	if len(disconnects) != 0 {
		t.Errorf("F26: client was disconnected: %v", disconnects)
	}
	if !socket.Connected() {
		t.Errorf("F26: client socket is not connected any more")
	}
	if n := len(io.Sockets()); n != 1 {
		t.Errorf("F26: server has %d socket(s) in the namespace, want 1", n)
	}
}
