package jsonparser

import (
	"reflect"
	"testing"

	"github.com/karagenc/socket.io-go/parser"
	stdjson "github.com/karagenc/socket.io-go/parser/json/serializer/stdjson"
)

func TestProbe(t *testing.T) {
	type SA struct{ A any }
	anyT := reflect.TypeOf((*any)(nil)).Elem()
	for i, tc := range []struct {
		v any
		T reflect.Type
	}{
		{Binary("z"), anyT},
		{[]any{Binary("z"), "s"}, anyT},
		{[]any{Binary("z"), "s"}, reflect.TypeOf([]any{})},
		{map[string]any{"k": Binary("z")}, anyT},
		{map[string]any{"k": []any{Binary("z")}}, anyT},
		{map[string]any{"k": []any{Binary("z")}}, reflect.TypeOf(map[string]any{})},
		{map[string]any{"A": Binary("z")}, reflect.TypeOf(SA{})},
		{map[string]any{"k": map[string]any{"j": Binary("z")}}, reflect.TypeOf(map[string]any{})},
		{map[string]any{"k": []any{Binary("z"), Binary("y")}}, reflect.TypeOf(map[string][]Binary{})},
		{map[string]any{"k": []any{[]any{Binary("z")}}}, reflect.TypeOf(map[string]any{})},
		{[]any{[]any{Binary("z")}}, anyT},
	} {
		c := NewCreator(0, stdjson.New())
		header := &parser.PacketHeader{Type: parser.PacketTypeEvent, Namespace: "/"}
		bufs, e := c().Encode(header, &[]any{"ev", tc.v})
		if e != nil {
			t.Errorf("%d: Encode: %v", i, e)
			continue
		}
		dec := c()
		for _, b := range bufs {
			e := dec.Add(b, func(h *parser.PacketHeader, ev string, decode parser.Decode) {
				defer func() {
					if r := recover(); r != nil {
						t.Errorf("%d panic %v", i, r)
					}
				}()
				vals, err := decode(tc.T)
				if err != nil {
					t.Errorf("decode: %v", err)
					return
				}
				t.Logf("%d %s -> %v: %#v", i, bufs[0], tc.T, vals[0].Elem().Interface())
			})
			if e != nil {
				t.Fatal(e)
			}
		}
	}
}
