package sio

// S2 "deferred ack suppressed": an event that carries an ack id and is replayed from the client's receiveBuffer
// (clientSocket.emitBuffered) loses its acknowledgement when the handler calls the ack function after it returned.
//
// Public API only, untouched library.

import (
	"context"
	"fmt"
	"io"
	"net/http"
	"net/http/httptest"
	"strings"
	"sync"
	"sync/atomic"
	"testing"
	"time"

	eio "github.com/karagenc/socket.io-go/engine.io"
	"nhooyr.io/websocket"
)

func s2Manager(url, transport string) *Manager {
	return NewManager(url, &ManagerConfig{
		NoReconnection: true,
		EIO: eio.ClientConfig{
			Transports:           []string{transport},
			WebSocketDialOptions: &websocket.DialOptions{CompressionMode: websocket.CompressionDisabled},
		},
	})
}

// Deterministic. The scripted server makes the client process the EVENT before the CONNECT (it writes the EVENT
// 200 ms before the CONNECT reply), which is the order the client itself can produce from a conforming
// CONNECT,EVENT sequence because every packet is dispatched on its own goroutine (Manager.onParserFinish);
// see TestS2DeferredAckConformingServer for that. The event lands in receiveBuffer and is replayed by emitBuffered.
func TestS2DeferredAckOfBufferedEvent(t *testing.T) {
	fromClient := make(chan string, 16)
	ts := s2RawServer(t, func(send func(...string), recv <-chan string) {
		for p := range recv {
			if p == "40" { // CONNECT to "/"
				send(`421["q"]`) // EVENT "q", ack id 1
				time.Sleep(200 * time.Millisecond)
				send(`40{"sid":"s1"}`) // CONNECT reply
				continue
			}
			fromClient <- p
		}
	})
	defer func() { ts.CloseClientConnections(); ts.Close() }()

	manager := s2Manager(ts.URL, "websocket")
	socket := manager.Socket("/", nil)
	defer socket.Disconnect()

	handlerRan := make(chan struct{}, 4)
	socket.OnEvent("q", func(ack func(reply string)) {
		handlerRan <- struct{}{}
		go func() { // answer later, after the handler has returned
			time.Sleep(100 * time.Millisecond)
			ack("late")
		}()
	})
	socket.Connect()

	select {
	case <-handlerRan:
	case <-time.After(5 * time.Second):
		t.Fatal("the handler of the buffered event never ran")
	}

	var acks []string
	timeout := time.After(1500 * time.Millisecond)
collect:
	for {
		select {
		case p := <-fromClient:
			acks = append(acks, p)
		case <-timeout:
			break collect
		}
	}
	if len(acks) != 1 || acks[0] != `431["late"]` {
		t.Fatalf("the server must receive exactly one ACK `431[\"late\"]` for the event with ack id 1; it received %q", acks)
	}
}

// Conforming server: CONNECT reply first, then the EVENT with an ack id, in one polling payload.
// Whether the client processes the EVENT before the CONNECT is up to the Go scheduler (measured: about 10% of the
// connections with polling, below 1% with WebSocket), so the connection is repeated until it happens.
// An attempt on which the handler did not run at all is not counted (that is S1, a different defect).
func TestS2DeferredAckConformingServer(t *testing.T) {
	const attempts = 200
	fromClient := make(chan string, 16)
	ts := s2RawServer(t, func(send func(...string), recv <-chan string) {
		for p := range recv {
			if p == "40" {
				send(`40{"sid":"s1"}`, `421["q"]`)
				continue
			}
			if p == "41" { // DISCONNECT at the end of an attempt
				continue
			}
			fromClient <- p
		}
	})
	defer func() { ts.CloseClientConnections(); ts.Close() }()

	for i := 0; i < attempts; i++ {
		manager := s2Manager(ts.URL, "polling")
		socket := manager.Socket("/", nil)
		ackCalled := make(chan struct{}, 4)
		socket.OnEvent("q", func(ack func(reply string)) {
			go func() {
				time.Sleep(5 * time.Millisecond)
				ack("late")
				ackCalled <- struct{}{}
			}()
		})
		socket.Connect()

		select {
		case <-ackCalled:
			select {
			case p := <-fromClient:
				if p != `431["late"]` {
					t.Fatalf("attempt %d: unexpected packet from the client: %q", i, p)
				}
			case <-time.After(1 * time.Second):
				socket.Disconnect()
				t.Fatalf("attempt %d: the handler called ack(\"late\") but no ACK packet reached the server", i)
			}
		case <-time.After(1 * time.Second):
			t.Logf("attempt %d: the handler never ran (S1, not counted)", i)
		}
		socket.Disconnect()
	}
}

// A scripted Engine.IO v4 server (WebSocket-only or polling-only sessions), used when a test needs exact
// control of WHAT the "Socket.IO server" sends and WHEN. Everything it sends is a conforming packet sequence
// unless a test says otherwise.
//
// s2RawScript is run once per Engine.IO session, after the OPEN packet was delivered.
// send delivers whole Engine.IO packets (e.g. `40{"sid":"x"}`, `42["e",1]`): one text frame each on WebSocket,
// ONE payload (joined with 0x1e) on polling. recv yields the packets the client sends (e.g. `40`, `431["late"]`),
// PING/PONG filtered out; it is closed when the session ends.
type s2RawScript func(send func(packets ...string), recv <-chan string)

const s2RawOpenPacket = `0{"sid":"%s","upgrades":[],"pingInterval":25000,"pingTimeout":20000,"maxPayload":1000000}`

type s2RawPollSession struct {
	mu    sync.Mutex
	out   [][]string
	wake  chan struct{}
	recv  chan string
	done  chan struct{}
	close sync.Once
}

func s2RawServer(_ *testing.T, script s2RawScript) *httptest.Server {
	var (
		sidSeq   int32
		sessions sync.Map // sid -> *s2RawPollSession
	)
	return httptest.NewServer(http.HandlerFunc(func(w http.ResponseWriter, r *http.Request) {
		q := r.URL.Query()
		switch q.Get("transport") {
		case "websocket":
			c, err := websocket.Accept(w, r, &websocket.AcceptOptions{CompressionMode: websocket.CompressionDisabled})
			if err != nil {
				return
			}
			defer c.Close(websocket.StatusNormalClosure, "")
			c.SetReadLimit(-1)
			ctx, cancel := context.WithTimeout(context.Background(), 30*time.Second)
			defer cancel()

			var wmu sync.Mutex
			send := func(packets ...string) {
				wmu.Lock()
				defer wmu.Unlock()
				for _, p := range packets {
					_ = c.Write(ctx, websocket.MessageText, []byte(p))
				}
			}
			send(fmt.Sprintf(s2RawOpenPacket, fmt.Sprintf("raw%d", atomic.AddInt32(&sidSeq, 1))))

			recv := make(chan string, 4096)
			go func() {
				defer close(recv)
				for {
					_, data, err := c.Read(ctx)
					if err != nil {
						return
					}
					s := string(data)
					if s == "" || s[0] == '2' || s[0] == '3' { // PING / PONG
						continue
					}
					recv <- s
				}
			}()
			script(send, recv)

		case "polling":
			sid := q.Get("sid")
			if sid == "" {
				sid = fmt.Sprintf("raw%d", atomic.AddInt32(&sidSeq, 1))
				sess := &s2RawPollSession{wake: make(chan struct{}, 1), recv: make(chan string, 4096), done: make(chan struct{})}
				sessions.Store(sid, sess)
				send := func(packets ...string) {
					sess.mu.Lock()
					sess.out = append(sess.out, packets)
					sess.mu.Unlock()
					select {
					case sess.wake <- struct{}{}:
					default:
					}
				}
				go script(send, sess.recv)
				_, _ = io.WriteString(w, fmt.Sprintf(s2RawOpenPacket, sid))
				return
			}
			v, ok := sessions.Load(sid)
			if !ok {
				http.Error(w, "unknown sid", http.StatusBadRequest)
				return
			}
			sess := v.(*s2RawPollSession)
			if r.Method == "POST" {
				body, _ := io.ReadAll(r.Body)
				for _, p := range strings.Split(string(body), "\x1e") {
					if p == "" || p[0] == '2' || p[0] == '3' {
						continue
					}
					if p[0] == '1' { // CLOSE
						sess.close.Do(func() { close(sess.recv); close(sess.done) })
						continue
					}
					func() {
						defer func() { _ = recover() }() // recv closed
						sess.recv <- p
					}()
				}
				_, _ = io.WriteString(w, "ok")
				return
			}
			// GET: long poll. One batch handed to send() = one payload.
			timeout := time.After(20 * time.Second)
			for {
				sess.mu.Lock()
				if len(sess.out) > 0 {
					batch := sess.out[0]
					sess.out = sess.out[1:]
					sess.mu.Unlock()
					_, _ = io.WriteString(w, strings.Join(batch, "\x1e"))
					return
				}
				sess.mu.Unlock()
				select {
				case <-sess.wake:
				case <-sess.done:
					_, _ = io.WriteString(w, "6") // NOOP
					return
				case <-r.Context().Done():
					return
				case <-timeout:
					_, _ = io.WriteString(w, "6") // NOOP
					return
				}
			}
		default:
			http.Error(w, "bad transport", http.StatusBadRequest)
		}
	}))
}
