package sio

import (
	"testing"
	"time"
)

// F04: the ack timeout closure of (*clientSocket).registerAckHandler deletes from
// s.sendBuffer while ranging over it. An event with binary attachments emitted while the
// socket is not connected buffers several frames with the same ack id. When the timeout
// fires, either a frame of the timed out event is left in the buffer, or (when these frames
// are the last ones in the buffer) the closure panics; that panic is swallowed by
// newAckHandlerWithTimeout, the ack callback is never called with ErrAckTimeout, and
// sendBufferMu stays locked forever.
func TestTriageF04(t *testing.T) {
	run := func(t *testing.T, surrounded bool) {
		manager := NewManager("http://127.0.0.1:1", nil)
		socket := manager.Socket("/", nil) // Never connected: everything emitted is buffered.
		cs := socket.(*clientSocket)

		want := 0 // Frames that must be left in the buffer at the end.
		if surrounded {
			socket.Emit("before") // 1 frame, no ack.
			want++
		}
		// 3 frames (header + 2 attachments) with the same ack id.
		acked := make(chan error, 8)
		socket.Timeout(100*time.Millisecond).Emit("x", Binary("a"), Binary("b"), func(err error) {
			acked <- err
		})
		if surrounded {
			socket.Emit("after") // 1 frame, no ack.
			want++
		}
		cs.sendBufferMu.Lock()
		n := len(cs.sendBuffer)
		cs.sendBufferMu.Unlock()
		if n != want+3 {
			t.Fatalf("precondition: want %d buffered frames, got %d", want+3, n)
		}

		select {
		case err := <-acked:
			if err != ErrAckTimeout {
				t.Fatalf("ack callback: want ErrAckTimeout, got %v", err)
			}
		case <-time.After(2 * time.Second):
			t.Fatal("ack callback was not called with ErrAckTimeout within 2s of a 100ms ack timeout " +
				"(the timeout closure panicked while purging sendBuffer and the panic was swallowed)")
		}

		// The socket must still be usable: sendBufferMu must not be left locked.
		emitted := make(chan struct{})
		go func() {
			socket.Emit("later") // 1 frame, no ack.
			close(emitted)
		}()
		want++
		select {
		case <-emitted:
		case <-time.After(2 * time.Second):
			t.Fatal("Emit after the ack timeout blocks: sendBufferMu was left locked")
		}

		// Exactly the 3 frames of the timed out event must be gone.
		cs.sendBufferMu.Lock()
		left := len(cs.sendBuffer)
		withAckID := 0
		for _, item := range cs.sendBuffer {
			if item.ackID != nil {
				withAckID++
			}
		}
		cs.sendBufferMu.Unlock()
		if left != want || withAckID != 0 {
			t.Fatalf("sendBuffer after the ack timeout: want %d frame(s), none with an ack id; got %d frame(s), %d with an ack id", want, left, withAckID)
		}

		select {
		case err := <-acked:
			t.Fatalf("ack callback was called a second time (with %v)", err)
		case <-time.After(200 * time.Millisecond):
		}
	}

	t.Run("timed out frames are last in sendBuffer", func(t *testing.T) { run(t, false) })
	t.Run("timed out frames are between other frames", func(t *testing.T) { run(t, true) })
}
