package eio

import (
	"bytes"
	"fmt"
	"net/http/httptest"
	"testing"
	"time"

	"github.com/karagenc/socket.io-go/engine.io/parser"
)

// F12: the websocket transports leave nhooyr.io/websocket's default read limit
// (32768 bytes) in place:
//
//	(a) the client never calls SetReadLimit, so it cannot receive a message
//	    larger than 32 KiB although the server announced maxPayload = 1e6;
//	(b) the server calls SetReadLimit only when the limit is != 0, so with
//	    `DisableMaxBufferSize: true` it still rejects messages > 32 KiB.
func TestTriageF12(t *testing.T) {
	const size = 40000 // > 32768 (library default), < 1e6 (default MaxBufferSize)
	testData := bytes.Repeat([]byte("a"), size)

	type outcome struct {
		received int
		err      error
	}

	t.Run("a: client must receive a message bigger than 32 KiB", func(t *testing.T) {
		done := make(chan outcome, 4)

		onSocket := func(socket ServerSocket) *Callbacks {
			p, err := parser.NewPacket(parser.PacketTypeMessage, false, testData)
			if err != nil {
				t.Error(err)
				return nil
			}
			go socket.Send(p)
			return nil
		}

		server := NewServer(onSocket, nil) // Default config: MaxBufferSize = 1e6
		if err := server.Run(); err != nil {
			t.Fatal(err)
		}
		defer server.Close()
		ts := httptest.NewServer(server)
		defer ts.Close()

		callbacks := &Callbacks{
			OnPacket: func(packets ...*parser.Packet) {
				for _, p := range packets {
					if p.Type == parser.PacketTypeMessage {
						done <- outcome{received: len(p.Data)}
					}
				}
			},
			OnClose: func(reason Reason, err error) {
				done <- outcome{err: fmt.Errorf("client socket closed: reason: %q err: %v", reason, err)}
			},
		}
		socket, err := Dial(ts.URL, callbacks, &ClientConfig{Transports: []string{"websocket"}})
		if err != nil {
			t.Fatal(err)
		}
		defer socket.Close()
		if socket.TransportName() != "websocket" {
			t.Fatalf("transport = %s, want websocket", socket.TransportName())
		}

		select {
		case o := <-done:
			if o.err != nil {
				t.Fatalf("client did not receive the %d byte message (server announced maxPayload %d): %v", size, defaultMaxBufferSize, o.err)
			}
			if o.received != size {
				t.Fatalf("received %d bytes, want %d", o.received, size)
			}
		case <-time.After(5 * time.Second):
			t.Fatalf("timeout: client received neither the %d byte message nor a close", size)
		}
	})

	t.Run("b: server with DisableMaxBufferSize must receive a message bigger than 32 KiB", func(t *testing.T) {
		done := make(chan outcome, 4)

		onSocket := func(socket ServerSocket) *Callbacks {
			return &Callbacks{
				OnPacket: func(packets ...*parser.Packet) {
					for _, p := range packets {
						if p.Type == parser.PacketTypeMessage {
							done <- outcome{received: len(p.Data)}
						}
					}
				},
				OnClose: func(reason Reason, err error) {
					done <- outcome{err: fmt.Errorf("server socket closed: reason: %q err: %v", reason, err)}
				},
			}
		}

		server := NewServer(onSocket, &ServerConfig{
			MaxBufferSize:        5,
			DisableMaxBufferSize: true,
		})
		if err := server.Run(); err != nil {
			t.Fatal(err)
		}
		defer server.Close()
		ts := httptest.NewServer(server)
		defer ts.Close()

		socket, err := Dial(ts.URL, nil, &ClientConfig{Transports: []string{"websocket"}})
		if err != nil {
			t.Fatal(err)
		}
		defer socket.Close()
		if socket.TransportName() != "websocket" {
			t.Fatalf("transport = %s, want websocket", socket.TransportName())
		}

		p, err := parser.NewPacket(parser.PacketTypeMessage, false, testData)
		if err != nil {
			t.Fatal(err)
		}
		go socket.Send(p)

		select {
		case o := <-done:
			if o.err != nil {
				t.Fatalf("server (MaxBufferSize disabled) did not receive the %d byte message: %v", size, o.err)
			}
			if o.received != size {
				t.Fatalf("received %d bytes, want %d", o.received, size)
			}
		case <-time.After(5 * time.Second):
			t.Fatalf("timeout: server received neither the %d byte message nor a close", size)
		}
	})
}
