package sio

import (
	"fmt"
	"sync"
	"testing"
	"time"
)

// C12: "Per-socket event middlewares see each incoming event's name and arguments before its
// handler and an event they reject never reaches the handler."
//
// The chain of ServerSocket.Use runs inside the loop over the handlers of the event
// (serverSocket.onEvent), not once for the incoming event:
//   - an event that has no handler is not seen by the middlewares at all,
//   - an event that has n handlers is seen n times, and each run decides for one handler only.
func TestHunt4(t *testing.T) {
	io, _, manager, closeAll := newTestServerAndClient(t, nil, nil)
	defer closeAll()

	var (
		mu      sync.Mutex
		seen    = map[string]int{}
		handled = map[string]int{}
		errors  []string
	)

	ready := make(chan struct{})
	io.OnConnection(func(socket ServerSocket) {
		// At most 1 "limited" event is let through (a rate limiter, a quota, a replay guard, ...).
		socket.Use(func(eventName string, v ...any) error {
			mu.Lock()
			defer mu.Unlock()
			seen[eventName]++
			if eventName == "limited" && seen[eventName] > 1 {
				return fmt.Errorf("limit exceeded")
			}
			return nil
		})
		socket.OnError(func(err error) {
			mu.Lock()
			errors = append(errors, err.Error())
			mu.Unlock()
		})
		count := func(name string) func(string) {
			return func(string) {
				mu.Lock()
				handled[name]++
				mu.Unlock()
			}
		}
		socket.OnEvent("one", count("one"))
		socket.OnEvent("two", count("two/a"))
		socket.OnEvent("two", count("two/b"))
		socket.OnEvent("limited", count("limited/a"))
		socket.OnEvent("limited", count("limited/b"))
		// No handler for "none".
		socket.OnEvent("end", func(ack func()) { ack() })
		ready <- struct{}{}
	})

	socket := manager.Socket("/", nil)
	socket.Connect()
	select {
	case <-ready:
	case <-time.After(10 * time.Second):
		t.Fatal("no connection")
	}

	socket.Emit("one", "x")
	socket.Emit("two", "x")
	socket.Emit("none", "x")
	socket.Emit("limited", "x") // The first one: within the limit.
	done := make(chan struct{})
	socket.Emit("end", func() { close(done) })
	select {
	case <-done:
	case <-time.After(10 * time.Second):
		t.Fatal("no ack for the last event")
	}
	// Packets are handled on a goroutine each.
	time.Sleep(300 * time.Millisecond)

	mu.Lock()
	defer mu.Unlock()
	if seen["one"] != 1 {
		t.Errorf(`event "one" (1 handler): seen %d times by the middleware, expected 1`, seen["one"])
	}
	if seen["two"] != 1 {
		t.Errorf(`event "two" (2 handlers): seen %d times by the middleware, expected 1`, seen["two"])
	}
	if seen["none"] != 1 {
		t.Errorf(`event "none" (no handler): seen %d times by the middleware, expected 1`, seen["none"])
	}
	// The one "limited" event was accepted: both of its handlers should have run (and no error).
	if handled["limited/a"] != 1 || handled["limited/b"] != 1 || len(errors) != 0 {
		t.Errorf(`event "limited" sent once, the middleware accepts the first one: handler a ran %d times, handler b ran %d times, errors: %v`,
			handled["limited/a"], handled["limited/b"], errors)
	}
}
