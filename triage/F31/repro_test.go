package eio

import (
	"bytes"
	"context"
	"crypto/tls"
	"fmt"
	"io"
	"log/slog"
	"strings"
	"sync"
	"sync/atomic"
	"testing"
	"time"

	"github.com/quic-go/webtransport-go"
)

// reproLockedBuffer is an io.Writer that can be read while other goroutines write to it.
type reproLockedBuffer struct {
	mu  sync.Mutex
	buf bytes.Buffer
}

func (b *reproLockedBuffer) Write(p []byte) (int, error) {
	b.mu.Lock()
	defer b.mu.Unlock()
	return b.buf.Write(p)
}

func (b *reproLockedBuffer) String() string {
	b.mu.Lock()
	defer b.mu.Unlock()
	return b.buf.String()
}

// reproDebugger records everything the engine.io server logs through its Debugger.
type reproDebugger struct{ out *reproLockedBuffer }

func (d reproDebugger) Log(main string, v ...any) {
	fmt.Fprintln(d.out, append([]any{main}, v...)...)
}
func (d reproDebugger) WithContext(string) Debugger                       { return d }
func (d reproDebugger) WithDynamicContext(string, func() string) Debugger { return d }

// reproReadFrame reads one WebTransport frame (short form: 1 length byte + payload).
func reproReadFrame(stream webtransport.Stream, timeout time.Duration) ([]byte, error) {
	stream.SetReadDeadline(time.Now().Add(timeout))
	var hdr [1]byte
	if _, err := io.ReadFull(stream, hdr[:]); err != nil {
		return nil, err
	}
	n := int(hdr[0] & 0x7f)
	if n == 126 {
		var ext [2]byte
		if _, err := io.ReadFull(stream, ext[:]); err != nil {
			return nil, err
		}
		n = int(ext[0])<<8 | int(ext[1])
	}
	payload := make([]byte, n)
	_, err := io.ReadFull(stream, payload)
	return payload, err
}

// A raw WebTransport peer sends, as the first frame of the stream, an Engine.IO OPEN
// packet whose payload is the JSON literal `null`: bytes 0x05 '0' 'n' 'u' 'l' 'l'.
//
// Expected (and observed with the fix): the server answers gracefully, i.e. it treats
// the packet like an OPEN packet without a sid and replies with its own OPEN packet.
//
// Observed on the clean tree: (*ServerTransport).Handshake panics with a nil pointer
// dereference (data.SID, data == nil). The panic is recovered by quic-go's http3.Server
// (logged through slog as "http: panic serving"), so the process survives, but the
// engine.io error path (debug "Handshake error" + t.Close()) never runs: the peer gets
// no answer and the stream/session are left open.
func TestRepro(t *testing.T) {
	// http3.Server logs recovered handler panics to s.Logger, or slog.Default() when nil.
	h3Log := new(reproLockedBuffer)
	oldDefault := slog.Default()
	slog.SetDefault(slog.New(slog.NewTextHandler(h3Log, nil)))
	defer slog.SetDefault(oldDefault)

	eioLog := new(reproLockedBuffer)
	var sockets atomic.Int32
	onSocket := func(socket ServerSocket) *Callbacks {
		sockets.Add(1)
		return &Callbacks{}
	}
	_, _, ts, closeServer := newWebTransportTestServer(t, onSocket, &ServerConfig{
		Debugger: reproDebugger{eioLog},
	}, nil)
	defer closeServer()

	dial := func(first []byte) (payload []byte, readErr error) {
		ctx, cancel := context.WithTimeout(context.Background(), 10*time.Second)
		defer cancel()
		d := &webtransport.Dialer{TLSClientConfig: &tls.Config{InsecureSkipVerify: true}}
		rsp, session, err := d.Dial(ctx, ts.URL, nil)
		if err != nil {
			t.Fatalf("raw webtransport dial: %v", err)
		}
		defer session.CloseWithError(0, "")
		t.Logf("dialed %s: HTTP status %d", ts.URL, rsp.StatusCode)
		stream, err := session.OpenStream()
		if err != nil {
			t.Fatalf("OpenStream: %v", err)
		}
		if _, err = stream.Write(first); err != nil {
			t.Fatalf("stream.Write: %v", err)
		}
		return reproReadFrame(stream, 3*time.Second)
	}

	// 1. The malicious peer: 6 bytes.
	evil := []byte{0x05, '0', 'n', 'u', 'l', 'l'}
	payload, readErr := dial(evil)
	t.Logf("peer sent % x; server answer: payload=%q readErr=%v", evil, payload, readErr)

	// Give the server a moment to log.
	time.Sleep(200 * time.Millisecond)
	h3Out, eioOut := h3Log.String(), eioLog.String()
	t.Logf("http3 server slog output (%d bytes):\n%s", len(h3Out), h3Out)
	t.Logf("engine.io debugger output:\n%s", eioOut)
	t.Logf("engine.io sockets created so far: %d", sockets.Load())

	panicked := strings.Contains(h3Out, "http: panic serving")
	if panicked {
		t.Errorf("BUG: the ServeHTTP goroutine panicked and the panic was recovered by http3.Server "+
			"(nil pointer dereference: %v, inside (*ServerTransport).Handshake: %v); "+
			"engine.io 'Handshake error' path ran: %v",
			strings.Contains(h3Out, "nil pointer dereference"),
			strings.Contains(h3Out, "webtransport.(*ServerTransport).Handshake"),
			strings.Contains(eioOut, "Handshake error"))
	}
	if readErr != nil {
		t.Errorf("BUG: server did not answer the OPEN packet (read error after 3s: %v)", readErr)
	} else if len(payload) == 0 || payload[0] != '0' || !bytes.Contains(payload, []byte(`"sid"`)) {
		t.Errorf("unexpected answer from server: %q", payload)
	}

	// 2. The process (this test binary) is still alive; show that the server is too:
	// a well-formed OPEN packet without data (0x01 '0') still gets a handshake response.
	payload, readErr = dial([]byte{0x01, '0'})
	t.Logf("well-formed peer afterwards: payload=%q readErr=%v", payload, readErr)
	if readErr != nil || len(payload) == 0 || payload[0] != '0' {
		t.Errorf("server no longer serves well-formed WebTransport peers: payload=%q err=%v", payload, readErr)
	}
}
