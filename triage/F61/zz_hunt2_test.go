package sio

import (
	"sort"
	"sync"
	"testing"
	"time"
)

// C18: "An Off method given a handler removes exactly that handler and no other".
//
// Handlers are compared by reflect.Value.Pointer(), which for a func is the code pointer.
// All closures created from one func literal share it, so removing one of them removes them all.
func TestHunt2(t *testing.T) {
	io, _, manager, close := newTestServerAndClient(t, nil, nil)
	defer close()

	io.OnConnection(func(socket ServerSocket) {
		socket.Emit("ev", "hello")
	})

	var (
		mu       sync.Mutex
		events   []int
		connects []int
		done     = make(chan struct{}, 16)
	)

	// The usual way to make a handler that knows for whom it works.
	newEventHandler := func(i int) func(msg string) {
		return func(msg string) {
			mu.Lock()
			events = append(events, i)
			mu.Unlock()
			done <- struct{}{}
		}
	}
	newConnectHandler := func(i int) ClientSocketConnectFunc {
		return func() {
			mu.Lock()
			connects = append(connects, i)
			mu.Unlock()
			done <- struct{}{}
		}
	}

	socket := manager.Socket("/", nil)

	var (
		eventHandlers   []func(string)
		connectHandlers []ClientSocketConnectFunc
	)
	for i := 0; i < 3; i++ {
		eventHandlers = append(eventHandlers, newEventHandler(i))
		socket.OnEvent("ev", eventHandlers[i])
		connectHandlers = append(connectHandlers, newConnectHandler(i))
		socket.OnConnect(connectHandlers[i])
	}

	// Remove the one in the middle, of each kind.
	socket.OffEvent("ev", eventHandlers[1])
	socket.OffConnect(connectHandlers[1])

	socket.Connect()

	// 2 event handlers + 2 connect handlers are expected to run.
	timeout := time.After(3 * time.Second)
wait:
	for i := 0; i < 4; i++ {
		select {
		case <-done:
		case <-timeout:
			break wait
		}
	}
	time.Sleep(200 * time.Millisecond)

	mu.Lock()
	defer mu.Unlock()
	sort.Ints(events)
	sort.Ints(connects)
	if len(events) != 2 || events[0] != 0 || events[1] != 2 {
		t.Errorf("OffEvent(\"ev\", handler 1): handlers 0 and 2 should have run for the event, ran: %v", events)
	}
	if len(connects) != 2 || connects[0] != 0 || connects[1] != 2 {
		t.Errorf("OffConnect(handler 1): handlers 0 and 2 should have run on connect, ran: %v", connects)
	}

	// "none of these calls panics": socket.go documents OffEvent with "leave the handler nil".
	// OffEvent(name, nil) is a call with one handler, nil, and the same comparison panics on it.
	func() {
		defer func() {
			if r := recover(); r != nil {
				t.Errorf("OffEvent(\"ev\", nil) panics: %v", r)
			}
		}()
		socket.OnEvent("ev", func(msg string) {})
		socket.OffEvent("ev", nil)
	}()
}
