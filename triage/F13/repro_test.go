package eio

import (
	"bytes"
	"fmt"
	"testing"

	"github.com/karagenc/socket.io-go/engine.io/parser"
)

// triageF13Transport is a ClientTransport that records every batch passed to Send.
type triageF13Transport struct {
	batches [][]*parser.Packet
}

func (t *triageF13Transport) Name() string { return "polling" }
func (t *triageF13Transport) Handshake() (*parser.HandshakeResponse, error) {
	return nil, fmt.Errorf("not implemented")
}
func (t *triageF13Transport) Run() {}
func (t *triageF13Transport) Send(packets ...*parser.Packet) {
	t.batches = append(t.batches, append([]*parser.Packet(nil), packets...))
}
func (t *triageF13Transport) Discard() {}
func (t *triageF13Transport) Close()   {}

// F13: after splitting a batch, `writeWritablePackets` resets i to 0 and
// `continue`s; the loop's post statement then makes i = 1, so the first packet
// of the remaining slice is never counted and the next batch can exceed maxPayload.
func TestTriageF13(t *testing.T) {
	const maxPayload = 10

	// check returns a description of the first violated expectation, or "".
	check := func(sizes []int) string {
		fake := new(triageF13Transport)
		s := &clientSocket{
			maxPayload: maxPayload,
			transport:  fake,
			debug:      NewNoopDebugger(),
		}

		input := make([]*parser.Packet, len(sizes))
		for i, size := range sizes {
			// Make every packet distinguishable: fill with a letter derived from the index.
			data := bytes.Repeat([]byte{byte('a' + i)}, size)
			p, err := parser.NewPacket(parser.PacketTypeMessage, false, data)
			if err != nil {
				t.Fatal(err)
			}
			input[i] = p
		}

		s.writeWritablePackets(input...)

		var (
			flat   []*parser.Packet
			layout []int
		)
		for _, batch := range fake.batches {
			flat = append(flat, batch...)
			layout = append(layout, len(batch))
		}
		if len(flat) != len(input) {
			return fmt.Sprintf("sizes %v: %d packets in, %d packets out (batches %v)", sizes, len(input), len(flat), layout)
		}
		for i := range input {
			if flat[i] != input[i] {
				return fmt.Sprintf("sizes %v: packet %d was reordered/duplicated/dropped (batches %v)", sizes, i, layout)
			}
		}
		for bi, batch := range fake.batches {
			if len(batch) == 0 {
				return fmt.Sprintf("sizes %v: batch %d is empty (batches %v)", sizes, bi, layout)
			}
			if l := parser.EncodedPayloadsLen(batch...); len(batch) > 1 && l > maxPayload {
				return fmt.Sprintf("sizes %v: batch %d has %d packets and an encoded payload length of %d > maxPayload %d (batches %v)",
					sizes, bi, len(batch), l, maxPayload, layout)
			}
		}
		return ""
	}

	// Hand picked vectors. Encoded length of a packet is 1 + len(data), plus 1 separator between packets.
	for _, sizes := range [][]int{
		{6, 6, 6}, // 7 | 7+1+7 = 15
		{4, 8, 8}, // 5 | 9+1+9 = 19
		{9, 9, 9, 9},
		{1, 1, 1, 1, 1, 1, 1, 1},
		{3, 3, 3, 3, 3, 3},
		{20, 1, 1},
		{1, 20, 1},
	} {
		if msg := check(sizes); msg != "" {
			t.Error(msg)
		}
	}

	// Exhaustive: every vector of 2..4 packets with data sizes 1..9.
	var (
		failures int
		first    string
		total    int
	)
	var rec func(prefix []int, n int)
	rec = func(prefix []int, n int) {
		if len(prefix) == n {
			total++
			if msg := check(prefix); msg != "" {
				failures++
				if first == "" {
					first = msg
				}
			}
			return
		}
		for size := 1; size <= 9; size++ {
			rec(append(prefix, size), n)
		}
	}
	for n := 2; n <= 4; n++ {
		rec(make([]int, 0, n), n)
	}
	if failures > 0 {
		t.Errorf("exhaustive: %d of %d vectors violate the batching contract; first: %s", failures, total, first)
	}
}
