package jsonparser

// F32 reproducer (drop into /repo/parser/json/ of the tree BEFORE a7a681c and run
//   go test -vet=off -count=1 -run TestF32 -v .
// ): a Binary that is the element of a typed map panics inside reflect on both
// sides.  Decode side: any binary event whose handler parameter is (or contains)
// a map[K]Binary crashes the receiving process (decode runs on a bare goroutine).
// Encode side: Emit of such a value panics in the caller.

import (
	"reflect"
	"testing"

	"github.com/karagenc/socket.io-go/parser"
	stdjson "github.com/karagenc/socket.io-go/parser/json/serializer/stdjson"
)

func TestF32Decode(t *testing.T) {
	c := NewCreator(0, stdjson.New())
	header := &parser.PacketHeader{Type: parser.PacketTypeEvent, Namespace: "/"}
	bufs, err := c().Encode(header, &[]any{"ev", map[string]any{"a": Binary("hello")}})
	if err != nil {
		t.Fatal(err)
	}
	dec := c()
	for _, b := range bufs {
		err := dec.Add(b, func(h *parser.PacketHeader, ev string, decode parser.Decode) {
			defer func() {
				if r := recover(); r != nil {
					t.Fatalf("decode panicked: %v", r)
				}
			}()
			vals, err := decode(reflect.TypeOf(map[string]Binary{}))
			if err != nil {
				t.Fatal(err)
			}
			got := vals[0].Elem().Interface().(map[string]Binary)
			if string(got["a"]) != "hello" {
				t.Fatalf("got %q", got["a"])
			}
		})
		if err != nil {
			t.Fatal(err)
		}
	}
}

func TestF32Encode(t *testing.T) {
	defer func() {
		if r := recover(); r != nil {
			t.Fatalf("Encode panicked: %v", r)
		}
	}()
	c := NewCreator(0, stdjson.New())
	header := &parser.PacketHeader{Type: parser.PacketTypeEvent, Namespace: "/"}
	bufs, err := c().Encode(header, &[]any{"ev", map[string]Binary{"a": Binary("hello")}})
	if err != nil {
		t.Fatal(err)
	}
	if len(bufs) != 2 || string(bufs[1]) != "hello" {
		t.Fatalf("frames: %q", bufs)
	}
}
