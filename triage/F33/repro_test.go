package jsonparser

import (
	"reflect"
	"testing"

	"github.com/karagenc/socket.io-go/parser"
	stdjson "github.com/karagenc/socket.io-go/parser/json/serializer/stdjson"
)

func TestF33(t *testing.T) {
	type S struct{ L []map[string]Binary }
	for i, v := range []any{
		[]map[string]Binary{{"a": Binary("hello")}, {"b": Binary("w")}},
		S{[]map[string]Binary{{"a": Binary("x")}}},
		[]map[string]any{{"a": Binary("hello")}},
		[][]map[string]Binary{{{"a": Binary("q")}}},
	} {
		c := NewCreator(0, stdjson.New())
		enc := c()
		header := &parser.PacketHeader{Type: parser.PacketTypeEvent, Namespace: "/"}
		bufs, e := enc.Encode(header, &[]any{"ev", v})
		if e != nil {
			t.Errorf("%d %T: Encode: %v", i, v, e)
			continue
		}
		t.Logf("%d %T: frames=%d first=%s", i, v, len(bufs), bufs[0])
		dec := c()
		for _, b := range bufs {
			e := dec.Add(b, func(h *parser.PacketHeader, ev string, decode parser.Decode) {
				vals, err := decode(reflect.TypeOf(v))
				if err != nil {
					t.Errorf("decode: %v", err)
					return
				}
				t.Logf("   decoded: %#v", vals[0].Interface())
			})
			if e != nil {
				t.Fatal(e)
			}
		}
	}
}
