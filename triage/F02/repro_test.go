package sio

import (
	"errors"
	"testing"
)

// F02: On<Lifecycle>(f) stores &f (address of On's own parameter) and Off<Lifecycle>(f)
// looks for &_f[i] (address of Off's own variadic slice element). The two addresses are
// never equal, so Off<Lifecycle>(f) removes nothing and the handler keeps firing.
func TestTriageF02(t *testing.T) {
	t.Run("Manager.OffOpen", func(t *testing.T) {
		m := NewManager("http://127.0.0.1:1", nil)
		fCalls, gCalls := 0, 0
		var f ManagerOpenFunc = func() { fCalls++ }
		var g ManagerOpenFunc = func() { gCalls++ }
		m.OnOpen(f)
		m.OnOpen(g)
		m.OnceOpen(f)

		m.OffOpen(f)

		m.openHandlers.forEach(func(h *ManagerOpenFunc) { (*h)() }, false)
		if fCalls != 0 {
			t.Errorf("handler removed with OffOpen(f) was still called %d time(s)", fCalls)
		}
		if gCalls != 1 {
			t.Errorf("handler g, which was not removed, was called %d time(s), want 1", gCalls)
		}
	})

	t.Run("ClientSocket.OffDisconnect", func(t *testing.T) {
		m := NewManager("http://127.0.0.1:1", nil)
		socket := m.Socket("/", nil)
		calls := 0
		f := func(Reason) { calls++ }
		socket.OnDisconnect(f)
		socket.OffDisconnect(f)
		socket.(*clientSocket).disconnectHandlers.forEach(func(h *ClientSocketDisconnectFunc) { (*h)(ReasonIOClientDisconnect) }, false)
		if calls != 0 {
			t.Errorf("handler removed with OffDisconnect(f) was still called %d time(s)", calls)
		}
	})

	t.Run("Server.OffAnyConnection and Namespace.OffConnection", func(t *testing.T) {
		server := NewServer(nil)
		nsp := server.Of("/")
		calls := 0
		f := func(ServerSocket) { calls++ }
		g := func(string, ServerSocket) { calls++ }
		nsp.OnConnection(f)
		nsp.OffConnection(f)
		server.OnAnyConnection(g)
		server.OffAnyConnection(g)
		nsp.connectionHandlers.forEach(func(h *NamespaceConnectionFunc) { (*h)(nil) }, false)
		server.anyConnectionHandlers.forEach(func(h *ServerAnyConnectionFunc) { (*h)("/", nil) }, false)
		if calls != 0 {
			t.Errorf("handlers removed with OffConnection(f) / OffAnyConnection(g) were still called %d time(s)", calls)
		}
	})

	t.Run("ServerSocket.OffError", func(t *testing.T) {
		// OnError/OffError only touch errorHandlers.
		socket := &serverSocket{errorHandlers: newHandlerStore[*ServerSocketErrorFunc]()}
		calls := 0
		f := func(error) { calls++ }
		socket.OnError(f)
		socket.OnceError(f)
		socket.OffError(f)
		socket.errorHandlers.forEach(func(h *ServerSocketErrorFunc) { (*h)(errors.New("x")) }, false)
		if calls != 0 {
			t.Errorf("handler removed with OffError(f) was still called %d time(s)", calls)
		}
	})

	// Guard for the fix (passes before and after): sub events are removed by pointer.
	// Every client socket registers closures of the same func literals on its manager,
	// so they must not be matched by func identity.
	t.Run("sub events of another socket survive", func(t *testing.T) {
		m := NewManager("http://127.0.0.1:1", nil)
		s1 := m.Socket("/a", nil).(*clientSocket)
		s2 := m.Socket("/b", nil).(*clientSocket)
		s1.registerSubEvents()
		s2.registerSubEvents()
		s1.deregisterSubEvents()
		if n := len(m.openHandlers.subs); n != 1 {
			t.Fatalf("want 1 open sub event (the one of s2) after deregistering s1, got %d", n)
		}
		s2.deregisterSubEvents()
		if n := len(m.openHandlers.subs); n != 0 {
			t.Fatalf("want 0 open sub events after deregistering s2, got %d", n)
		}
	})
}
