package sio

import (
	"sync/atomic"
	"testing"
	"time"

	eio "github.com/karagenc/socket.io-go/engine.io"
)

// Two sockets (two namespaces) of one manager are connected at start-up while the
// server is unreachable. With ReconnectionAttempts = 2 the manager must make exactly
// 2 reconnection attempts and announce reconnect_failed exactly once.
func TestHunt2(t *testing.T) {
	var (
		reconnectionDelay    = 20 * time.Millisecond
		reconnectionDelayMax = 20 * time.Millisecond
	)
	_, _, manager, close := newTestServerAndClient(
		t,
		nil,
		&ManagerConfig{
			ReconnectionDelay:    &reconnectionDelay,
			ReconnectionDelayMax: &reconnectionDelayMax,
			ReconnectionAttempts: 2,
			EIO: eio.ClientConfig{
				Transports: []string{"polling"},
			},
		},
	)
	// The server is down from the very beginning.
	close()

	var attempts, failed atomic.Int32
	manager.OnReconnectAttempt(func(attempt uint32) { attempts.Add(1) })
	manager.OnReconnectFailed(func() { failed.Add(1) })

	main := manager.Socket("/", nil)
	chat := manager.Socket("/chat", nil)
	main.Connect()
	chat.Connect()

	deadline := time.Now().Add(10 * time.Second)
	for failed.Load() == 0 && time.Now().Before(deadline) {
		time.Sleep(10 * time.Millisecond)
	}
	// Let a second round show itself (2 attempts * 20ms + dial failures).
	time.Sleep(1500 * time.Millisecond)

	if a, f := attempts.Load(), failed.Load(); a != 2 || f != 1 {
		t.Errorf("ReconnectionAttempts=2: got %d reconnect attempts and %d reconnect_failed, want 2 and 1", a, f)
	}
	manager.Close()
}
