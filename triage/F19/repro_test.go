package sio

import (
	"encoding/json"
	"fmt"
	"net/http"
	"strings"
	"testing"
	"time"

	"github.com/karagenc/socket.io-go/internal/utils"
)

// F19: with connection state recovery (UseMiddlewares: true), newServerSocket already
// joins the rooms of the previous session and sends the missed packets BEFORE
// Namespace.add runs the middleware chain. When a middleware then rejects the connection,
// the sid stays in the adapter together with its rooms (nobody removes it) and the
// rejected client has already been given the missed packets.
func TestTriageF19(t *testing.T) {
	io, ts, _, closeAll := newTestServerAndClient(
		t,
		&ServerConfig{
			ServerConnectionStateRecovery: ServerConnectionStateRecovery{
				Enabled:        true,
				UseMiddlewares: true,
			},
		},
		nil,
	)
	defer closeAll()
	ts.Client().Timeout = 3000 * time.Millisecond

	io.OnceConnection(func(socket ServerSocket) {
		socket.Join("room1")
	})

	// --- 1st connection (same steps as `restoreSessionInit` of server_test.go)
	sid := utils.EIOHandshake(t, ts)
	utils.EIOPush(t, ts, sid, "40")
	handshakeBody, status := utils.EIOPoll(t, ts, sid)
	if status != http.StatusOK || !strings.HasPrefix(handshakeBody, "40") {
		t.Fatalf("unexpected handshake: %d %q", status, handshakeBody)
	}
	m := make(map[string]string)
	if err := json.Unmarshal([]byte(handshakeBody[2:]), &m); err != nil {
		t.Fatal(err)
	}
	sioSid, sioPid := m["sid"], m["pid"]
	if sioSid == "" || sioPid == "" {
		t.Fatalf("sid/pid missing in %q", handshakeBody)
	}

	// Wait for the connection handler (room1 joined).
	triageF19WaitFor(t, 5*time.Second, "room1 joined", func() bool {
		rooms, ok := io.Of("/").Adapter().SocketRooms(SocketID(sioSid))
		return ok && rooms.Contains("room1")
	})

	io.Emit("hello")
	message, status := utils.EIOPoll(t, ts, sid)
	if status != http.StatusOK || !strings.HasPrefix(message, `42["hello"`) {
		t.Fatalf("unexpected message: %d %q", status, message)
	}
	var messageSlice []string
	if err := json.Unmarshal([]byte(message[2:]), &messageSlice); err != nil || len(messageSlice) != 2 {
		t.Fatalf("unexpected message: %q (%v)", message, err)
	}
	offset := messageSlice[1]

	// Abrupt disconnection (engine.io close packet) => session is persisted.
	utils.EIOPush(t, ts, sid, "1")
	triageF19WaitFor(t, 5*time.Second, "1st socket to be gone", func() bool {
		_, ok := io.Of("/").Adapter().SocketRooms(SocketID(sioSid))
		return len(io.Sockets()) == 0 && !ok
	})

	// A packet the client misses.
	io.To("room1").Emit("secret")

	// --- From now on, connections are rejected.
	io.Use(func(socket ServerSocket, handshake *Handshake) any {
		return fmt.Errorf("nope")
	})

	// --- 2nd connection: recovery attempt, rejected by the middleware.
	newSid := utils.EIOHandshake(t, ts)
	utils.EIOPush(t, ts, newSid, fmt.Sprintf(`40{"pid":"%s","offset":"%s"}`, sioPid, offset))

	var packets []string
	gotConnectError := false
	for i := 0; i < 4 && !gotConnectError; i++ {
		payload, status := utils.EIOPoll(t, ts, newSid)
		if status != http.StatusOK {
			break
		}
		for _, p := range strings.Split(payload, "\x1e") {
			packets = append(packets, p)
			if strings.HasPrefix(p, "44") {
				gotConnectError = true
			}
		}
	}
	if !gotConnectError {
		t.Fatalf("expected a CONNECT_ERROR packet, got %q", packets)
	}
	// Give the server a moment for any clean up.
	time.Sleep(300 * time.Millisecond)

	for _, p := range packets {
		if strings.HasPrefix(p, "42") {
			t.Errorf("F19: the rejected client received a missed packet: %q (all packets: %q)", p, packets)
		}
	}
	if rooms, ok := io.Of("/").Adapter().SocketRooms(SocketID(sioSid)); ok {
		t.Errorf("F19: connection was rejected by the middleware, but sid %s is still in the adapter with rooms %v", sioSid, rooms.ToSlice())
	}
	if n := len(io.Sockets()); n != 0 {
		t.Errorf("%d socket(s) in the namespace, want 0", n)
	}
}

func triageF19WaitFor(t *testing.T, timeout time.Duration, what string, cond func() bool) {
	t.Helper()
	deadline := time.Now().Add(timeout)
	for time.Now().Before(deadline) {
		if cond() {
			return
		}
		time.Sleep(20 * time.Millisecond)
	}
	t.Fatalf("timeout while waiting for: %s", what)
}
