package sio

import (
	"fmt"
	"reflect"
	"testing"
	"time"

	"github.com/karagenc/socket.io-go/internal/sync"
)

// F18: per-socket event middlewares (ServerSocket.Use) have the documented signature
// func(eventName string, v ...any) error, but serverSocket.onEvent calls them with the
// decoded handler arguments only: the 1st argument of the event is passed as "eventName"
// (or the call panics -> error when it is not a string / there is no argument) and the
// event never reaches its handler.
//
// F24b is the same defect seen from the handler's side: an event whose first handler
// argument is an int never reaches its handler once a middleware is registered.
func TestTriageF18(t *testing.T) {
	io, _, manager, close := newTestServerAndClient(t, nil, nil)
	defer close()

	type mwCall struct {
		eventName string
		v         []any
	}
	var (
		mu          sync.Mutex
		mwCalls     []mwCall
		socketErrs  []error
		handlerDone = make(chan [2]any, 4)
		noArgsDone  = make(chan struct{}, 4)
	)

	io.OnConnection(func(socket ServerSocket) {
		socket.Use(func(eventName string, v ...any) error {
			mu.Lock()
			mwCalls = append(mwCalls, mwCall{eventName: eventName, v: append([]any(nil), v...)})
			mu.Unlock()
			return nil
		})
		socket.OnError(func(err error) {
			mu.Lock()
			socketErrs = append(socketErrs, err)
			mu.Unlock()
		})
		socket.OnEvent("hello", func(n int, s string) {
			handlerDone <- [2]any{n, s}
		})
		socket.OnEvent("noargs", func() {
			noArgsDone <- struct{}{}
		})
	})

	socket := manager.Socket("/", nil)
	socket.Connect()
	socket.Emit("hello", 42, "x")

	select {
	case got := <-handlerDone:
		if got[0] != 42 || got[1] != "x" {
			t.Errorf("handler got (%v, %v), want (42, x)", got[0], got[1])
		}
	case <-time.After(5 * time.Second):
		mu.Lock()
		t.Errorf("F18/F24b: the handler of `hello` (func(n int, s string)) was never called although the middleware returns nil; middleware calls: %+v; errors delivered to socket.OnError: %v", mwCalls, socketErrs)
		mu.Unlock()
	}

	socket.Emit("noargs")
	select {
	case <-noArgsDone:
	case <-time.After(5 * time.Second):
		mu.Lock()
		t.Errorf("F18: the handler of `noargs` (func()) was never called; errors delivered to socket.OnError: %v", socketErrs)
		mu.Unlock()
	}

	mu.Lock()
	defer mu.Unlock()
	want := []mwCall{
		{eventName: "hello", v: []any{42, "x"}},
		{eventName: "noargs", v: nil},
	}
	if !reflect.DeepEqual(mwCalls, want) {
		t.Errorf("middleware calls:\n got  %s\n want %s", fmt.Sprintf("%+v", mwCalls), fmt.Sprintf("%+v", want))
	}
	if len(socketErrs) != 0 {
		t.Errorf("errors delivered to socket.OnError: %v", socketErrs)
	}
}
