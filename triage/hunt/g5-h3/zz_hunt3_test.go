package sio

import (
	"fmt"
	"net/http/httptest"
	"sync"
	"testing"
	"time"

	eio "github.com/karagenc/socket.io-go/engine.io"
	eioparser "github.com/karagenc/socket.io-go/engine.io/parser"
)

// When the client cannot decode a frame of the server, the Manager reports the closure
// (close handlers, reason "parse error"; the sockets get "disconnect") and reconnects, but the
// Engine.IO connection on which the frame arrived is never closed: its callbacks are merely muted,
// and the orphaned connection keeps answering the pings of the server for as long as the process runs.
// The server keeps the session (and its Socket.IO sockets) alive forever, and every
// undecodable frame leaks one more connection with its goroutines.
//
// The peer here is a scripted Socket.IO server on top of the Engine.IO server of the library.
func TestHunt3(t *testing.T) {
	type session struct {
		n      int
		closed chan string
	}
	var (
		mu       sync.Mutex
		sessions []*session
	)

	send := func(socket eio.ServerSocket, data string) {
		p, err := eioparser.NewPacket(eioparser.PacketTypeMessage, false, []byte(data))
		if err != nil {
			panic(err)
		}
		socket.Send(p)
	}

	eioServer := eio.NewServer(func(socket eio.ServerSocket) *eio.Callbacks {
		mu.Lock()
		s := &session{n: len(sessions) + 1, closed: make(chan string, 1)}
		sessions = append(sessions, s)
		mu.Unlock()

		return &eio.Callbacks{
			OnPacket: func(packets ...*eioparser.Packet) {
				for _, p := range packets {
					// CONNECT to the main namespace
					if p.Type == eioparser.PacketTypeMessage && len(p.Data) > 0 && p.Data[0] == '0' {
						send(socket, fmt.Sprintf(`0{"sid":"sid%d"}`, s.n))
						if s.n == 1 {
							// A frame that cannot be decoded: there is no packet type 9.
							send(socket, `9["oops"]`)
						}
					}
				}
			},
			OnClose: func(reason eio.Reason, err error) {
				s.closed <- fmt.Sprintf("reason: %s, err: %v", reason, err)
			},
		}
	}, &eio.ServerConfig{
		// If the client stopped answering the pings, the server would close the session after 2 seconds.
		PingInterval: 1 * time.Second,
		PingTimeout:  1 * time.Second,
	})
	if err := eioServer.Run(); err != nil {
		t.Fatal(err)
	}
	ts := httptest.NewServer(eioServer)
	defer ts.Close()
	defer eioServer.Close()

	reconnectionDelay := 50 * time.Millisecond
	manager := NewManager(ts.URL, &ManagerConfig{
		ReconnectionDelay:    &reconnectionDelay,
		ReconnectionDelayMax: &reconnectionDelay,
		EIO: eio.ClientConfig{
			Transports: []string{"polling"},
		},
	})
	defer manager.Close()

	var (
		parseError   = make(chan error, 1)
		connects     = make(chan SocketID, 8)
		disconnected = make(chan Reason, 8)
	)
	manager.OnClose(func(reason Reason, err error) {
		if reason == ReasonParseError {
			select {
			case parseError <- err:
			default:
			}
		}
	})
	socket := manager.Socket("/", nil)
	socket.OnConnect(func() { connects <- socket.ID() })
	socket.OnDisconnect(func(reason Reason) { disconnected <- reason })
	socket.Connect()

	wait := func(what string, c <-chan SocketID) SocketID {
		select {
		case id := <-c:
			return id
		case <-time.After(10 * time.Second):
			t.Fatalf("timeout: %s", what)
			return ""
		}
	}

	if id := wait("first connect", connects); id != "sid1" {
		t.Fatalf("unexpected socket ID: %s", id)
	}
	select {
	case err := <-parseError:
		t.Logf("the Manager reported: parse error: %v", err)
	case <-time.After(10 * time.Second):
		t.Fatal("timeout: the Manager did not report the parse error")
	}
	select {
	case reason := <-disconnected:
		t.Logf("the socket reported: disconnect: %s", reason)
	case <-time.After(10 * time.Second):
		t.Fatal("timeout: the socket did not report the disconnection")
	}
	if id := wait("connect after the reconnection", connects); id != "sid2" {
		t.Fatalf("unexpected socket ID: %s", id)
	}

	mu.Lock()
	first := sessions[0]
	mu.Unlock()

	// The client said that the connection is closed and it has a new one already.
	// The first connection must go away: the client closes it, or at least stops to keep it alive.
	select {
	case how := <-first.closed:
		t.Logf("first Engine.IO session was closed (%s)", how)
	case <-time.After(6 * time.Second):
		t.Fatal("the Engine.IO connection on which the undecodable frame arrived is still open, and the client still answers the pings " +
			"of the server on it (3 ping cycles), 6 seconds after the Manager reported `parse error` and connected anew")
	}
}
