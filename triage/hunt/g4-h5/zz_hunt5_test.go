package sio

import (
	"net/http/httptest"
	"sync"
	"testing"
	"time"

	eio "github.com/karagenc/socket.io-go/engine.io"
	eioparser "github.com/karagenc/socket.io-go/engine.io/parser"
)

// C06: "However and whenever a connection ends - ... protocol error ... - ... Afterwards the server keeps no
// trace of the session."
//
// When the client's parser rejects a packet, the Manager declares the connection dead (`onClose("parse error")`:
// the sockets get their disconnect event, a reconnection is started) but - unlike the reference implementation,
// whose `onclose` calls `this.engine.close()` - it never closes the Engine.IO socket. The callbacks of that
// connection are only deactivated. The abandoned connection keeps answering the server's pings at the
// Engine.IO level, so for the server it is a perfectly healthy session, for ever: its sockets stay in their
// namespaces and rooms and never get a disconnect event, while the same client is connected a second time.
//
// The server below is the library's Engine.IO server speaking just enough Socket.IO by hand
// to be able to send one packet that the client's parser rejects.
func TestHunt5(t *testing.T) {
	type session struct {
		send   func(msg string)
		closed chan eio.Reason
	}
	var (
		mu       sync.Mutex
		sessions []*session
	)
	newSession := make(chan *session, 8)

	srv := eio.NewServer(func(socket eio.ServerSocket) *eio.Callbacks {
		send := func(msg string) {
			p, err := eioparser.NewPacket(eioparser.PacketTypeMessage, false, []byte(msg))
			if err == nil {
				socket.Send(p)
			}
		}
		s := &session{send: send, closed: make(chan eio.Reason, 1)}
		mu.Lock()
		sessions = append(sessions, s)
		mu.Unlock()
		return &eio.Callbacks{
			OnPacket: func(packets ...*eioparser.Packet) {
				for _, p := range packets {
					if p.Type == eioparser.PacketTypeMessage && len(p.Data) > 0 && p.Data[0] == '0' {
						send(`0{"sid":"hunt5"}`) // CONNECT reply
						newSession <- s
					}
				}
			},
			OnClose: func(reason eio.Reason, err error) {
				s.closed <- reason
			},
		}
	}, &eio.ServerConfig{PingInterval: 1 * time.Second, PingTimeout: 1 * time.Second})
	if err := srv.Run(); err != nil {
		t.Fatal(err)
	}
	ts := httptest.NewServer(srv)
	defer ts.Close()
	defer srv.Close()

	reconnectionDelay := 100 * time.Millisecond
	manager := NewManager(ts.URL, &ManagerConfig{
		EIO:                  eio.ClientConfig{Transports: []string{"websocket"}},
		ReconnectionDelay:    &reconnectionDelay,
		ReconnectionDelayMax: &reconnectionDelay,
	})
	defer manager.Close()
	socket := manager.Socket("/", nil)
	disconnected := make(chan Reason, 8)
	socket.OnDisconnect(func(reason Reason) { disconnected <- reason })
	socket.Connect()

	var first *session
	select {
	case first = <-newSession:
	case <-time.After(5 * time.Second):
		t.Fatal("the client did not connect")
	}
	time.Sleep(200 * time.Millisecond)

	// A packet with an invalid type. The client's parser rejects it.
	first.send("9garbage")

	select {
	case reason := <-disconnected:
		if reason != ReasonParseError {
			t.Fatalf("client: disconnect reason = %q, want %q", reason, ReasonParseError)
		}
	case <-time.After(5 * time.Second):
		t.Fatal("client: no disconnect event after the malformed packet")
	}

	// The client considers the first connection dead (and reconnects). It has to close it.
	// Otherwise the only thing that could end it is the heartbeat - which the abandoned connection keeps answering.
	select {
	case reason := <-first.closed:
		t.Logf("server: first session closed: %s", reason)
	case <-time.After(6 * time.Second): // 3 x (pingInterval + pingTimeout)
		mu.Lock()
		n := len(sessions)
		mu.Unlock()
		t.Errorf("server: the connection that the client abandoned after the parse error is still open 6 seconds later "+
			"(the client reported %q and has opened %d connection(s) since)", ReasonParseError, n-1)
	}
}
