package eio

import (
	"context"
	"io"
	"net/http"
	"net/http/httptest"
	"strings"
	"sync"
	"testing"
	"time"

	"github.com/karagenc/socket.io-go/engine.io/parser"
	"nhooyr.io/websocket"
)

// A websocket upgrade that is in flight (probe done, UPGRADE packet not yet sent) when the
// server (or just the session) is closed is not torn down. When the client then sends the
// UPGRADE packet, the closed session adopts the websocket as its transport: the connection
// stays open for ever (the ping loop of the session has already ended) and whatever the client
// sends on it is delivered to the session's OnPacket callback, after OnClose was called and
// after Server.Close returned.
func TestHunt1(t *testing.T) {
	var (
		mu          sync.Mutex
		closed      bool
		afterClose  []string
		closedCh    = make(chan struct{})
		sessions    int
		lateArrived = make(chan struct{}, 1)
	)

	onSocket := func(socket ServerSocket) *Callbacks {
		mu.Lock()
		sessions++
		mu.Unlock()
		return &Callbacks{
			OnPacket: func(packets ...*parser.Packet) {
				mu.Lock()
				defer mu.Unlock()
				for _, p := range packets {
					if closed && p.Type == parser.PacketTypeMessage {
						afterClose = append(afterClose, string(p.Data))
						select {
						case lateArrived <- struct{}{}:
						default:
						}
					}
				}
			},
			OnClose: func(reason Reason, err error) {
				mu.Lock()
				closed = true
				mu.Unlock()
				close(closedCh)
			},
		}
	}

	srv := NewServer(onSocket, nil)
	if err := srv.Run(); err != nil {
		t.Fatal(err)
	}
	ts := httptest.NewServer(srv)
	defer ts.Close()

	// 1. Polling handshake.
	resp, err := http.Get(ts.URL + "/?EIO=4&transport=polling")
	if err != nil {
		t.Fatal(err)
	}
	body, _ := io.ReadAll(resp.Body)
	resp.Body.Close()
	if resp.StatusCode != 200 || len(body) == 0 || body[0] != '0' {
		t.Fatalf("handshake: %d %q", resp.StatusCode, body)
	}
	i := strings.Index(string(body), `"sid":"`)
	if i < 0 {
		t.Fatalf("no sid in %q", body)
	}
	sid := string(body)[i+7:]
	sid = sid[:strings.IndexByte(sid, '"')]

	// 2. Start the websocket upgrade: probe.
	ctx, cancel := context.WithTimeout(context.Background(), 20*time.Second)
	defer cancel()
	wsURL := "ws" + strings.TrimPrefix(ts.URL, "http") + "/?EIO=4&transport=websocket&sid=" + sid
	conn, _, err := websocket.Dial(ctx, wsURL, nil)
	if err != nil {
		t.Fatal(err)
	}
	defer conn.Close(websocket.StatusNormalClosure, "")

	if err := conn.Write(ctx, websocket.MessageText, []byte("2probe")); err != nil {
		t.Fatal(err)
	}
	_, data, err := conn.Read(ctx)
	if err != nil || string(data) != "3probe" {
		t.Fatalf("probe: %q %v", data, err)
	}

	// 3. The server is shut down while the upgrade is in flight.
	if err := srv.Close(); err != nil {
		t.Fatal(err)
	}
	select {
	case <-closedCh:
	case <-time.After(5 * time.Second):
		t.Fatal("OnClose was not called")
	}
	if _, ok := srv.store.get(sid); ok {
		t.Fatal("session is still in the store after Server.Close")
	}

	// 4. The client completes the upgrade and talks on the websocket.
	// A correct server has closed (or closes now) the probing transport; writes may fail, that is fine.
	_ = conn.Write(ctx, websocket.MessageText, []byte("5"))
	_ = conn.Write(ctx, websocket.MessageText, []byte("4late"))

	// 5. The server must close the websocket. Read until an error or until 3 s have passed.
	readCtx, readCancel := context.WithTimeout(ctx, 3*time.Second)
	defer readCancel()
	serverClosedWS := false
	for {
		_, _, err := conn.Read(readCtx)
		if err != nil {
			serverClosedWS = readCtx.Err() == nil
			break
		}
	}

	select {
	case <-lateArrived:
	case <-time.After(500 * time.Millisecond):
	}

	mu.Lock()
	defer mu.Unlock()
	if len(afterClose) != 0 {
		t.Errorf("the closed session (sid %s) received %q via OnPacket after OnClose and after Server.Close returned", sid, afterClose)
	}
	if !serverClosedWS {
		t.Errorf("the upgrading websocket of the closed session was not closed by the server within 3s after Server.Close")
	}
}
