package sio

import (
	"bytes"
	"testing"
	"time"
)

type hunt4Upload struct {
	File  Binary `json:"file"`
	Thumb Binary `json:"thumb"`
}

// A Binary position that the sender leaves out (null, or absent) while another position of the
// same event carries an attachment.
//
//   - {"file": <attachment>, "thumb": null}: the receiver must see an empty thumb; it sees the
//     bytes of `file` in `thumb`.
//   - {"file": <attachment>} (thumb absent): the event must be delivered (empty thumb); it is dropped.
func TestHunt4(t *testing.T) {
	io, _, manager, close := newTestServerAndClient(t, nil, nil)
	defer close()

	type got struct {
		name string
		v    hunt4Upload
	}
	gotC := make(chan got, 16)
	errC := make(chan error, 16)

	io.OnConnection(func(socket ServerSocket) {
		socket.OnError(func(err error) { errC <- err })
		socket.OnEvent("null", func(v hunt4Upload) { gotC <- got{"null", v} })
		socket.OnEvent("absent", func(v hunt4Upload) { gotC <- got{"absent", v} })
		socket.OnEvent("control", func(v hunt4Upload) { gotC <- got{"control", v} })
	})

	socket := manager.Socket("/", nil)
	connected := make(chan struct{}, 1)
	socket.OnConnect(func() { connected <- struct{}{} })
	socket.Connect()
	select {
	case <-connected:
	case <-time.After(10 * time.Second):
		t.Fatal("not connected")
	}

	file := []byte("FILE-CONTENT")

	wait := func(name string) (hunt4Upload, bool) {
		for {
			select {
			case g := <-gotC:
				if g.name == name {
					return g.v, true
				}
			case err := <-errC:
				t.Errorf("%s: server socket error: %v", name, err)
			case <-time.After(3 * time.Second):
				return hunt4Upload{}, false
			}
		}
	}

	// Control: the same shape, both positions filled in.
	socket.Emit("control", map[string]any{"file": Binary(bytes.Clone(file)), "thumb": Binary("T")})
	if v, ok := wait("control"); !ok || !bytes.Equal(v.File, file) || !bytes.Equal(v.Thumb, []byte("T")) {
		t.Fatalf("control: delivered=%v file=%q thumb=%q", ok, v.File, v.Thumb)
	}

	socket.Emit("null", map[string]any{"file": Binary(bytes.Clone(file)), "thumb": nil})
	if v, ok := wait("null"); !ok {
		t.Errorf("null thumb: the event was not delivered")
	} else if !bytes.Equal(v.File, file) || len(v.Thumb) != 0 {
		t.Errorf("null thumb: got file=%q thumb=%q, want file=%q and an empty thumb", v.File, v.Thumb, file)
	}

	socket.Emit("absent", map[string]any{"file": Binary(bytes.Clone(file))})
	if v, ok := wait("absent"); !ok {
		t.Errorf("absent thumb: the event was not delivered")
	} else if !bytes.Equal(v.File, file) || len(v.Thumb) != 0 {
		t.Errorf("absent thumb: got file=%q thumb=%q, want file=%q and an empty thumb", v.File, v.Thumb, file)
	}
	manager.Close()
}
