package sio

import (
	"context"
	"encoding/json"
	"fmt"
	"io"
	"net/http"
	"net/http/httptest"
	"strings"
	"testing"
	"time"
)

// Raw Engine.IO v4 polling peer. One background goroutine long-polls and hands every
// Socket.IO packet (Engine.IO message type stripped) to a channel; close() ends the session
// with an Engine.IO CLOSE packet, which also releases the pending poll. Nothing waits unbounded.
type hunt1Peer struct {
	t       *testing.T
	ts      *httptest.Server
	sid     string
	packets chan string
	seen    []string
}

func hunt1Do(t *testing.T, method, url, body string, timeout time.Duration) (string, int, error) {
	ctx, cancel := context.WithTimeout(context.Background(), timeout)
	defer cancel()
	var rd io.Reader
	if body != "" {
		rd = strings.NewReader(body)
	}
	req, err := http.NewRequestWithContext(ctx, method, url, rd)
	if err != nil {
		return "", 0, err
	}
	resp, err := http.DefaultClient.Do(req)
	if err != nil {
		return "", 0, err
	}
	defer resp.Body.Close()
	b, err := io.ReadAll(resp.Body)
	return string(b), resp.StatusCode, err
}

func hunt1Open(t *testing.T, ts *httptest.Server) *hunt1Peer {
	body, status, err := hunt1Do(t, "GET", ts.URL+"/?EIO=4&transport=polling", "", 5*time.Second)
	if err != nil || status != 200 {
		t.Fatalf("eio handshake: %v %d", err, status)
	}
	var m struct {
		SID string `json:"sid"`
	}
	if err := json.Unmarshal([]byte(body[1:]), &m); err != nil {
		t.Fatal(err)
	}
	p := &hunt1Peer{t: t, ts: ts, sid: m.SID, packets: make(chan string, 64)}
	go func() {
		defer close(p.packets)
		for {
			body, status, err := hunt1Do(t, "GET", p.url(), "", 28*time.Second)
			if err != nil || status != 200 {
				return
			}
			for _, pkt := range strings.Split(body, "\x1e") {
				if len(pkt) == 0 {
					continue
				}
				switch pkt[0] {
				case '4':
					p.packets <- pkt[1:]
				case '2':
					go hunt1Do(t, "POST", p.url(), "3", 5*time.Second)
				case '1':
					return
				}
			}
		}
	}()
	return p
}

func (p *hunt1Peer) url() string {
	return p.ts.URL + "/?EIO=4&transport=polling&sid=" + p.sid
}

func (p *hunt1Peer) push(body string) {
	_, status, err := hunt1Do(p.t, "POST", p.url(), body, 5*time.Second)
	if err != nil || status != 200 {
		p.t.Fatalf("push %q: %v %d", body, err, status)
	}
}

func (p *hunt1Peer) close() {
	hunt1Do(p.t, "POST", p.url(), "1", 5*time.Second)
}

// Waits until a Socket.IO packet with the given prefix shows up or the duration passes.
// Everything received is appended to p.seen.
func (p *hunt1Peer) waitFor(prefix string, d time.Duration) (found string) {
	timer := time.NewTimer(d)
	defer timer.Stop()
	for {
		select {
		case pkt, ok := <-p.packets:
			if !ok {
				return ""
			}
			p.seen = append(p.seen, pkt)
			if strings.HasPrefix(pkt, prefix) {
				return pkt
			}
		case <-timer.C:
			return ""
		}
	}
}

// A client that loses its transport and comes back while the server is still running the
// socket's `disconnecting` handlers is recovered (same sid, same rooms, recovered == true),
// and then the tail of the OLD socket's onClose (leaveAll + Namespace.remove, both keyed by the
// socket id that the two sockets share) strips the NEW socket of all its rooms and removes it
// from the namespace: it never receives a broadcast, a room broadcast or a direct Emit again.
func TestHunt1(t *testing.T) {
	server := NewServer(&ServerConfig{
		ServerConnectionStateRecovery: ServerConnectionStateRecovery{Enabled: true},
	})
	if err := server.Run(); err != nil {
		t.Fatal(err)
	}
	ts := httptest.NewServer(server)
	var peers []*hunt1Peer
	defer func() {
		for _, p := range peers {
			p.close()
		}
		server.Close()
		ts.CloseClientConnections()
		ts.Close()
	}()

	const handlerTime = 700 * time.Millisecond

	sockets := make(chan ServerSocket, 4)
	disconnected := make(chan struct{}, 4)
	server.OnConnection(func(socket ServerSocket) {
		if !socket.Recovered() {
			socket.Join("room1")
		}
		// An ordinary `disconnecting` handler that takes a while (it is there so that
		// the application can still see the rooms of the socket, e.g. to write them somewhere).
		socket.OnDisconnecting(func(reason Reason) {
			time.Sleep(handlerTime)
		})
		socket.OnDisconnect(func(reason Reason) {
			disconnected <- struct{}{}
		})
		sockets <- socket
	})

	// First life.
	p1 := hunt1Open(t, ts)
	p1.push("40")
	connect := p1.waitFor("0", 5*time.Second)
	if connect == "" {
		t.Fatal("no CONNECT reply")
	}
	var ids struct {
		SID string `json:"sid"`
		PID string `json:"pid"`
	}
	if err := json.Unmarshal([]byte(connect[1:]), &ids); err != nil || ids.PID == "" {
		t.Fatalf("CONNECT reply %q: %v", connect, err)
	}
	var first ServerSocket
	select {
	case first = <-sockets:
	case <-time.After(5 * time.Second):
		t.Fatal("no connection event")
	}

	server.Emit("hello")
	hello := p1.waitFor(`2["hello"`, 5*time.Second)
	if hello == "" {
		t.Fatal("hello not received")
	}
	var args []string
	if err := json.Unmarshal([]byte(hello[1:]), &args); err != nil || len(args) != 2 {
		t.Fatalf("hello packet %q: %v", hello, err)
	}
	offset := args[1]

	// The transport goes away (Engine.IO CLOSE): a recoverable disconnection.
	p1.push("1")
	time.Sleep(150 * time.Millisecond) // well inside the `disconnecting` handler

	// Second life: the client is back 150 ms later with its pid and offset.
	p2 := hunt1Open(t, ts)
	peers = append(peers, p2)
	p2.push(fmt.Sprintf(`40{"pid":%q,"offset":%q}`, ids.PID, offset))
	connect2 := p2.waitFor("0", 5*time.Second)
	recovered := connect2 == fmt.Sprintf(`0{"sid":%q,"pid":%q}`, ids.SID, ids.PID)
	if connect2 == "" {
		t.Fatal("no CONNECT reply for the second connection")
	}
	var second ServerSocket
	select {
	case second = <-sockets:
	case <-time.After(5 * time.Second):
		t.Fatal("no connection event for the second socket")
	}
	if recovered {
		// (This is what the unchanged library does.)
		if !second.Recovered() || second.ID() != first.ID() {
			t.Fatalf("recovered=%v id=%s (first id %s)", second.Recovered(), second.ID(), first.ID())
		}
	} else {
		// A clean fall-back to a new session is fine as well: new id, not recovered, and the
		// connection handler above has put it into room1.
		if second.Recovered() || second.ID() == first.ID() {
			t.Fatalf("CONNECT reply %q but recovered=%v id=%s (first id %s)", connect2, second.Recovered(), second.ID(), first.ID())
		}
		for deadline := time.Now().Add(2 * time.Second); !second.Rooms().Contains("room1") && time.Now().Before(deadline); {
			time.Sleep(10 * time.Millisecond)
		}
	}
	t.Logf("second connection: recovered=%v", recovered)
	if !second.Rooms().Contains("room1", Room(second.ID())) {
		t.Fatalf("rooms right after the second connection: %v", second.Rooms())
	}

	// Let the first socket finish closing.
	select {
	case <-disconnected:
	case <-time.After(handlerTime + 5*time.Second):
		t.Fatal("first socket never finished closing")
	}
	time.Sleep(100 * time.Millisecond)

	// The second socket is connected and nobody made it leave anything.
	if !second.Connected() {
		t.Fatal("recovered socket is not connected")
	}
	failed := false
	if rooms := second.Rooms(); !rooms.Contains("room1", Room(second.ID())) {
		t.Errorf("the second socket (recovered=%v) lost its rooms without leaving them: Rooms() = %v, want {%s, room1}", recovered, rooms, second.ID())
		failed = true
	}
	if n := len(server.Of("/").Sockets()); n != 1 {
		t.Errorf("namespace has %d sockets, want 1 (the second one)", n)
		failed = true
	}

	server.Emit("to-all")
	server.To("room1").Emit("to-room")
	second.Emit("direct")

	got := map[string]bool{}
	mark := len(p2.seen)
	deadline := time.Now().Add(2 * time.Second)
	for len(got) < 3 && time.Now().Before(deadline) {
		p2.waitFor(`2["`, time.Until(deadline))
		for _, pkt := range p2.seen[mark:] {
			for _, name := range []string{"to-all", "to-room", "direct"} {
				if strings.HasPrefix(pkt, `2["`+name+`"`) {
					got[name] = true
				}
			}
		}
	}
	for _, name := range []string{"to-all", "to-room", "direct"} {
		if !got[name] {
			t.Errorf("the second socket (recovered=%v) did not receive %q", recovered, name)
			failed = true
		}
	}
	if failed {
		t.Log("the old socket's leaveAll/Namespace.remove ran after the session had been restored under the same socket id")
	}
}
