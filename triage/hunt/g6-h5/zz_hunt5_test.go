package sio

import (
	"net/http/httptest"
	"testing"
	"time"

	"github.com/karagenc/socket.io-go/adapter"
)

// inMemoryAdapter.apply takes the adapter's mutex WITHOUT defer and then calls methods on
// opts.Except and opts.Rooms. These are interface values (mapset.Set) that come from the caller
// of the exported Adapter API: Adapter().Sockets(nil) ("all the sockets": there is no room filter),
// or a BroadcastOptions literal in which Rooms/Except are not set, or nil options. The method call
// on the nil interface panics while the mutex is held, and the mutex is never released.
//
// When this happens inside an event handler, the library itself recovers the panic
// (eventHandler.call) and reports it as an error, so the program goes on - but every later
// operation that needs the adapter of this namespace (Join, Leave, Rooms, Emit to a room,
// broadcast, a new connection to the namespace, the cleanup of a disconnecting socket) blocks
// for ever.
func TestHunt5(t *testing.T) {
	io := NewServer(nil)
	if err := io.Run(); err != nil {
		t.Fatal(err)
	}
	ts := httptest.NewServer(io)

	var (
		handlerErr = make(chan error, 4)
		joined     = make(chan struct{})
	)

	io.OnConnection(func(socket ServerSocket) {
		socket.OnError(func(err error) { handlerErr <- err })

		// "Who is here?": the ids of all the sockets of the namespace (no room filter).
		socket.OnEvent("who", func() {
			sids := socket.Namespace().Adapter().Sockets(nil)
			socket.Emit("here", sids.Cardinality())
		})
		socket.OnEvent("who2", func() {
			sockets := socket.Namespace().Adapter().FetchSockets(&adapter.BroadcastOptions{})
			socket.Emit("here", len(sockets))
		})
		socket.OnEvent("join", func() {
			socket.Join("room")
			close(joined)
		})
	})

	manager := NewManager(ts.URL, nil)

	// Clean up on another goroutine, and don't wait for more than 5s: with the mutex of the adapter
	// left locked, closing the server blocks for ever as well (the sockets cannot leave their rooms).
	defer func() {
		cleaned := make(chan struct{})
		go func() {
			defer close(cleaned)
			manager.Close()
			io.Close()
			ts.CloseClientConnections()
			ts.Close()
		}()
		select {
		case <-cleaned:
		case <-time.After(5 * time.Second):
			t.Log("cleanup (Server.Close) is blocked as well; abandoned")
		}
	}()
	client := manager.Socket("/", nil)
	connected := make(chan struct{})
	client.OnceConnect(func() { close(connected) })
	client.Connect()
	select {
	case <-connected:
	case <-time.After(10 * time.Second):
		t.Fatal("timeout: client did not connect")
	}

	client.Emit("who")
	select {
	case err := <-handlerErr:
		t.Logf("the handler of `who` panicked, the library recovered it and reported: %v", err)
	case <-time.After(2 * time.Second):
	}

	// Anything that needs the adapter of the namespace must still work.
	client.Emit("join")
	select {
	case <-joined:
	case <-time.After(5 * time.Second):
		t.Errorf("socket.Join did not return within 5s after Adapter().Sockets(nil) panicked in another handler: the adapter's mutex was left locked")
	}

	// The same through the other entry points of `apply`, directly (the panic is recovered here, as the library does in handlers).
	nsp := io.Of("/other")
	func() {
		defer func() { _ = recover() }()
		nsp.Adapter().FetchSockets(&adapter.BroadcastOptions{})
	}()
	done := make(chan struct{})
	go func() {
		nsp.Adapter().AddAll("sid", []Room{"room"})
		close(done)
	}()
	select {
	case <-done:
	case <-time.After(5 * time.Second):
		t.Errorf("Adapter().AddAll did not return within 5s after Adapter().FetchSockets(&BroadcastOptions{}) panicked: the adapter's mutex was left locked")
	}
}
