package sio

import (
	"net/http/httptest"
	"strconv"
	"strings"
	"sync"
	"testing"
	"time"

	eio "github.com/karagenc/socket.io-go/engine.io"
	eioparser "github.com/karagenc/socket.io-go/engine.io/parser"
)

// One goroutine emits n = 0, 1, 2, ... on a client socket, starting while the socket is still
// disconnected and going on after it has connected. A protocol-level peer (an Engine.IO server
// built from the repo's own eio package that answers CONNECT) records the order in which the
// events arrive on the wire. The order must be the emission order.
func TestHunt6(t *testing.T) {
	var (
		mu    sync.Mutex
		order []int
	)
	eioServer := eio.NewServer(func(socket eio.ServerSocket) *eio.Callbacks {
		return &eio.Callbacks{
			OnPacket: func(packets ...*eioparser.Packet) {
				for _, p := range packets {
					if p.Type != eioparser.PacketTypeMessage {
						continue
					}
					s := string(p.Data)
					switch {
					case strings.HasPrefix(s, "0"):
						reply, _ := eioparser.NewPacket(eioparser.PacketTypeMessage, false, []byte(`0{"sid":"peer-sid"}`))
						socket.Send(reply)
					case strings.HasPrefix(s, `2["n",`):
						n, err := strconv.Atoi(strings.TrimSuffix(strings.TrimPrefix(s, `2["n",`), "]"))
						if err != nil {
							t.Errorf("peer: bad frame %q", s)
							continue
						}
						mu.Lock()
						order = append(order, n)
						mu.Unlock()
					}
				}
			},
		}
	}, nil)
	if err := eioServer.Run(); err != nil {
		t.Fatal(err)
	}
	ts := httptest.NewServer(eioServer)
	defer ts.Close()
	defer eioServer.Close()

	manager := NewManager(ts.URL, &ManagerConfig{
		EIO: eio.ClientConfig{Transports: []string{"websocket"}},
	})
	socket := manager.Socket("/", nil)

	total := make(chan int, 1)
	go func() {
		n := 0
		// Emit while disconnected, through the moment the socket connects, and a little longer.
		deadline := time.Now().Add(10 * time.Second)
		for !socket.Connected() && time.Now().Before(deadline) {
			socket.Emit("n", n)
			n++
			if n == 200 {
				socket.Connect()
			}
		}
		for i := 0; i < 200; i++ {
			socket.Emit("n", n)
			n++
		}
		total <- n
	}()

	var n int
	select {
	case n = <-total:
	case <-time.After(20 * time.Second):
		t.Fatal("emitter did not finish")
	}

	deadline := time.Now().Add(10 * time.Second)
	for time.Now().Before(deadline) {
		mu.Lock()
		l := len(order)
		mu.Unlock()
		if l >= n {
			break
		}
		time.Sleep(20 * time.Millisecond)
	}
	time.Sleep(200 * time.Millisecond)

	mu.Lock()
	defer mu.Unlock()
	if len(order) != n {
		t.Errorf("emitted %d events, %d arrived", n, len(order))
	}
	inversions := 0
	for i := 1; i < len(order); i++ {
		if order[i] < order[i-1] {
			if inversions < 5 {
				t.Errorf("out of order on the wire: event %d arrived right after event %d (position %d of %d)", order[i], order[i-1], i, len(order))
			}
			inversions++
		}
	}
	if inversions > 0 {
		t.Errorf("%d inversion(s) in the arrival order of %d events emitted by one goroutine", inversions, n)
	}
	manager.Close()
}
