package eio

import (
	"bytes"
	"fmt"
	"net/http/httptest"
	"sync"
	"testing"
	"time"

	"github.com/karagenc/socket.io-go/engine.io/parser"
)

// The polling batcher of the client (writeWritablePackets) counts a packet without payload
// as 0 bytes although it takes 1 byte (its type character, or 'b' for an empty binary packet)
// in the long-polling body. A batch that contains such packets is therefore sent in one
// POST request that is larger than the maxPayload announced by the server: the server answers
// 413, closes the connection and every packet of the batch is lost, although each
// packet on its own is within the limit.
func TestHunt1(t *testing.T) {
	const maxPayload = 64

	type result struct {
		messages [][]byte
		closed   bool
		reason   Reason
		err      error
	}
	var (
		mu  sync.Mutex
		res result
	)

	io := NewServer(func(socket ServerSocket) *Callbacks {
		return &Callbacks{
			OnPacket: func(packets ...*parser.Packet) {
				mu.Lock()
				defer mu.Unlock()
				for _, p := range packets {
					if p.Type == parser.PacketTypeMessage {
						res.messages = append(res.messages, p.Data)
					}
				}
			},
			OnClose: func(reason Reason, err error) {
				mu.Lock()
				defer mu.Unlock()
				res.closed = true
				res.reason = reason
				res.err = err
			},
		}
	}, &ServerConfig{MaxBufferSize: maxPayload})
	if err := io.Run(); err != nil {
		t.Fatal(err)
	}
	ts := httptest.NewServer(io)
	defer ts.Close()
	defer io.Close()

	clientClosed := make(chan error, 1)
	client, err := Dial(ts.URL, &Callbacks{
		OnClose: func(reason Reason, err error) {
			select {
			case clientClosed <- fmt.Errorf("reason: %s, err: %v", reason, err):
			default:
			}
		},
	}, &ClientConfig{Transports: []string{"polling"}})
	if err != nil {
		t.Fatal(err)
	}
	defer client.Close()

	// Encoded sizes in a long-polling body: 63 bytes ('4' + 62 bytes) and 1 byte ('4').
	// Each of them is within maxPayload (64). Together, with the record separator, they are 65 bytes.
	first, err := parser.NewPacket(parser.PacketTypeMessage, false, bytes.Repeat([]byte{'a'}, maxPayload-2))
	if err != nil {
		t.Fatal(err)
	}
	second, err := parser.NewPacket(parser.PacketTypeMessage, false, nil) // socket.send("")
	if err != nil {
		t.Fatal(err)
	}
	if l := parser.EncodedPayloadsLen(first, second); l != maxPayload+1 {
		t.Fatalf("test is broken: payload length is %d", l)
	}
	if first.EncodedLen(false) > maxPayload || second.EncodedLen(false) > maxPayload {
		t.Fatal("test is broken: a packet is larger than maxPayload on its own")
	}

	client.Send(first, second)

	deadline := time.After(5 * time.Second)
	for {
		mu.Lock()
		r := res
		mu.Unlock()

		if r.closed {
			t.Fatalf("the server closed the connection (reason: %s, err: %v) after it received %d of 2 messages: "+
				"the client sent both packets (63 + 1 + 1 separator = 65 bytes) in one request although maxPayload is %d",
				r.reason, r.err, len(r.messages), maxPayload)
		}
		if len(r.messages) == 2 {
			if len(r.messages[0]) != maxPayload-2 || len(r.messages[1]) != 0 {
				t.Fatalf("messages are not delivered as they were sent: lengths %d, %d", len(r.messages[0]), len(r.messages[1]))
			}
			return
		}

		select {
		case err := <-clientClosed:
			t.Fatalf("client connection is closed (%v). messages received by the server: %d of 2", err, len(r.messages))
		case <-deadline:
			t.Fatalf("timeout: messages received by the server: %d of 2", len(r.messages))
		case <-time.After(20 * time.Millisecond):
		}
	}
}
