package sio

import (
	"sync/atomic"
	"testing"
	"time"
)

// C18: "Handlers registered with an On method run for every matching occurrence" - once for
// each occurrence, that is.
//
// ClientSocket.Connect registers the socket's handlers on the manager (open, error, close)
// each time it is called while the socket is not connected; the reference implementation
// does it only if they are not registered (`if (this.subs) return`). After two calls of
// Connect a single loss of the connection is reported twice to the OnDisconnect handlers.
func TestHunt5(t *testing.T) {
	io, _, manager, close := newTestServerAndClient(t, nil, &ManagerConfig{NoReconnection: true})
	defer close()
	serverSockets := make(chan *serverSocket, 8)
	io.OnConnection(func(socket ServerSocket) { serverSockets <- socket.(*serverSocket) })

	var (
		connects    atomic.Int32
		disconnects atomic.Int32
		connected   = make(chan struct{}, 8)
		closed      = make(chan struct{}, 8)
	)

	socket := manager.Socket("/", nil)
	socket.OnConnect(func() {
		connects.Add(1)
		connected <- struct{}{}
	})
	socket.OnDisconnect(func(reason Reason) {
		disconnects.Add(1)
		closed <- struct{}{}
	})

	// Harmless: the socket is connecting already.
	socket.Connect()
	socket.Connect()

	select {
	case <-connected:
	case <-time.After(10 * time.Second):
		t.Fatal("not connected")
	}
	time.Sleep(300 * time.Millisecond)

	// The connection is lost, once: the server closes the transport (no DISCONNECT packet).
	go (<-serverSockets).conn.eio.Close()

	select {
	case <-closed:
	case <-time.After(20 * time.Second):
		t.Fatal("no disconnect")
	}
	time.Sleep(500 * time.Millisecond)

	if n := connects.Load(); n != 1 {
		t.Errorf("OnConnect handler ran %d times for 1 connection", n)
	}
	if n := disconnects.Load(); n != 1 {
		t.Errorf("OnDisconnect handler ran %d times for 1 disconnection", n)
	}
}
