package sio

import (
	"testing"
	"time"
)

// C03: "An acknowledgement callback given to Emit is invoked at most once, and only with the
// arguments the peer passed to the ack function of that very event."
//
// An event that reaches the client before the CONNECT reply has been handled (packets are handled on a
// goroutine each, so the greeting that a server emits from its connection handler does that quite often)
// is kept in the receive buffer and is delivered by emitBuffered. emitBuffered - unlike the direct path and
// unlike the reference implementation - acknowledges the event by itself, with no arguments, as soon as a
// handler without an ack function has run. The reply of the handler that does have an ack function is dropped.
//
// No schedule is forced: a fresh client connects up to 60 times, about 1 connection of 3 shows the defect.
func TestHunt7(t *testing.T) {
	io, ts, _, close := newTestServerAndClient(t, nil, nil)
	defer close()

	type reply struct {
		name string
		sid  SocketID
	}
	replies := make(chan reply, 256)
	io.OnConnection(func(socket ServerSocket) {
		// Greets the client as soon as it is connected.
		socket.Emit("whoareyou", func(name string) {
			replies <- reply{name, socket.ID()}
		})
	})

	for attempt := 1; attempt <= 60; attempt++ {
		manager := newTestManager(ts, &ManagerConfig{NoReconnection: true})
		socket := manager.Socket("/", nil)
		// Somebody who just watches.
		socket.OnEvent("whoareyou", func() {})
		// The one who answers.
		socket.OnEvent("whoareyou", func(ack func(name string)) {
			ack("client-1")
		})
		socket.Connect()

		failed := false
		select {
		case r := <-replies:
			if r.name != "client-1" {
				t.Errorf("connection %d: the client's handler replied \"client-1\", the server's ack callback was called with %q", attempt, r.name)
				failed = true
			}
		case <-time.After(5 * time.Second):
			t.Errorf("connection %d: the server's ack callback was not called", attempt)
			failed = true
		}
		select {
		case r := <-replies:
			t.Errorf("connection %d: the server's ack callback was called again, with %q", attempt, r.name)
			failed = true
		case <-time.After(20 * time.Millisecond):
		}
		manager.Close()
		if failed {
			return
		}
	}
}
