package sio

import (
	"context"
	"encoding/json"
	"fmt"
	"io"
	"net/http"
	"net/http/httptest"
	"strings"
	"sync"
	"testing"
	"time"

	"github.com/karagenc/socket.io-go/adapter"
	"github.com/karagenc/socket.io-go/parser"
)

// Raw Engine.IO v4 polling peer. One background goroutine long-polls and hands every
// Socket.IO packet (Engine.IO message type stripped) to a channel; close() ends the session
// with an Engine.IO CLOSE packet, which also releases the pending poll. Nothing waits unbounded.
type hunt4Peer struct {
	t       *testing.T
	ts      *httptest.Server
	sid     string
	packets chan string
	seen    []string
}

func hunt4Do(t *testing.T, method, url, body string, timeout time.Duration) (string, int, error) {
	ctx, cancel := context.WithTimeout(context.Background(), timeout)
	defer cancel()
	var rd io.Reader
	if body != "" {
		rd = strings.NewReader(body)
	}
	req, err := http.NewRequestWithContext(ctx, method, url, rd)
	if err != nil {
		return "", 0, err
	}
	resp, err := http.DefaultClient.Do(req)
	if err != nil {
		return "", 0, err
	}
	defer resp.Body.Close()
	b, err := io.ReadAll(resp.Body)
	return string(b), resp.StatusCode, err
}

func hunt4Open(t *testing.T, ts *httptest.Server) *hunt4Peer {
	body, status, err := hunt4Do(t, "GET", ts.URL+"/?EIO=4&transport=polling", "", 5*time.Second)
	if err != nil || status != 200 {
		t.Fatalf("eio handshake: %v %d", err, status)
	}
	var m struct {
		SID string `json:"sid"`
	}
	if err := json.Unmarshal([]byte(body[1:]), &m); err != nil {
		t.Fatal(err)
	}
	p := &hunt4Peer{t: t, ts: ts, sid: m.SID, packets: make(chan string, 64)}
	go func() {
		defer close(p.packets)
		for {
			body, status, err := hunt4Do(t, "GET", p.url(), "", 28*time.Second)
			if err != nil || status != 200 {
				return
			}
			for _, pkt := range strings.Split(body, "\x1e") {
				if len(pkt) == 0 {
					continue
				}
				switch pkt[0] {
				case '4':
					p.packets <- pkt[1:]
				case '2':
					go hunt4Do(t, "POST", p.url(), "3", 5*time.Second)
				case '1':
					return
				}
			}
		}
	}()
	return p
}

func (p *hunt4Peer) url() string {
	return p.ts.URL + "/?EIO=4&transport=polling&sid=" + p.sid
}

func (p *hunt4Peer) push(body string) {
	_, status, err := hunt4Do(p.t, "POST", p.url(), body, 5*time.Second)
	if err != nil || status != 200 {
		p.t.Fatalf("push %q: %v %d", body, err, status)
	}
}

func (p *hunt4Peer) close() {
	hunt4Do(p.t, "POST", p.url(), "1", 5*time.Second)
}

// Waits until a Socket.IO packet with the given prefix shows up or the duration passes.
// Everything received is appended to p.seen.
func (p *hunt4Peer) waitFor(prefix string, d time.Duration) (found string) {
	timer := time.NewTimer(d)
	defer timer.Stop()
	for {
		select {
		case pkt, ok := <-p.packets:
			if !ok {
				return ""
			}
			p.seen = append(p.seen, pkt)
			if strings.HasPrefix(pkt, prefix) {
				return pkt
			}
		case <-timer.C:
			return ""
		}
	}
}

// A SocketStore that can hold back the delivery of chosen packets. It only adds a delay on the
// delivery path of the adapter (what a descheduled goroutine experiences); set through the public
// ServerConfig.AdapterCreator, wrapped around the library's own session aware adapter.
type hunt4Store struct {
	adapter.SocketStore
	mu      sync.Mutex
	hold    map[string]chan struct{} // event name -> released when closed
	entered chan string
}

func (s *hunt4Store) SendBuffers(sid adapter.SocketID, buffers [][]byte) bool {
	s.mu.Lock()
	var wait chan struct{}
	for name, c := range s.hold {
		if strings.Contains(string(buffers[0]), `["`+name+`"`) {
			wait = c
			delete(s.hold, name)
			s.entered <- name
		}
	}
	s.mu.Unlock()
	if wait != nil {
		select {
		case <-wait:
		case <-time.After(10 * time.Second):
		}
	}
	return s.SocketStore.SendBuffers(sid, buffers)
}

func (s *hunt4Store) holdBack(name string) (release func()) {
	c := make(chan struct{})
	s.mu.Lock()
	s.hold[name] = c
	s.mu.Unlock()
	return sync.OnceFunc(func() { close(c) })
}

type hunt4Env struct {
	server *Server
	ts     *httptest.Server
	store  *hunt4Store
	peers  []*hunt4Peer
}

func hunt4Setup(t *testing.T) *hunt4Env {
	e := &hunt4Env{store: &hunt4Store{hold: map[string]chan struct{}{}, entered: make(chan string, 8)}}
	e.server = NewServer(&ServerConfig{
		ServerConnectionStateRecovery: ServerConnectionStateRecovery{Enabled: true},
		AdapterCreator: func(socketStore adapter.SocketStore, parserCreator parser.Creator) adapter.Adapter {
			e.store.SocketStore = socketStore
			return adapter.NewSessionAwareAdapterCreator(time.Minute)(e.store, parserCreator)
		},
	})
	if err := e.server.Run(); err != nil {
		t.Fatal(err)
	}
	e.ts = httptest.NewServer(e.server)
	t.Cleanup(func() {
		for _, p := range e.peers {
			p.close()
		}
		e.server.Close()
		e.ts.CloseClientConnections()
		e.ts.Close()
	})
	return e
}

type hunt4IDs struct {
	SID string `json:"sid"`
	PID string `json:"pid"`
}

func (e *hunt4Env) connect(t *testing.T, auth string) (*hunt4Peer, hunt4IDs) {
	p := hunt4Open(t, e.ts)
	e.peers = append(e.peers, p)
	p.push("40" + auth)
	reply := p.waitFor("0", 5*time.Second)
	var ids hunt4IDs
	if reply == "" || json.Unmarshal([]byte(reply[1:]), &ids) != nil || ids.PID == "" {
		t.Fatalf("CONNECT reply %q", reply)
	}
	return p, ids
}

// name and offset of an EVENT packet `2["name","offset"]`
func hunt4Event(t *testing.T, pkt string) (name, offset string) {
	var args []string
	if len(pkt) < 2 || pkt[0] != '2' || json.Unmarshal([]byte(pkt[1:]), &args) != nil || len(args) != 2 {
		t.Fatalf("unexpected packet %q", pkt)
	}
	return args[0], args[1]
}

// Two goroutines broadcast in the same namespace at the same time. The session aware adapter puts a
// packet into the recovery log under its mutex and delivers it after releasing the mutex, so the
// order of delivery can differ from the order of the log. The offset a client holds is the packet it
// received last; recovery replays the log from that packet on.
//
//   - "gap": A is logged, B is logged and delivered, the client loses its transport, A is delivered
//     to nobody. The client comes back with offset B: it is told that it was recovered, and A - logged
//     before B - is not replayed. A is lost in a session that is reported as recovered.
//   - "twice": A is logged, B is logged and delivered, A is delivered. The client's offset is A. When it
//     recovers, B is replayed although it has already received it.
func TestHunt4(t *testing.T) {
	// Returns the peer, its ids and what it received before losing the transport: [B] or [B A].
	run := func(t *testing.T, e *hunt4Env, releaseBeforeDisconnect bool) (received []string, lastOffset string, ids hunt4IDs) {
		disconnected := make(chan struct{}, 4)
		e.server.OnConnection(func(socket ServerSocket) {
			socket.OnDisconnect(func(Reason) { disconnected <- struct{}{} })
		})
		p, ids := e.connect(t, "")

		// An initial packet so that the client has an offset whatever happens.
		e.server.Emit("init")
		if pkt := p.waitFor(`2["init"`, 5*time.Second); pkt == "" {
			t.Fatal("init not received")
		} else {
			_, lastOffset = hunt4Event(t, pkt)
		}

		releaseA := e.store.holdBack("A")
		defer releaseA()
		aDone := make(chan struct{})
		go func() { // goroutine 1, e.g. an event handler of some socket
			defer close(aDone)
			e.server.Emit("A")
		}()
		select {
		case <-e.store.entered: // A is in the log, its delivery is about to happen
		case <-time.After(5 * time.Second):
			t.Fatal("A did not reach the delivery")
		}
		bDone := make(chan struct{})
		go func() { // goroutine 2, another handler
			defer close(bDone)
			e.server.Emit("B")
		}()
		pkt := p.waitFor(`2["`, time.Second)
		// If nothing arrives while A is held back, broadcasts are serialised (B waits for A):
		// nothing can be reordered then. Let A go and just collect both.
		serialised := pkt == ""
		expect := 2
		if serialised || releaseBeforeDisconnect {
			releaseA()
		} else {
			expect = 1 // A stays held back until the client is gone
		}
		for len(received) < expect {
			if pkt == "" {
				if pkt = p.waitFor(`2["`, 3*time.Second); pkt == "" {
					break
				}
			}
			var name string
			name, lastOffset = hunt4Event(t, pkt)
			received = append(received, name)
			pkt = ""
		}

		p.close() // Engine.IO CLOSE: transport close, recoverable
		select {
		case <-disconnected:
		case <-time.After(5 * time.Second):
			t.Fatal("server did not notice the disconnection")
		}
		releaseA()
		select {
		case <-aDone:
		case <-time.After(5 * time.Second):
			t.Fatal("Emit(A) did not return")
		}
		<-bDone
		return received, lastOffset, ids
	}

	recover := func(t *testing.T, e *hunt4Env, ids hunt4IDs, offset string) (replayed []string) {
		p, ids2 := e.connect(t, fmt.Sprintf(`{"pid":%q,"offset":%q}`, ids.PID, offset))
		if ids2 != ids {
			t.Skipf("not recovered (%v, was %v): a clean fall-back, nothing to check", ids2, ids)
		}
		// Replayed packets are written before the CONNECT reply; pick up stragglers as well.
		p.waitFor("\x00", 500*time.Millisecond)
		for _, pkt := range p.seen {
			if strings.HasPrefix(pkt, `2["`) {
				name, _ := hunt4Event(t, pkt)
				replayed = append(replayed, name)
			}
		}
		return
	}

	count := func(names []string, name string) (n int) {
		for _, x := range names {
			if x == name {
				n++
			}
		}
		return
	}

	t.Run("gap", func(t *testing.T) {
		e := hunt4Setup(t)
		received, offset, ids := run(t, e, false)
		replayed := recover(t, e, ids, offset)
		t.Logf("received before the disconnection: %v, replayed on recovery: %v", received, replayed)
		all := append(append([]string{}, received...), replayed...)
		for _, name := range []string{"A", "B"} {
			if n := count(all, name); n != 1 {
				t.Errorf("session reported as recovered, but the client got %q %d times (before: %v, replayed: %v)", name, n, received, replayed)
			}
		}
	})

	t.Run("twice", func(t *testing.T) {
		e := hunt4Setup(t)
		received, offset, ids := run(t, e, true)
		replayed := recover(t, e, ids, offset)
		t.Logf("received before the disconnection: %v, replayed on recovery: %v", received, replayed)
		all := append(append([]string{}, received...), replayed...)
		for _, name := range []string{"A", "B"} {
			if n := count(all, name); n != 1 {
				t.Errorf("session reported as recovered, but the client got %q %d times (before: %v, replayed: %v)", name, n, received, replayed)
			}
		}
	})
}
