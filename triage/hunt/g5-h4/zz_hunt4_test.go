package eio

import (
	"context"
	"encoding/json"
	"net/http/httptest"
	"strings"
	"testing"
	"time"

	"nhooyr.io/websocket"
)

// The OPEN packet of a session that is opened directly with the websocket transport
// (no upgrade is possible) carries `"upgrades":null`. Engine.IO v4 prescribes an array
// of strings (an empty one here; the reference server sends `"upgrades":[]`, and the test suite of the
// protocol checks for an empty array). The reference client (engine.io-client) iterates
// over the field (`upgrades.length` in filterUpgrades) as soon as it receives the handshake
// and throws on null, so a JavaScript client with `transports: ["websocket"]` cannot open a session.
func TestHunt4(t *testing.T) {
	io := NewServer(nil, nil)
	if err := io.Run(); err != nil {
		t.Fatal(err)
	}
	ts := httptest.NewServer(io)
	defer ts.Close()
	defer io.Close()

	ctx, cancel := context.WithTimeout(context.Background(), 10*time.Second)
	defer cancel()

	url := "ws" + strings.TrimPrefix(ts.URL, "http") + "/?EIO=4&transport=websocket"
	conn, _, err := websocket.Dial(ctx, url, nil)
	if err != nil {
		t.Fatal(err)
	}
	defer conn.Close(websocket.StatusNormalClosure, "")

	mt, data, err := conn.Read(ctx)
	if err != nil {
		t.Fatal(err)
	}
	if mt != websocket.MessageText || len(data) < 1 || data[0] != '0' {
		t.Fatalf("OPEN packet expected: %q", data)
	}
	t.Logf("OPEN packet: %s", data)

	var handshake map[string]any
	err = json.Unmarshal(data[1:], &handshake)
	if err != nil {
		t.Fatal(err)
	}

	for _, key := range []string{"sid", "upgrades", "pingInterval", "pingTimeout", "maxPayload"} {
		if _, ok := handshake[key]; !ok {
			t.Fatalf("key %q is missing in the handshake: %s", key, data)
		}
	}

	upgrades, ok := handshake["upgrades"].([]any)
	if !ok {
		t.Fatalf("`upgrades` must be an array of strings (here: an empty array), it is %#v. OPEN packet: %s", handshake["upgrades"], data)
	}
	if len(upgrades) != 0 {
		t.Fatalf("no upgrade is possible from websocket on this server, `upgrades` is %v", upgrades)
	}
}
