package sio

import (
	"net/http/httptest"
	"testing"
	"time"

	eio "github.com/karagenc/socket.io-go/engine.io"
	"nhooyr.io/websocket"
)

// Two namespaces share one connection. The client calls Disconnect() on the socket of "/a" while
// its CONNECT is still pending (the server has not accepted it yet: a namespace middleware is
// running). The Go client sends a DISCONNECT packet for "/a" anyway (the reference client sends one
// only when the socket is connected); the server has no socket for "/a" on that connection yet,
// treats the packet as an invalid state and closes the whole Engine.IO connection: the socket of
// "/", which nobody touched, is disconnected.
func TestHunt3(t *testing.T) {
	server := NewServer(&ServerConfig{
		EIO: eio.ServerConfig{
			WebSocketAcceptOptions: &websocket.AcceptOptions{CompressionMode: websocket.CompressionDisabled},
		},
	})
	if err := server.Run(); err != nil {
		t.Fatal(err)
	}
	ts := httptest.NewServer(server)

	const middlewareTime = 400 * time.Millisecond
	server.Of("/a").Use(func(socket ServerSocket, handshake *Handshake) any {
		time.Sleep(middlewareTime) // e.g. a token check against a database
		return nil
	})

	rootDisconnectedOnServer := make(chan Reason, 4)
	server.OnConnection(func(socket ServerSocket) {
		socket.OnDisconnect(func(reason Reason) { rootDisconnectedOnServer <- reason })
	})
	server.Of("/a").OnConnection(func(socket ServerSocket) {})

	manager := NewManager(ts.URL, &ManagerConfig{
		EIO: eio.ClientConfig{
			WebSocketDialOptions: &websocket.DialOptions{CompressionMode: websocket.CompressionDisabled},
		},
	})
	defer func() {
		manager.Close()
		server.Close()
		ts.CloseClientConnections()
		ts.Close()
	}()

	root := manager.Socket("/", nil)
	rootConnected := make(chan struct{}, 4)
	rootDisconnected := make(chan Reason, 4)
	root.OnConnect(func() { rootConnected <- struct{}{} })
	root.OnDisconnect(func(reason Reason) { rootDisconnected <- reason })
	managerClosed := make(chan Reason, 4)
	manager.OnClose(func(reason Reason, err error) { managerClosed <- reason })
	root.Connect()
	select {
	case <-rootConnected:
	case <-time.After(10 * time.Second):
		t.Fatal("`/` did not connect")
	}
	time.Sleep(100 * time.Millisecond) // let the transport upgrade settle

	a := manager.Socket("/a", nil)
	a.Connect()
	time.Sleep(middlewareTime / 4) // CONNECT for /a is at the server, the middleware is running
	if a.Connected() {
		t.Fatal("`/a` connected too early; the test needs it to be pending")
	}
	a.Disconnect() // the user changed his mind about /a

	select {
	case reason := <-rootDisconnected:
		t.Errorf("disconnecting the (pending) socket of `/a` disconnected the socket of `/` on the same connection: reason %q", reason)
	case reason := <-managerClosed:
		t.Errorf("disconnecting the (pending) socket of `/a` closed the shared connection: reason %q", reason)
	case reason := <-rootDisconnectedOnServer:
		t.Errorf("disconnecting the (pending) socket of `/a`: the server closed the socket of `/`: reason %q", reason)
	case <-time.After(middlewareTime + 1500*time.Millisecond):
		if !root.Connected() {
			t.Errorf("`/` is not connected any more")
		}
	}
}
