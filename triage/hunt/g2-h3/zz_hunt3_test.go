package sio

import (
	"fmt"
	"testing"
	"time"
)

// C12: "the first rejection stops the chain, the client receives CONNECT_ERROR carrying that
// rejection, and nothing of the socket remains on the server."
//
// A namespace middleware joins the socket to a room (the usual `socket.Join(userID)` of an
// authentication middleware), a later middleware rejects the socket. The rooms of the rejected
// socket stay in the adapter forever.
func TestHunt3(t *testing.T) {
	io, _, manager, close := newTestServerAndClient(t, nil, nil)
	defer close()

	sockets := make(chan ServerSocket, 1)

	io.Use(func(socket ServerSocket, handshake *Handshake) any {
		socket.Join("user:42")
		sockets <- socket
		return nil
	})
	io.Use(func(socket ServerSocket, handshake *Handshake) any {
		return fmt.Errorf("not allowed")
	})
	io.OnConnection(func(socket ServerSocket) {
		t.Error("the socket was rejected, the connection handler should not run")
	})

	rejected := make(chan any, 1)
	socket := manager.Socket("/", nil)
	socket.OnConnectError(func(err any) { rejected <- err })
	socket.OnConnect(func() { t.Error("the socket was rejected, it should not connect") })
	socket.Connect()

	select {
	case err := <-rejected:
		if e, ok := err.(error); !ok || e.Error() != "not allowed" {
			t.Errorf("CONNECT_ERROR should carry the rejection, got %v", err)
		}
	case <-time.After(10 * time.Second):
		t.Fatal("no CONNECT_ERROR")
	}
	// The client has received CONNECT_ERROR: the server is done with the socket.
	time.Sleep(200 * time.Millisecond)

	serverSocket := <-sockets
	if n := len(io.Sockets()); n != 0 {
		t.Errorf("Server.Sockets(): %d sockets", n)
	}
	if rooms, ok := io.Of("/").Adapter().SocketRooms(serverSocket.ID()); ok {
		t.Errorf("the adapter still knows the rejected socket %s, its rooms: %v", serverSocket.ID(), rooms)
	}
	if rooms := serverSocket.Rooms(); rooms.Cardinality() != 0 {
		t.Errorf("the rejected socket is still in rooms %v", rooms)
	}
}
