package sio

import (
	"context"
	"io"
	"net/http"
	"net/http/httptest"
	"regexp"
	"strings"
	"sync"
	"testing"
	"time"

	eio "github.com/karagenc/socket.io-go/engine.io"
	"nhooyr.io/websocket"
)

// C06: "Afterwards the server keeps no trace of the session" - also when the connection ends
// during the polling -> websocket upgrade.
//
// The Engine.IO server socket adopts the probed websocket as its transport when the UPGRADE packet
// arrives, without checking that the session was closed in the meantime (the reference implementation
// checks `readyState` and closes the candidate transport when the socket closes). The closed session is
// re-attached to a live transport that nobody will ever close: packets that arrive on it are still handed
// to Socket.IO, a CONNECT creates a socket in the namespace, and because all the one-shot close guards of
// the session were already consumed, that socket is never removed and never gets a disconnect event.
//
// The peer below is scripted with raw protocol frames. The first half of the script (close over polling
// while the websocket is being probed, then UPGRADE) is exactly what the Go client of this library does when
// `Close` is called, or the server is closed, during the upgrade window.
func TestHunt4(t *testing.T) {
	srv := NewServer(&ServerConfig{
		EIO: eio.ServerConfig{UpgradeTimeout: 1 * time.Second},
	})
	if err := srv.Run(); err != nil {
		t.Fatal(err)
	}
	ts := httptest.NewServer(srv)
	defer ts.Close()
	defer srv.Close()

	var (
		mu          sync.Mutex
		connections int
		disconnects []Reason
	)
	disconnected := make(chan struct{}, 8)
	connected := make(chan struct{}, 8)
	srv.OnConnection(func(socket ServerSocket) {
		mu.Lock()
		connections++
		mu.Unlock()
		socket.OnDisconnect(func(reason Reason) {
			mu.Lock()
			disconnects = append(disconnects, reason)
			mu.Unlock()
			disconnected <- struct{}{}
		})
		connected <- struct{}{}
	})

	base := ts.URL + "/?EIO=4&transport=polling"
	get := func(url string) string {
		t.Helper()
		resp, err := http.Get(url)
		if err != nil {
			t.Fatal(err)
		}
		defer resp.Body.Close()
		b, _ := io.ReadAll(resp.Body)
		return string(b)
	}
	post := func(url, body string) int {
		t.Helper()
		resp, err := http.Post(url, "text/plain;charset=UTF-8", strings.NewReader(body))
		if err != nil {
			t.Fatal(err)
		}
		defer resp.Body.Close()
		io.Copy(io.Discard, resp.Body)
		return resp.StatusCode
	}

	// 1. Engine.IO handshake over polling, Socket.IO CONNECT to "/".
	open := get(base)
	m := regexp.MustCompile(`"sid":"([^"]+)"`).FindStringSubmatch(open)
	if m == nil {
		t.Fatalf("no sid in %q", open)
	}
	sid := m[1]
	if code := post(base+"&sid="+sid, "40"); code != 200 {
		t.Fatalf("CONNECT: status %d", code)
	}
	if reply := get(base + "&sid=" + sid); !strings.HasPrefix(reply, "40{") {
		t.Fatalf("expected CONNECT reply, got %q", reply)
	}
	select {
	case <-connected:
	case <-time.After(5 * time.Second):
		t.Fatal("connection handler not called")
	}

	// 2. Probe a websocket for the upgrade.
	ctx, cancel := context.WithTimeout(context.Background(), 25*time.Second)
	defer cancel()
	wsURL := "ws" + strings.TrimPrefix(ts.URL, "http") + "/?EIO=4&transport=websocket&sid=" + sid
	conn, _, err := websocket.Dial(ctx, wsURL, nil)
	if err != nil {
		t.Fatal(err)
	}
	defer conn.CloseNow()
	if err := conn.Write(ctx, websocket.MessageText, []byte("2probe")); err != nil {
		t.Fatal(err)
	}
	if _, data, err := conn.Read(ctx); err != nil || string(data) != "3probe" {
		t.Fatalf("probe reply: %q, %v", data, err)
	}

	// 3. The connection ends in the middle of the upgrade: CLOSE over the (still current) polling transport.
	if code := post(base+"&sid="+sid, "1"); code != 200 {
		t.Fatalf("CLOSE: status %d", code)
	}
	select {
	case <-disconnected:
	case <-time.After(5 * time.Second):
		t.Fatal("disconnect handler not called after CLOSE")
	}
	if n := len(srv.Sockets()); n != 0 {
		t.Fatalf("%d sockets left right after the session was closed", n)
	}
	if probe := get(base + "&sid=" + sid); !strings.Contains(probe, `"code":1`) {
		t.Fatalf("old sid should be unknown, got %q", probe)
	}

	// 4. The UPGRADE packet arrives on the probed websocket after the session was closed, followed by a CONNECT.
	conn.Write(ctx, websocket.MessageText, []byte("5"))
	conn.Write(ctx, websocket.MessageText, []byte("40"))

	select {
	case <-connected:
		t.Errorf("a socket was admitted to the namespace through a session that is closed (sid %s is unknown to the server)", sid)
	case <-time.After(1 * time.Second):
	}

	// The candidate transport of a closed session must be closed by the server
	// (at the latest by the upgrade timeout, which is 1 second here).
	readCtx, readCancel := context.WithTimeout(ctx, 4*time.Second)
	for {
		_, _, err = conn.Read(readCtx)
		if err != nil {
			break
		}
	}
	if readCtx.Err() != nil {
		t.Errorf("the websocket probed for a session that is closed is still open 5 seconds later, and the session is attached to it")
	}
	readCancel()

	// 5. The peer goes away. Nothing may be left on the server.
	conn.CloseNow()
	deadline := time.Now().Add(3 * time.Second)
	for len(srv.Sockets()) != 0 && time.Now().Before(deadline) {
		time.Sleep(50 * time.Millisecond)
	}
	mu.Lock()
	defer mu.Unlock()
	if left := srv.Sockets(); len(left) != 0 {
		t.Errorf("%d socket(s) left in the namespace after every transport of the session is gone: connection handler ran %d times, disconnect handler %d times (%v); rooms of the leftover: %v",
			len(left), connections, len(disconnects), disconnects, left[0].Rooms())
	}
}
