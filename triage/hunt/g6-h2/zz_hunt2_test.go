package eio

import (
	"crypto/tls"
	"encoding/json"
	"io"
	"net/http"
	"net/http/httptest"
	"strings"
	"sync"
	"testing"
	"time"

	"github.com/quic-go/quic-go/http3"
)

// Server.ServeHTTP skips the protocol version check, and handleHandshake skips the handshake
// method check, for EVERY request with r.ProtoMajor == 3, not only for the WebTransport
// CONNECT request they were meant for. The server is the handler of the HTTP/3 server
// (webtransport.Server.H3.Handler, see newWebTransportTestServer), so ordinary HTTP/3 requests
// reach it: over HTTP/3 a polling handshake with EIO=3 (or without EIO, or with junk) is
// accepted, and a POST (or PUT, DELETE ...) without sid creates a session.
func TestHunt2(t *testing.T) {
	type result struct {
		status   int
		body     string
		sessions int
		stored   int
	}

	check := func(t *testing.T, name string, r result, wantCode int) {
		t.Helper()
		e := new(ServerError)
		_ = json.Unmarshal([]byte(r.body), e)
		if r.status != http.StatusBadRequest || e.Code != wantCode || e.Message != serverErrors[wantCode].Message {
			t.Errorf("%s: want status 400 and error code %d (%s), got status %d body %q",
				name, wantCode, serverErrors[wantCode].Message, r.status, r.body)
		}
		if r.sessions != 0 || r.stored != 0 {
			t.Errorf("%s: the invalid request created a session: NewSocketCallback calls: %d, sessions in the store: %d",
				name, r.sessions, r.stored)
		}
	}

	cases := []struct {
		name     string
		method   string
		query    string
		body     string
		wantCode int
	}{
		{"GET EIO=3 transport=polling", "GET", "EIO=3&transport=polling", "", ErrorUnsupportedProtocolVersion},
		{"GET EIO absent transport=polling", "GET", "transport=polling", "", ErrorUnsupportedProtocolVersion},
		{"GET EIO=junk transport=polling", "GET", "EIO=junk&transport=polling", "", ErrorUnsupportedProtocolVersion},
		{"POST EIO=4 transport=polling without sid", "POST", "EIO=4&transport=polling", "4hello", ErrorBadHandshakeMethod},
		{"PUT EIO=4 transport=polling without sid", "PUT", "EIO=4&transport=polling", "", ErrorBadHandshakeMethod},
	}

	// Control: the very same requests over HTTP/1.1 are rejected (this part passes).
	t.Run("control HTTP1", func(t *testing.T) {
		for _, c := range cases {
			var (
				mu       sync.Mutex
				sessions int
			)
			srv := NewServer(func(socket ServerSocket) *Callbacks {
				mu.Lock()
				sessions++
				mu.Unlock()
				return nil
			}, nil)
			rec := httptest.NewRecorder()
			req := httptest.NewRequest(c.method, "/engine.io/?"+c.query, strings.NewReader(c.body))
			srv.ServeHTTP(rec, req)
			mu.Lock()
			n := sessions
			mu.Unlock()
			check(t, c.name, result{rec.Code, rec.Body.String(), n, len(srv.store.getAll())}, c.wantCode)
			srv.Close()
		}
	})

	// The same requests, marked as HTTP/3 requests (what http3.Server hands to the handler).
	t.Run("request with ProtoMajor 3", func(t *testing.T) {
		for _, c := range cases {
			var (
				mu       sync.Mutex
				sessions int
			)
			srv := NewServer(func(socket ServerSocket) *Callbacks {
				mu.Lock()
				sessions++
				mu.Unlock()
				return nil
			}, nil)
			rec := httptest.NewRecorder()
			req := httptest.NewRequest(c.method, "/engine.io/?"+c.query, strings.NewReader(c.body))
			req.Proto, req.ProtoMajor, req.ProtoMinor = "HTTP/3.0", 3, 0

			done := make(chan struct{})
			go func() {
				defer close(done)
				srv.ServeHTTP(rec, req)
			}()
			select {
			case <-done:
			case <-time.After(10 * time.Second):
				t.Fatalf("%s: ServeHTTP did not return", c.name)
			}
			mu.Lock()
			n := sessions
			mu.Unlock()
			check(t, c.name, result{rec.Code, rec.Body.String(), n, len(srv.store.getAll())}, c.wantCode)
			srv.Close()
		}
	})

	// End to end: a real HTTP/3 client against the HTTP/3 server that serves WebTransport.
	t.Run("real HTTP3 client", func(t *testing.T) {
		var (
			mu       sync.Mutex
			sessions int
		)
		srv, _, ts, closeAll := newWebTransportTestServer(t, func(socket ServerSocket) *Callbacks {
			mu.Lock()
			sessions++
			mu.Unlock()
			return nil
		}, nil, nil)
		defer closeAll()

		rt := &http3.RoundTripper{TLSClientConfig: &tls.Config{InsecureSkipVerify: true}}
		defer rt.Close()
		client := &http.Client{Transport: rt, Timeout: 10 * time.Second}

		// The HTTP/3 server is started on a goroutine. Wait until it answers (a request with an unknown sid creates nothing).
		deadline := time.Now().Add(10 * time.Second)
		for {
			resp, err := client.Get(ts.URL + "/?EIO=4&transport=polling&sid=nosuchsid")
			if err == nil {
				resp.Body.Close()
				if resp.ProtoMajor != 3 {
					t.Fatalf("not HTTP/3: %s", resp.Proto)
				}
				break
			}
			if time.Now().After(deadline) {
				t.Skipf("HTTP/3 server not reachable: %v", err)
			}
			time.Sleep(100 * time.Millisecond)
		}

		for _, c := range cases {
			mu.Lock()
			before := sessions
			mu.Unlock()
			storedBefore := len(srv.store.getAll())

			req, err := http.NewRequest(c.method, ts.URL+"/?"+c.query, strings.NewReader(c.body))
			if err != nil {
				t.Fatal(err)
			}
			resp, err := client.Do(req)
			if err != nil {
				t.Fatalf("%s: %v", c.name, err)
			}
			body, _ := io.ReadAll(resp.Body)
			resp.Body.Close()

			mu.Lock()
			n := sessions - before
			mu.Unlock()
			check(t, c.name, result{resp.StatusCode, string(body), n, len(srv.store.getAll()) - storedBefore}, c.wantCode)
		}
	})
}
