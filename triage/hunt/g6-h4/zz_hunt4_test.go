package eio

import (
	"net/http/httptest"
	"slices"
	"sync"
	"testing"
	"time"
)

// ClientConfig.Transports is used in place: `connect` re-slices it and the upgrade goroutine
// (`go s.maybeUpgrade(transports, ...)`) "prioritizes webtransport" with
// `append(transports[:i], transports[i+1:]...)`, which shifts the elements INSIDE the caller's
// backing array. With Transports = {"polling", "webtransport", "websocket"} (the library's own
// default order, spelled out by the caller) the caller's slice becomes
// {"polling", "websocket", "websocket"} after the first Dial: "webtransport" is lost for every
// later (re)connection that uses the same config (a Manager re-dials with the same config on each
// reconnection), and concurrent Dials that share the config write the same elements from their
// upgrade goroutines without synchronization (go test -race reports it).
func TestHunt4(t *testing.T) {
	srv := NewServer(nil, nil)
	if err := srv.Run(); err != nil {
		t.Fatal(err)
	}
	ts := httptest.NewServer(srv)
	defer ts.Close()
	defer srv.Close()

	const n = 4

	var upgrades sync.WaitGroup
	upgrades.Add(n)

	want := []string{"polling", "webtransport", "websocket"}
	config := &ClientConfig{
		Transports:  slices.Clone(want),
		UpgradeDone: func(transportName string) { upgrades.Done() },
	}

	var dials sync.WaitGroup
	for i := 0; i < n; i++ {
		dials.Add(1)
		go func() {
			defer dials.Done()
			socket, err := Dial(ts.URL, nil, config)
			if err != nil {
				t.Error(err)
				upgrades.Done()
				return
			}
			_ = socket
		}()
	}
	dials.Wait()

	done := make(chan struct{})
	go func() { upgrades.Wait(); close(done) }()
	select {
	case <-done:
	case <-time.After(20 * time.Second):
		t.Fatal("timeout: connections were not upgraded")
	}

	if !slices.Equal(config.Transports, want) {
		t.Errorf("the caller's ClientConfig.Transports was rewritten by the library: it is now %q, the caller had set %q", config.Transports, want)
	}
}
