package sio

import (
	"net/http"
	"net/http/httptest"
	"sync"
	"sync/atomic"
	"testing"
	"time"

	eio "github.com/karagenc/socket.io-go/engine.io"
	"nhooyr.io/websocket"
)

// Several Managers are created from one ManagerConfig (as a program that opens many client
// connections does) and are connected at the same time. ManagerConfig.EIO.WebSocketDialOptions
// is a pointer, so all of them share the caller's websocket.DialOptions. The websocket client
// transport stores its request header INTO that struct (`t.dialOptions.HTTPHeader = ...`) right
// before it dials, on the upgrade goroutine of each connection (`go s.maybeUpgrade`), while the
// dial of another connection reads the same struct: a data race on memory the caller owns
// (go test -race reports it), and the caller's DialOptions.HTTPHeader is silently replaced.
//
// Without -race the test fails on the second symptom (deterministic). With -race it also fails
// with "race detected during execution of test".
func TestHunt3(t *testing.T) {
	io := NewServer(&ServerConfig{
		EIO: eio.ServerConfig{
			WebSocketAcceptOptions: &websocket.AcceptOptions{CompressionMode: websocket.CompressionDisabled},
		},
	})
	if err := io.Run(); err != nil {
		t.Fatal(err)
	}
	io.OnConnection(func(socket ServerSocket) {})

	// Count the websocket upgrade requests, and those which carry the header the user configured.
	var wsRequests, wsRequestsWithHeader atomic.Int32
	ts := httptest.NewServer(http.HandlerFunc(func(w http.ResponseWriter, r *http.Request) {
		if r.URL.Query().Get("transport") == "websocket" {
			wsRequests.Add(1)
			if r.Header.Get("X-Token") == "abc" {
				wsRequestsWithHeader.Add(1)
			}
		}
		io.ServeHTTP(w, r)
	}))
	defer ts.Close()
	defer io.Close()

	const n = 8

	var upgrades sync.WaitGroup
	upgrades.Add(n)

	userHeader := http.Header{"X-Token": []string{"abc"}}
	dialOptions := &websocket.DialOptions{
		CompressionMode: websocket.CompressionDisabled,
		HTTPHeader:      userHeader,
	}
	config := &ManagerConfig{
		EIO: eio.ClientConfig{
			WebSocketDialOptions: dialOptions,
			UpgradeDone:          func(transportName string) { upgrades.Done() },
		},
	}

	var connects sync.WaitGroup
	connects.Add(n)
	managers := make([]*Manager, n)
	for i := range managers {
		managers[i] = NewManager(ts.URL, config)
		socket := managers[i].Socket("/", nil)
		socket.OnceConnect(func() { connects.Done() })
	}
	defer func() {
		for _, m := range managers {
			m.Close()
		}
	}()

	// Connect all of them at once.
	start := make(chan struct{})
	for _, m := range managers {
		m := m
		go func() {
			<-start
			m.Socket("/", nil).Connect()
		}()
	}
	close(start)

	wait := func(wg *sync.WaitGroup, what string) {
		done := make(chan struct{})
		go func() { wg.Wait(); close(done) }()
		select {
		case <-done:
		case <-time.After(20 * time.Second):
			t.Fatalf("timeout: %s", what)
		}
	}
	wait(&connects, "sockets did not connect")
	wait(&upgrades, "connections were not upgraded")

	// The library must not write into the caller's DialOptions (it does so from the upgrade goroutines, unsynchronized).
	if got := dialOptions.HTTPHeader.Get("X-Token"); got != "abc" {
		t.Errorf("the caller's websocket.DialOptions was written by the library: HTTPHeader is now %v, the caller had set %v",
			dialOptions.HTTPHeader, userHeader)
	}
	if wsRequests.Load() != wsRequestsWithHeader.Load() {
		t.Errorf("%d websocket requests were made, only %d of them carry the header of the caller's DialOptions",
			wsRequests.Load(), wsRequestsWithHeader.Load())
	}
}
