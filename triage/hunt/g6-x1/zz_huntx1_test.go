package sio

import (
	"net/http/httptest"
	"testing"
	"time"
)

// OUTSIDE the listed properties (found by the way, while stress testing for C16).
//
// With connection state recovery enabled on the server, the client has a pid after its first
// connection. From then on every CONNECT packet goes through the `pid` branch of
// clientSocket.sendConnectPacket, which merges the auth data with `structs.New(&authData)`.
// `authData` is of type `any`, so `&authData` is a *any: structs.New dereferences the pointer,
// finds an interface (not a struct) and panics with "not struct" - for EVERY non-nil auth value
// (struct, pointer to struct, map), i.e. whenever SetAuth / ClientSocketConfig.Auth is used.
//
// On an automatic reconnection this runs on a goroutine of the library (Manager.openHandlers,
// forEach(..., concurrent=true)): nobody recovers, the whole process dies. Here the panic is
// provoked on the goroutine of the caller (Connect while the Manager is still connected because
// of another active socket), so that the test can recover it.
func TestHuntX1(t *testing.T) {
	io := NewServer(&ServerConfig{
		ServerConnectionStateRecovery: ServerConnectionStateRecovery{Enabled: true},
	})
	if err := io.Run(); err != nil {
		t.Fatal(err)
	}
	io.OnConnection(func(socket ServerSocket) {})
	io.Of("/b").OnConnection(func(socket ServerSocket) {})
	ts := httptest.NewServer(io)

	manager := NewManager(ts.URL, nil)
	defer func() {
		go func() {
			manager.Close()
			io.Close()
			ts.Close()
		}()
	}()

	type auth struct {
		Token string `json:"token"`
	}
	a := manager.Socket("/", &ClientSocketConfig{Auth: auth{Token: "abc"}})
	b := manager.Socket("/b", nil) // Keeps the Manager connected while `a` is disconnected.

	wait := func(s ClientSocket) {
		c := make(chan struct{})
		s.OnceConnect(func() { close(c) })
		s.Connect()
		select {
		case <-c:
		case <-time.After(10 * time.Second):
			t.Fatal("timeout: socket did not connect")
		}
	}
	wait(a)
	wait(b)

	if _, ok := a.(*clientSocket).pid(); !ok {
		t.Fatal("no pid: recovery is not enabled?")
	}

	a.Disconnect()
	time.Sleep(200 * time.Millisecond)

	reconnected := make(chan struct{})
	a.OnceConnect(func() { close(reconnected) })

	func() {
		defer func() {
			if r := recover(); r != nil {
				t.Errorf("Connect panicked: %v (sendConnectPacket: structs.New(&authData) on a *any)", r)
			}
		}()
		a.Connect()
	}()

	select {
	case <-reconnected:
	case <-time.After(5 * time.Second):
		t.Errorf("the socket with auth data did not reconnect to a server with connection state recovery")
	}
}
