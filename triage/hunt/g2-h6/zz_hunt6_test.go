package sio

import (
	"fmt"
	"testing"
	"time"
)

// C18: "Handlers registered with an On method run for every matching occurrence until removed".
// (and C12: a middleware can gate a namespace only if it can be installed before the first socket is admitted)
//
// A namespace can come into being in two places: Server.Of and, with AcceptAnyNamespace, the CONNECT
// packet of a client (serverConn.connect). Only the first one tells the OnNewNamespace handlers.
func TestHunt6(t *testing.T) {
	io, _, manager, close := newTestServerAndClient(t, &ServerConfig{AcceptAnyNamespace: true}, nil)
	defer close()

	created := make(chan string, 8)
	io.OnNewNamespace(func(namespace *Namespace) {
		// The place to set up a namespace that the server did not create itself.
		namespace.Use(func(socket ServerSocket, handshake *Handshake) any {
			return fmt.Errorf("members only")
		})
		created <- namespace.Name()
	})

	// The handlers do run for a namespace that is created with Of.
	io.Of("/static")
	select {
	case name := <-created:
		if name != "/static" {
			t.Fatalf("unexpected namespace %s", name)
		}
	case <-time.After(5 * time.Second):
		t.Fatal("OnNewNamespace handler did not run for Of")
	}

	result := make(chan string, 8)
	socket := manager.Socket("/dynamic", nil)
	socket.OnConnect(func() { result <- "connected" })
	socket.OnConnectError(func(err any) { result <- fmt.Sprint("connect_error: ", err) })
	socket.Connect()

	select {
	case r := <-result:
		t.Logf("client: %s", r)
	case <-time.After(10 * time.Second):
		t.Fatal("neither connect nor connect_error")
	}

	select {
	case name := <-created:
		if name != "/dynamic" {
			t.Errorf("unexpected namespace %s", name)
		}
	case <-time.After(2 * time.Second):
		_, exists := io.namespaces.get("/dynamic")
		t.Errorf("namespace /dynamic was created by a client (exists: %t), the OnNewNamespace handler did not run", exists)
	}
}
