package sio

import (
	"fmt"
	"sync/atomic"
	"testing"
	"time"
)

// Outside the three listed properties (closest: C12, "the client receives CONNECT_ERROR carrying that
// rejection" - observed at "client connect / connect_error events").
//
// After a namespace middleware has rejected the socket, the client socket stays in the state "CONNECT sent,
// waiting for the reply" forever: Connect (and the manager's open handler) then never send CONNECT again.
// The documented way to recover from a rejection - fix the credentials in the connect_error handler and
// call Connect again - does nothing.
func TestHunt8(t *testing.T) {
	run := func(t *testing.T, keepManagerOpen bool) {
		io, _, manager, close := newTestServerAndClient(t, nil, nil)
		defer close()

		var middlewareCalls atomic.Int32
		io.Use(func(socket ServerSocket, handshake *Handshake) any {
			middlewareCalls.Add(1)
			if string(handshake.Auth) != `{"token":"good"}` {
				return fmt.Errorf("bad token")
			}
			return nil
		})

		if keepManagerOpen {
			// Another socket of the same manager: the connection stays open when "/" is rejected.
			io.Of("/other")
			other := manager.Socket("/other", nil)
			otherConnected := make(chan struct{}, 1)
			other.OnConnect(func() { otherConnected <- struct{}{} })
			other.Connect()
			select {
			case <-otherConnected:
			case <-time.After(10 * time.Second):
				t.Fatal("/other did not connect")
			}
		}

		socket := manager.Socket("/", nil)
		socket.SetAuth(map[string]any{"token": "bad"})
		connected := make(chan struct{}, 1)
		socket.OnConnect(func() { connected <- struct{}{} })
		socket.OnConnectError(func(err any) {
			socket.SetAuth(map[string]any{"token": "good"})
			socket.Connect()
		})
		socket.Connect()

		select {
		case <-connected:
		case <-time.After(5 * time.Second):
			t.Errorf("the socket did not connect with the good token within 5 s; the middleware ran %d time(s), expected 2", middlewareCalls.Load())
		}
	}
	t.Run("only socket of the manager", func(t *testing.T) { run(t, false) })
	t.Run("manager kept open by another socket", func(t *testing.T) { run(t, true) })
}
