package sio

import (
	"context"
	"encoding/json"
	"fmt"
	"io"
	"net/http"
	"net/http/httptest"
	"strings"
	"testing"
	"time"
)

// Raw Engine.IO v4 polling peer. One background goroutine long-polls and hands every
// Socket.IO packet (Engine.IO message type stripped) to a channel; close() ends the session
// with an Engine.IO CLOSE packet, which also releases the pending poll. Nothing waits unbounded.
type hunt5Peer struct {
	t       *testing.T
	ts      *httptest.Server
	sid     string
	packets chan string
	seen    []string
}

func hunt5Do(t *testing.T, method, url, body string, timeout time.Duration) (string, int, error) {
	ctx, cancel := context.WithTimeout(context.Background(), timeout)
	defer cancel()
	var rd io.Reader
	if body != "" {
		rd = strings.NewReader(body)
	}
	req, err := http.NewRequestWithContext(ctx, method, url, rd)
	if err != nil {
		return "", 0, err
	}
	resp, err := http.DefaultClient.Do(req)
	if err != nil {
		return "", 0, err
	}
	defer resp.Body.Close()
	b, err := io.ReadAll(resp.Body)
	return string(b), resp.StatusCode, err
}

func hunt5Open(t *testing.T, ts *httptest.Server) *hunt5Peer {
	body, status, err := hunt5Do(t, "GET", ts.URL+"/?EIO=4&transport=polling", "", 5*time.Second)
	if err != nil || status != 200 {
		t.Fatalf("eio handshake: %v %d", err, status)
	}
	var m struct {
		SID string `json:"sid"`
	}
	if err := json.Unmarshal([]byte(body[1:]), &m); err != nil {
		t.Fatal(err)
	}
	p := &hunt5Peer{t: t, ts: ts, sid: m.SID, packets: make(chan string, 64)}
	go func() {
		defer close(p.packets)
		for {
			body, status, err := hunt5Do(t, "GET", p.url(), "", 28*time.Second)
			if err != nil || status != 200 {
				return
			}
			for _, pkt := range strings.Split(body, "\x1e") {
				if len(pkt) == 0 {
					continue
				}
				switch pkt[0] {
				case '4':
					p.packets <- pkt[1:]
				case '2':
					go hunt5Do(t, "POST", p.url(), "3", 5*time.Second)
				case '1':
					return
				}
			}
		}
	}()
	return p
}

func (p *hunt5Peer) url() string {
	return p.ts.URL + "/?EIO=4&transport=polling&sid=" + p.sid
}

func (p *hunt5Peer) push(body string) {
	_, status, err := hunt5Do(p.t, "POST", p.url(), body, 5*time.Second)
	if err != nil || status != 200 {
		p.t.Fatalf("push %q: %v %d", body, err, status)
	}
}

func (p *hunt5Peer) close() {
	hunt5Do(p.t, "POST", p.url(), "1", 5*time.Second)
}

// Waits until a Socket.IO packet with the given prefix shows up or the duration passes.
// Everything received is appended to p.seen.
func (p *hunt5Peer) waitFor(prefix string, d time.Duration) (found string) {
	timer := time.NewTimer(d)
	defer timer.Stop()
	for {
		select {
		case pkt, ok := <-p.packets:
			if !ok {
				return ""
			}
			p.seen = append(p.seen, pkt)
			if strings.HasPrefix(pkt, prefix) {
				return pkt
			}
		case <-timer.C:
			return ""
		}
	}
}

// RestoreSession hands out a persisted session without consuming it. After a successful recovery
// the old record (socket id, pid, the rooms at the time of the FIRST disconnection) stays in the
// adapter until it expires. If the recovered socket is then disconnected on purpose (the server
// kicks it: "server namespace disconnect", deliberately not a recoverable reason, nothing is
// persisted), the client can still present its pid and is "recovered" once more, from the stale
// record: same socket id, recovered == true, back in the rooms it had left, and it is sent what
// was broadcast to those rooms.
func TestHunt5(t *testing.T) {
	server := NewServer(&ServerConfig{
		ServerConnectionStateRecovery: ServerConnectionStateRecovery{Enabled: true},
	})
	if err := server.Run(); err != nil {
		t.Fatal(err)
	}
	ts := httptest.NewServer(server)
	var peers []*hunt5Peer
	defer func() {
		for _, p := range peers {
			p.close()
		}
		server.Close()
		ts.CloseClientConnections()
		ts.Close()
	}()

	sockets := make(chan ServerSocket, 4)
	disconnected := make(chan Reason, 4)
	server.OnConnection(func(socket ServerSocket) {
		if !socket.Recovered() {
			socket.Join("room1")
		}
		socket.OnDisconnect(func(reason Reason) { disconnected <- reason })
		sockets <- socket
	})
	nextSocket := func() ServerSocket {
		t.Helper()
		select {
		case s := <-sockets:
			return s
		case <-time.After(5 * time.Second):
			t.Fatal("no connection event")
			return nil
		}
	}
	nextDisconnect := func() Reason {
		t.Helper()
		select {
		case r := <-disconnected:
			return r
		case <-time.After(5 * time.Second):
			t.Fatal("no disconnect event")
			return ""
		}
	}
	type idsT struct {
		SID string `json:"sid"`
		PID string `json:"pid"`
	}
	parseConnect := func(pkt string) (ids idsT) {
		t.Helper()
		if pkt == "" || json.Unmarshal([]byte(pkt[1:]), &ids) != nil || ids.PID == "" {
			t.Fatalf("CONNECT reply %q", pkt)
		}
		return
	}

	// First life: fresh session, room1, one packet for the offset.
	p1 := hunt5Open(t, ts)
	p1.push("40")
	ids := parseConnect(p1.waitFor("0", 5*time.Second))
	first := nextSocket()
	for deadline := time.Now().Add(2 * time.Second); !first.Rooms().Contains("room1") && time.Now().Before(deadline); {
		time.Sleep(10 * time.Millisecond)
	}
	server.Emit("hello")
	hello := p1.waitFor(`2["hello"`, 5*time.Second)
	var args []string
	if hello == "" || json.Unmarshal([]byte(hello[1:]), &args) != nil || len(args) != 2 {
		t.Fatalf("hello packet %q", hello)
	}
	offset := args[1]
	p1.close() // transport close: recoverable, the session is persisted
	if r := nextDisconnect(); r != ReasonTransportClose {
		t.Fatalf("first disconnect reason %q", r)
	}

	// Second life: recovered, as it should be.
	auth := fmt.Sprintf(`{"pid":%q,"offset":%q}`, ids.PID, offset)
	p2 := hunt5Open(t, ts)
	peers = append(peers, p2)
	p2.push("40" + auth)
	if got := parseConnect(p2.waitFor("0", 5*time.Second)); got != ids {
		t.Fatalf("second life not recovered: %v, want %v", got, ids)
	}
	second := nextSocket()
	if !second.Recovered() || !second.Rooms().Contains("room1") {
		t.Fatalf("second life: recovered=%v rooms=%v", second.Recovered(), second.Rooms())
	}
	// The application moves the socket to another room and later throws it out.
	second.Leave("room1")
	second.Join("room2")
	second.Disconnect(false)
	if r := nextDisconnect(); r != ReasonServerNamespaceDisconnect {
		t.Fatalf("second disconnect reason %q", r)
	}
	if recoverableDisconnectReasons.Contains(ReasonServerNamespaceDisconnect) {
		t.Fatal("test assumption: a server side disconnect is not recoverable")
	}
	if p2.waitFor("1", 5*time.Second) == "" {
		t.Fatal("client did not get the DISCONNECT packet")
	}
	server.To("room1").Emit("for-room1") // nobody is in room1 now

	// The client connects to the namespace again (same Engine.IO connection, same pid and offset).
	// Its session ended with a non-recoverable disconnection; nothing was persisted for it.
	mark := len(p2.seen)
	p2.push("40" + auth)
	got := parseConnect(p2.waitFor("0", 5*time.Second))
	third := nextSocket()
	p2.waitFor("\x00", 300*time.Millisecond) // stragglers
	var replayed []string
	for _, pkt := range p2.seen[mark:] {
		if strings.HasPrefix(pkt, `2["`) {
			replayed = append(replayed, pkt)
		}
	}

	if got == ids || third.Recovered() {
		t.Errorf("a session that was ended by the server (reason %q, not recoverable) was recovered: CONNECT reply %+v (first session %+v), ServerSocket.Recovered()=%v",
			ReasonServerNamespaceDisconnect, got, ids, third.Recovered())
	}
	if third.Rooms().Contains("room1") && third.Recovered() {
		t.Errorf("the socket is back in room1, which it had left before it was disconnected (rooms at the last disconnection: {%s, room2}); Rooms() = %v", ids.SID, third.Rooms())
	}
	if len(replayed) != 0 {
		t.Errorf("packets replayed from the stale session: %v", replayed)
	}
}
