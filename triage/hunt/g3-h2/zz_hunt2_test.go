package sio

import (
	"fmt"
	"net/http"
	"net/http/httptest"
	"strings"
	"sync/atomic"
	"testing"
	"time"

	eio "github.com/karagenc/socket.io-go/engine.io"
	"nhooyr.io/websocket"
)

// The Go client cannot take part in connection state recovery at all.
//
//  1. Once it has a pid, sendConnectPacket builds the CONNECT payload as a map and hands the map
//     itself (not a pointer) to Parser.Encode, which rejects it ("the argument must be a pointer").
//     The CONNECT packet is never sent: after the first loss of the transport the client reopens
//     the Engine.IO connection and then sits there without ever joining the namespace again
//     (until the server's connect timeout closes the connection, and so on forever).
//  2. If auth data is set as well, structs.New(&authData) gets a *interface{} and panics
//     ("not struct"), for a struct, a pointer to a struct and a map alike.
//  3. (Shows once 1 is repaired.) Recovered() is only ever set to true: after one recovery
//     every later session is reported as recovered, also a brand new one.
func TestHunt2(t *testing.T) {
	t.Run("CONNECT with pid, offset and auth", func(t *testing.T) {
		type auth struct {
			Token string `json:"token"`
		}
		for name, authData := range map[string]any{
			"none":   nil,
			"struct": &auth{Token: "secret"},
			"map":    map[string]any{"token": "secret"},
		} {
			m := NewManager("http://127.0.0.1:1", nil)
			s := m.socket("/", &ClientSocketConfig{Auth: authData})
			s.setPID("the-pid")
			s.setLastOffset("the-offset")
			sent := make(chan string, 1)
			s.sendBuffers = func(volatile, forceSend bool, ackID *uint64, buffers ...[]byte) {
				sent <- string(buffers[0])
			}
			m.OnError(func(err error) { sent <- "ERROR: " + err.Error() })
			func() {
				defer func() {
					if r := recover(); r != nil {
						sent <- fmt.Sprint("PANIC: ", r)
					}
				}()
				s.sendConnectPacket(s.Auth())
			}()
			select {
			case packet := <-sent:
				ok := strings.HasPrefix(packet, "0{") && strings.Contains(packet, `"pid":"the-pid"`) &&
					strings.Contains(packet, `"offset":"the-offset"`) &&
					(authData == nil || strings.Contains(packet, `"token":"secret"`))
				if !ok {
					t.Errorf("auth=%s: CONNECT packet of a socket that has a pid: %s", name, packet)
				}
			case <-time.After(3 * time.Second):
				t.Errorf("auth=%s: nothing sent", name)
			}
		}
	})
	t.Run("reconnect against a server with recovery enabled", hunt2Reconnect)
}

func hunt2Reconnect(t *testing.T) {
	newServer := func() *Server {
		s := NewServer(&ServerConfig{
			ServerConnectionStateRecovery: ServerConnectionStateRecovery{Enabled: true},
			EIO: eio.ServerConfig{
				WebSocketAcceptOptions: &websocket.AcceptOptions{CompressionMode: websocket.CompressionDisabled},
			},
		})
		if err := s.Run(); err != nil {
			t.Fatal(err)
		}
		return s
	}

	connections := make(chan ServerSocket, 8)
	setup := func(s *Server) {
		s.OnConnection(func(socket ServerSocket) {
			connections <- socket
		})
	}

	serverA := newServer()
	setup(serverA)
	var current atomic.Pointer[Server]
	current.Store(serverA)

	ts := httptest.NewServer(http.HandlerFunc(func(w http.ResponseWriter, r *http.Request) {
		current.Load().ServeHTTP(w, r)
	}))
	var serverB *Server
	defer func() {
		serverA.Close()
		if serverB != nil {
			serverB.Close()
		}
		ts.CloseClientConnections()
		ts.Close()
	}()

	delay := 50 * time.Millisecond
	factor := float32(0)
	manager := NewManager(ts.URL, &ManagerConfig{
		ReconnectionDelay:    &delay,
		ReconnectionDelayMax: &delay,
		RandomizationFactor:  &factor,
		EIO: eio.ClientConfig{
			WebSocketDialOptions: &websocket.DialOptions{CompressionMode: websocket.CompressionDisabled},
		},
	})
	defer manager.Close()

	socket := manager.Socket("/", nil)
	connects := make(chan struct{}, 8)
	socket.OnConnect(func() { connects <- struct{}{} })
	// The client only sees the offset that the server appends if the handler declares a trailing
	// string for it (and then does not call the handler: known). That is enough to get an offset
	// recorded through the public API; this test is not about that.
	socket.OnEvent("hello", func(offset string) {})
	manager.OnReconnect(func(n uint32) { t.Log("client: manager reconnected, attempt", n) })
	manager.OnError(func(err error) {
		if !strings.Contains(err.Error(), "too few input arguments") { // the `hello` handler, see below
			t.Log("client: manager error:", err)
		}
	})
	socket.Connect()

	wait := func(what string, c <-chan struct{}) {
		t.Helper()
		select {
		case <-c:
		case <-time.After(10 * time.Second):
			t.Fatalf("timed out waiting for %s", what)
		}
	}
	nextServerSocket := func() ServerSocket {
		t.Helper()
		select {
		case s := <-connections:
			return s
		case <-time.After(10 * time.Second):
			t.Fatal("timed out waiting for a connection on the server")
			return nil
		}
	}

	// Session 1: fresh.
	wait("connect #1", connects)
	ss1 := nextServerSocket()
	sid1 := socket.ID()
	if socket.Recovered() || ss1.Recovered() {
		t.Fatalf("session 1: recovered client=%v server=%v, want false", socket.Recovered(), ss1.Recovered())
	}
	serverA.Emit("hello") // gives the client an offset
	for deadline := time.Now().Add(5 * time.Second); ; time.Sleep(10 * time.Millisecond) {
		if offset, _ := socket.(*clientSocket).lastOffset(); offset != "" {
			break
		} else if time.Now().After(deadline) {
			t.Fatal("client did not record the offset of `hello`")
		}
	}

	// The transport breaks (recoverable); the client reconnects and IS recovered.
	ss1.(*serverSocket).conn.eio.Close()
	wait("connect #2", connects)
	ss2 := nextServerSocket()
	if !ss2.Recovered() || !socket.Recovered() || socket.ID() != sid1 {
		t.Fatalf("session 2: recovered client=%v server=%v id=%s (was %s), want a recovered session",
			socket.Recovered(), ss2.Recovered(), socket.ID(), sid1)
	}

	// The transport breaks again, and this time the client ends up at a server process that has
	// never heard of its session (a restart, another node, or simply the recovery window elapsed).
	serverB = newServer()
	setup(serverB)
	current.Store(serverB)
	ss2.(*serverSocket).conn.eio.Close()
	wait("connect #3", connects)
	ss3 := nextServerSocket()

	if ss3.Recovered() {
		t.Fatalf("session 3: server B claims to have recovered a session it cannot know")
	}
	if ss3.ID() == sid1 || socket.ID() == sid1 {
		t.Fatalf("session 3: socket id %s/%s is the old one", ss3.ID(), socket.ID())
	}
	if socket.ID() != ss3.ID() {
		t.Fatalf("session 3: client id %s, server id %s", socket.ID(), ss3.ID())
	}
	// New sid, new pid, nothing replayed: this session was not recovered.
	if socket.Recovered() {
		t.Errorf("session 3 is a fresh session (server: Recovered()=false, new id %s instead of %s) but the client reports Recovered()=true",
			socket.ID(), sid1)
	}
}
