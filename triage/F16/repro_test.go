package sio

import (
	"testing"
	"time"

	eio "github.com/karagenc/socket.io-go/engine.io"
	"github.com/karagenc/socket.io-go/internal/sync"
)

// F16: the underlying connection closes while a (slow) namespace middleware is still running.
// serverConn.onClose has then already drained c.sockets (once), and afterwards
// Namespace.doConnect still registers the socket in the namespace, joins its own room and
// marks it connected. Nobody ever closes that socket: it stays in Namespace.Sockets() and
// in its room forever, and its disconnect handlers never run.
func TestTriageF16(t *testing.T) {
	io, _, manager, closeAll := newTestServerAndClient(
		t,
		nil,
		&ManagerConfig{
			NoReconnection: true,
			EIO: eio.ClientConfig{
				// So that the server notices the closure of the connection immediately.
				Transports: []string{"websocket"},
			},
		},
	)
	defer closeAll()

	var (
		entered = make(chan struct{})
		release = make(chan struct{})

		mu            sync.Mutex
		connected     []SocketID
		disconnected  []SocketID
		enteredOnce   sync.Once
		mwReturnedCh  = make(chan struct{})
		mwReturnedOne sync.Once
	)

	io.Use(func(socket ServerSocket, handshake *Handshake) any {
		enteredOnce.Do(func() { close(entered) })
		select {
		case <-release:
		case <-time.After(15 * time.Second):
		}
		defer mwReturnedOne.Do(func() { close(mwReturnedCh) })
		return nil
	})
	io.OnConnection(func(socket ServerSocket) {
		mu.Lock()
		connected = append(connected, socket.ID())
		mu.Unlock()
		socket.OnDisconnect(func(reason Reason) {
			mu.Lock()
			disconnected = append(disconnected, socket.ID())
			mu.Unlock()
		})
	})

	socket := manager.Socket("/", nil)
	socket.Connect()

	select {
	case <-entered:
	case <-time.After(10 * time.Second):
		t.Fatal("middleware was not entered")
	}

	// The client goes away while the middleware is still running.
	manager.Close()
	// Let the server notice.
	time.Sleep(1 * time.Second)
	close(release)

	select {
	case <-mwReturnedCh:
	case <-time.After(10 * time.Second):
		t.Fatal("middleware did not return")
	}

	// Eventually there must not be any socket left in the namespace.
	deadline := time.Now().Add(4 * time.Second)
	n := -1
	for time.Now().Before(deadline) {
		n = len(io.Sockets())
		mu.Lock()
		nConnected, nDisconnected := len(connected), len(disconnected)
		mu.Unlock()
		if n == 0 && nConnected == nDisconnected {
			break
		}
		time.Sleep(50 * time.Millisecond)
	}

	mu.Lock()
	defer mu.Unlock()
	if n != 0 {
		rooms := map[SocketID][]Room{}
		for _, s := range io.Sockets() {
			rooms[s.ID()] = s.Rooms().ToSlice()
		}
		t.Errorf("F16: the connection was closed during the middleware, but %d socket(s) remain in Namespace.Sockets() (Connected/rooms: %v)", n, rooms)
	}
	if len(connected) != len(disconnected) {
		t.Errorf("F16: connection handlers ran for %v but disconnect handlers ran only for %v", connected, disconnected)
	}
}
