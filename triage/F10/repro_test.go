package webtransport

import (
	"bytes"
	"encoding/binary"
	"errors"
	"io"
	"runtime"
	"testing"
	"testing/iotest"

	"github.com/karagenc/socket.io-go/engine.io/parser"
)

// F10: the length announced in a peer's frame header is used for
// make([]byte, len) (parser.DecodeWithLen) before MaxBufferSize is consulted;
// the limitedReader compares the size of ONE Read call with the limit instead
// of the size of the frame, and with limit 0 ("no limit") rejects every read.
//
// The server's read path is (*ServerTransport).nextPacket(), which reads from
// t.limitedReader built with t.readLimit (see Handshake). It is driven here
// with an in-memory reader instead of a WebTransport stream.
func TestTriageF10(t *testing.T) {
	serverRead := func(r io.Reader, limit int64) (*parser.Packet, error) {
		st := &ServerTransport{readLimit: limit}
		st.limitedReader = newLimitedReader(r, st.readLimit)
		return st.nextPacket()
	}

	frame := func(isBinary bool, payloadLen int) []byte {
		p, err := parser.NewPacket(parser.PacketTypeMessage, isBinary, bytes.Repeat([]byte{'x'}, payloadLen))
		if err != nil {
			t.Fatal(err)
		}
		var buf bytes.Buffer
		if err := send(&buf, p); err != nil {
			t.Fatal(err)
		}
		return buf.Bytes()
	}

	// (a) A header alone that announces far more than the limit must be
	// rejected with the limit error, before anything is allocated for it.
	// 16-bit length form: announces 65535 bytes, limit is 1000.
	hdr16 := []byte{126 | 0x80, 0xff, 0xff}
	_, err := serverRead(bytes.NewReader(hdr16), 1000)
	if !errors.Is(err, ErrLimitReached) {
		t.Errorf("header announcing 65535 bytes with limit 1000: got error %v, want %v (the limit is not applied to the announced length)", err, ErrLimitReached)
	}

	// 64-bit length form announcing 2^28 bytes. Two encodings are tried so that
	// the check does not depend on F09 (the 8-byte length being read as its
	// high 32 bits): 2^28 as written by send(), and 2^28 in the high half.
	for _, n := range []uint64{1 << 28, 1 << 60} {
		hdr := make([]byte, 9)
		hdr[0] = 127 | 0x80
		binary.BigEndian.PutUint64(hdr[1:], n)

		var before, after runtime.MemStats
		runtime.GC()
		runtime.ReadMemStats(&before)
		_, err := serverRead(bytes.NewReader(hdr), 1000)
		runtime.ReadMemStats(&after)
		allocated := after.TotalAlloc - before.TotalAlloc

		if allocated > 1<<20 {
			t.Errorf("9-byte header with length field %#x, limit 1000: %d MiB allocated for the announced payload before failing with %q",
				n, allocated>>20, err)
		}
	}

	// (b) The limit is per frame, not per Read call: a 1500 byte frame must be
	// rejected with limit 1000 even if it trickles in one byte at a time.
	_, err = serverRead(iotest.OneByteReader(bytes.NewReader(frame(false, 1500))), 1000)
	if !errors.Is(err, ErrLimitReached) {
		t.Errorf("1501 byte frame delivered in 1 byte reads with limit 1000: got error %v, want %v", err, ErrLimitReached)
	}

	// (c) limit 0 means "no limit" (DisableMaxBufferSize), not "reject everything".
	// (io.ReadFull drops the reader's error when a single Read call fills the
	// buffer, so the rejection only shows when the payload arrives in pieces,
	// as it does on a real stream.)
	for _, n := range []int{5, 200, 60000} {
		for name, wrap := range map[string]func(io.Reader) io.Reader{
			"whole":     func(r io.Reader) io.Reader { return r },
			"in halves": iotest.HalfReader,
		} {
			p, err := serverRead(wrap(bytes.NewReader(frame(true, n))), 0)
			if err != nil {
				t.Errorf("limit 0 (disabled), %d byte frame delivered %s: rejected with %v", n, name, err)
			} else if len(p.Data) != n {
				t.Errorf("limit 0 (disabled), %d byte frame delivered %s: got %d bytes", n, name, len(p.Data))
			}
		}
	}

	// (d) Frames within the limit keep being accepted, frame after frame on the
	// same stream (the accounting must not accumulate across frames), including
	// a frame of exactly the limit.
	var stream bytes.Buffer
	sizes := []int{600, 600, 999, 1000, 1, 600}
	for _, n := range sizes {
		stream.Write(frame(true, n))
	}
	st := &ServerTransport{readLimit: 1000}
	st.limitedReader = newLimitedReader(&stream, st.readLimit)
	for i, n := range sizes {
		p, err := st.nextPacket()
		if err != nil {
			t.Fatalf("limit 1000, frame #%d of %d bytes: %v", i, n, err)
		}
		if len(p.Data) != n {
			t.Fatalf("limit 1000, frame #%d: got %d bytes, want %d", i, len(p.Data), n)
		}
	}
	// One byte over the limit is rejected.
	_, err = serverRead(bytes.NewReader(frame(true, 1001)), 1000)
	if !errors.Is(err, ErrLimitReached) {
		t.Errorf("1001 byte frame with limit 1000: got error %v, want %v", err, ErrLimitReached)
	}
}
