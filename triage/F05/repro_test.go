package jsonparser

import (
	"fmt"
	"testing"

	"github.com/karagenc/socket.io-go/parser"
	"github.com/karagenc/socket.io-go/parser/json/serializer/stdjson"
)

// F05: a packet whose namespace is not terminated by a comma (e.g. "0/abc")
// must not panic inside parseHeader.
func TestTriageF05(t *testing.T) {
	type result struct {
		panicked any
		err      error
		finished bool
		ns       string
		payload  string
	}

	add := func(frame string) (res result) {
		p := NewCreator(0, stdjson.New())().(*Parser)
		defer func() {
			if r := recover(); r != nil {
				res.panicked = r
			}
		}()
		// Use parseHeader's buf through Add: finish only gives us the header,
		// so also call parseHeader directly for the payload.
		res.err = p.Add([]byte(frame), func(header *parser.PacketHeader, eventName string, decode parser.Decode) {
			res.finished = true
			res.ns = header.Namespace
		})
		if res.err == nil {
			_, buf, _, err := p.parseHeader([]byte(frame))
			if err != nil {
				res.err = err
			}
			res.payload = string(buf)
		}
		return
	}

	// Unterminated namespace: must not panic. Either an error is returned, or
	// the packet is delivered with the namespace "/abc" and an empty payload.
	for _, frame := range []string{"0/abc", "2/abc", "1/abc", "0/"} {
		res := add(frame)
		if res.panicked != nil {
			t.Errorf("frame %q: Parser.Add panicked: %v", frame, res.panicked)
			continue
		}
		if res.err != nil {
			continue // rejected with an error: acceptable
		}
		if !res.finished {
			t.Errorf("frame %q: no error and finish was not called", frame)
			continue
		}
		want := frame[1:]
		if res.ns != want || res.payload != "" {
			t.Errorf("frame %q: got namespace %q payload %q, want namespace %q and empty payload", frame, res.ns, res.payload, want)
		}
	}

	// Well-formed packets must keep decoding exactly as before.
	valid := []struct {
		frame, ns, payload string
	}{
		{"0/abc,", "/abc", ""},
		{`0/abc,{"x":1}`, "/abc", `{"x":1}`},
		{`2/abc,["ev",1]`, "/abc", `["ev",1]`},
		{`0{"x":1}`, "/", `{"x":1}`},
		{"0", "/", ""},
	}
	for _, v := range valid {
		res := add(v.frame)
		got := fmt.Sprintf("panic=%v err=%v finished=%v ns=%q payload=%q", res.panicked, res.err, res.finished, res.ns, res.payload)
		want := fmt.Sprintf("panic=%v err=%v finished=%v ns=%q payload=%q", nil, nil, true, v.ns, v.payload)
		if got != want {
			t.Errorf("frame %q:\n got  %s\n want %s", v.frame, got, want)
		}
	}
}
