package jsonparser

import (
	"fmt"
	"testing"

	"github.com/karagenc/socket.io-go/parser"
	"github.com/karagenc/socket.io-go/parser/json/serializer/stdjson"
)

// F20, fourth site: a struct held BY VALUE in an interface slot of the caller's
// slice is replaced by a pointer to a (rewritten) copy.
func TestTriageF20ValueStruct(t *testing.T) {
	type S struct{ B Binary }
	p := NewCreator(0, stdjson.New())()
	v := []any{"ev", S{B: Binary("hello")}}
	before := fmt.Sprintf("%T", v[1])
	_, err := p.Encode(&parser.PacketHeader{Type: parser.PacketTypeEvent, Namespace: "/"}, &v)
	if err != nil {
		t.Fatal(err)
	}
	after := fmt.Sprintf("%T %v", v[1], v[1])
	if fmt.Sprintf("%T", v[1]) != before {
		t.Fatalf("Encode changed the caller's slice element: before %s, after %s", before, after)
	}
}
