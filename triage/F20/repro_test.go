package jsonparser

import (
	"bytes"
	"fmt"
	"reflect"
	"testing"

	"github.com/karagenc/socket.io-go/parser"
	"github.com/karagenc/socket.io-go/parser/json/serializer/stdjson"
)

// F20: Parser.Encode replaces the Binary leaves inside the caller's value by the
// placeholder JSON *in place* (deconstruct* in binary.go use SetBytes/Set/SetMapIndex):
// encoding mutates its input. Encoding (= emitting) the same value a second time sends the
// placeholder JSON as the attachment, or fails with "sio.Binary cannot be a pointer".
func TestTriageF20(t *testing.T) {
	type S struct{ B Binary }

	tests := []struct {
		name string
		make func() []any
	}{
		{"map", func() []any { return []any{"ev", map[string]any{"b": Binary("hello")}} }},
		{"struct", func() []any { return []any{"ev", &S{B: Binary("hello")}} }},
		{"direct", func() []any { return []any{"ev", Binary("hello")} }},
	}

	dump := func(buffers [][]byte) string {
		s := make([]string, len(buffers))
		for i, b := range buffers {
			s[i] = string(b)
		}
		return fmt.Sprintf("%q", s)
	}

	for _, test := range tests {
		t.Run(test.name, func(t *testing.T) {
			p := NewCreator(0, stdjson.New())()

			v := test.make()
			pristine := test.make()

			first, err := p.Encode(&parser.PacketHeader{Type: parser.PacketTypeEvent, Namespace: "/"}, &v)
			if err != nil {
				t.Fatalf("1st Encode: %v", err)
			}
			if len(first) != 2 || !bytes.Equal(first[1], []byte("hello")) {
				t.Fatalf("1st Encode: unexpected frames %s", dump(first))
			}

			if !reflect.DeepEqual(v, pristine) {
				t.Errorf("F20: Encode mutated its input:\n after : %s\n before: %s", triageF20Dump(v), triageF20Dump(pristine))
			}

			second, err := p.Encode(&parser.PacketHeader{Type: parser.PacketTypeEvent, Namespace: "/"}, &v)
			if err != nil {
				t.Fatalf("F20: 2nd Encode of the same value failed: %v", err)
			}
			if dump(first) != dump(second) {
				t.Errorf("F20: encoding the same value twice gives different frames:\n 1st: %s\n 2nd: %s", dump(first), dump(second))
			}
		})
	}
}

// triageF20Dump renders v with byte slices shown as strings and pointers shown as `&`.
func triageF20Dump(v any) string {
	return triageF20DumpValue(reflect.ValueOf(v))
}

func triageF20DumpValue(rv reflect.Value) string {
	switch rv.Kind() {
	case reflect.Interface:
		return triageF20DumpValue(rv.Elem())
	case reflect.Ptr:
		return "&" + triageF20DumpValue(rv.Elem())
	case reflect.Slice:
		if rv.Type().Elem().Kind() == reflect.Uint8 {
			return fmt.Sprintf("%s(%q)", rv.Type(), rv.Bytes())
		}
		s := "["
		for i := 0; i < rv.Len(); i++ {
			s += triageF20DumpValue(rv.Index(i)) + " "
		}
		return s + "]"
	case reflect.Map:
		s := "map["
		iter := rv.MapRange()
		for iter.Next() {
			s += fmt.Sprintf("%v:%s ", iter.Key(), triageF20DumpValue(iter.Value()))
		}
		return s + "]"
	case reflect.Struct:
		s := rv.Type().String() + "{"
		for i := 0; i < rv.NumField(); i++ {
			s += rv.Type().Field(i).Name + ":" + triageF20DumpValue(rv.Field(i)) + " "
		}
		return s + "}"
	case reflect.Invalid:
		return "<nil>"
	}
	return fmt.Sprintf("%#v", rv.Interface())
}
