package sio

import (
	"sync/atomic"
	"testing"
	"time"
)

// An event emitted on a client socket while its CONNECT is pending (the manager is
// already connected, the CONNECT reply of this namespace has not arrived yet) must be
// delivered exactly once after the socket connects, and must not harm the connection.
//
// Public API only:
//
//	main := manager.Socket("/", nil); main.Connect()       // wait until connected
//	chat := manager.Socket("/chat", nil); chat.Connect(); chat.Emit("join", 1)
func TestHunt1(t *testing.T) {
	io, _, manager, close := newTestServerAndClient(t, nil, nil)
	defer close()

	var (
		got            atomic.Int32
		mainDisconnect atomic.Int32
		mainConnects   atomic.Int32
	)
	gotC := make(chan struct{}, 16)

	io.OnConnection(func(socket ServerSocket) {})
	io.Of("/chat").OnConnection(func(socket ServerSocket) {
		socket.OnEvent("join", func(n int) {
			if n != 1 {
				t.Errorf("join: got %d", n)
			}
			got.Add(1)
			gotC <- struct{}{}
		})
	})

	main := manager.Socket("/", nil)
	mainConnected := make(chan struct{}, 16)
	main.OnConnect(func() {
		mainConnects.Add(1)
		mainConnected <- struct{}{}
	})
	main.OnDisconnect(func(reason Reason) {
		mainDisconnect.Add(1)
		t.Logf("main socket disconnected: %s", reason)
	})
	main.Connect()

	select {
	case <-mainConnected:
	case <-time.After(10 * time.Second):
		t.Fatal("main socket did not connect")
	}

	chat := manager.Socket("/chat", nil)
	chatConnected := make(chan struct{}, 16)
	chat.OnConnect(func() { chatConnected <- struct{}{} })
	chat.Connect()
	chat.Emit("join", 1)

	select {
	case <-gotC:
	case <-time.After(8 * time.Second):
	}
	// Give a duplicate the chance to show up.
	time.Sleep(500 * time.Millisecond)

	if n := got.Load(); n != 1 {
		t.Errorf("event emitted while CONNECT was pending: delivered %d times, want 1", n)
	}
	if n := mainDisconnect.Load(); n != 0 {
		t.Errorf("the connection was torn down: main socket disconnected %d time(s) (connected %d times)", n, mainConnects.Load())
	}
	manager.Close()
}
