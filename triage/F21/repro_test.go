package sio

import (
	"fmt"
	"runtime"
	"testing"
	"time"

	"github.com/karagenc/socket.io-go/internal/sync"
)

// F21: serverConn.onParserFinish dispatches EVERY packet on its own goroutine
// (and Manager.onParserFinish does `go socket.onPacket(...)` on the client side), so
// events emitted in order by one goroutine of the peer reach the application's handlers
// out of order.
func TestTriageF21(t *testing.T) {
	if runtime.GOMAXPROCS(0) < 4 {
		defer runtime.GOMAXPROCS(runtime.GOMAXPROCS(4))
	}
	const total = 2000

	io, _, manager, closeAll := newTestServerAndClient(t, nil, nil)
	defer closeAll()

	var (
		mu       sync.Mutex
		received = make([]int, 0, total)
		all      = make(chan struct{})
	)
	io.OnConnection(func(socket ServerSocket) {
		socket.OnEvent("n", func(i int) {
			mu.Lock()
			received = append(received, i)
			n := len(received)
			mu.Unlock()
			if n == total {
				close(all)
			}
		})
	})

	socket := manager.Socket("/", nil)
	connected := make(chan struct{})
	socket.OnceConnect(func() { close(connected) })
	socket.Connect()
	select {
	case <-connected:
	case <-time.After(10 * time.Second):
		t.Fatal("client did not connect")
	}
	// Let the server side finish registering the handler.
	time.Sleep(200 * time.Millisecond)

	// One goroutine, strictly ordered emits.
	for i := 0; i < total; i++ {
		socket.Emit("n", i)
	}

	select {
	case <-all:
	case <-time.After(15 * time.Second):
		mu.Lock()
		t.Errorf("only %d of %d events were received", len(received), total)
		mu.Unlock()
	}

	mu.Lock()
	defer mu.Unlock()
	inversions := 0
	first := ""
	for i := 1; i < len(received); i++ {
		if received[i] <= received[i-1] {
			inversions++
			if first == "" {
				lo, hi := i-3, i+3
				if lo < 0 {
					lo = 0
				}
				if hi > len(received) {
					hi = len(received)
				}
				first = fmt.Sprint(received[lo:hi])
			}
		}
	}
	if inversions != 0 {
		t.Errorf("F21: %d events emitted in order 0..%d by one goroutine: the server handler saw %d order inversions (first around: %s)", total, total-1, inversions, first)
	}
}
