package sio

import (
	"encoding/base64"
	"encoding/json"
	"fmt"
	"net/http"
	"reflect"
	"strings"
	"testing"
	"time"

	"github.com/karagenc/socket.io-go/internal/utils"
	"github.com/karagenc/socket.io-go/parser"
	jsonparser "github.com/karagenc/socket.io-go/parser/json"
	"github.com/karagenc/socket.io-go/parser/json/serializer/stdjson"
)

// F29 (consequence of F20 for connection state recovery): sessionAwareAdapter.Broadcast logs
// the caller's header + data and then encodes them. Encoding replaces the Binary leaves by
// placeholders in place and flips header.Type to BinaryEvent. On restore, newServerSocket
// re-encodes the logged data: the replayed binary event goes out without its attachment
// (and the next frame, the CONNECT reply, is swallowed by the client's parser as the attachment).
func TestTriageF29(t *testing.T) {
	io, ts, _, closeAll := newTestServerAndClient(
		t,
		&ServerConfig{
			ServerConnectionStateRecovery: ServerConnectionStateRecovery{Enabled: true},
		},
		nil,
	)
	defer closeAll()
	ts.Client().Timeout = 3000 * time.Millisecond

	// Creates the namespace `/`.
	io.OnConnection(func(socket ServerSocket) {})

	// --- 1st connection (same steps as `restoreSessionInit` of server_test.go)
	sid := utils.EIOHandshake(t, ts)
	utils.EIOPush(t, ts, sid, "40")
	handshakeBody, status := utils.EIOPoll(t, ts, sid)
	if status != http.StatusOK || !strings.HasPrefix(handshakeBody, "40") {
		t.Fatalf("unexpected handshake: %d %q", status, handshakeBody)
	}
	m := make(map[string]string)
	if err := json.Unmarshal([]byte(handshakeBody[2:]), &m); err != nil {
		t.Fatal(err)
	}
	sioSid, sioPid := m["sid"], m["pid"]
	if sioSid == "" || sioPid == "" {
		t.Fatalf("sid/pid missing in %q", handshakeBody)
	}

	io.Emit("hello")
	message, status := utils.EIOPoll(t, ts, sid)
	if status != http.StatusOK || !strings.HasPrefix(message, `42["hello"`) {
		t.Fatalf("unexpected message: %d %q", status, message)
	}
	var messageSlice []string
	if err := json.Unmarshal([]byte(message[2:]), &messageSlice); err != nil || len(messageSlice) != 2 {
		t.Fatalf("unexpected message: %q (%v)", message, err)
	}
	offset := messageSlice[1]

	// Abrupt disconnection (engine.io close packet) => session is persisted.
	utils.EIOPush(t, ts, sid, "1")
	deadline := time.Now().Add(5 * time.Second)
	for len(io.Sockets()) != 0 {
		if time.Now().After(deadline) {
			t.Fatal("1st socket is still there")
		}
		time.Sleep(20 * time.Millisecond)
	}

	// --- The binary event the client misses.
	io.Emit("bin", Binary("hello"))

	// --- 2nd connection: recovery.
	newSid := utils.EIOHandshake(t, ts)
	utils.EIOPush(t, ts, newSid, fmt.Sprintf(`40{"pid":"%s","offset":"%s"}`, sioPid, offset))

	// Collect engine.io packets up to (and including) the socket.io CONNECT reply.
	var packets []string
	gotConnect := false
	for i := 0; i < 4 && !gotConnect; i++ {
		payload, status := utils.EIOPoll(t, ts, newSid)
		if status != http.StatusOK {
			break
		}
		for _, p := range strings.Split(payload, "\x1e") {
			packets = append(packets, p)
			if strings.HasPrefix(p, "40") {
				gotConnect = true
			}
		}
	}
	t.Logf("engine.io packets received upon recovery: %q", packets)
	if !gotConnect {
		t.Fatalf("no CONNECT reply received: %q", packets)
	}
	if !strings.Contains(packets[len(packets)-1], sioSid) {
		t.Fatalf("session was not recovered: %q", packets)
	}

	// Feed them to a client-side parser, exactly as Manager.onEIOPacket does.
	type finished struct {
		typ       parser.PacketType
		eventName string
		bin       string
		err       error
	}
	var (
		p   = jsonparser.NewCreator(0, stdjson.New())()
		got []finished
	)
	onFinish := func(header *parser.PacketHeader, eventName string, decode parser.Decode) {
		f := finished{typ: header.Type, eventName: eventName}
		if header.IsEvent() {
			var b Binary
			values, err := decode(reflect.TypeOf(b))
			f.err = err
			if err == nil && len(values) == 1 {
				f.bin = string(values[0].Elem().Bytes())
			}
		}
		got = append(got, f)
	}
	for _, packet := range packets {
		var data []byte
		switch {
		case strings.HasPrefix(packet, "b"): // binary message, base64 in polling
			var err error
			data, err = base64.StdEncoding.DecodeString(packet[1:])
			if err != nil {
				t.Fatal(err)
			}
		case strings.HasPrefix(packet, "4"): // text message
			data = []byte(packet[1:])
		default:
			continue
		}
		if err := p.Add(data, onFinish); err != nil {
			t.Fatalf("client parser: %v (packet %q)", err, packet)
		}
	}

	want := []finished{
		{typ: parser.PacketTypeBinaryEvent, eventName: "bin", bin: "hello"},
		{typ: parser.PacketTypeConnect},
	}
	if !reflect.DeepEqual(got, want) {
		t.Errorf("F29: what a client makes of the replayed packets:\n got  %+v\n want %+v", got, want)
	}
}
