package jsonparser

import (
	"testing"

	"github.com/karagenc/socket.io-go/parser"
	"github.com/karagenc/socket.io-go/parser/json/serializer/stdjson"
)

// F07: an attachment count >= 2^63 is converted to a negative int. With the
// default maxAttachments == 0 the parser then waits for attachments forever
// ("remaining" is decremented away from 0): every later frame is swallowed.
func TestTriageF07(t *testing.T) {
	for _, hdr := range []string{
		`59223372036854775808-["x"]`,  // 2^63   -> math.MinInt64
		`518446744073709551615-["x"]`, // 2^64-1 -> -1
		`69223372036854775808-[]`,     // binary ack
	} {
		p := NewCreator(0, stdjson.New())().(*Parser)

		finishCalls := 0
		finish := func(header *parser.PacketHeader, eventName string, decode parser.Decode) {
			finishCalls++
		}

		err := p.Add([]byte(hdr), finish)
		if err == nil {
			t.Errorf("header %q: Add returned nil error, want the absurd attachment count rejected", hdr)
			if p.r != nil {
				t.Errorf("header %q: parser is now waiting for %d attachments", hdr, p.r.remaining)
			}
		}
		if finishCalls != 0 {
			t.Errorf("header %q: finish called for the bogus header", hdr)
		}

		// A perfectly valid text packet sent afterwards must be delivered.
		for i := 0; i < 11; i++ {
			before := finishCalls
			if err := p.Add([]byte(`2["hello"]`), finish); err != nil {
				t.Errorf("header %q: valid packet #%d: Add error: %v", hdr, i, err)
			}
			if finishCalls != before+1 {
				t.Errorf("header %q: valid packet #%d `2[\"hello\"]` was swallowed: finish not called (parser wedged)", hdr, i)
			}
		}
		if finishCalls != 11 {
			t.Errorf("header %q: finish called %d times for 11 valid packets", hdr, finishCalls)
		}
	}

	// Sane attachment counts keep working.
	p := NewCreator(0, stdjson.New())()
	finishCalls := 0
	finish := func(header *parser.PacketHeader, eventName string, decode parser.Decode) {
		finishCalls++
		if header.Attachments != 2 {
			t.Errorf("got %d attachments, want 2", header.Attachments)
		}
	}
	for _, frame := range []string{`52-["x",{"_placeholder":true,"num":0},{"_placeholder":true,"num":1}]`, "a", "b"} {
		if err := p.Add([]byte(frame), finish); err != nil {
			t.Fatalf("valid binary packet: %v", err)
		}
	}
	if finishCalls != 1 {
		t.Fatalf("valid binary packet: finish called %d times, want 1", finishCalls)
	}
}
