package sio

import (
	"net/http/httptest"
	"strings"
	"sync"
	"testing"
	"time"

	eio "github.com/karagenc/socket.io-go/engine.io"
	eioparser "github.com/karagenc/socket.io-go/engine.io/parser"
)

// C19: "A packet handed to a connection's send path is transmitted as soon as the transport can take it" -
// also when a close races the sender goroutine (mechanism "drain / close hand-shake of the sender goroutine").
//
// `ServerSocket.Disconnect(true)` (and every other path through `serverConn.close`) closes the Engine.IO socket
// first and waits for the packet queue to drain afterwards: `c.eio.Close(); c.closePacketQueue()`. Packets are
// moved from the queue to the transport by a separate goroutine (`packetQueue.pollAndSend`), so whatever was
// emitted just before - the event below, and the DISCONNECT packet that `Disconnect(true)` itself queues - is
// still in the queue when the transport is closed, and is silently dropped. (The drain hand-shake only protects
// the queue object, not the packets: by the time they are "drained" they are written to a closed transport.)
//
// The reference implementation flushes the write buffer before closing the transport: the client receives
// the event, and a disconnect with the reason "io server disconnect" (so it does not reconnect).
// Here it receives nothing and sees "transport close" (and, with reconnection enabled, comes straight back).
//
// The client is the library's Engine.IO client speaking Socket.IO by hand, so that what is observed is
// what was put on the wire (the Socket.IO client dispatches every packet on its own goroutine and can
// process the DISCONNECT before the event).
func TestHunt3(t *testing.T) {
	const iterations = 10

	var lostEvents, lostDisconnects int
	for i := 0; i < iterations; i++ {
		srv := NewServer(nil)
		if err := srv.Run(); err != nil {
			t.Fatal(err)
		}
		ts := httptest.NewServer(srv)

		srv.OnConnection(func(socket ServerSocket) {
			socket.OnEvent("kick me", func() {
				socket.Emit("bye", "you are kicked")
				socket.Disconnect(true)
			})
		})

		var (
			mu       sync.Mutex
			messages []string
		)
		connected := make(chan struct{}, 1)
		closed := make(chan eio.Reason, 1)
		client, err := eio.Dial(ts.URL, &eio.Callbacks{
			OnPacket: func(packets ...*eioparser.Packet) {
				for _, p := range packets {
					if p.Type != eioparser.PacketTypeMessage {
						continue
					}
					msg := string(p.Data)
					mu.Lock()
					messages = append(messages, msg)
					mu.Unlock()
					if strings.HasPrefix(msg, "0{") {
						connected <- struct{}{}
					}
				}
			},
			OnClose: func(reason eio.Reason, err error) {
				closed <- reason
			},
		}, &eio.ClientConfig{Transports: []string{"websocket"}})
		if err != nil {
			t.Fatal(err)
		}
		send := func(msg string) {
			p, err := eioparser.NewPacket(eioparser.PacketTypeMessage, false, []byte(msg))
			if err != nil {
				t.Fatal(err)
			}
			client.Send(p)
		}

		send("0") // CONNECT to "/"
		select {
		case <-connected:
		case <-time.After(5 * time.Second):
			t.Fatalf("iteration %d: no reply to CONNECT", i)
		}
		send(`2["kick me"]`)

		select {
		case <-closed:
		case <-time.After(10 * time.Second):
			t.Fatalf("iteration %d: the connection was not closed", i)
		}

		mu.Lock()
		var gotBye, gotDisconnect bool
		for _, msg := range messages {
			switch {
			case msg == `2["bye","you are kicked"]`:
				gotBye = true
			case msg == "1":
				gotDisconnect = true
			}
		}
		t.Logf("iteration %d: messages received before the connection was closed: %q", i, messages)
		mu.Unlock()
		if !gotBye {
			lostEvents++
		}
		if !gotDisconnect {
			lostDisconnects++
		}

		srv.Close()
		ts.Close()
	}

	if lostEvents > 0 {
		t.Errorf("the event emitted right before Disconnect(true) was never sent in %d of %d runs", lostEvents, iterations)
	}
	if lostDisconnects > 0 {
		t.Errorf("the DISCONNECT packet of Disconnect(true) was never sent in %d of %d runs (a Socket.IO client sees \"transport close\" instead of \"io server disconnect\", and reconnects)", lostDisconnects, iterations)
	}
}
