package eio

import (
	"encoding/json"
	"io"
	"net/http"
	"net/http/httptest"
	"strings"
	"testing"

	"github.com/karagenc/socket.io-go/internal/utils"
)

// Invalid requests that carry the sid of a LIVE session are not answered with the protocol's
// error (HTTP 400 and a JSON body {"code":..,"message":..}):
//   - a wrong method (PUT, DELETE, PATCH, OPTIONS ...) on the polling transport is answered
//     with 200 OK and an empty body (polling.ServerTransport.ServeHTTP has no default case);
//   - transport=webtransport is answered with 500 Internal Server Error and an empty body
//     (maybeUpgrade: "t == nil. This shouldn't have happened");
//   - transport=websocket without the websocket upgrade headers (any method) is answered with
//     426 and a plain text body written by the websocket library.
//
// The reference implementation answers {"code":3,"message":"Bad request"} (400) to the second and the
// third, and refuses the first as well. The session itself is not altered (this part holds).
func TestHunt6(t *testing.T) {
	srv := NewServer(nil, nil)
	if err := srv.Run(); err != nil {
		t.Fatal(err)
	}
	ts := httptest.NewServer(srv)
	defer ts.Close()
	defer srv.Close()

	sid := utils.EIOHandshake(t, ts)

	for _, c := range []struct{ method, query string }{
		{"PUT", "EIO=4&transport=polling&sid=" + sid},
		{"DELETE", "EIO=4&transport=polling&sid=" + sid},
		{"PATCH", "EIO=4&transport=polling&sid=" + sid},
		{"GET", "EIO=4&transport=webtransport&sid=" + sid},
		{"GET", "EIO=4&transport=websocket&sid=" + sid},
		{"POST", "EIO=4&transport=websocket&sid=" + sid},
		// Control: these are answered as the protocol says.
		{"GET", "EIO=4&transport=junk&sid=" + sid},
		{"GET", "EIO=4&sid=" + sid},
	} {
		req, err := http.NewRequest(c.method, ts.URL+"/?"+c.query, strings.NewReader(""))
		if err != nil {
			t.Fatal(err)
		}
		resp, err := ts.Client().Do(req)
		if err != nil {
			t.Fatal(err)
		}
		body, _ := io.ReadAll(resp.Body)
		resp.Body.Close()

		e := new(ServerError)
		jsonErr := json.Unmarshal(body, e)
		_, known := serverErrors[e.Code]
		if resp.StatusCode != http.StatusBadRequest || jsonErr != nil || !known || e.Message != serverErrors[e.Code].Message {
			t.Errorf("%s ?%s: want status 400 and a protocol error body, got status %d body %q",
				c.method, strings.Replace(c.query, sid, "<live sid>", 1), resp.StatusCode, strings.TrimSpace(string(body)))
		}

		socket, ok := srv.store.get(sid)
		if !ok || socket.TransportName() != "polling" {
			t.Fatalf("%s ?%s: the session was altered", c.method, c.query)
		}
	}
}
