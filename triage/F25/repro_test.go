package sio

import (
	"testing"
	"time"

	"github.com/karagenc/socket.io-go/internal/sync"
)

// F25: when the client has a private session id (the server has connection state recovery
// enabled), clientSocket.callEvent treats the LAST decoded value of every event as the
// recovery offset whenever it is a string, and strips it. Packets that carry an ack id are
// never given an offset by the server (sessionAwareAdapter.Broadcast appends it only when
// header.ID == nil), so for a server->client emit WITH an ack callback the client strips the
// user's last string argument: the handler call fails (arity mismatch) and the client's
// lastOffset is corrupted with user data.
//
// Shape that fails today: the client handler does not declare an ack parameter and its last
// parameter is a string. (When the handler does declare the ack func, the last decoded value
// is the func placeholder, not a string, and nothing is stripped: sub-test "handler_with_ack".)
func TestTriageF25(t *testing.T) {
	type result struct {
		a, b string
	}

	run := func(t *testing.T, register func(socket ClientSocket, got chan<- result)) (res *result, errs []error, lastOffset string) {
		io, _, manager, closeAll := newTestServerAndClient(
			t,
			&ServerConfig{
				ServerConnectionStateRecovery: ServerConnectionStateRecovery{Enabled: true},
			},
			nil,
		)
		defer closeAll()

		var (
			mu  sync.Mutex
			got = make(chan result, 1)
		)
		io.OnConnection(func(socket ServerSocket) {
			// Emit with an ack callback => the packet has an ack id and carries no offset.
			socket.Emit("greet", "alice", "bob", func(reply string) {})
		})
		manager.OnError(func(err error) {
			mu.Lock()
			errs = append(errs, err)
			mu.Unlock()
		})

		socket := manager.Socket("/", nil)
		register(socket, got)
		socket.Connect()

		select {
		case r := <-got:
			res = &r
		case <-time.After(3 * time.Second):
		}
		// Errors are reported asynchronously.
		time.Sleep(200 * time.Millisecond)

		if _, ok := socket.(*clientSocket).pid(); !ok {
			t.Fatal("client has no private session id although recovery is enabled")
		}
		lastOffset, _ = socket.(*clientSocket).lastOffset()
		mu.Lock()
		defer mu.Unlock()
		return res, append([]error(nil), errs...), lastOffset
	}

	check := func(t *testing.T, res *result, errs []error, lastOffset string) {
		if res == nil {
			t.Errorf("F25: the handler of `greet` was never called; errors reported on the manager: %v", errs)
		} else if res.a != "alice" || res.b != "bob" {
			t.Errorf("F25: handler got (%q, %q), want (alice, bob)", res.a, res.b)
		}
		if len(errs) != 0 {
			t.Errorf("F25: errors reported on the manager: %v", errs)
		}
		if lastOffset != "" {
			t.Errorf("F25: client's lastOffset is %q although no packet with an offset was ever received (user data taken as offset)", lastOffset)
		}
	}

	// As described in the finding; passes today (see the comment above).
	t.Run("handler_with_ack", func(t *testing.T) {
		res, errs, lastOffset := run(t, func(socket ClientSocket, got chan<- result) {
			socket.OnEvent("greet", func(a, b string, ack func(string)) {
				got <- result{a, b}
				ack("hi")
			})
		})
		check(t, res, errs, lastOffset)
	})

	// Fails today.
	t.Run("handler_without_ack", func(t *testing.T) {
		res, errs, lastOffset := run(t, func(socket ClientSocket, got chan<- result) {
			socket.OnEvent("greet", func(a, b string) {
				got <- result{a, b}
			})
		})
		check(t, res, errs, lastOffset)
	})
}

// Related to F25 but a different root cause (named so that `-run TestTriageF25` does not select it):
// the offset the server appends to a plain (no ack id) event is never part of the values decoded
// for the handler (the decoder returns exactly one value per handler parameter), so what
// callEvent strips as "offset" is again the user's last argument whenever that is a string.
// With recovery enabled, every client handler whose last parameter is a string fails.
func TestTriageX25PlainEventOffset(t *testing.T) {
	io, _, manager, closeAll := newTestServerAndClient(
		t,
		&ServerConfig{
			ServerConnectionStateRecovery: ServerConnectionStateRecovery{Enabled: true},
		},
		nil,
	)
	defer closeAll()

	var (
		mu   sync.Mutex
		errs []error
		got  = make(chan string, 1)
	)
	io.OnConnection(func(socket ServerSocket) {
		socket.Emit("plain", "alice")
	})
	manager.OnError(func(err error) {
		mu.Lock()
		errs = append(errs, err)
		mu.Unlock()
	})
	socket := manager.Socket("/", nil)
	socket.OnEvent("plain", func(a string) { got <- a })
	socket.Connect()

	select {
	case a := <-got:
		if a != "alice" {
			t.Errorf("handler got %q, want alice", a)
		}
	case <-time.After(3 * time.Second):
		time.Sleep(200 * time.Millisecond)
		mu.Lock()
		t.Errorf("the handler of `plain` (func(a string)) was never called; errors reported on the manager: %v", errs)
		mu.Unlock()
	}
	if lastOffset, _ := socket.(*clientSocket).lastOffset(); lastOffset == "alice" {
		t.Errorf("client's lastOffset is the user's argument %q", lastOffset)
	}
}
