package sio

import (
	"net/http"
	"net/http/httptest"
	"sync/atomic"
	"testing"
	"time"

	eio "github.com/karagenc/socket.io-go/engine.io"
)

// A socket is disconnected by the application (socket.Disconnect()) while a reconnection
// attempt of its manager is in flight (the server is slow to refuse), and is connected again
// (socket.Connect()) later, when the server is reachable again. The socket must connect.
func TestHunt3(t *testing.T) {
	io := NewServer(nil)
	if err := io.Run(); err != nil {
		t.Fatal(err)
	}
	defer io.Close()
	io.OnConnection(func(socket ServerSocket) {})

	// 0: healthy, 1: every request is answered with 503 after 400ms (an overloaded proxy, say).
	var mode atomic.Int32
	ts := httptest.NewServer(http.HandlerFunc(func(w http.ResponseWriter, r *http.Request) {
		if mode.Load() == 1 {
			time.Sleep(400 * time.Millisecond)
			w.WriteHeader(http.StatusServiceUnavailable)
			return
		}
		io.ServeHTTP(w, r)
	}))
	defer ts.Close()

	var (
		reconnectionDelay    = 50 * time.Millisecond
		reconnectionDelayMax = 50 * time.Millisecond
	)
	manager := NewManager(ts.URL, &ManagerConfig{
		ReconnectionDelay:    &reconnectionDelay,
		ReconnectionDelayMax: &reconnectionDelayMax,
		EIO: eio.ClientConfig{
			Transports: []string{"polling"},
		},
	})
	socket := manager.Socket("/", nil)

	connected := make(chan struct{}, 16)
	socket.OnConnect(func() { connected <- struct{}{} })
	socket.Connect()
	select {
	case <-connected:
	case <-time.After(10 * time.Second):
		t.Fatal("the socket did not connect in the first place")
	}

	// The outage begins: requests are refused slowly, and the current connection is cut.
	attempt := make(chan struct{}, 16)
	manager.OnReconnectAttempt(func(n uint32) { attempt <- struct{}{} })
	mode.Store(1)
	ts.CloseClientConnections()

	select {
	case <-attempt:
	case <-time.After(20 * time.Second):
		t.Fatal("no reconnection attempt was made")
	}
	// The attempt is in flight now (it takes 400ms to fail). The application gives up for now.
	time.Sleep(100 * time.Millisecond)
	socket.Disconnect()

	// The server recovers, and the application connects again later.
	time.Sleep(1 * time.Second)
	mode.Store(0)
	for len(connected) > 0 {
		<-connected
	}
	socket.Connect()

	select {
	case <-connected:
	case <-time.After(10 * time.Second):
		manager.stateMu.RLock()
		state := manager.state
		manager.stateMu.RUnlock()
		t.Errorf("socket.Connect() after the outage: the socket did not connect within 10s (manager state %d; 2 = reconnecting, 3 = disconnected)", state)
	}
	manager.Close()
}
