package eio

import (
	"io"
	"net/http"
	"net/http/httptest"
	"net/url"
	"strconv"
	"sync/atomic"
	"testing"
	"time"
)

// F17: `ServeHTTP` checks `IsClosed()` only once, at entry. A handshake that has
// passed that check and is still inside `handleHandshake` (here: inside the
// `Authenticator` callback) when `Close()` runs is inserted into the store by
// `newSocket` after `closeAll()` already ran: a live session survives `Close()`
// and nothing ever closes it.
func TestTriageF17(t *testing.T) {
	var (
		server      *Server
		closeCalled atomic.Int32
		sockets     atomic.Int32
		closedCount atomic.Int32
	)

	onSocket := func(socket ServerSocket) *Callbacks {
		sockets.Add(1)
		return &Callbacks{
			OnClose: func(reason Reason, err error) {
				closedCount.Add(1)
			},
		}
	}

	server = NewServer(onSocket, &ServerConfig{
		// Deterministic stand-in for "Close() runs concurrently with a handshake in flight".
		Authenticator: func(w http.ResponseWriter, r *http.Request) bool {
			server.Close()
			closeCalled.Add(1)
			return true
		},
	})
	if err := server.Run(); err != nil {
		t.Fatal(err)
	}

	handlerDone := make(chan struct{}, 1)
	ts := httptest.NewServer(http.HandlerFunc(func(w http.ResponseWriter, r *http.Request) {
		server.ServeHTTP(w, r)
		handlerDone <- struct{}{}
	}))
	defer ts.Close()

	q := url.Values{}
	q.Set("EIO", strconv.Itoa(ProtocolVersion))
	q.Set("transport", "polling")

	client := &http.Client{Timeout: 10 * time.Second}
	resp, err := client.Get(ts.URL + "/?" + q.Encode())
	if err != nil {
		t.Fatal(err)
	}
	body, _ := io.ReadAll(resp.Body)
	resp.Body.Close()
	t.Logf("handshake response: %d %q", resp.StatusCode, body)

	select {
	case <-handlerDone:
	case <-time.After(10 * time.Second):
		t.Fatal("watchdog: handshake handler did not return")
	}

	if closeCalled.Load() != 1 {
		t.Fatalf("test setup: Authenticator (and so Close) ran %d times, want 1", closeCalled.Load())
	}
	if !server.IsClosed() {
		t.Fatal("test setup: server should be closed")
	}

	// Close() has returned (inside the Authenticator) and the handshake request is finished.
	// Give an (asynchronous) close a moment, then look at the store.
	var live []*serverSocket
	deadline := time.Now().Add(1 * time.Second)
	for {
		live = server.store.getAll()
		if len(live) == 0 || time.Now().After(deadline) {
			break
		}
		time.Sleep(10 * time.Millisecond)
	}

	if len(live) != 0 {
		ids := make([]string, len(live))
		for i, s := range live {
			ids[i] = s.ID()
		}
		t.Errorf("%d session(s) are live in the store after Server.Close() returned: %v (sockets created: %d, OnClose fired: %d)",
			len(live), ids, sockets.Load(), closedCount.Load())

		// Clean up the leaked sockets (each one runs a pingPong goroutine).
		for _, s := range live {
			s.Close()
		}
	} else if sockets.Load() != closedCount.Load() {
		t.Errorf("onSocket was called %d time(s) but OnClose fired %d time(s)", sockets.Load(), closedCount.Load())
	}
}
