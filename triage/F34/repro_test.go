package sio

// Reproduction for: connection state recovery reports a session as recovered
// although broadcasts emitted while the session was being restored are lost
// (neither in the missed-packet list nor delivered live).
//
// Mechanism: Namespace.add calls adapter.RestoreSession, which fixes the list
// of missed packets under the adapter mutex and releases the mutex. Only later
// -- after newServerSocket, optionally the middlewares, and the registration in
// Namespace.doConnect -- the socket becomes reachable for live broadcasts.
// Whatever is broadcast in between is dropped for that client, yet the CONNECT
// packet carries the old sid+pid (= "recovered").
//
// The tests talk to the REAL server over HTTP long-polling (raw Engine.IO /
// Socket.IO protocol, same helpers as server_test.go), so every packet the
// server puts on the wire for the client is observed, in order.
//
//   TestReproRecoveryGap_PublicAPI_Middleware  deterministic, public API only
//       (ServerConnectionStateRecovery.UseMiddlewares = true and a middleware
//       that takes some time, e.g. an auth look-up).
//   TestReproRecoveryGap_PublicAPI_Hammer      statistical, public API only,
//       default recovery config: one goroutine broadcasts continuously while
//       clients reconnect.
//   TestReproRecoveryGap_ForcedSchedule        deterministic, default recovery
//       config; needs schedule.patch (test hook between RestoreSession and
//       newServerSocket) and is skipped when the hook is not compiled in.
//   TestReproRecoveryDuplicate_PublicAPI_SlowEncode  the mirror image of the
//       gap (same root cause), deterministic, public API only, default config:
//       a broadcast that is already in the packet log but not yet fanned out
//       when the session is restored reaches the client twice.

import (
	"encoding/json"
	"fmt"
	"net/http/httptest"
	"os"
	"strconv"
	"strings"
	"sync"
	"sync/atomic"
	"testing"
	"time"

	"github.com/karagenc/socket.io-go/internal/utils"
)

// Set by schedule_hook_test.go (created by schedule.patch) when the hook exists.
var reproSetAfterRestoreHook func(f func())

type reproPacket struct {
	raw      string
	isConn   bool
	sid, pid string
	isEv     bool
	event    string
	n        int
	offset   string
}

// raw is a Socket.IO packet (the Engine.IO type byte already removed).
func reproParse(t *testing.T, raw string) reproPacket {
	p := reproPacket{raw: raw}
	switch {
	case strings.HasPrefix(raw, "0"):
		p.isConn = true
		m := map[string]string{}
		if err := json.Unmarshal([]byte(raw[1:]), &m); err != nil {
			t.Fatalf("bad CONNECT %q: %v", raw, err)
		}
		p.sid, p.pid = m["sid"], m["pid"]
	case strings.HasPrefix(raw, "2"):
		p.isEv = true
		var a []any
		if err := json.Unmarshal([]byte(raw[1:]), &a); err != nil || len(a) == 0 {
			t.Fatalf("bad EVENT %q: %v", raw, err)
		}
		p.event, _ = a[0].(string)
		if len(a) >= 3 {
			f, _ := a[1].(float64)
			p.n = int(f)
		}
		if len(a) >= 2 {
			p.offset, _ = a[len(a)-1].(string)
		}
	}
	return p
}

type reproSession struct {
	t   *testing.T
	ts  *httptest.Server
	eio string // Engine.IO sid of the current transport

	sid, pid string // Socket.IO ids
	offset   string // offset of the last event received before the disconnect

	log []reproPacket // every Socket.IO packet received on the current transport
}

// poll performs one long-poll and appends the Socket.IO packets to s.log.
func (s *reproSession) poll() []reproPacket {
	body, status := utils.EIOPoll(s.t, s.ts, s.eio)
	if status != 200 {
		s.t.Fatalf("poll: status %d body %q", status, body)
	}
	var out []reproPacket
	for _, raw := range strings.Split(body, "\x1e") {
		if raw == "2" { // Engine.IO ping
			utils.EIOPush(s.t, s.ts, s.eio, "3")
			continue
		}
		if len(raw) < 2 || raw[0] != '4' { // not an Engine.IO message
			continue
		}
		out = append(out, reproParse(s.t, raw[1:]))
	}
	s.log = append(s.log, out...)
	return out
}

// pollUntil polls until pred is true for some received packet and returns it.
func (s *reproSession) pollUntil(what string, pred func(p reproPacket) bool) reproPacket {
	deadline := time.Now().Add(20 * time.Second)
	for time.Now().Before(deadline) {
		for _, p := range s.poll() {
			if pred(p) {
				return p
			}
		}
	}
	s.t.Fatalf("timeout waiting for %s", what)
	return reproPacket{}
}

func reproNewServer(t *testing.T, cfg *ServerConfig) (*Server, *httptest.Server, func()) {
	if os.Getenv("SIO_DEBUGGER_PRINT") == "1" {
		cfg.Debugger = NewPrintDebugger()
	}
	io := NewServer(cfg)
	if err := io.Run(); err != nil {
		t.Fatal(err)
	}
	ts := httptest.NewServer(io)
	ts.Client().Timeout = 10 * time.Second
	return io, ts, func() {
		_ = io.Close()
		ts.Close()
	}
}

// Numbered broadcasts to the whole namespace. Only one goroutine emits at a time.
type reproEmitter struct {
	mu   sync.Mutex
	io   *Server
	next int
}

func (e *reproEmitter) emit() int {
	e.mu.Lock()
	defer e.mu.Unlock()
	n := e.next
	e.next++
	e.io.Emit("e", n)
	return n
}

// reserve hands out the next number without emitting anything.
func (e *reproEmitter) reserve() int {
	e.mu.Lock()
	defer e.mu.Unlock()
	n := e.next
	e.next++
	return n
}

func (e *reproEmitter) lastEmitted() int {
	e.mu.Lock()
	defer e.mu.Unlock()
	return e.next - 1
}

// reproConnectFresh opens a brand new Socket.IO session and learns an offset by
// receiving one broadcast. Returns the number of that broadcast.
func reproConnectFresh(t *testing.T, ts *httptest.Server, em *reproEmitter) (*reproSession, int) {
	s := &reproSession{t: t, ts: ts}
	s.eio = utils.EIOHandshake(t, ts)
	utils.EIOPush(t, ts, s.eio, "40")
	c := s.pollUntil("CONNECT", func(p reproPacket) bool { return p.isConn })
	s.sid, s.pid = c.sid, c.pid
	if s.sid == "" || s.pid == "" {
		t.Fatalf("no sid/pid in %q", c.raw)
	}
	base := em.emit()
	e := s.pollUntil("first event", func(p reproPacket) bool { return p.isEv && p.event == "e" && p.n == base })
	s.offset = e.offset
	if s.offset == "" {
		t.Fatalf("no offset in %q", e.raw)
	}
	return s, base
}

// Number of server-side sockets for which ServerSocket.Recovered() was true.
var reproRecoveredServerSide atomic.Int64

func reproDisconnectChan(io *Server) <-chan string {
	ch := make(chan string, 4096)
	io.OnConnection(func(socket ServerSocket) {
		if socket.Recovered() {
			reproRecoveredServerSide.Add(1)
		}
		id := string(socket.ID())
		socket.OnDisconnect(func(Reason) { ch <- id })
	})
	return ch
}

// dropTransport closes the Engine.IO transport (a recoverable disconnect) and
// waits until the server has persisted the session and fired `disconnect`.
func (s *reproSession) dropTransport(disconnected <-chan string) {
	utils.EIOPush(s.t, s.ts, s.eio, "1")
	timeout := time.After(10 * time.Second)
	for {
		select {
		case sid := <-disconnected:
			if sid == s.sid {
				return
			}
		case <-timeout:
			s.t.Fatalf("server did not report disconnect of %s", s.sid)
		}
	}
}

// reconnect opens a new transport and sends CONNECT with pid+offset.
func (s *reproSession) reconnect() {
	s.log = nil
	s.eio = utils.EIOHandshake(s.t, s.ts)
	utils.EIOPush(s.t, s.ts, s.eio, fmt.Sprintf(`40{"pid":"%s","offset":"%s"}`, s.pid, s.offset))
}

type reproResult struct {
	recovered   bool
	first, last int // the client must see exactly first..last, once each
	received    int
	missing     []int
	duplicates  []int
	connAfter   int // number of "e" events received before the CONNECT packet
}

func (r reproResult) ok() bool { return len(r.missing) == 0 && len(r.duplicates) == 0 }

func (r reproResult) String() string {
	return fmt.Sprintf("recovered=%v expected=[%d..%d] received=%d (of which %d before CONNECT) missing=%s duplicates=%s",
		r.recovered, r.first, r.last, r.received, r.connAfter, reproAbbrev(r.missing), reproAbbrev(r.duplicates))
}

func reproAbbrev(a []int) string {
	if len(a) <= 8 {
		return fmt.Sprint(a)
	}
	return fmt.Sprintf("[%d %d %d ... %d](%d values)", a[0], a[1], a[2], a[len(a)-1], len(a))
}

// evaluate polls until the sentinel event "end" has arrived and compares the
// "e" events received since reconnect() with the expected range.
func (s *reproSession) evaluate(first, last int) reproResult {
	res := reproResult{first: first, last: last, connAfter: -1}
	s.pollUntil("sentinel", func(p reproPacket) bool { return p.isEv && p.event == "end" })
	seen := map[int]int{}
	for _, p := range s.log {
		switch {
		case p.isConn:
			res.recovered = p.sid == s.sid && p.pid == s.pid
			res.connAfter = res.received
		case p.isEv && p.event == "e":
			res.received++
			seen[p.n]++
		}
	}
	for n := first; n <= last; n++ {
		switch c := seen[n]; {
		case c == 0:
			res.missing = append(res.missing, n)
		case c > 1:
			res.duplicates = append(res.duplicates, n)
		}
	}
	return res
}

// Deterministic, public API only. Recovery runs the middlewares
// (UseMiddlewares: true) and a middleware takes 300 ms. A broadcast emitted
// while the middleware runs is lost although the session is reported recovered.
func TestReproRecoveryGap_PublicAPI_Middleware(t *testing.T) {
	io, ts, closeAll := reproNewServer(t, &ServerConfig{
		ServerConnectionStateRecovery: ServerConnectionStateRecovery{
			Enabled:        true,
			UseMiddlewares: true,
		},
	})
	defer closeAll()
	disconnected := reproDisconnectChan(io)

	inMiddleware := make(chan struct{}, 16)
	io.Use(func(socket ServerSocket, handshake *Handshake) any {
		if socket.Recovered() {
			inMiddleware <- struct{}{}
			time.Sleep(300 * time.Millisecond) // e.g. a token check against a database
		}
		return nil
	})

	em := &reproEmitter{io: io, next: 1}
	s, base := reproConnectFresh(t, ts, em)
	s.dropTransport(disconnected)

	em.emit() // base+1, missed while offline
	em.emit() // base+2

	s.reconnect()
	select {
	case <-inMiddleware:
	case <-time.After(10 * time.Second):
		t.Fatal("middleware not reached")
	}
	inGap := em.emit() // base+3, emitted while the session is being restored
	s.pollUntil("CONNECT", func(p reproPacket) bool { return p.isConn })
	last := em.emit() // base+4, certainly live
	io.Emit("end")

	res := s.evaluate(base+1, last)
	t.Logf("%v; broadcast %d was emitted during the restore", res, inGap)
	if !res.recovered {
		t.Fatalf("session was not recovered; cannot judge")
	}
	if !res.ok() {
		t.Fatalf("session reported recovered, but the client did not get exactly the packets it missed: %v", res)
	}
}

// Statistical, public API only, default recovery configuration.
// One goroutine broadcasts numbered events while clients reconnect.
//
// Environment knobs: REPRO_ROUNDS (default 60), REPRO_MISSED (number of
// broadcasts while the client is offline, default 200), REPRO_PAUSE (pause
// between two broadcasts of the hammering goroutine, default 0).
func TestReproRecoveryGap_PublicAPI_Hammer(t *testing.T) {
	rounds, missedWhileOffline, pause := 60, 200, time.Duration(0)
	if v, err := strconv.Atoi(os.Getenv("REPRO_ROUNDS")); err == nil {
		rounds = v
	}
	if v, err := strconv.Atoi(os.Getenv("REPRO_MISSED")); err == nil {
		missedWhileOffline = v
	}
	if v, err := time.ParseDuration(os.Getenv("REPRO_PAUSE")); err == nil {
		pause = v
	}

	io, ts, closeAll := reproNewServer(t, &ServerConfig{
		ServerConnectionStateRecovery: ServerConnectionStateRecovery{Enabled: true},
	})
	defer closeAll()
	disconnected := reproDisconnectChan(io)

	em := &reproEmitter{io: io, next: 1}
	recoveredBefore := reproRecoveredServerSide.Load()
	var gaps, dups, recoveredRounds, done int
	deadline := time.Now().Add(25 * time.Second)
	for round := 0; round < rounds && time.Now().Before(deadline); round++ {
		s, base := reproConnectFresh(t, ts, em)
		s.dropTransport(disconnected)

		for i := 0; i < missedWhileOffline; i++ {
			em.emit()
		}

		// The hammer starts right before the CONNECT is pushed and stops as
		// soon as the client has seen the CONNECT reply.
		var (
			stop atomic.Bool
			wg   sync.WaitGroup
		)
		s.log = nil
		s.eio = utils.EIOHandshake(t, ts)
		wg.Add(1)
		go func() {
			defer wg.Done()
			for !stop.Load() {
				em.emit()
				for t0 := time.Now(); time.Since(t0) < pause; {
				}
			}
		}()
		utils.EIOPush(t, ts, s.eio, fmt.Sprintf(`40{"pid":"%s","offset":"%s"}`, s.pid, s.offset))
		s.pollUntil("CONNECT", func(p reproPacket) bool { return p.isConn })
		stop.Store(true)
		wg.Wait()
		last := em.lastEmitted()
		io.Emit("end")

		res := s.evaluate(base+1, last)
		done++
		if res.recovered {
			recoveredRounds++
			if len(res.missing) > 0 {
				gaps++
				t.Logf("round %d: GAP: %v", round, res)
			}
			if len(res.duplicates) > 0 {
				dups++
				t.Logf("round %d: DUPLICATE: %v", round, res)
			}
		}
		s.dropTransport(disconnected)
	}
	t.Logf("rounds=%d recovered=%d (ServerSocket.Recovered() true: %d) with-gap=%d with-duplicates=%d",
		done, recoveredRounds, reproRecoveredServerSide.Load()-recoveredBefore, gaps, dups)
	if recoveredRounds == 0 {
		t.Fatalf("no session was recovered; cannot judge")
	}
	if gaps > 0 || dups > 0 {
		t.Fatalf("of %d recovered sessions %d had a gap and %d had duplicates", recoveredRounds, gaps, dups)
	}
}

// Deterministic, default recovery configuration, needs schedule.patch.
func TestReproRecoveryGap_ForcedSchedule(t *testing.T) {
	if reproSetAfterRestoreHook == nil {
		t.Skip("schedule.patch not applied (no test hook between RestoreSession and newServerSocket)")
	}
	io, ts, closeAll := reproNewServer(t, &ServerConfig{
		ServerConnectionStateRecovery: ServerConnectionStateRecovery{Enabled: true},
	})
	defer closeAll()
	disconnected := reproDisconnectChan(io)

	em := &reproEmitter{io: io, next: 1}
	s, base := reproConnectFresh(t, ts, em)
	s.dropTransport(disconnected)

	em.emit() // base+1, missed while offline
	em.emit() // base+2

	var inGap atomic.Int64
	reproSetAfterRestoreHook(func() {
		// Runs on the server goroutine that handles the CONNECT packet, after
		// RestoreSession has returned and before the socket is constructed.
		// Another goroutine calls io.Emit at this moment. The hook waits for
		// that call to return, but only for a bounded time, so that the test
		// stays meaningful for a repair that makes broadcasts wait for the
		// end of the restoration.
		done := make(chan struct{})
		go func() {
			defer close(done)
			inGap.Store(int64(em.emit())) // base+3
		}()
		select {
		case <-done:
		case <-time.After(300 * time.Millisecond):
		}
	})
	defer reproSetAfterRestoreHook(nil)

	s.reconnect()
	s.pollUntil("CONNECT", func(p reproPacket) bool { return p.isConn })
	reproSetAfterRestoreHook(nil)
	last := em.emit() // base+4, live
	io.Emit("end")

	res := s.evaluate(base+1, last)
	t.Logf("%v; broadcast %d was emitted between RestoreSession and newServerSocket", res, inGap.Load())
	if !res.recovered {
		t.Fatalf("session was not recovered; cannot judge")
	}
	if !res.ok() {
		t.Fatalf("session reported recovered, but the client did not get exactly the packets it missed: %v", res)
	}
}

// A value whose first JSON encoding takes a while (stands for a big payload or
// for the emitting goroutine being descheduled between "append to the packet
// log" and "fan out" in sessionAwareAdapter.Broadcast).
type reproSlowValue struct {
	n       int
	calls   *atomic.Int32
	entered chan struct{}
	release chan struct{}
}

func (v reproSlowValue) MarshalJSON() ([]byte, error) {
	if v.calls.Add(1) == 1 {
		close(v.entered)
		select {
		case <-v.release:
		case <-time.After(10 * time.Second):
		}
	}
	return []byte(strconv.Itoa(v.n)), nil
}

// Mirror image of the gap, deterministic, public API only, default recovery
// configuration. sessionAwareAdapter.Broadcast appends the packet to the log
// (under the mutex), releases the mutex and only then encodes and fans out.
// If the session is restored and the socket registered in between, the packet
// is sent as a missed packet AND delivered live.
func TestReproRecoveryDuplicate_PublicAPI_SlowEncode(t *testing.T) {
	io, ts, closeAll := reproNewServer(t, &ServerConfig{
		ServerConnectionStateRecovery: ServerConnectionStateRecovery{Enabled: true},
	})
	defer closeAll()
	disconnected := reproDisconnectChan(io)

	em := &reproEmitter{io: io, next: 1}
	s, base := reproConnectFresh(t, ts, em)
	s.dropTransport(disconnected)

	em.emit() // base+1, missed while offline

	slow := reproSlowValue{
		n:       em.reserve(), // base+2
		calls:   new(atomic.Int32),
		entered: make(chan struct{}),
		release: make(chan struct{}),
	}
	emitDone := make(chan struct{})
	go func() {
		defer close(emitDone)
		io.Emit("e", slow) // logged at once, fanned out when the encoding is done
	}()
	select {
	case <-slow.entered:
	case <-time.After(10 * time.Second):
		t.Fatal("encoder not reached")
	}

	// The encoding finishes 500 ms from now; the reconnect takes a few ms.
	time.AfterFunc(500*time.Millisecond, func() { close(slow.release) })
	s.reconnect()
	s.pollUntil("CONNECT", func(p reproPacket) bool { return p.isConn })
	select {
	case <-emitDone:
	case <-time.After(10 * time.Second):
		t.Fatal("io.Emit did not return")
	}
	last := em.emit() // base+3, live
	io.Emit("end")

	res := s.evaluate(base+1, last)
	t.Logf("%v; broadcast %d was logged before and fanned out after the restore", res, slow.n)
	if !res.recovered {
		t.Fatalf("session was not recovered; cannot judge")
	}
	if !res.ok() {
		t.Fatalf("session reported recovered, but the client did not get exactly the packets it missed: %v", res)
	}
}
