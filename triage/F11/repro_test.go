package eio

import (
	"io"
	"net/http"
	"net/http/httptest"
	"net/url"
	"strconv"
	"strings"
	"sync"
	"testing"
	"time"

	"github.com/karagenc/socket.io-go/engine.io/parser"
)

// F11: polling `handleDataRequest` enforces MaxBufferSize only through
// r.ContentLength. A POST sent with `Transfer-Encoding: chunked`
// (ContentLength == -1) bypasses the limit: the whole body is read and
// delivered to the socket's OnPacket callback.
func TestTriageF11(t *testing.T) {
	const (
		limit    = 100
		oversize = 5000
	)

	// bodyOfUnknownLength hides the concrete reader type from net/http so that
	// the request is sent with `Transfer-Encoding: chunked`.
	bodyOfUnknownLength := func(s string) io.Reader {
		return struct{ io.Reader }{strings.NewReader(s)}
	}

	run := func(t *testing.T, jsonp bool) {
		type result struct {
			mu        sync.Mutex
			delivered int // size of the largest MESSAGE packet delivered to the server socket
			chunked   bool
		}
		res := new(result)
		closed := make(chan error, 1)

		onSocket := func(socket ServerSocket) *Callbacks {
			return &Callbacks{
				OnPacket: func(packets ...*parser.Packet) {
					res.mu.Lock()
					defer res.mu.Unlock()
					for _, p := range packets {
						if p.Type == parser.PacketTypeMessage && len(p.Data) > res.delivered {
							res.delivered = len(p.Data)
						}
					}
				},
				OnClose: func(reason Reason, err error) {
					select {
					case closed <- err:
					default:
					}
				},
			}
		}

		server := NewServer(onSocket, &ServerConfig{MaxBufferSize: limit})
		if err := server.Run(); err != nil {
			t.Fatal(err)
		}
		defer server.Close()

		ts := httptest.NewServer(http.HandlerFunc(func(w http.ResponseWriter, r *http.Request) {
			if r.Method == "POST" {
				res.mu.Lock()
				res.chunked = r.ContentLength == -1
				res.mu.Unlock()
			}
			server.ServeHTTP(w, r)
		}))
		defer ts.Close()

		client := &http.Client{Timeout: 10 * time.Second}

		// Handshake (polling).
		q := url.Values{}
		q.Set("EIO", strconv.Itoa(ProtocolVersion))
		q.Set("transport", "polling")
		resp, err := client.Get(ts.URL + "/?" + q.Encode())
		if err != nil {
			t.Fatal(err)
		}
		packets, err := parser.DecodePayloads(resp.Body)
		resp.Body.Close()
		if err != nil || len(packets) == 0 {
			t.Fatalf("handshake: cannot decode payload: %v", err)
		}
		hr, err := parser.ParseHandshakeResponse(packets[0])
		if err != nil {
			t.Fatalf("handshake: %v", err)
		}
		if hr.MaxPayload != limit {
			t.Fatalf("handshake: maxPayload = %d, want %d", hr.MaxPayload, limit)
		}
		q.Set("sid", hr.SID)

		// Oversize MESSAGE packet, chunked.
		payload := "4" + strings.Repeat("a", oversize)
		var req *http.Request
		if jsonp {
			q.Set("j", "0")
			form := url.Values{}
			form.Set("d", payload)
			req, err = http.NewRequest("POST", ts.URL+"/?"+q.Encode(), bodyOfUnknownLength(form.Encode()))
			if err != nil {
				t.Fatal(err)
			}
			req.Header.Set("Content-Type", "application/x-www-form-urlencoded")
		} else {
			req, err = http.NewRequest("POST", ts.URL+"/?"+q.Encode(), bodyOfUnknownLength(payload))
			if err != nil {
				t.Fatal(err)
			}
			req.Header.Set("Content-Type", "text/plain; charset=UTF-8")
		}
		req.ContentLength = -1
		req.TransferEncoding = []string{"chunked"}

		status := 0
		resp, err = client.Do(req)
		if err == nil {
			status = resp.StatusCode
			io.Copy(io.Discard, resp.Body)
			resp.Body.Close()
		} else {
			// The server is allowed to cut the connection on an oversize body.
			t.Logf("POST error (acceptable): %v", err)
		}

		// An oversize request must close the session with an error.
		var (
			closeErr  error
			gotClosed bool
		)
		select {
		case closeErr = <-closed:
			gotClosed = true
		case <-time.After(2 * time.Second):
		}

		res.mu.Lock()
		delivered, chunked := res.delivered, res.chunked
		res.mu.Unlock()

		if !chunked {
			t.Fatalf("test setup: the POST was not received with ContentLength == -1 (chunked)")
		}
		if delivered > 0 {
			t.Errorf("MaxBufferSize=%d bypassed by a chunked POST: a %d byte message was delivered to OnPacket (HTTP status %d)",
				limit, delivered, status)
		}
		if status == http.StatusOK {
			t.Errorf("oversize chunked POST was answered with 200 OK, want an error status (413)")
		}
		if !gotClosed {
			t.Errorf("socket was not closed after an oversize chunked POST")
		} else if closeErr == nil {
			t.Errorf("socket was closed without an error after an oversize chunked POST")
		}
	}

	t.Run("plain", func(t *testing.T) { run(t, false) })
	t.Run("jsonp", func(t *testing.T) { run(t, true) })
}
