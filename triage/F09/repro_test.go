package webtransport

import (
	"bytes"
	"encoding/binary"
	"testing"

	"github.com/karagenc/socket.io-go/engine.io/parser"
)

// F09: send() writes the 8-byte extended length with PutUint64, nextPacket()
// reads it back with Uint32 (the high half of the big-endian value), so every
// frame with an encoded length >= 65536 is decoded with expectedLen == 0.
func TestTriageF09(t *testing.T) {
	data := make([]byte, 70000)
	for i := range data {
		data[i] = 'a' + byte(i%26)
	}

	for _, isBinary := range []bool{false, true} {
		packet, err := parser.NewPacket(parser.PacketTypeMessage, isBinary, data)
		if err != nil {
			t.Fatal(err)
		}

		var buf bytes.Buffer
		if err := send(&buf, packet); err != nil {
			t.Fatalf("send: %v", err)
		}
		// Append a small second frame to check that the stream stays in sync.
		next, _ := parser.NewPacket(parser.PacketTypePing, false, []byte("probe"))
		if err := send(&buf, next); err != nil {
			t.Fatalf("send: %v", err)
		}

		got, err := nextPacket(&buf)
		if err != nil {
			t.Fatalf("binary=%t: nextPacket failed for a %d byte frame written by send: %v", isBinary, len(data), err)
		}
		if got.IsBinary != isBinary || got.Type != parser.PacketTypeMessage {
			t.Fatalf("binary=%t: got type %d binary %t", isBinary, got.Type, got.IsBinary)
		}
		if !bytes.Equal(got.Data, data) {
			t.Fatalf("binary=%t: round trip lost data: got %d bytes, want %d", isBinary, len(got.Data), len(data))
		}

		got, err = nextPacket(&buf)
		if err != nil {
			t.Fatalf("binary=%t: stream out of sync after the large frame: %v", isBinary, err)
		}
		if got.Type != parser.PacketTypePing || string(got.Data) != "probe" {
			t.Fatalf("binary=%t: stream out of sync after the large frame: got %s", isBinary, got)
		}
	}

	// Boundary values of the three header forms.
	for _, n := range []int{0, 1, 124, 125, 126, 127, 65534, 65535, 65536, 65537, 1 << 17} {
		packet, _ := parser.NewPacket(parser.PacketTypeMessage, true, data[:0:0])
		packet.Data = bytes.Repeat([]byte{'x'}, n)
		var buf bytes.Buffer
		if err := send(&buf, packet); err != nil {
			t.Fatalf("send: %v", err)
		}
		got, err := nextPacket(&buf)
		if err != nil {
			t.Fatalf("len %d: nextPacket: %v", n, err)
		}
		if len(got.Data) != n {
			t.Fatalf("len %d: got %d bytes back", n, len(got.Data))
		}
	}

	// (Only reached once the round trip works.) A 64-bit length that does not
	// fit a sane non-negative int must be rejected with an error: no panic
	// (negative or out of range makeslice length).
	for _, n := range []uint64{1 << 63, 1<<64 - 1, 1 << 62} {
		hdr := make([]byte, 9)
		hdr[0] = 127 | 0x80
		binary.BigEndian.PutUint64(hdr[1:], n)

		func() {
			defer func() {
				if r := recover(); r != nil {
					t.Errorf("announced length %d: nextPacket panicked: %v", n, r)
				}
			}()
			_, err := nextPacket(bytes.NewReader(hdr))
			if err == nil {
				t.Errorf("announced length %d: nextPacket returned nil error", n)
			}
		}()
	}
}
