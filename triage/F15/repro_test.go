package polling

import (
	"runtime"
	"sync/atomic"
	"testing"
	"time"

	"github.com/karagenc/socket.io-go/engine.io/parser"
)

// F15: lost wake-up in pollQueue. `ready` is unbuffered and `add` signals with a
// non-blocking send, while `poll` calls `get()` first and only later starts to
// receive from `ready`. An `add` that runs between the consumer's `get()` and its
// `select` finds no receiver and drops the signal: the poll sleeps for the whole
// pollTimeout and then answers EMPTY (stale `packets`) although a packet is queued.
//
// Subtest "forced_schedule" is deterministic, but on the unmodified code it needs
// the one-line instrumentation of schedule.patch (a 50 ms sleep between `get()` and
// the `select` in poll()) to open the window. Without the instrumentation it passes.
//
// Subtest "stress" needs no instrumentation: it tries to hit the (sub-microsecond)
// window by brute force. It can never fail on a correct implementation; on the
// unmodified code it hits the window with high probability (multi-core only).
func TestTriageF15(t *testing.T) {
	newMessage := func(t *testing.T) *parser.Packet {
		p, err := parser.NewPacket(parser.PacketTypeMessage, false, []byte("x"))
		if err != nil {
			t.Fatal(err)
		}
		return p
	}

	t.Run("forced_schedule", func(t *testing.T) {
		const (
			pollTimeout = 1 * time.Second
			addAfter    = 10 * time.Millisecond
			prompt      = 500 * time.Millisecond // Generous: instrumentation sleep (50 ms) + scheduling.
		)

		pq := newPollQueue()
		p := newMessage(t)

		type result struct {
			packets []*parser.Packet
			elapsed time.Duration
		}
		done := make(chan result, 1)

		// Goroutine A: the consumer.
		go func() {
			start := time.Now()
			packets := pq.poll(pollTimeout)
			done <- result{packets, time.Since(start)}
		}()

		// Goroutine B: the producer.
		go func() {
			time.Sleep(addAfter)
			pq.add(p)
		}()

		select {
		case r := <-done:
			if len(r.packets) == 0 {
				t.Errorf("poll answered EMPTY after %v although a packet was added %v after the poll started (queue length now: %d)",
					r.elapsed.Round(time.Millisecond), addAfter, pq.len())
			} else if r.packets[0] != p {
				t.Errorf("poll returned an unexpected packet")
			}
			if r.elapsed >= prompt {
				t.Errorf("poll took %v to return (pollTimeout %v); a packet was queued after %v: the wake-up was lost",
					r.elapsed.Round(time.Millisecond), pollTimeout, addAfter)
			}
		case <-time.After(pollTimeout + 5*time.Second):
			t.Fatal("watchdog: poll did not return")
		}
	})

	// A wake-up token that is left over must not make a later poll return early and empty.
	t.Run("stale_signal", func(t *testing.T) {
		const pollTimeout = 300 * time.Millisecond

		pq := newPollQueue()
		p := newMessage(t)

		pq.add(p) // Nobody is polling.
		if got := pq.poll(pollTimeout); len(got) != 1 || got[0] != p {
			t.Fatalf("expected the queued packet, got %d packets", len(got))
		}

		start := time.Now()
		got := pq.poll(pollTimeout)
		elapsed := time.Since(start)
		if len(got) != 0 {
			t.Fatalf("expected no packets, got %d", len(got))
		}
		if elapsed < pollTimeout-20*time.Millisecond {
			t.Errorf("poll on an empty queue returned after %v, before the pollTimeout (%v)", elapsed, pollTimeout)
		}

		// And a packet that arrives while polling after a stale token must be delivered promptly.
		go func() {
			time.Sleep(150 * time.Millisecond) // Well after the consumer started to wait (also with schedule.patch applied).
			pq.add(p)
		}()
		start = time.Now()
		got = pq.poll(1 * time.Second)
		elapsed = time.Since(start)
		if len(got) != 1 || elapsed > 500*time.Millisecond {
			t.Errorf("expected 1 packet promptly, got %d packets after %v", len(got), elapsed)
		}
	})

	t.Run("stress", func(t *testing.T) {
		if runtime.GOMAXPROCS(0) < 2 {
			t.Skip("needs at least 2 Ps to race the producer against the consumer")
		}
		const (
			pollTimeout = 300 * time.Millisecond
			budget      = 3 * time.Second
			maxIter     = 2000000
		)
		p := newMessage(t)
		begin := time.Now()
		var sink uint64

		iter := 0
		for ; iter < maxIter && time.Since(begin) < budget; iter++ {
			pq := newPollQueue()
			var started atomic.Int32
			done := make(chan []*parser.Packet, 1)

			go func() {
				started.Store(1)
				done <- pq.poll(pollTimeout)
			}()

			for started.Load() == 0 {
				// Spin. (Asynchronous preemption keeps this from starving the consumer.)
			}
			// Jitter: vary the delay between the start of poll() and add().
			for j := 0; j < iter%64; j++ {
				sink += uint64(j)
			}
			pq.add(p)

			start := time.Now()
			got := <-done
			elapsed := time.Since(start)
			if len(got) == 0 {
				t.Fatalf("iteration %d: poll answered EMPTY %v after add() returned, with %d packet(s) still queued: the wake-up was lost",
					iter, elapsed.Round(time.Millisecond), pq.len())
			}
		}
		_ = sink
		t.Logf("%d iterations in %v without a lost wake-up", iter, time.Since(begin).Round(time.Millisecond))
	})
}
