package adapter

import (
	"testing"
	"time"

	"github.com/karagenc/socket.io-go/parser"
	jsonparser "github.com/karagenc/socket.io-go/parser/json"
	"github.com/karagenc/socket.io-go/parser/json/serializer/stdjson"
)

// F08: (*PersistedPacket).HasExpired has inverted polarity: it reports fresh
// packets as expired (and old packets as fresh). The cleaner of the session
// aware adapter therefore deletes the newest unexpired packet on every pass.
func TestTriageF08(t *testing.T) {
	// Predicate level.
	fresh := &PersistedPacket{EmittedAt: time.Now()}
	if fresh.HasExpired(time.Hour) {
		t.Errorf("predicate: packet emitted just now reported as expired with a 1 hour window")
	}
	old := &PersistedPacket{EmittedAt: time.Now().Add(-2 * time.Hour)}
	if !old.HasExpired(time.Hour) {
		t.Errorf("predicate: packet emitted 2 hours ago reported as NOT expired with a 1 hour window")
	}

	// Must agree with the sibling predicate used for sessions.
	s := &sessionWithTimestamp{DisconnectedAt: fresh.EmittedAt}
	if s.hasExpired(time.Hour) != fresh.HasExpired(time.Hour) {
		t.Errorf("predicate: PersistedPacket.HasExpired disagrees with sessionWithTimestamp.hasExpired for the same instant")
	}

	// Adapter level: 1 hour recovery window, cleaner pass every 10 ms.
	socketStore := NewTestSocketStore()
	parserCreator := jsonparser.NewCreator(0, stdjson.New())
	mem := NewInMemoryAdapterCreator()(socketStore, parserCreator).(*inMemoryAdapter)
	a := newSessionAwareAdapter(mem, time.Hour, 10*time.Millisecond)

	a.AddAll("s1", []Room{"r1"})
	socketStore.Set(NewTestSocket("s1"))
	a.PersistSession(&SessionToPersist{SID: "s1", PID: "p1", Rooms: []Room{"r1"}})

	for _, msg := range []string{"first", "second", "third"} {
		header := parser.PacketHeader{Namespace: "/", Type: parser.PacketTypeEvent}
		a.Broadcast(&header, []any{msg}, NewBroadcastOptions())
	}

	a.mu.Lock()
	if len(a.packets) != 3 {
		a.mu.Unlock()
		t.Fatalf("expected 3 persisted packets right after Broadcast, got %d", len(a.packets))
	}
	offset := a.packets[0].ID
	a.mu.Unlock()

	// Let the cleaner run a number of passes. Nothing is anywhere near expiry.
	time.Sleep(200 * time.Millisecond)

	a.mu.Lock()
	n := len(a.packets)
	var left []any
	for _, p := range a.packets {
		left = append(left, p.Data[0])
	}
	a.mu.Unlock()
	if n != 3 {
		t.Errorf("adapter: %d of 3 fresh packets (1 hour window) survived 200 ms of cleaner passes; left: %v", n, left)
	}

	session, ok := a.RestoreSession("p1", offset)
	if !ok {
		t.Fatalf("adapter: RestoreSession failed although session and offset are 200 ms old with a 1 hour window")
	}
	if len(session.MissedPackets) != 2 {
		t.Fatalf("adapter: session recovered with a gap: %d missed packets, want 2", len(session.MissedPackets))
	}
	if session.MissedPackets[0].Data[0] != "second" || session.MissedPackets[1].Data[0] != "third" {
		t.Fatalf("adapter: wrong missed packets: %v, %v", session.MissedPackets[0].Data, session.MissedPackets[1].Data)
	}
}
