package sio

import (
	"reflect"
	"sync/atomic"
	"testing"
	"time"
)

// F24: (*Namespace).runMiddlewares and (*serverSocket).callMiddlewares call the user's
// middleware functions while holding middlewareFuncsMu.RLock(). Use takes the write lock
// of the same mutex, so a middleware that calls Use (e.g. to install a further middleware
// once a condition is met) deadlocks: the connection / event being processed hangs
// forever, and so does everything else that needs that lock afterwards.
func TestTriageF24(t *testing.T) {
	// Runs f with a watchdog. Returns false if f did not return in time.
	returnsInTime := func(f func()) bool {
		done := make(chan struct{})
		go func() {
			defer close(done)
			f()
		}()
		select {
		case <-done:
			return true
		case <-time.After(2 * time.Second):
			return false
		}
	}

	t.Run("Namespace.Use from a namespace middleware", func(t *testing.T) {
		server := NewServer(nil)
		nsp := server.Of("/")

		var firstCalls, addedCalls atomic.Int32
		added := func(socket ServerSocket, handshake *Handshake) any {
			addedCalls.Add(1)
			return nil
		}
		nsp.Use(func(socket ServerSocket, handshake *Handshake) any {
			if firstCalls.Add(1) == 1 {
				nsp.Use(added)
			}
			return nil
		})

		var err error
		if !returnsInTime(func() { err = nsp.runMiddlewares(nil, &Handshake{}) }) {
			t.Fatal("runMiddlewares deadlocked: the middleware called nsp.Use while runMiddlewares holds middlewareFuncsMu.RLock()")
		}
		if err != nil {
			t.Fatalf("runMiddlewares: unexpected error: %v", err)
		}

		// The middleware installed on the way must be in effect for the next connection.
		if !returnsInTime(func() { err = nsp.runMiddlewares(nil, &Handshake{}) }) {
			t.Fatal("second runMiddlewares did not return")
		}
		if err != nil {
			t.Fatalf("second runMiddlewares: unexpected error: %v", err)
		}
		if firstCalls.Load() != 2 || addedCalls.Load() < 1 {
			t.Fatalf("after 2 runs: first middleware called %d time(s) (want 2), added middleware called %d time(s) (want at least 1)",
				firstCalls.Load(), addedCalls.Load())
		}
	})

	t.Run("ServerSocket.Use from a socket middleware", func(t *testing.T) {
		// Use/callMiddlewares only touch middlewareFuncs and middlewareFuncsMu.
		socket := new(serverSocket)

		var firstCalls, addedCalls atomic.Int32
		added := func(eventName string, v ...any) error {
			addedCalls.Add(1)
			return nil
		}
		socket.Use(func(eventName string, v ...any) error {
			if firstCalls.Add(1) == 1 {
				socket.Use(added)
			}
			return nil
		})

		values := []reflect.Value{reflect.ValueOf("event")}
		var err error
		if !returnsInTime(func() { err = socket.callMiddlewares(values) }) {
			t.Fatal("callMiddlewares deadlocked: the middleware called socket.Use while callMiddlewares holds middlewareFuncsMu.RLock()")
		}
		if err != nil {
			t.Fatalf("callMiddlewares: unexpected error: %v", err)
		}

		if !returnsInTime(func() { err = socket.callMiddlewares(values) }) {
			t.Fatal("second callMiddlewares did not return")
		}
		if err != nil {
			t.Fatalf("second callMiddlewares: unexpected error: %v", err)
		}
		if firstCalls.Load() != 2 || addedCalls.Load() < 1 {
			t.Fatalf("after 2 runs: first middleware called %d time(s) (want 2), added middleware called %d time(s) (want at least 1)",
				firstCalls.Load(), addedCalls.Load())
		}
	})
}
