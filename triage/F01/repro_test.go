package sio

import (
	"reflect"
	"testing"
)

// F01: handlerStore.off / handlerStore.offSubEvent / eventHandlerStore.off delete
// from a slice while ranging over it. Removing more than one element in a single
// call panics (slice bounds out of range) or leaves a handler behind.
func TestTriageF01(t *testing.T) {
	// Turns a panic inside f into a test failure instead of killing the test binary.
	noPanic := func(t *testing.T, what string, f func()) {
		t.Helper()
		defer func() {
			if r := recover(); r != nil {
				t.Fatalf("%s panicked: %v", what, r)
			}
		}()
		f()
	}

	type testFn func()

	t.Run("handlerStore.off(a, b)", func(t *testing.T) {
		store := newHandlerStore[*testFn]()
		var a, b, c testFn = func() {}, func() {}, func() {}
		store.on(&a)
		store.on(&b)
		store.on(&c)
		store.once(&a)
		store.once(&b)

		noPanic(t, "off(a, b)", func() { store.off(&a, &b) })

		if len(store.funcs) != 1 || store.funcs[0] != &c {
			t.Fatalf("funcs after off(a, b): want exactly [c], got %d element(s)", len(store.funcs))
		}
		if len(store.funcsOnce) != 0 {
			t.Fatalf("funcsOnce after off(a, b): want empty, got %d element(s)", len(store.funcsOnce))
		}
	})

	t.Run("handlerStore.off(a) with a registered twice", func(t *testing.T) {
		store := newHandlerStore[*testFn]()
		var a, b testFn = func() {}, func() {}
		store.on(&a)
		store.on(&a)
		store.on(&b)

		noPanic(t, "off(a)", func() { store.off(&a) })

		if len(store.funcs) != 1 || store.funcs[0] != &b {
			t.Fatalf("funcs after off(a): want exactly [b], got %d element(s)", len(store.funcs))
		}
	})

	t.Run("handlerStore.offSubEvent", func(t *testing.T) {
		store := newHandlerStore[*testFn]()
		var a, b testFn = func() {}, func() {}
		store.onSubEvent(&a)
		store.onSubEvent(&a)
		store.onSubEvent(&b)

		noPanic(t, "offSubEvent(a)", func() { store.offSubEvent(&a) })

		if len(store.subs) != 1 || store.subs[0] != &b {
			t.Fatalf("subs after offSubEvent(a): want exactly [b], got %d element(s)", len(store.subs))
		}
	})

	t.Run("eventHandlerStore.off(name, a, b)", func(t *testing.T) {
		store := newEventHandlerStore()
		fa := func() {}
		fb := func(int) {}
		fc := func(string) {}
		for _, f := range []any{fa, fb, fc} {
			h, err := newEventHandler(f)
			if err != nil {
				t.Fatal(err)
			}
			store.on("x", h)
		}
		for _, f := range []any{fa, fb} {
			h, err := newEventHandler(f)
			if err != nil {
				t.Fatal(err)
			}
			store.once("x", h)
		}

		noPanic(t, `off("x", fa, fb)`, func() {
			store.off("x", reflect.ValueOf(fa), reflect.ValueOf(fb))
		})

		if got := store.events["x"]; len(got) != 1 || got[0].rv.Pointer() != reflect.ValueOf(fc).Pointer() {
			t.Fatalf(`events["x"] after off(fa, fb): want exactly [fc], got %d element(s)`, len(got))
		}
		if got := store.eventsOnce["x"]; len(got) != 0 {
			t.Fatalf(`eventsOnce["x"] after off(fa, fb): want empty, got %d element(s)`, len(got))
		}
	})

	// Same defect through the public API.
	t.Run("Socket.OffEvent(name, fa, fb)", func(t *testing.T) {
		manager := NewManager("http://127.0.0.1:1", nil)
		socket := manager.Socket("/", nil)
		fa := func() {}
		fb := func(int) {}
		socket.OnEvent("x", fa)
		socket.OnEvent("x", fb)

		noPanic(t, `OffEvent("x", fa, fb)`, func() { socket.OffEvent("x", fa, fb) })

		if left := socket.(*clientSocket).eventHandlers.getAll("x"); len(left) != 0 {
			t.Fatalf(`%d handler(s) for "x" still registered after OffEvent("x", fa, fb)`, len(left))
		}
	})
}
