package sio

import (
	"sync/atomic"
	"testing"
	"time"
)

// Events that a client emitted while it was disconnected are flushed as soon as the CONNECT
// reply arrives. On the server the connection handlers run on their own goroutine after the
// CONNECT reply was queued, concurrently with the dispatch of incoming packets; an event that is
// dispatched before the connection handler has registered its handler is dropped silently.
//
// Here the window is opened with the public API only: a connection handler that is registered
// first (it could be a logger, a metrics hook, a database lookup) takes 100ms, the handler that
// registers the event handlers comes after it.
func TestHunt7(t *testing.T) {
	io, _, manager, close := newTestServerAndClient(t, nil, nil)
	defer close()

	var got atomic.Int32
	io.OnAnyConnection(func(namespace string, socket ServerSocket) {
		time.Sleep(100 * time.Millisecond) // audit log, say
	})
	io.OnConnection(func(socket ServerSocket) {
		socket.OnEvent("hello", func(n int) {
			got.Add(1)
		})
	})

	socket := manager.Socket("/", nil)
	socket.Emit("hello", 1) // emitted offline: buffered, flushed upon connection
	socket.Connect()

	deadline := time.Now().Add(5 * time.Second)
	for got.Load() == 0 && time.Now().Before(deadline) {
		time.Sleep(10 * time.Millisecond)
	}
	time.Sleep(200 * time.Millisecond)
	if n := got.Load(); n != 1 {
		t.Errorf("event emitted before Connect(): delivered %d times, want 1", n)
	}
	manager.Close()
}
