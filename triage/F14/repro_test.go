package sio

import (
	"reflect"
	"testing"
	"time"

	eioparser "github.com/karagenc/socket.io-go/engine.io/parser"
	"github.com/karagenc/socket.io-go/parser"
)

// F14: (*clientSocket).emitBuffered returns out of the whole function when the
// handler of a buffered event already sent its ack. It must only skip the
// "empty ack" for that one event: the rest of the receive buffer still has to
// be replayed, the receive buffer has to be cleared and the send buffer has to
// be flushed.
func TestTriageF14(t *testing.T) {
	s := NewManager("http://127.0.0.1:1", nil).Socket("/", nil).(*clientSocket)

	// emitBuffered is only ever called from onConnect, after the state was set to connected.
	s.stateMu.Lock()
	s.state = clientSocketConnStateConnected
	s.stateMu.Unlock()

	var ackHandlerCalls, plainHandlerCalls int

	// 1st buffered event: has an ack ID, and its handler acknowledges synchronously.
	withAck, err := newEventHandler(func(ack func()) {
		ackHandlerCalls++
		ack()
	})
	if err != nil {
		t.Fatal(err)
	}
	// 2nd buffered event: a plain event that was received after the 1st one.
	plain, err := newEventHandler(func() { plainHandlerCalls++ })
	if err != nil {
		t.Fatal(err)
	}

	ackID := uint64(7)
	s.receiveBufferMu.Lock()
	s.receiveBuffer = []*clientEvent{
		{
			handler: withAck,
			header:  &parser.PacketHeader{Type: parser.PacketTypeEvent, Namespace: "/", ID: &ackID},
			values:  []reflect.Value{reflect.Zero(reflect.TypeOf(func() {}))},
		},
		{
			handler: plain,
			header:  &parser.PacketHeader{Type: parser.PacketTypeEvent, Namespace: "/"},
			values:  nil,
		},
	}
	s.receiveBufferMu.Unlock()

	// An event the application emitted while the socket was offline.
	offline, err := eioparser.NewPacket(eioparser.PacketTypeMessage, false, []byte(`2["offline"]`))
	if err != nil {
		t.Fatal(err)
	}
	s.sendBufferMu.Lock()
	s.sendBuffer = []sendBufferItem{{packet: offline}}
	s.sendBufferMu.Unlock()

	done := make(chan struct{})
	go func() {
		defer close(done)
		s.emitBuffered()
	}()
	select {
	case <-done:
	case <-time.After(10 * time.Second):
		t.Fatal("emitBuffered did not return")
	}

	s.receiveBufferMu.Lock()
	receiveBufferLen := len(s.receiveBuffer)
	s.receiveBufferMu.Unlock()
	s.sendBufferMu.Lock()
	sendBufferLen := len(s.sendBuffer)
	s.sendBufferMu.Unlock()

	if ackHandlerCalls != 1 {
		t.Errorf("handler of the buffered event with ack: got %d calls, want 1", ackHandlerCalls)
	}
	if plainHandlerCalls != 1 {
		t.Errorf("handler of the buffered event after the acknowledged one: got %d calls, want 1", plainHandlerCalls)
	}
	if receiveBufferLen != 0 {
		t.Errorf("receiveBuffer still holds %d event(s) after emitBuffered, want 0 (they will be replayed again on the next connect)", receiveBufferLen)
	}
	if sendBufferLen != 0 {
		t.Errorf("sendBuffer still holds %d packet(s) after emitBuffered, want 0 (offline emits are not sent on this connect)", sendBufferLen)
	}

	// The offline emit must have reached the manager's queue.
	s.manager.eioPacketQueue.mu.Lock()
	flushed := false
	for _, p := range s.manager.eioPacketQueue.packets {
		if p == offline {
			flushed = true
		}
	}
	s.manager.eioPacketQueue.mu.Unlock()
	if !flushed {
		t.Errorf("the packet of sendBuffer was not handed to the manager")
	}

	// A second connect must not replay anything.
	done = make(chan struct{})
	go func() {
		defer close(done)
		s.emitBuffered()
	}()
	select {
	case <-done:
	case <-time.After(10 * time.Second):
		t.Fatal("2nd emitBuffered did not return")
	}
	if ackHandlerCalls != 1 || plainHandlerCalls != 1 {
		t.Errorf("after a 2nd emitBuffered: handler calls = %d and %d, want 1 and 1 (events replayed twice)", ackHandlerCalls, plainHandlerCalls)
	}
}
