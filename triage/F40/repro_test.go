package adapter

// F40 reproducer: the cleaner removes ONE expired packet per pass — the newest expired one — and keeps the older
// ones.  A session whose offset is an older (kept) packet is then reported recovered although the removed packet,
// which it never received, is missing from the replay: recovered with a gap.
//   go test -vet=off -count=1 -run TestF40 -v ./adapter/

import (
	"testing"
	"time"

	"github.com/karagenc/socket.io-go/parser"
)

func TestF40CleanerLeavesAGap(t *testing.T) {
	const window = 300 * time.Millisecond
	a := newTestSessionAwareAdapter(window, 100*time.Millisecond)
	store := a.sockets.(*TestSocketStore)
	store.sendBuffers = func(sid SocketID, buffers [][]byte) bool { return true }

	header := parser.PacketHeader{Namespace: "/", Type: parser.PacketTypeEvent}
	emit := func(name string) string {
		a.Broadcast(&header, []any{name}, NewBroadcastOptions())
		a.mu.Lock()
		defer a.mu.Unlock()
		return a.packets[len(a.packets)-1].ID
	}
	// cleaner passes at 100, 200, 300, 400, 500 ms; keep the two emissions inside one interval
	time.Sleep(30 * time.Millisecond)
	// t=30: the client receives p1 (its offset) ...
	p1 := emit("p1")
	// ... then its connection stalls: p2 is logged but never reaches it
	time.Sleep(20 * time.Millisecond)
	emit("p2")
	// the server notices the dead connection only later (ping timeout) and persists the session then
	time.Sleep(200 * time.Millisecond)
	a.PersistSession(&SessionToPersist{SID: "s1", PID: "pid1", Rooms: []Room{"s1"}})
	// p1 and p2 expire (window after emission) while the session (window after the disconnect) is still valid
	time.Sleep(200 * time.Millisecond) // t = 450 ms: the pass at 400 ms found p1 and p2 expired (330, 350); the next pass comes at 500 ms

	session, ok := a.RestoreSession("pid1", p1)
	if !ok {
		t.Log("not recovered: the client gets a fresh session (correct: the log no longer covers its offset)")
		return
	}
	for _, mp := range session.MissedPackets {
		if len(mp.Data) > 0 && mp.Data[0] == "p2" {
			t.Log("recovered and p2 is replayed (correct)")
			return
		}
	}
	t.Fatalf("session reported recovered, but p2 — emitted after the client's offset and never received — is not among the %d missed packets: recovered with a gap", len(session.MissedPackets))
}
