package jsonparser

import (
	"bytes"
	"errors"
	"fmt"
	"reflect"
	"testing"

	"github.com/karagenc/socket.io-go/parser"
	"github.com/karagenc/socket.io-go/parser/json/serializer/stdjson"
)

// F06: the placeholder index of a binary packet is attacker controlled and its
// lower bound is never checked (3 sites in binary.go). A negative "num" must
// produce errInvalidPlaceholderNumValue, not an index-out-of-range panic.
func TestTriageF06(t *testing.T) {
	attachment := []byte{0xde, 0xad, 0xbe, 0xef}

	// decodeFrames feeds the header frame and one attachment frame through
	// Parser.Add and decodes with the given handler argument type.
	decodeFrames := func(headerFrame string, typ reflect.Type) (values []reflect.Value, err error, panicked any) {
		p := NewCreator(0, stdjson.New())()
		finished := false
		finish := func(header *parser.PacketHeader, eventName string, decode parser.Decode) {
			finished = true
			defer func() {
				if r := recover(); r != nil {
					panicked = r
				}
			}()
			values, err = decode(typ)
		}
		if e := p.Add([]byte(headerFrame), finish); e != nil {
			t.Fatalf("Add(header %q): %v", headerFrame, e)
		}
		if finished {
			t.Fatalf("finish called before the attachment arrived (%q)", headerFrame)
		}
		if e := p.Add(attachment, finish); e != nil {
			t.Fatalf("Add(attachment): %v", e)
		}
		if !finished {
			t.Fatalf("finish was not called (%q)", headerFrame)
		}
		return
	}

	var (
		anyPtr    *any
		binaryTyp = reflect.TypeOf(Binary{})
		mapTyp    = reflect.TypeOf(map[string]any{})
		anyTyp    = reflect.TypeOf(anyPtr)
	)

	for _, num := range []int{-5, -2, -1} {
		direct := fmt.Sprintf(`51-["ev",{"_placeholder":true,"num":%d}]`, num)
		nested := fmt.Sprintf(`51-["ev",{"k":{"_placeholder":true,"num":%d}}]`, num)

		cases := []struct {
			name   string
			frame  string
			typ    reflect.Type
			rounds int
		}{
			// Site 1: reconstructBinaryValue.
			{"Binary", direct, binaryTyp, 1},
			// Sites 2 and 3: reconstructMap. Which of the two is reached depends
			// on the (random) order of reflect.Value.MapKeys, so repeat.
			{"map[string]any", nested, mapTyp, 64},
			{"any", nested, anyTyp, 64},
		}

		for _, c := range cases {
			for i := 0; i < c.rounds; i++ {
				_, err, panicked := decodeFrames(c.frame, c.typ)
				if panicked != nil {
					t.Errorf("num=%d into %s (round %d): decode panicked: %v", num, c.name, i, panicked)
					break
				}
				if !errors.Is(err, errInvalidPlaceholderNumValue) {
					t.Errorf("num=%d into %s (round %d): got err %v, want %v", num, c.name, i, err, errInvalidPlaceholderNumValue)
					break
				}
			}
		}
	}

	// A valid placeholder must keep working.
	values, err, panicked := decodeFrames(`51-["ev",{"_placeholder":true,"num":0}]`, binaryTyp)
	if panicked != nil || err != nil {
		t.Fatalf("valid placeholder into Binary: panic=%v err=%v", panicked, err)
	}
	if got := values[0].Elem().Interface().(Binary); !bytes.Equal(got, attachment) {
		t.Fatalf("valid placeholder into Binary: got %x, want %x", []byte(got), attachment)
	}

	for i := 0; i < 16; i++ {
		values, err, panicked = decodeFrames(`51-["ev",{"k":{"_placeholder":true,"num":0}}]`, mapTyp)
		if panicked != nil || err != nil {
			t.Fatalf("valid placeholder into map: panic=%v err=%v", panicked, err)
		}
		m := values[0].Elem().Interface().(map[string]any)
		if got, ok := m["k"].([]byte); !ok || !bytes.Equal(got, attachment) {
			t.Fatalf("valid placeholder into map: got %#v, want %x", m["k"], attachment)
		}
	}
}
