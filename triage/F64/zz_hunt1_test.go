package sio

import (
	"sync/atomic"
	"testing"
	"time"
)

// C03: "If a timeout is set it is invoked exactly once - with the peer's reply when that
// arrives in time, otherwise with ErrAckTimeout".
//
// The client socket is configured with Retries > 0 (and no default AckTimeout). The timeout
// given with Timeout(d) is dropped when the packet goes through the retry queue.
func TestHunt1(t *testing.T) {
	io, _, manager, close := newTestServerAndClient(
		t,
		&ServerConfig{AcceptAnyNamespace: true},
		nil,
	)
	defer close()
	manager.OnError(func(err error) { t.Logf("manager error: %v", err) })

	io.OnAnyConnection(func(_ string, socket ServerSocket) {
		// Never acknowledged.
		socket.OnEvent("silent", func(n int) {})
		// Acknowledged at once.
		socket.OnEvent("echo", func(n int, ack func(int)) { ack(n) })
	})

	connect := func(nsp string) ClientSocket {
		socket := manager.Socket(nsp, &ClientSocketConfig{Retries: 1})
		connected := make(chan struct{}, 1)
		socket.OnConnect(func() {
			select {
			case connected <- struct{}{}:
			default:
			}
		})
		socket.Connect()
		select {
		case <-connected:
		case <-time.After(10 * time.Second):
			t.Fatal("client did not connect")
		}
		return socket
	}

	t.Run("no reply: ErrAckTimeout expected", func(t *testing.T) {
		socket := connect("/a")
		var (
			calls atomic.Int32
			errs  = make(chan error, 8)
		)
		socket.Timeout(200*time.Millisecond).Emit("silent", 1, func(err error) {
			calls.Add(1)
			errs <- err
		})
		// Timeout 200 ms, 1 retry: the ack must have been called with ErrAckTimeout after about 400 ms.
		select {
		case err := <-errs:
			if err != ErrAckTimeout {
				t.Errorf("expected ErrAckTimeout, got %v", err)
			}
		case <-time.After(5 * time.Second):
			t.Errorf("ack with Timeout(200ms) was not called within 5 s (calls: %d)", calls.Load())
		}
	})

	t.Run("reply in time: reply expected", func(t *testing.T) {
		socket := connect("/b")
		type result struct {
			err error
			n   int
		}
		results := make(chan result, 8)
		socket.Timeout(2*time.Second).Emit("echo", 42, func(err error, n int) {
			results <- result{err, n}
		})
		select {
		case r := <-results:
			if r.err != nil || r.n != 42 {
				t.Errorf("expected (nil, 42), got (%v, %d)", r.err, r.n)
			}
		case <-time.After(6 * time.Second):
			t.Error("ack with Timeout(2s) was called neither with the reply nor with ErrAckTimeout within 6 s")
		}
	})
}
