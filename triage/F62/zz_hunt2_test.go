package jsonparser

import (
	"bytes"
	"fmt"
	"reflect"
	"testing"

	"github.com/karagenc/socket.io-go/parser"
	"github.com/karagenc/socket.io-go/parser/json/serializer/stdjson"
)

type hunt2Leaf struct {
	Name string `json:"name"`
	Bin  Binary `json:"bin"`
}

type hunt2Envelope struct {
	Kind    string `json:"kind"`
	Payload any    `json:"payload"`
}

// Encode fails ("non-settable value") for ordinary argument trees in which a Binary sits
// at a position that is not addressable:
//
//   - the value of an `any` struct field (struct{Payload any}{Payload: Binary}), also when
//     the field holds a struct by value that has a Binary field;
//   - a struct that is the value of a map (map[string]any{"k": S{Bin}}, map[string]S).
//
// The same trees are encoded fine when the Binary is reached through a pointer, a slice or a map,
// and the decoder accepts the frames such a tree must produce (it fills `any` struct fields).
// On top of that, the decoder cannot fill map[string]S at all.
func TestHunt2(t *testing.T) {
	data := []byte{0, 1, 2, 0xfe, 0xff}
	bin := func() Binary { return Binary(bytes.Clone(data)) }

	// Encodes ["ev", arg] as an EVENT, feeds the frames to a fresh parser, decodes with the given type.
	roundTrip := func(t *testing.T, arg any, typ reflect.Type) (frames [][]byte, decoded any) {
		t.Helper()
		v := []any{"ev", arg}
		header := &parser.PacketHeader{Type: parser.PacketTypeEvent, Namespace: "/"}

		frames, err := NewCreator(0, stdjson.New())().Encode(header, &v)
		if err != nil {
			t.Fatalf("Encode failed: %v", err)
		}
		if len(frames) != 2 {
			t.Fatalf("2 frames expected (the packet and 1 attachment), got %d: %q", len(frames), frames)
		}
		if !bytes.Equal(frames[1], data) {
			t.Fatalf("attachment is not byte-identical: %v", frames[1])
		}

		var (
			finished bool
			dec      = NewCreator(0, stdjson.New())()
		)
		for _, frame := range frames {
			err = dec.Add(frame, func(header *parser.PacketHeader, eventName string, decode parser.Decode) {
				finished = true
				if header.Type != parser.PacketTypeBinaryEvent || eventName != "ev" {
					t.Fatalf("unexpected header: type %d, event name %q", header.Type, eventName)
				}
				values, err := decode(typ)
				if err != nil {
					t.Fatalf("decode failed: %v (frames: %q)", err, frames)
				}
				if len(values) != 1 {
					t.Fatalf("1 value expected, got %d", len(values))
				}
				decoded = values[0].Elem().Interface()
			})
			if err != nil {
				t.Fatalf("Add failed: %v", err)
			}
		}
		if !finished {
			t.Fatal("the decoder did not finish the packet")
		}
		return
	}

	t.Run("Binary in an `any` struct field", func(t *testing.T) {
		frames, decoded := roundTrip(t, &hunt2Envelope{Kind: "file", Payload: bin()}, reflect.TypeOf(hunt2Envelope{}))
		if expected := `51-["ev",{"kind":"file","payload":{"_placeholder":true,"num":0}}]`; string(frames[0]) != expected {
			t.Fatalf("frame:    %s\nexpected: %s", frames[0], expected)
		}
		got := decoded.(hunt2Envelope)
		if b, ok := got.Payload.([]byte); got.Kind != "file" || !ok || !bytes.Equal(b, data) {
			t.Fatalf("decoded: %#v", got)
		}
	})

	t.Run("struct with a Binary in an `any` struct field", func(t *testing.T) {
		frames, decoded := roundTrip(t, &hunt2Envelope{Kind: "file", Payload: hunt2Leaf{Name: "n", Bin: bin()}}, reflect.TypeOf(hunt2Envelope{}))
		if expected := `51-["ev",{"kind":"file","payload":{"name":"n","bin":{"_placeholder":true,"num":0}}}]`; string(frames[0]) != expected {
			t.Fatalf("frame:    %s\nexpected: %s", frames[0], expected)
		}
		got := decoded.(hunt2Envelope)
		m, _ := got.Payload.(map[string]any)
		if b, ok := m["bin"].([]byte); !ok || !bytes.Equal(b, data) || m["name"] != "n" {
			t.Fatalf("decoded: %#v", got)
		}
	})

	t.Run("struct as a value of map[string]any", func(t *testing.T) {
		frames, decoded := roundTrip(t, map[string]any{"k": hunt2Leaf{Name: "n", Bin: bin()}}, reflect.TypeOf(map[string]*hunt2Leaf{}))
		if expected := `51-["ev",{"k":{"name":"n","bin":{"_placeholder":true,"num":0}}}]`; string(frames[0]) != expected {
			t.Fatalf("frame:    %s\nexpected: %s", frames[0], expected)
		}
		got := decoded.(map[string]*hunt2Leaf)
		if got["k"] == nil || got["k"].Name != "n" || !bytes.Equal(got["k"].Bin, data) {
			t.Fatalf("decoded: %s", fmt.Sprintf("%#v", got["k"]))
		}
	})

	t.Run("map[string]struct", func(t *testing.T) {
		frames, decoded := roundTrip(t, map[string]hunt2Leaf{"k": {Name: "n", Bin: bin()}}, reflect.TypeOf(map[string]hunt2Leaf{}))
		if expected := `51-["ev",{"k":{"name":"n","bin":{"_placeholder":true,"num":0}}}]`; string(frames[0]) != expected {
			t.Fatalf("frame:    %s\nexpected: %s", frames[0], expected)
		}
		got := decoded.(map[string]hunt2Leaf)
		if got["k"].Name != "n" || !bytes.Equal(got["k"].Bin, data) {
			t.Fatalf("decoded: %#v", got)
		}
	})

	// Decoder alone: frames as any other implementation sends them.
	t.Run("decode into map[string]struct", func(t *testing.T) {
		dec := NewCreator(0, stdjson.New())()
		frames := [][]byte{[]byte(`51-["ev",{"k":{"name":"n","bin":{"_placeholder":true,"num":0}}}]`), data}
		finished := false
		for _, frame := range frames {
			err := dec.Add(frame, func(header *parser.PacketHeader, eventName string, decode parser.Decode) {
				finished = true
				values, err := decode(reflect.TypeOf(map[string]hunt2Leaf{}))
				if err != nil {
					t.Fatalf("decode failed: %v", err)
				}
				got := values[0].Elem().Interface().(map[string]hunt2Leaf)
				if got["k"].Name != "n" || !bytes.Equal(got["k"].Bin, data) {
					t.Fatalf("decoded: %#v", got)
				}
			})
			if err != nil {
				t.Fatal(err)
			}
		}
		if !finished {
			t.Fatal("the decoder did not finish the packet")
		}
	})
}
