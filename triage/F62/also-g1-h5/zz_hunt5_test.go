package sio

import (
	"bytes"
	"testing"
	"time"
)

type hunt5Item struct {
	N    int    `json:"n"`
	Data Binary `json:"data"`
}

type hunt5Envelope struct {
	Kind    string `json:"kind"`
	Payload any    `json:"payload"`
}

// A struct with a Binary field that is a value of a map, or that sits in an `any` field of
// another struct (and a Binary directly in an `any` field): the walker cannot write the
// placeholder back, Encode fails and the event is never sent - although the same leaves are
// fine one level up (map[string]any{"k": Binary}, map[string]any{"k": &item}, []any{item}, &item).
// The receiving side has the same hole: a handler that takes map[string]item never runs.
func TestHunt5(t *testing.T) {
	io, _, manager, close := newTestServerAndClient(t, nil, nil)
	defer close()

	gotC := make(chan string, 16)
	data := []byte("ATTACHMENT")

	check := func(name string, n int, b []byte) {
		if n != 7 || !bytes.Equal(b, data) {
			t.Errorf("%s: got n=%d data=%q", name, n, b)
		}
		gotC <- name
	}

	io.OnConnection(func(socket ServerSocket) {
		socket.OnError(func(err error) { t.Logf("server socket error: %v", err) })
		socket.OnEvent("control", func(m map[string]*hunt5Item) { check("control", m["k"].N, m["k"].Data) })
		socket.OnEvent("map-any", func(m map[string]*hunt5Item) { check("map-any", m["k"].N, m["k"].Data) })
		socket.OnEvent("map-typed", func(m map[string]*hunt5Item) { check("map-typed", m["k"].N, m["k"].Data) })
		socket.OnEvent("any-field-struct", func(e struct {
			Kind    string    `json:"kind"`
			Payload hunt5Item `json:"payload"`
		}) {
			check("any-field-struct", e.Payload.N, e.Payload.Data)
		})
		socket.OnEvent("any-field-binary", func(e struct {
			Kind    string `json:"kind"`
			Payload Binary `json:"payload"`
		}) {
			check("any-field-binary", 7, e.Payload)
		})
		// Sent in a shape that can be encoded (pointer), received as a map of struct values.
		socket.OnEvent("receive-map-typed", func(m map[string]hunt5Item) { check("receive-map-typed", m["k"].N, m["k"].Data) })
	})

	socket := manager.Socket("/", nil)
	manager.OnError(func(err error) { t.Logf("manager error: %v", err) })
	connected := make(chan struct{}, 1)
	socket.OnConnect(func() { connected <- struct{}{} })
	socket.Connect()
	select {
	case <-connected:
	case <-time.After(10 * time.Second):
		t.Fatal("not connected")
	}

	item := func() hunt5Item { return hunt5Item{N: 7, Data: Binary(bytes.Clone(data))} }
	ptr := func() *hunt5Item { i := item(); return &i }
	emits := []struct {
		name string
		v    any
	}{
		{"control", map[string]any{"k": ptr()}},
		{"map-any", map[string]any{"k": item()}},
		{"map-typed", map[string]hunt5Item{"k": item()}},
		{"any-field-struct", hunt5Envelope{Kind: "item", Payload: item()}},
		{"any-field-binary", hunt5Envelope{Kind: "raw", Payload: Binary(bytes.Clone(data))}},
		{"receive-map-typed", map[string]any{"k": ptr()}},
	}
	for _, e := range emits {
		socket.Emit(e.name, e.v)
		select {
		case name := <-gotC:
			if name != e.name {
				t.Errorf("%s: handler of %s was called", e.name, name)
			}
		case <-time.After(2 * time.Second):
			t.Errorf("%s: the event was not delivered", e.name)
		}
	}
	manager.Close()
}
