#!/usr/bin/env python3
"""Selftest of the analyser: applies each catalogued mutant (one edit to a
scratch copy of /repo, outside /repo and /verif), checks that the copy still
builds, runs the owning property's check against the copy in a separate
process and requires a violation naming the expected rule.  Not part of any
registered check command.

usage: selftest.py [-j N] [--only SUBSTR] [--no-build]
"""
import json, os, shutil, subprocess, sys, tempfile, concurrent.futures as cf

HERE = os.path.dirname(os.path.abspath(__file__))
VERIF = os.path.dirname(HERE)
REPO = "/repo"
ENV = dict(os.environ, GOFLAGS="-mod=mod", GOPROXY="off", GOSUMDB="off", GOTOOLCHAIN="local", GOWORK="off")

MUTANTS = []
def mutant(mid, prop, rule, file, old, new, count=1):
    MUTANTS.append(dict(id=mid, prop=prop, rule=rule, file=file, old=old, new=new, count=count))

exec(open(os.path.join(HERE, "mutants.py")).read())

def run_one(m, build=True):
    d = tempfile.mkdtemp(prefix="siomut-", dir=os.environ.get("TMPDIR", "/tmp"))
    try:
        repo = os.path.join(d, "repo")
        subprocess.run(["rsync", "-a", "--exclude", ".git", REPO + "/", repo + "/"], check=True)
        path = os.path.join(repo, m["file"])
        src = open(path).read()
        if src.count(m["old"]) < 1:
            return m, "STALE", "pattern not found in " + m["file"]
        if m["count"] == 1 and src.count(m["old"]) != 1:
            return m, "STALE", "pattern occurs %d times in %s" % (src.count(m["old"]), m["file"])
        src = src.replace(m["old"], m["new"], m["count"] if m["count"] > 0 else -1)
        if "then" in m and len(m["then"]) == 2:
            o2, n2 = m["then"]
            if src.count(o2) != 1:
                return m, "STALE", "second pattern not found exactly once"
            src = src.replace(o2, n2)
        open(path, "w").write(src)
        if "then" in m and len(m["then"]) == 3:
            f2, o2, n2 = m["then"]
            p2 = os.path.join(repo, f2)
            s2 = open(p2).read()
            if s2.count(o2) != 1:
                return m, "STALE", "second pattern not found exactly once in " + f2
            open(p2, "w").write(s2.replace(o2, n2))
        if build:
            pk = "./" + os.path.dirname(m["file"]) if os.path.dirname(m["file"]) else "."
            r = subprocess.run(["go", "build", "./..."], cwd=repo, env=ENV, capture_output=True, text=True)
            if r.returncode != 0:
                return m, "NOBUILD", r.stderr[-400:]
        vd = os.path.join(d, "verif")
        os.makedirs(vd)
        shutil.copy(os.path.join(VERIF, "KNOWN_FINDINGS.txt"), vd)
        r = subprocess.run([os.path.join(VERIF, "bin/sioverif"), "check", m["prop"], "--repo", repo, "--verif", vd], env=ENV, capture_output=True, text=True)
        out = r.stdout + r.stderr
        hit = [l for l in out.splitlines() if l.startswith("violation:")]
        if r.returncode == 1 and any((" " + m["rule"] + " ") in l for l in hit):
            return m, "CAUGHT", hit[0][:200]
        if r.returncode == 1:
            return m, "CAUGHT-OTHER-RULE", "; ".join(h[:120] for h in hit[:3])
        if r.returncode == 2:
            return m, "UNDECIDED", out[-300:]
        return m, "MISSED", out[-200:]
    finally:
        shutil.rmtree(d, ignore_errors=True)

def main():
    args = sys.argv[1:]
    j = 6
    only = None
    build = True
    while args:
        a = args.pop(0)
        if a == "-j": j = int(args.pop(0))
        elif a == "--only": only = args.pop(0)
        elif a == "--no-build": build = False
    ms = [m for m in MUTANTS if not only or only in m["id"] or only == m["prop"]]
    res = {}
    with cf.ThreadPoolExecutor(max_workers=j) as ex:
        for m, st, info in ex.map(lambda m: run_one(m, build), ms):
            res[m["id"]] = st
            print("%-18s %-6s %-44s %s" % (st, m["prop"], m["id"], info.replace("\n", " ")[:160]), flush=True)
    bad = {k: v for k, v in res.items() if v != "CAUGHT"}
    print("mutants: %d, caught by the owning rule: %d, other: %s" % (len(res), len(res) - len(bad), json.dumps(bad)))
    sys.exit(1 if bad else 0)

main()
