#!/bin/bash
# Development test (not a registered check): applies each behaviour-preserving
# refactoring under /verif/benign/<id>/patch.diff (written by blind sub-agents,
# existing tests pass with them) to a scratch copy of /repo and runs every check:
# each must say what it says about /repo.  usage: benign_test.sh [substring]
export GOFLAGS=-mod=mod GOPROXY=off GOSUMDB=off GOTOOLCHAIN=local GOWORK=off
V=$(cd "$(dirname "$0")/.." && pwd)
tot=0; bad=0
for r in $V/benign/*${1}*/; do
  id=$(basename $r); tot=$((tot+1))
  d=$(mktemp -d /tmp/siobn-XXXX); mkdir $d/repo $d/verif; rsync -a --exclude .git /repo/ $d/repo/; cp $V/KNOWN_FINDINGS.txt $d/verif/
  (cd $d/repo && git init -q . && git apply $r/patch.diff) 2>/dev/null || { echo "$id: patch does not apply (repo moved on)"; rm -rf $d; continue; }
  (cd $d/repo && go build ./...) >/dev/null 2>&1 || { echo "$id: does not build"; rm -rf $d; continue; }
  for p in $($V/bin/sioverif list); do
    ( $V/bin/sioverif check $p --repo $d/repo --verif $d/verif > $d/out.$p 2>&1; echo $? > $d/rc.$p ) &
    if (( $(jobs -r | wc -l) >= 6 )); then wait -n; fi
  done; wait
  res=""
  for p in $($V/bin/sioverif list); do rc=$(cat $d/rc.$p); [ "$rc" = "0" ] || res="$res\n    $p rc=$rc: $(grep -m2 -E '^violation|UNDECIDED' $d/out.$p | cut -c1-300 | tr '\n' ' ')"; done
  if [ -z "$res" ]; then echo "$id: silent"; else bad=$((bad+1)); echo -e "$id: ALARM$res"; fi
  rm -rf $d
done
echo "benign refactorings: $tot, with alarms/undecided: $bad"
