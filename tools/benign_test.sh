#!/bin/bash
# Development test (not a registered check): applies each behaviour-preserving
# refactoring under /verif/benign/<id>/patch.diff (written by blind sub-agents,
# existing tests pass with them) to a scratch copy of /repo and runs every check
# (quick tier, one load: `sioverif checkall`): each must say what it says about
# /repo.  usage: benign_test.sh [substring]   (env J = patches in parallel, default 5)
export GOFLAGS=-mod=mod GOPROXY=off GOSUMDB=off GOTOOLCHAIN=local GOWORK=off
V=$(cd "$(dirname "$0")/.." && pwd)
one() {
  r=$1; id=$(basename $r)
  d=$(mktemp -d /tmp/siobn-XXXX) || { echo "$id: no scratch directory (disk full?)"; return; }
  case "$d" in /tmp/siobn-*) ;; *) echo "$id: no scratch directory"; return;; esac   # never fall through to /repo itself
  mkdir $d/repo $d/verif; rsync -a --exclude .git /repo/ $d/repo/; cp $V/KNOWN_FINDINGS.txt $d/verif/
  (cd $d/repo && git init -q . && git apply $r/patch.diff) 2>/dev/null || { echo "$id: patch does not apply (repo moved on)"; rm -rf $d; return; }
  (cd $d/repo && go build ./...) >/dev/null 2>&1 || { echo "$id: does not build"; rm -rf $d; return; }
  $V/bin/sioverif checkall --repo $d/repo --verif $d/verif > $d/out 2>&1; rc=$?
  if [ "$rc" = "0" ] && [ "$(grep -c '^== C.. exit=0' $d/out)" = "19" ]; then echo "$id: silent"
  else echo "$id: ALARM rc=$rc $(grep -E '^violation|UNDECIDED|^== C.. exit=[12]' $d/out | cut -c1-300 | head -6 | tr '\n' ' ')"; fi
  rm -rf $d
}
export -f one; export V
ls -d $V/benign/*${1}*/ | xargs -P ${J:-5} -I{} bash -c 'one {}' | sort > /tmp/benign.$$.out
cat /tmp/benign.$$.out
echo "benign refactorings: $(wc -l < /tmp/benign.$$.out), with alarms/undecided: $(grep -c ALARM /tmp/benign.$$.out), not applying/building: $(grep -c 'does not' /tmp/benign.$$.out)"
rm -f /tmp/benign.$$.out
