# Mutant catalogue: mutant(id, property, rule that must report it, file, old, new)
# Each is one edit that compiles and (by reading) passes the pinned suite while
# breaking the property.  Used by tools/selftest.py only.

# ---------------------------------------------------------------- C19
mutant("c19-unbuffered-pq-ready", "C19", "C19-D1", "packet_queue.go",
       "ready:  make(chan struct{}, 1),", "ready:  make(chan struct{}),")
mutant("c19-unbuffered-poll-ready", "C19", "C19-D1", "engine.io/transport/polling/poll_queue.go",
       "ready: make(chan struct{}, 1),", "ready: make(chan struct{}),")
mutant("c19-signal-before-append", "C19", "C19-D2", "packet_queue.go",
       """	pq.mu.Lock()

	if len(pq.packets) == 0 {
		pq.packets = packets
	} else {
		pq.packets = append(pq.packets, packets...)
	}
	pq.mu.Unlock()

	select {
	case pq.ready <- struct{}{}:
	default:
	}
}""",
       """	select {
	case pq.ready <- struct{}{}:
	default:
	}
	pq.mu.Lock()

	if len(pq.packets) == 0 {
		pq.packets = packets
	} else {
		pq.packets = append(pq.packets, packets...)
	}
	pq.mu.Unlock()
}""")
mutant("c19-signal-only-when-empty", "C19", "C19-D2", "packet_queue.go",
       """		pq.packets = append(pq.packets, packets...)
	}
	pq.mu.Unlock()
""",
       """		pq.packets = append(pq.packets, packets...)
		pq.mu.Unlock()
		return
	}
	pq.mu.Unlock()
""")
mutant("c19-no-get-after-ready", "C19", "C19-D3", "packet_queue.go",
       """	case <-pq.ready:
		packets = pq.get()
		if len(packets) != 0 {
			ok = true
		}
""",
       """	case <-pq.ready:
""")
mutant("c19-pollAndSend-returns-on-notok", "C19", "C19-D4", "packet_queue.go",
       """		if !ok {
			continue
		}""",
       """		if !ok {
			return
		}""")
mutant("c19-pollAndSend-drops-first", "C19", "C19-D4", "packet_queue.go",
       "socket.Send(packets...)", "socket.Send(packets[1:]...)")
mutant("c19-second-consumer", "C19", "C19-D5", "packet_queue.go",
       """func (pq *packetQueue) reset() {
	pq.mu.Lock()
	defer pq.mu.Unlock()
	pq.packets = nil""",
       """func (pq *packetQueue) reset() {
	_ = pq.get()
	pq.mu.Lock()
	defer pq.mu.Unlock()
	pq.packets = nil""")

# ---------------------------------------------------------------- C18
mutant("c18-getAll-keeps-once", "C18", "C18-D4", "store.go",
       """	handlers = append(handlers, e.funcsOnce...)
	e.funcsOnce = nil
""",
       """	handlers = append(handlers, e.funcsOnce...)
""")
mutant("c18-getAll-clears-funcs", "C18", "C18-D4", "store.go",
       """	handlers = append(handlers, e.funcsOnce...)
	e.funcsOnce = nil
""",
       """	handlers = append(handlers, e.funcsOnce...)
	e.funcsOnce = nil
	e.funcs = nil
""")
mutant("c18-event-getAll-keeps-once", "C18", "C18-D4", "store.go",
       """	delete(e.eventsOnce, eventName)

	handlers = make(""",
       """	handlers = make(""")
mutant("c18-offall-skips-registry", "C18", "C18-D3", "server_socket_events.go",
       """	s.disconnectingHandlers.offAll()
""", "")
mutant("c18-zero-arg-off-only-funcs", "C18", "C18-D5", "store.go",
       """	if len(handler) == 0 {
		e.funcs = nil
		e.funcsOnce = nil
		return
	}""",
       """	if len(handler) == 0 {
		e.funcs = nil
		return
	}""")
mutant("c18-zero-arg-offevent-only-events", "C18", "C18-D5", "store.go",
       """		delete(e.events, eventName)
		delete(e.eventsOnce, eventName)
		return""",
       """		delete(e.events, eventName)
		return""")
mutant("c18-offevent-nil-test", "C18", "C18-D5", "store.go",
       """	if len(handler) == 0 {
		delete(e.events, eventName)""",
       """	if handler == nil {
		delete(e.events, eventName)""")
mutant("c18-new-delete-in-range", "C18", "C18-D1", "store.go",
       """	e.subs = slices.DeleteFunc(e.subs, func(sub T) bool { return sub == handler })
""",
       """	for i, sub := range e.subs {
		if sub == handler {
			e.subs = append(e.subs[:i], e.subs[i+1:]...)
		}
	}
""")
mutant("c18-raw-pointer-compare", "C18", "C18-D2", "store.go",
       "return slices.ContainsFunc(handler, func(_h T) bool { return sameHandler(h, _h) })",
       "return slices.ContainsFunc(handler, func(_h T) bool { return h == _h })")
mutant("c18-once-into-funcs", "C18", "C18-D6", "store.go",
       """	e.funcsOnce = append(e.funcsOnce, handler)
	e.mu.Unlock()""",
       """	e.funcs = append(e.funcs, handler)
	e.mu.Unlock()""")
mutant("c18-getAll-split-region", "C18", "C18-D4", "store.go",
       """	handlers = append(handlers, e.funcsOnce...)
	e.funcsOnce = nil
	return
}""",
       """	handlers = append(handlers, e.funcsOnce...)
	e.mu.Unlock()
	e.mu.Lock()
	e.funcsOnce = nil
	return
}""")

# ---------------------------------------------------------------- C03
mutant("c03-no-timedOut-test", "C03", "C03-D1", "handler.go",
       """	f.mu.Lock()
	if f.timedOut {
		f.mu.Unlock()
		return nil
	}
	f.called = true""",
       """	f.mu.Lock()
	f.called = true""")
mutant("c03-no-called-test-in-timer", "C03", "C03-D1", "handler.go",
       """		if h.called {
			h.mu.Unlock()
			return
		}
		h.timedOut = true""",
       """		h.timedOut = true""")
mutant("c03-split-test-and-set", "C03", "C03-D1", "handler.go",
       """		return nil
	}
	f.called = true
	f.mu.Unlock()""",
       """		return nil
	}
	f.mu.Unlock()
	f.mu.Lock()
	f.called = true
	f.mu.Unlock()""")
mutant("c03-no-sent-guard-server", "C03", "C03-D1", "server_socket.go",
       """			mu.Lock()
			if sent {
				mu.Unlock()
				return
			}
			sent = true
			mu.Unlock()""",
       """			mu.Lock()
			_ = sent
			sent = true
			mu.Unlock()""")
mutant("c03-keep-acks-entry", "C03", "C03-D2", "client_socket.go",
       """	ack, ok := s.acks[*header.ID]
	if ok {
		delete(s.acks, *header.ID)
	}
	s.acksMu.Unlock()

	if !ok {
		s.onError(wrapInternalError(fmt.Errorf("ACK with ID %d not found", *header.ID)))
		return
	}

	inputArgs := ack.inputArgs
	if ack.hasError {
		inputArgs = ack.inputArgs[1:]""",
       """	ack, ok := s.acks[*header.ID]
	s.acksMu.Unlock()

	if !ok {
		s.onError(wrapInternalError(fmt.Errorf("ACK with ID %d not found", *header.ID)))
		return
	}

	inputArgs := ack.inputArgs
	if ack.hasError {
		inputArgs = ack.inputArgs[1:]""")
mutant("c03-lookup-delete-split", "C03", "C03-D2", "server_socket.go",
       """	ack, ok := s.acks[*header.ID]
	if ok {
		delete(s.acks, *header.ID)
	}
	s.acksMu.Unlock()
""",
       """	ack, ok := s.acks[*header.ID]
	s.acksMu.Unlock()
	s.acksMu.Lock()
	if ok {
		delete(s.acks, *header.ID)
	}
	s.acksMu.Unlock()
""")
mutant("c03-timeout-ignored", "C03", "C03-D3", "server_socket.go",
       """	s.debug.Log("Registering ack with ID", id)
	if timeout == 0 {""",
       """	s.debug.Log("Registering ack with ID", id)
	if timeout >= 0 {""")
mutant("c03-timeoutfunc-keeps-entry", "C03", "C03-D3", "server_socket.go",
       """		s.acksMu.Lock()
		delete(s.acks, id)
		s.acksMu.Unlock()
	})""",
       """	})""")
mutant("c03-panic-under-acksMu", "C03", "C03-D4", "server_socket.go",
       """		h, err := newAckHandler(f, false)
		if err != nil {
			panic(err)
		}
		s.acksMu.Lock()
		s.acks[id] = h""",
       """		s.acksMu.Lock()
		h, err := newAckHandler(f, false)
		if err != nil {
			panic(err)
		}
		s.acksMu.Lock()
		s.acks[id] = h""".replace("		s.acksMu.Lock()\n		s.acks[id] = h", "		s.acks[id] = h"))
mutant("c03-purge-delete-in-range", "C03", "C03-D3", "client_socket.go",
       """		s.sendBuffer = slices.DeleteFunc(s.sendBuffer, func(packet sendBufferItem) bool {
			if packet.ackID != nil && *packet.ackID == id {
				s.debug.Log("Removing packet with ack ID", id)
				return true
			}
			return false
		})""",
       """		_ = slices.Contains[[]int]
		for i, packet := range s.sendBuffer {
			if packet.ackID != nil && *packet.ackID == id {
				s.sendBuffer = append(s.sendBuffer[:i], s.sendBuffer[i+1:]...)
			}
		}""")
mutant("c03-wrong-id-in-header", "C03", "C03-D2", "client_socket.go",
       """		ackID := s.registerAckHandler(f, timeout)
		header.ID = &ackID""",
       """		ackID := s.registerAckHandler(f, timeout)
		other := ackID + 1
		header.ID = &other""")
mutant("c03-timer-half-timeout", "C03", "C03-D3", "handler.go",
       "		time.Sleep(timeout)\n		h.mu.Lock()", "		time.Sleep(timeout / 2)\n		h.mu.Lock()")

# ---------------------------------------------------------------- C02
mutant("c02-frame-by-frame", "C02", "C02-D1", "server_conn.go",
       "		c.packet(packets...)\n", "		for _, pk := range packets {\n			c.packet(pk)\n		}\n")
mutant("c02-add-unlock-between", "C02", "C02-D1", "packet_queue.go",
       """		pq.packets = append(pq.packets, packets...)
	}
	pq.mu.Unlock()
""",
       """		pq.packets = append(pq.packets, packets[:1]...)
		pq.mu.Unlock()
		pq.mu.Lock()
		pq.packets = append(pq.packets, packets[1:]...)
	}
	pq.mu.Unlock()
""")
mutant("c02-second-drainer", "C02", "C02-D2", "server_conn.go",
       "	go c.eioPacketQueue.pollAndSend(c.eio)\n", "	go c.eioPacketQueue.pollAndSend(c.eio)\n	go c.eioPacketQueue.pollAndSend(c.eio)\n")
mutant("c02-bypass-queue", "C02", "C02-D3", "server_conn.go",
       "	c.eioPacketQueue.add(packets...)\n}", "	c.eio.Send(packets...)\n}")
mutant("c02-new-go-around-onEvent", "C02", "C02-D4", "server_socket.go",
       "			s.onEvent(eventName, handler, header, decode, sendAck)\n", "			go s.onEvent(eventName, handler, header, decode, sendAck)\n")
mutant("c02-eio-send-message-direct", "C02", "C02-D3", "engine.io/server_socket.go",
       """	ping, err := parser.NewPacket(parser.PacketTypePing, false, nil)""",
       """	ping, err := parser.NewPacket(parser.PacketTypeMessage, false, nil)""")
mutant("c02-offline-frame-by-frame", "C02", "C02-D1", "client_socket.go",
       """			s.sendBuffer = append(s.sendBuffer, buffers...)
			s.sendBufferMu.Unlock()""",
       """			s.sendBufferMu.Unlock()
			for _, b := range buffers {
				s.sendBufferMu.Lock()
				s.sendBuffer = append(s.sendBuffer, b)
				s.sendBufferMu.Unlock()
			}""")

# ---------------------------------------------------------------- C01
mutant("c01-drop-parserMu", "C01", "C01-D3", "server_conn.go",
       """func (c *serverConn) onEIOPacket(packets ...*eioparser.Packet) {
	c.parserMu.Lock()
	defer c.parserMu.Unlock()
""",
       """func (c *serverConn) onEIOPacket(packets ...*eioparser.Packet) {
""")
mutant("c01-skip-binary-frames", "C01", "C01-D2", "server_conn.go",
       "		if packet.Type == eioparser.PacketTypeMessage {", "		if packet.Type == eioparser.PacketTypeMessage && !packet.IsBinary {")
mutant("c01-handlers-by-namespace", "C01", "C01-D4", "server_socket.go",
       "range s.eventHandlers.getAll(eventName) {", "range s.eventHandlers.getAll(header.Namespace) {")
mutant("c01-encode-error-dropped", "C01", "C01-D1", "server_socket.go",
       """		buffers, err := s.parser.Encode(header, &v)
		if err != nil {
			s.onError(wrapInternalError(err))
			return
		}
		s.conn.sendBuffers(buffers...)""",
       """		buffers, _ := s.parser.Encode(header, &v)
		s.conn.sendBuffers(buffers...)""")
mutant("c01-enqueue-despite-error", "C01", "C01-D1", "client_socket.go",
       """	buffers, err := s.parser.Encode(&header, &v)
	if err != nil {
		s.onError(wrapInternalError(err))
		return
	}

	s.sendBuffers(volatile, false, header.ID, buffers...)""",
       """	buffers, err := s.parser.Encode(&header, &v)
	if err != nil {
		s.onError(wrapInternalError(err))
	}

	s.sendBuffers(volatile, false, header.ID, buffers...)""")
mutant("c01-loop-break-on-nonmessage", "C01", "C01-D2", "client_manager.go",
       """		case eioparser.PacketTypePing:
			m.pingHandlers.forEach(func(handler *ManagerPingFunc) { (*handler)() }, true)""",
       """		case eioparser.PacketTypePing:
			m.pingHandlers.forEach(func(handler *ManagerPingFunc) { (*handler)() }, true)
			return""")
mutant("c01-client-lookup-default-nsp", "C01", "C01-D4", "client_manager.go",
       "	socket, ok := m.sockets.get(header.Namespace)\n	if !ok {\n		return\n	}\n	go socket.onPacket",
       "	socket, ok := m.sockets.get(\"/\")\n	if !ok {\n		return\n	}\n	go socket.onPacket")
mutant("c01-reset-without-lock", "C01", "C01-D3", "client_manager.go",
       """func (m *Manager) resetParser() {
	m.parserMu.Lock()
	defer m.parserMu.Unlock()
	m.parser.Reset()""",
       """func (m *Manager) resetParser() {
	m.parser.Reset()""")
mutant("c01-ws-client-no-readlimit", "C01", "C01-D5", "engine.io/transport/websocket/client.go",
       "	t.conn.SetReadLimit(-1)\n", "")

# ---------------------------------------------------------------- C13
mutant("c13-no-body-limiter", "C13", "C13-D1", "engine.io/transport/polling/server.go",
       "		r.Body = http.MaxBytesReader(w, r.Body, t.maxHTTPBufferSize)\n", "		_ = http.MaxBytesReader\n")
mutant("c13-reads-body-taken-before-limiter", "C13", "C13-D1", "engine.io/transport/polling/server.go",
       "func (t *ServerTransport) handleDataRequest(w http.ResponseWriter, r *http.Request) {\n",
       "func (t *ServerTransport) handleDataRequest(w http.ResponseWriter, r *http.Request) {\n	body := r.Body\n", )
MUTANTS[-1]["then"] = ("		packets, err = parser.DecodePayloads(r.Body)", "		packets, err = parser.DecodePayloads(body)")
mutant("c13-ws-server-no-readlimit-when-disabled", "C13", "C13-D2", "engine.io/transport/websocket/server.go",
       """	} else {
		// The limit is disabled. Without this, the default limit of the library (32768 bytes) would apply.
		t.conn.SetReadLimit(-1)
	}""",
       """	}""")
mutant("c13-ws-server-unlimited-always", "C13", "C13-D2", "engine.io/transport/websocket/server.go",
       "		t.conn.SetReadLimit(t.readLimit)\n", "		t.conn.SetReadLimit(-1)\n")
mutant("c13-const-limit-to-transport", "C13", "C13-D4", "engine.io/server.go",
       "		t = polling.NewServerTransport(c, s.maxBufferSize, s.PollTimeout())", "		t = polling.NewServerTransport(c, defaultMaxBufferSize, s.PollTimeout())")
mutant("c13-announce-other-value", "C13", "C13-D4", "engine.io/server.go",
       "		MaxPayload:   int64(s.maxBufferSize),", "		MaxPayload:   int64(defaultMaxBufferSize),")
mutant("c13-batcher-reset-zero", "C13", "C13-D3", "engine.io/client_socket.go",
       "				i, count = -1, count-1", "				i, count = 0, count-1")
mutant("c13-batcher-drops-at-cut", "C13", "C13-D3", "engine.io/client_socket.go",
       "				packets = packets[i:]\n", "				packets = packets[i+1:]\n")
mutant("c13-webtransport-unlimited", "C13", "C13-D1", "engine.io/transport/webtransport/server.go",
       "	return nextPacketWithLimit(t.limitedReader, t.readLimit)", "	return nextPacketWithLimit(t.limitedReader, 0)")
mutant("c13-wt-limit-after-alloc", "C13", "C13-D1", "engine.io/transport/webtransport/packet.go",
       """			if limit > 0 && int64(expectedLen) > limit {
				return nil, ErrLimitReached
			}
			return parser.DecodeWithLen(r, isBinary, expectedLen)""",
       """			p, err := parser.DecodeWithLen(r, isBinary, expectedLen)
			if limit > 0 && int64(expectedLen) > limit {
				return nil, ErrLimitReached
			}
			return p, err""")
mutant("c13-declared-oversize-still-read", "C13", "C13-D1", "engine.io/transport/polling/server.go",
       """		r.Close = true
		r.Body.Close()
		return
	}""",
       """		r.Close = true
	}""")

# ---------------------------------------------------------------- C05
mutant("c05-lookup-default-nsp", "C05", "C05-D1", "server_conn.go",
       "		socket, ok := c.sockets.getByNsp(header.Namespace)", "		socket, ok := c.sockets.getByNsp(\"/\")")
mutant("c05-no-normalise", "C05", "C05-D1", "server_conn.go",
       """		if header.Namespace == "" {
			header.Namespace = "/"
		}
		socket, ok :=""",
       """		socket, ok :=""")
mutant("c05-emit-root-namespace", "C05", "C05-D1", "server_socket.go",
       """	header := parser.PacketHeader{
		Type:      parser.PacketTypeAck,
		Namespace: s.nsp.Name(),""",
       """	header := parser.PacketHeader{
		Type:      parser.PacketTypeAck,
		Namespace: "/",""")
mutant("c05-no-invalid-state-close", "C05", "C05-D3", "server_conn.go",
       """			c.debug.Log("Invalid state", "packet type", header.Type)
			c.close()""",
       """			c.debug.Log("Invalid state", "packet type", header.Type)""")
mutant("c05-dispatch-second-connect", "C05", "C05-D3", "server_conn.go",
       "} else if ok && header.Type != parser.PacketTypeConnect && header.Type != parser.PacketTypeConnectError {",
       "} else if ok && header.Type != parser.PacketTypeConnectError {")
mutant("c05-shared-rooms-map", "C05", "C05-D2", "adapter/adapter_memory.go",
       """	return func(socketStore SocketStore, parserCreator parser.Creator) Adapter {
		return &inMemoryAdapter{
			rooms:   make(map[Room]mapset.Set[SocketID]),""",
       """	rooms := make(map[Room]mapset.Set[SocketID])
	return func(socketStore SocketStore, parserCreator parser.Creator) Adapter {
		return &inMemoryAdapter{
			rooms:   rooms,""")
mutant("c05-attach-before-error-test", "C05", "C05-D4", "server_conn.go",
       """	socket, err := nsp.add(c, auth)
	if err != nil {""",
       """	socket, err := nsp.add(c, auth)
	if socket != nil {
		c.sockets.set(socket)
	}
	if err != nil {""")
mutant("c05-connect-before-routable", "C05", "C05-D5", "namespace.go",
       """	socket.conn.sockets.set(socket)
	socket.conn.nsps.set(n)
""", "")
mutant("c05-disconnect-closes-conn", "C05", "C05-D6", "server_socket.go",
       """	s.debug.Log("Got disconnect packet")
	s.onClose(ReasonClientNamespaceDisconnect)""",
       """	s.debug.Log("Got disconnect packet")
	s.onClose(ReasonClientNamespaceDisconnect)
	s.conn.close()""")
mutant("c05-client-connected-on-open", "C05", "C05-D4", "client_socket.go",
       """			s.state = clientSocketConnStateConnectPending
			s.onOpen()
		}
		errorFunc""",
       """			s.state = clientSocketConnStateConnected
			s.onOpen()
		}
		errorFunc""")
mutant("c05-shared-socket-store", "C05", "C05-D2", "namespace.go",
       "	nsp.adapter = adapterCreator(newAdapterSocketStore(socketStore), parserCreator)",
       "	nsp.adapter = adapterCreator(newAdapterSocketStore(server.Of(\"/\").sockets), parserCreator)")

# ---------------------------------------------------------------- C06
mutant("c06-fanout-outside-once", "C06", "C06-D1", "server_socket.go",
       """	s.debug.Log("Going to close the socket if it is not already closed. Reason", reason)
""",
       """	s.debug.Log("Going to close the socket if it is not already closed. Reason", reason)
	if reason == ReasonServerShuttingDown {
		s.disconnectHandlers.forEach(func(handler *ServerSocketDisconnectFunc) { (*handler)(reason) }, true)
	}
""")
mutant("c06-skip-nsp-remove", "C06", "C06-D2", "server_socket.go",
       "		s.nsp.remove(s)\n		s.conn.remove(s)\n", "		s.conn.remove(s)\n")
mutant("c06-skip-cleanup-on-forced", "C06", "C06-D2", "server_socket.go",
       "		s.leaveAll()\n\n		s.nsp.remove(s)", "		if reason != ReasonForcedServerClose {\n			s.leaveAll()\n		}\n\n		s.nsp.remove(s)")
mutant("c06-eio-close-keeps-session", "C06", "C06-D2", "engine.io/server_socket.go",
       "		close(s.closeChan)\n		defer s.onClose(s.id)\n", "		close(s.closeChan)\n")
mutant("c06-eio-onclose-only-forced", "C06", "C06-D2", "engine.io/server_socket.go",
       "		defer s.onClose(s.id)\n", "		if reason == ReasonForcedClose {\n			defer s.onClose(s.id)\n		}\n")
mutant("c06-wrong-reason-ping", "C06", "C06-D5", "engine.io/server_socket.go",
       "			s.close(ReasonPingTimeout, nil)", "			s.close(ReasonTransportClose, nil)")
mutant("c06-wrong-reason-transport-error", "C06", "C06-D5", "engine.io/server_socket.go",
       "			s.close(ReasonTransportError, err)", "			s.close(ReasonTransportClose, err)")
mutant("c06-conn-close-other-reason", "C06", "C06-D3", "server_conn.go",
       "			socket.onClose(reason)\n", "			socket.onClose(ReasonTransportClose)\n")
mutant("c06-newsocket-no-recheck", "C06", "C06-D4", "engine.io/server.go",
       """	if s.IsClosed() {
		s.debug.Log("Server was closed during the handshake. Closing the socket")
		socket.Close()
		return nil
	}
	return socket""",
       """	return socket""")
mutant("c06-sweep-before-flag", "C06", "C06-D4", "engine.io/server.go",
       """	// Prevent new clients from connecting.
	s.closeOnce.Do(func() {
		close(s.closed)
	})

	// Close all sockets that are currently connected.
	s.store.closeAll()""",
       """	s.store.closeAll()
	s.closeOnce.Do(func() {
		close(s.closed)
	})""")
mutant("c06-transport-onclose-outside-once", "C06", "C06-D1", "engine.io/transport/polling/server.go",
       """func (t *ServerTransport) Close() {
	t.close(nil)
}""",
       """func (t *ServerTransport) Close() {
	t.close(nil)
	t.callbacks.OnClose(t.Name(), nil)
}""")
mutant("c06-store-delete-not-wired", "C06", "C06-D2", "engine.io/server.go",
       "s.pingInterval, s.pingTimeout, s.debug, s.store.delete)", "s.pingInterval, s.pingTimeout, s.debug, nil)")

# ---------------------------------------------------------------- C12
mutant("c12-chain-continues-after-rejection", "C12", "C12-D1", "middleware.go",
       """	for _, f := range funcs {
		err := f(socket, handshake)
		if err != nil {
			return &middlewareError{v: err}
		}
	}
	return nil""",
       """	var first error
	for _, f := range funcs {
		err := f(socket, handshake)
		if err != nil && first == nil {
			first = &middlewareError{v: err}
		}
	}
	return first""")
mutant("c12-event-chain-swallows-rejection", "C12", "C12-D1", "middleware.go",
       """		err := s.callMiddlewareFunc(f, values)
		if err != nil {
			return err
		}""",
       """		err := s.callMiddlewareFunc(f, values)
		if err != nil {
			break
		}""")
mutant("c12-doconnect-before-chain", "C12", "C12-D2", "namespace.go",
       """	err = n.runMiddlewares(socket, handshake)
	if err != nil {""",
       """	n.doConnect(socket)
	err = n.runMiddlewares(socket, handshake)
	if err != nil {""")
MUTANTS[-1]["then"] = ("""		return nil, err
	}

	return socket, n.doConnect(socket)
}""", """		return nil, err
	}

	return socket, nil
}""")
mutant("c12-skip-for-any-recovery-config", "C12", "C12-D2", "namespace.go",
       "	if n.server.connectionStateRecovery.Enabled && !n.server.connectionStateRecovery.UseMiddlewares && socket.Recovered() {",
       "	if n.server.connectionStateRecovery.Enabled && socket.Recovered() {")
mutant("c12-handler-before-chain", "C12", "C12-D5", "server_socket.go",
       """	err = s.callMiddlewares(append([]reflect.Value{reflect.ValueOf(eventName)}, values...))
	if err != nil {
		s.onError(err)
		return
	}

	if !s.Connected() {""",
       """	err = s.callMiddlewares(append([]reflect.Value{reflect.ValueOf(eventName)}, values...))
	if err != nil {
		s.onError(err)
	}

	if !s.Connected() {""")
mutant("c12-no-connect-error-on-rejection", "C12", "C12-D4", "server_conn.go",
       """		if errors.As(err, &mErr) {
			c.connectError(mErr.data(), nsp.Name())
		} else {""",
       """		if errors.As(err, &mErr) {
			c.connectError(fmt.Errorf("sio: connection refused"), nsp.Name())
		} else {""")
mutant("c12-event-chain-without-name", "C12", "C12-D5", "server_socket.go",
       "	err = s.callMiddlewares(append([]reflect.Value{reflect.ValueOf(eventName)}, values...))", "	_ = eventName\n	err = s.callMiddlewares(values)")
mutant("c12-middleware-under-lock", "C12", "C12-D1", "middleware.go",
       """	n.middlewareFuncsMu.RLock()
	funcs := slices.Clone(n.middlewareFuncs)
	n.middlewareFuncsMu.RUnlock()
""",
       """	n.middlewareFuncsMu.RLock()
	defer n.middlewareFuncsMu.RUnlock()
	funcs := slices.Clone(n.middlewareFuncs)
""")
mutant("c12-connected-before-chain", "C12", "C12-D2", "server_socket.go",
       """	if previousSession != nil {
		s.id = previousSession.SID""",
       """	if previousSession != nil {
		s.connected = true
		s.id = previousSession.SID""")
mutant("c12-use-prepends", "C12", "C12-D1", "middleware.go",
       "	n.middlewareFuncs = append(n.middlewareFuncs, f)", "	n.middlewareFuncs = append([]NspMiddlewareFunc{f}, n.middlewareFuncs...)")

# ---------------------------------------------------------------- C07
mutant("c07-no-resend-of-queued", "C07", "C07-D2", "engine.io/server_socket.go",
       """	qp := old.QueuedPackets()
	for _, p := range qp {
		if p.Type != parser.PacketTypeNoop {
			t.Send(p)
		}
	}""",
       """	_ = old.QueuedPackets()""")
mutant("c07-send-without-rlock", "C07", "C07-D1", "engine.io/server_socket.go",
       """func (s *serverSocket) Send(packets ...*parser.Packet) {
	s.transportMu.RLock()
	defer s.transportMu.RUnlock()
	s.transport.Send(packets...)""",
       """func (s *serverSocket) Send(packets ...*parser.Packet) {
	s.transport.Send(packets...)""")
mutant("c07-timeout-closes-socket", "C07", "C07-D4", "engine.io/server.go",
       """		case <-time.After(s.upgradeTimeout):
			t.Close()
			socket.onError(""",
       """		case <-time.After(s.upgradeTimeout):
			t.Close()
			socket.Close()
			socket.onError(""")
mutant("c07-candidate-gets-close-callback", "C07", "C07-D3", "engine.io/client_socket.go",
       """	c.Set(func(packets ...*parser.Packet) {
		for _, packet := range packets {
			onPacket(packet)
		}
	}, nil)

	_, err := t.Handshake()""",
       """	c.Set(func(packets ...*parser.Packet) {
		for _, packet := range packets {
			onPacket(packet)
		}
	}, s.onTransportClose)

	_, err := t.Handshake()""")
mutant("c07-upgrade-sent-after-unlock", "C07", "C07-D2", "engine.io/client_socket.go",
       """	old := s.transport
	s.transport = t

	old.Discard()

	t.Send(p)""",
       """	old := s.transport
	s.transport = t
	go func() {
		old.Discard()
		t.Send(p)
	}()""")
mutant("c07-swap-lock-released-early", "C07", "C07-D2", "engine.io/server_socket.go",
       """	old := s.transport
	s.transport = t
	old.Discard()""",
       """	old := s.transport
	s.transport = t
	go old.Discard()""")
mutant("c07-superseded-close-not-ignored", "C07", "C07-D3", "engine.io/server_socket.go",
       """		if s.TransportName() != name {
			return
		}
""", "")
mutant("c07-discard-no-noop", "C07", "C07-D5", "engine.io/transport/polling/server.go",
       """		p, err := parser.NewPacket(parser.PacketTypeNoop, false, nil)
		if err == nil {
			go t.Send(p)
		}
	})
}

func (t *ServerTransport) close""",
       """	})
}

func (t *ServerTransport) close""")
mutant("c07-inflight-poll-dropped", "C07", "C07-D5", "engine.io/transport/polling/client.go",
       """			t.callbacks.OnPacket(packets...)
		}
	}
}""",
       """			select {
			case <-t.pollExit:
				return
			default:
			}
			t.callbacks.OnPacket(packets...)
		}
	}
}""")
mutant("c07-resend-includes-noop-only-message", "C07", "C07-D2", "engine.io/server_socket.go",
       "		if p.Type != parser.PacketTypeNoop {\n			t.Send(p)", "		if p.Type == parser.PacketTypeMessage && !p.IsBinary {\n			t.Send(p)")
mutant("c07-invalid-probe-closes-socket", "C07", "C07-D4", "engine.io/server.go",
       """		default:
			t.Close()
			socket.onError(wrapInternalError(fmt.Errorf("upgrade failed: invalid packet received: packet type: %d", packet.Type)))""",
       """		default:
			t.Close()
			socket.close(ReasonTransportError, nil)
			socket.onError(wrapInternalError(fmt.Errorf("upgrade failed: invalid packet received: packet type: %d", packet.Type)))""")

# ---------------------------------------------------------------- C14
mutant("c14-pong-wait-interval", "C14", "C14-D1", "engine.io/server_socket.go",
       "		case <-time.After(pingTimeout):", "		case <-time.After(pingInterval):")
mutant("c14-pong-wait-sum", "C14", "C14-D1", "engine.io/server_socket.go",
       "		case <-time.After(pingTimeout):", "		case <-time.After(pingTimeout + pingInterval):")
mutant("c14-client-watchdog-timeout-only", "C14", "C14-D1", "engine.io/client_socket.go",
       "		timeout := s.pingInterval + s.pingTimeout", "		timeout := s.pingTimeout")
mutant("c14-client-no-pong", "C14", "C14-D2", "engine.io/client_socket.go",
       """		pong, err := parser.NewPacket(parser.PacketTypePong, false, packet.Data)
		if err != nil {
			s.onError(err)
			return
		}
		s.Send(pong)""",
       """		_ = s.Send""")
mutant("c14-unbuffered-pongChan", "C14", "C14-D3", "engine.io/server_socket.go",
       "		pongChan: make(chan struct{}, 1),", "		pongChan: make(chan struct{}),")
mutant("c14-unbuffered-pingChan", "C14", "C14-D3", "engine.io/client.go",
       "		pingChan:  make(chan struct{}, 1),", "		pingChan:  make(chan struct{}),")
mutant("c14-pong-empty-data", "C14", "C14-D2", "engine.io/client_socket.go",
       "		pong, err := parser.NewPacket(parser.PacketTypePong, false, packet.Data)", "		pong, err := parser.NewPacket(parser.PacketTypePong, false, nil)")
mutant("c14-announce-seconds", "C14", "C14-D1", "engine.io/server.go",
       "		PingInterval: int64(s.pingInterval / time.Millisecond),", "		PingInterval: int64(s.pingInterval / time.Second),")
mutant("c14-ping-before-sleep", "C14", "C14-D1", "engine.io/server_socket.go",
       """	for {
		time.Sleep(pingInterval)

		select {
		case <-s.closeChan:
			s.debug.Log("pingPong", "`closeChan` was closed")
			return
		default:
		}
""",
       """	for {
		select {
		case <-s.closeChan:
			s.debug.Log("pingPong", "`closeChan` was closed")
			return
		default:
		}
""")
mutant("c14-timeout-does-not-close", "C14", "C14-D2", "engine.io/client_socket.go",
       """			s.debug.Log("handleTimeout", "timed out")
			s.close(ReasonPingTimeout, nil)
			return""",
       """			s.debug.Log("handleTimeout", "timed out")
			if s.TransportName() == "polling" {
				continue
			}
			s.close(ReasonPingTimeout, nil)
			return""")
mutant("c14-pong-ignored-when-binary", "C14", "C14-D2", "engine.io/server_socket.go",
       "	case parser.PacketTypePong:\n		s.onPong()", "	case parser.PacketTypePong:\n		if len(packet.Data) == 0 {\n			s.onPong()\n		}")
mutant("c14-client-durations-swapped", "C14", "C14-D1", "engine.io/client_socket.go",
       "		s.pingInterval = hr.GetPingInterval()\n		s.pingTimeout = hr.GetPingTimeout()", "		s.pingInterval = hr.GetPingTimeout()\n		s.pingTimeout = hr.GetPingTimeout()")

# ---------------------------------------------------------------- C17
mutant("c17-version-check-after-handshake", "C17", "C17-D1", "engine.io/server.go",
       """	sid := q.Get("sid")
	if sid == "" {
		s.handleHandshake(w, r)
	} else {""",
       """	sid := q.Get("sid")
	if sid == "" && r.ProtoMajor == 3 {
		s.handleHandshake(w, r)
	} else if sid == "" {
		s.handleHandshake(w, r)
		if q.Get("EIO") != "4" {
			writeServerError(w, ErrorUnsupportedProtocolVersion)
		}
	} else {""")
mutant("c17-version-mismatch-falls-through", "C17", "C17-D1", "engine.io/server.go",
       """		if version != ProtocolVersion {
			writeServerError(w, ErrorUnsupportedProtocolVersion)
			return
		}""",
       """		if version != ProtocolVersion && version != 3 {
			writeServerError(w, ErrorUnsupportedProtocolVersion)
			return
		}""")
mutant("c17-bad-request-for-unknown-sid", "C17", "C17-D2", "engine.io/server.go",
       """		socket, ok := s.store.get(sid)
		if !ok {
			writeServerError(w, ErrorUnknownSID)
			return
		}

		t := socket.Transport()""",
       """		socket, ok := s.store.get(sid)
		if !ok {
			writeServerError(w, ErrorBadRequest)
			return
		}

		t := socket.Transport()""")
mutant("c17-store-set-overwrites", "C17", "C17-D3", "engine.io/store.go",
       """	_, exists := s.sockets[sid]
	if exists {
		return false
	}
	s.sockets[sid] = socket""",
       """	_, exists := s.sockets[sid]
	s.sockets[sid] = socket
	if exists {
		return false
	}""")
mutant("c17-closeall-before-flag", "C17", "C17-D4", "engine.io/server.go",
       """	// Prevent new clients from connecting.
	s.closeOnce.Do(func() {
		close(s.closed)
	})

	// Close all sockets that are currently connected.
	s.store.closeAll()""",
       """	s.store.closeAll()
	s.closeOnce.Do(func() {
		close(s.closed)
	})""")
mutant("c17-swapped-error-messages", "C17", "C17-D2", "engine.io/server_error.go",
       """		Code:    1,
		Message: "Session ID unknown",""",
       """		Code:    1,
		Message: "Bad request",""")
mutant("c17-closed-check-after-version", "C17", "C17-D1", "engine.io/server.go",
       """	if s.IsClosed() {
		s.debug.Log("Connection received after server was closed")
		w.WriteHeader(http.StatusServiceUnavailable)
		return
	}

	q := r.URL.Query()
""",
       """	q := r.URL.Query()
	if s.IsClosed() && q.Get("sid") == "" {
		s.debug.Log("Connection received after server was closed")
		w.WriteHeader(http.StatusServiceUnavailable)
		return
	}
""")
mutant("c17-unknown-transport-creates-polling", "C17", "C17-D2", "engine.io/server.go",
       """	default:
		writeServerError(w, ErrorUnknownTransport)
		return
	}

	s.debug.Log("Transport is set to", n)""",
       """	default:
		if n != "" {
			writeServerError(w, ErrorUnknownTransport)
			return
		}
		t = polling.NewServerTransport(c, s.maxBufferSize, s.PollTimeout())
	}

	s.debug.Log("Transport is set to", n)""")
mutant("c17-seq-outside-mutex", "C17", "C17-D3", "engine.io/base64id.go",
       """	base64IDMu.Lock()
	seq := base64IDSeq
	base64IDSeq++
	base64IDMu.Unlock()""",
       """	seq := base64IDSeq
	base64IDMu.Lock()
	base64IDSeq++
	base64IDMu.Unlock()""")
mutant("c17-sid-clash-ignored", "C17", "C17-D3", "engine.io/server.go",
       """		socket.close(ReasonTransportError, err)
		return nil
	}

	// The server might""",
       """		socket.close(ReasonTransportError, err)
	}

	// The server might""")
mutant("c17-generate-no-retry", "C17", "C17-D3", "engine.io/base64id.go",
       """		if !s.store.exists(sid) {
			return
		}
		if i == Base64IDMaxTry {""",
       """		if !s.store.exists(sid) || i > 0 {
			return
		}
		if i == Base64IDMaxTry {""")
mutant("c17-lookup-by-transport-param", "C17", "C17-D2", "engine.io/server.go",
       "		socket, ok := s.store.get(sid)\n		if !ok {\n			writeServerError(w, ErrorUnknownSID)\n			return\n		}\n\n		t := socket.Transport()",
       "		socket, ok := s.store.get(sid)\n		if !ok {\n			s.handleHandshake(w, r)\n			return\n		}\n\n		t := socket.Transport()")

# ---------------------------------------------------------------- C04
mutant("c04-no-sender-exclusion", "C04", "C04-D2", "server_socket.go",
       "	return adapter.NewBroadcastOperator(s.nsp.Name(), s.adapter, IsEventReservedForServer).Except(Room(s.ID()))",
       "	return adapter.NewBroadcastOperator(s.nsp.Name(), s.adapter, IsEventReservedForServer)")
mutant("c04-to-mutates-receiver", "C04", "C04-D3", "adapter/broadcast_operator.go",
       """	n := *b
	n.rooms = b.rooms.Clone()
	for _, r := range room {
		n.rooms.Add(Room(r))
	}
	return &n""",
       """	n := *b
	for _, r := range room {
		n.rooms.Add(Room(r))
	}
	return &n""")
mutant("c04-all-branch-ignores-except", "C04", "C04-D4", "adapter/adapter_memory.go",
       """			if exceptSids.Contains(sid) {
				continue
			}
			socket, ok := a.sockets.Get(sid)""",
       """			socket, ok := a.sockets.Get(sid)""")
mutant("c04-no-dedup-mark", "C04", "C04-D4", "adapter/adapter_memory.go",
       "					a.mu.Lock()\n					ids.Add(sid)\n", "					a.mu.Lock()\n")
mutant("c04-addall-no-rooms-side", "C04", "C04-D1", "adapter/adapter_memory.go",
       """		if !r.Contains(sid) {
			r.Add(sid)
		}""",
       """		_ = r""")
mutant("c04-onclose-no-leaveall", "C04", "C04-D5", "server_socket.go",
       "		s.leaveAll()\n\n		s.nsp.remove(s)", "		s.nsp.remove(s)")
mutant("c04-emit-swaps-rooms-except", "C04", "C04-D3", "adapter/broadcast_operator.go",
       "	opts.Rooms = b.rooms\n	opts.Except = b.exceptRooms\n", "	opts.Rooms = b.exceptRooms\n	opts.Except = b.rooms\n")
mutant("c04-delete-keeps-empty-room-check", "C04", "C04-D1", "adapter/adapter_memory.go",
       "		if r.Cardinality() == 0 {\n			delete(a.rooms, room)", "		if r.Cardinality() <= 1 {\n			delete(a.rooms, room)")
mutant("c04-deleteall-keeps-rooms", "C04", "C04-D1", "adapter/adapter_memory.go",
       """	s.Each(func(room Room) bool {
		a.delete(sid, room)
		return false
	})

	delete(a.sids, sid)""",
       """	_ = s
	delete(a.sids, sid)""")
mutant("c04-deleteall-own-room-fastpath", "C04", "C04-D1", "adapter/adapter_memory.go",
       """	s.Each(func(room Room) bool {
		a.delete(sid, room)
		return false
	})

	delete(a.sids, sid)""",
       """	if s.Cardinality() == 1 {
		a.delete(sid, Room(sid))
		delete(a.sids, sid)
		return
	}
	s.Each(func(room Room) bool {
		a.delete(sid, room)
		return false
	})

	delete(a.sids, sid)""")
mutant("c06-deleteall-forgets-before-sweep", "C06", "C06-D6", "adapter/adapter_memory.go",
       """	s.Each(func(room Room) bool {
		a.delete(sid, room)
		return false
	})

	delete(a.sids, sid)""",
       """	if s.Cardinality() == 1 {
		delete(a.sids, sid)
		a.delete(sid, Room(sid))
		return
	}
	s.Each(func(room Room) bool {
		a.delete(sid, room)
		return false
	})

	delete(a.sids, sid)""")
mutant("c04-except-computed-from-rooms", "C04", "C04-D4", "adapter/adapter_memory.go",
       "	exceptSids := a.computeExceptSids(opts.Except)", "	exceptSids := a.computeExceptSids(opts.Rooms)")
mutant("c04-socket-local-operator-bypasses", "C04", "C04-D2", "server_socket.go",
       "func (s *serverSocket) Local() *BroadcastOperator {\n	return s.newBroadcastOperator().Local()",
       "func (s *serverSocket) Local() *BroadcastOperator {\n	return s.nsp.Local()")
mutant("c04-callback-under-lock", "C04", "C04-D4", "adapter/adapter_memory.go",
       """			if ok {
				a.mu.Unlock()
				callback(socket)
				a.mu.Lock()
			}
		}
	}""",
       """			if ok {
				callback(socket)
			}
		}
	}""")
mutant("c04-fetch-shares-sets", "C04", "C04-D3", "adapter/broadcast_operator.go",
       """func (b *BroadcastOperator) SocketsJoin(room ...Room) {
	opts := NewBroadcastOptions()
	opts.Rooms = b.rooms.Clone()""",
       """func (b *BroadcastOperator) SocketsJoin(room ...Room) {
	opts := NewBroadcastOptions()
	opts.Rooms = b.exceptRooms.Clone()""")

# ---------------------------------------------------------------- C08
mutant("c08-deliver-before-logging", "C08", "C08-D1", "adapter/adapter_session_aware.go",
       """		a.packets = append(a.packets, packet)
		a.mu.Unlock()
	}
	a.inMemoryAdapter.Broadcast(header, v, opts)""",
       """		a.inMemoryAdapter.Broadcast(header, v, opts)
		a.packets = append(a.packets, packet)
		a.mu.Unlock()
		return
	}
	a.inMemoryAdapter.Broadcast(header, v, opts)""")
mutant("c08-unknown-offset-still-ok", "C08", "C08-D3", "adapter/adapter_session_aware.go",
       """	if index == -1 {
		return nil, false
	}""",
       """	if index == -1 && len(a.packets) > 0 {
		return nil, false
	}""")
mutant("c08-leaveall-before-persist", "C08", "C08-D4", "server_socket.go",
       """		if s.server.connectionStateRecovery.Enabled && recoverableDisconnectReasons.Contains(reason) {""",
       """		s.leaveAll()
		if s.server.connectionStateRecovery.Enabled && recoverableDisconnectReasons.Contains(reason) {""")
mutant("c08-cleaner-no-expiry-test", "C08", "C08-D2", "adapter/adapter_session_aware.go",
       """			if packet.HasExpired(a.maxDisconnectDuration) {
				// Packets are in emission order: this is the newest expired one, everything before it has expired too.
				// Remove them all. Removing only this one would leave a hole behind the older packets.
				a.packets = slices.Delete(a.packets, 0, i+1)
				break
			}""",
       """			_ = packet
			if len(a.packets) > 1000 {
				a.packets = slices.Delete(a.packets, 0, i+1)
				break
			}""")
mutant("c08-flip-packet-predicate", "C08", "C08-D2", "adapter/adapter.go",
       "	return time.Now().After(p.EmittedAt.Add(maxDisconnectDuration))", "	return time.Now().Before(p.EmittedAt.Add(maxDisconnectDuration))")
mutant("c08-flip-session-predicate", "C08", "C08-D2", "adapter/adapter_session_aware.go",
       "	return time.Now().After(s.DisconnectedAt.Add(maxDisconnectDuration))", "	return s.DisconnectedAt.Add(maxDisconnectDuration).After(time.Now())")
mutant("c08-expired-session-recovered", "C08", "C08-D3", "adapter/adapter_session_aware.go",
       """	if sessionWithTS.hasExpired(a.maxDisconnectDuration) {
		delete(a.sessions, pid)
		return nil, false
	}""",
       """	if sessionWithTS.hasExpired(a.maxDisconnectDuration) {
		delete(a.sessions, pid)
	}""")
mutant("c08-scan-includes-offset-packet", "C08", "C08-D3", "adapter/adapter_session_aware.go",
       "	for i := index + 1; i < len(a.packets); i++ {", "	for i := index; i < len(a.packets); i++ {")
mutant("c08-log-acked-events-too", "C08", "C08-D1", "adapter/adapter_session_aware.go",
       "	if isEventPacket && withoutAcknowledgement {", "	if isEventPacket || withoutAcknowledgement {")
mutant("c08-id-not-appended-to-args", "C08", "C08-D1", "adapter/adapter_session_aware.go",
       """		id := a.yeaster.Yeast()
		v = append(v, id)
""",
       """		id := a.yeaster.Yeast()
""")
mutant("c08-restored-socket-fresh-id", "C08", "C08-D4", "server_socket.go",
       "		s.id = previousSession.SID\n		s.pid = previousSession.PID", "		s.pid = previousSession.PID")
mutant("c08-client-offset-key", "C08", "C08-D5", "client_socket.go",
       '		m["offset"] = lastOffset', '		m["lastOffset"] = lastOffset')
mutant("c08-recovered-without-pid-compare", "C08", "C08-D5", "client_socket.go",
       "	s.setRecovered(ok && v.PID != \"\" && pid == adapter.PrivateSessionID(v.PID))", "	s.setRecovered(ok && v.PID != \"\" && pid != \"\")")
mutant("c08-persist-any-reason", "C08", "C08-D4", "server_socket.go",
       "		if s.server.connectionStateRecovery.Enabled && recoverableDisconnectReasons.Contains(reason) {", "		if s.server.connectionStateRecovery.Enabled {")
mutant("c08-filter-by-except-only", "C08", "C08-D3", "adapter/adapter_session_aware.go",
       "		if shouldIncludePacket(sessionWithTS.SessionToPersist.Rooms, packet.Opts) {\n			missedPackets = append(missedPackets, packet)\n		}", "		missedPackets = append(missedPackets, packet)")

# ---------------------------------------------------------------- C09
mutant("c09-id-before-namespace", "C09", "C09-D2", "parser/json/encode.go",
       """	if header.Namespace != "" && header.Namespace != "/" {
		buf.WriteString(header.Namespace + ",")
	}

	if header.ID != nil {
		buf.WriteString(strconv.FormatUint(*header.ID, 10))
	}""",
       """	if header.ID != nil {
		buf.WriteString(strconv.FormatUint(*header.ID, 10))
	}

	if header.Namespace != "" && header.Namespace != "/" {
		buf.WriteString(header.Namespace + ",")
	}""")
mutant("c09-swap-packet-types", "C09", "C09-D3", "parser/packet.go",
       "	PacketTypeEvent\n	PacketTypeAck\n", "	PacketTypeAck\n	PacketTypeEvent\n")
mutant("c09-rename-num-tag", "C09", "C09-D4", "parser/json/binary.go",
       '	Num         int  `json:"num"`', '	Num         int  `json:"n"`')
mutant("c09-new-setter-in-struct-walk", "C09", "C09-D1", "parser/json/binary.go",
       """		if !fv.IsValid() || !fv.CanInterface() {
			continue
		}

		b, err := p.deconstructValue(fv, numBuffers)""",
       """		if !fv.IsValid() || !fv.CanInterface() {
			continue
		}
		if fv.Kind() == reflect.String && fv.CanSet() {
			fv.SetString(fv.String())
		}

		b, err := p.deconstructValue(fv, numBuffers)""")
mutant("c09-root-namespace-written", "C09", "C09-D2", "parser/json/encode.go",
       '	if header.Namespace != "" && header.Namespace != "/" {', '	if header.Namespace != "" {')
mutant("c09-fromchar-accepts-7", "C09", "C09-D3", "parser/packet.go",
       "	if b < 48 || b > byte(48+packetTypeMax) {", "	if b < 48 || b > byte(48+packetTypeMax)+1 {")
mutant("c09-placeholder-index-base", "C09", "C09-D4", "parser/json/binary.go",
       "			num := p.Num + 1\n", "			num := p.Num + 2 - 1 + 0*1\n			num = p.Num\n")
mutant("c09-attachments-for-ack-only", "C09", "C09-D2", "parser/json/encode.go",
       "	if header.Type == parser.PacketTypeBinaryEvent || header.Type == parser.PacketTypeBinaryAck {\n		buf.WriteString(strconv.Itoa(header.Attachments)",
       "	if header.Type == parser.PacketTypeBinaryEvent {\n		buf.WriteString(strconv.Itoa(header.Attachments)")
mutant("c09-header-namespace-rewritten", "C09", "C09-D1", "parser/json/encode.go",
       "		if hasBinary(rv) {\n", "		if header.Namespace == \"\" {\n			header.Namespace = \"/\"\n		}\n		if hasBinary(rv) {\n")
mutant("c09-double-count-attachment", "C09", "C09-D4", "parser/json/binary.go",
       "			*numBuffers++\n", "			*numBuffers++\n			if len(buf) == 0 {\n				*numBuffers++\n			}\n")
mutant("c09-reader-namespace-text-only", "C09", "C09-D2", "parser/json/decode.go",
       "	if len(data) >= 1 && data[0] == '/' {", "	if !header.IsBinary() && len(data) >= 1 && data[0] == '/' {")

# ---------------------------------------------------------------- C15
mutant("c15-no-nonpositive-guard", "C15", "C15-D1", "backoff.go",
       """	if ms <= 0 {
		return b.max
	}
	return time.Duration""",
       """	return time.Duration""")
mutant("c15-math-max", "C15", "C15-D1", "backoff.go",
       "	return time.Duration(math.Min(float64(ms), float64(b.max)))", "	return time.Duration(math.Max(float64(ms), float64(b.max)))")
mutant("c15-min-with-min", "C15", "C15-D1", "backoff.go",
       "	return time.Duration(math.Min(float64(ms), float64(b.max)))", "	return time.Duration(math.Min(float64(ms), float64(b.min*1000)))")
mutant("c15-two-durations-per-attempt", "C15", "C15-D2", "client_manager_conn.go",
       "	delay := m.backoff.duration()\n", "	delay := m.backoff.duration()\n	if delay < time.Millisecond {\n		delay = m.backoff.duration()\n	}\n")
mutant("c15-volatile-branches-swapped", "C15", "C15-D3", "client_socket.go",
       "		} else if !volatile {\n			buffers := make([]sendBufferItem", "		} else if volatile {\n			buffers := make([]sendBufferItem")
mutant("c15-flush-without-clear", "C15", "C15-D3", "client_socket.go",
       "		s.manager.packet(packets...)\n		s.sendBuffer = nil\n", "		s.manager.packet(packets...)\n")
mutant("c15-early-return-in-replay", "C15", "C15-D3", "client_socket.go",
       """		s.callEvent(event.handler, event.header, event.values, sendAck)
	}
	s.receiveBuffer = nil""",
       """		if s.callEvent(event.handler, event.header, event.values, sendAck) {
			return
		}
	}
	s.receiveBuffer = nil""")
mutant("c15-failed-off-by-one", "C15", "C15-D2", "client_manager_conn.go",
       "	didAttemptsReachedMaxAttempts := m.reconnectionAttempts > 0 && attempts >= m.reconnectionAttempts", "	didAttemptsReachedMaxAttempts := m.reconnectionAttempts > 0 && attempts > m.reconnectionAttempts")
mutant("c15-no-reset-on-give-up", "C15", "C15-D2", "client_manager_conn.go",
       """		m.debug.Log("Maximum attempts reached. Attempts made so far", attempts)
		m.backoff.reset()""",
       """		m.debug.Log("Maximum attempts reached. Attempts made so far", attempts)""")
mutant("c15-attempt-counted-twice", "C15", "C15-D1", "backoff.go",
       "	b.numAttempts++\n	b.numAttemptsMu.Unlock()\n\n	if b.jitter > 0 {", "	b.numAttempts++\n	b.numAttemptsMu.Unlock()\n\n	if b.jitter > 0 {\n		b.numAttempts++")
mutant("c15-flush-before-connected", "C15", "C15-D3", "client_socket.go",
       """	s.stateMu.Lock()
	s.state = clientSocketConnStateConnected
	s.stateMu.Unlock()

	s.debug.Log("Socket connected")

	s.emitBuffered()""",
       """	s.emitBuffered()
	s.stateMu.Lock()
	s.state = clientSocketConnStateConnected
	s.stateMu.Unlock()

	s.debug.Log("Socket connected")
""")
mutant("c15-backoff-from-max", "C15", "C15-D1", "client_manager.go",
       "	io.backoff = newBackoff(io.reconnectionDelay, io.reconnectionDelayMax, io.randomizationFactor)", "	io.backoff = newBackoff(io.reconnectionDelayMax, io.reconnectionDelayMax, io.randomizationFactor)")
mutant("c15-no-retry-after-failed-attempt", "C15", "C15-D2", "client_manager_conn.go",
       "		m.reconnectErrorHandlers.forEach(func(handler *ManagerReconnectErrorFunc) { (*handler)(err) }, true)\n		m.reconnect(true)\n", "		m.reconnectErrorHandlers.forEach(func(handler *ManagerReconnectErrorFunc) { (*handler)(err) }, true)\n")
mutant("c15-flush-skipped-when-receive-empty", "C15", "C15-D3", "client_socket.go",
       "	s.receiveBuffer = nil\n\n	s.sendBufferMu.Lock()", "	if len(s.receiveBuffer) == 0 {\n		return\n	}\n	s.receiveBuffer = nil\n\n	s.sendBufferMu.Lock()")

# ---------------------------------------------------------------- C16
mutant("c16-acks-read-unlocked", "C16", "C16-D1", "server_socket.go",
       """	s.acksMu.Lock()
	ack, ok := s.acks[*header.ID]
	if ok {
		delete(s.acks, *header.ID)
	}
	s.acksMu.Unlock()
""",
       """	ack, ok := s.acks[*header.ID]
	s.acksMu.Lock()
	if ok {
		delete(s.acks, *header.ID)
	}
	s.acksMu.Unlock()
""")
mutant("c16-return-between-lock-unlock", "C16", "C16-D2", "packet_queue.go",
       """	pq.mu.Lock()
	alreadyDrained := len(pq.packets) == 0
	pq.mu.Unlock()
	if alreadyDrained {
		return
	}""",
       """	pq.mu.Lock()
	if len(pq.packets) == 0 {
		return
	}
	pq.mu.Unlock()""")
mutant("c16-fanout-inside-store-lock", "C16", "C16-D3", "store.go",
       """func (e *handlerStore[T]) forEach(f func(handler T), concurrent bool) {
	handlers := e.getAll()
	if len(handlers) == 0 {
		return
	}
	if concurrent {""",
       """func (e *handlerStore[T]) forEach(f func(handler T), concurrent bool) {
	handlers := e.getAll()
	if len(handlers) == 0 {
		return
	}
	if !concurrent {
		e.mu.Lock()
		defer e.mu.Unlock()
	}
	if concurrent {""")
mutant("c16-lock-order-inversion", "C16", "C16-D4", "client_manager_conn.go",
       """func (m *Manager) connected() bool {
	m.stateMu.RLock()
	defer m.stateMu.RUnlock()
	return m.state == clientConnStateConnected
}""",
       """func (m *Manager) connected() bool {
	m.stateMu.RLock()
	defer m.stateMu.RUnlock()
	return m.state == clientConnStateConnected
}

func (m *Manager) anySocketConnected() bool {
	m.stateMu.RLock()
	defer m.stateMu.RUnlock()
	for _, s := range m.sockets.getAll() {
		s.stateMu.RLock()
		c := s.state == clientSocketConnStateConnected
		s.stateMu.RUnlock()
		if c {
			return true
		}
	}
	return false
}""")
mutant("c16-sendbuffer-under-wrong-mutex", "C16", "C16-D1", "client_socket.go",
       "		} else if !volatile {\n			buffers := make([]sendBufferItem, len(packets))",
       "		} else if !volatile {\n			s.sendBufferMu.Unlock()\n			s.receiveBufferMu.Lock()\n			buffers := make([]sendBufferItem, len(packets))")
MUTANTS[-1]["then"] = ("			s.sendBuffer = append(s.sendBuffer, buffers...)\n			s.sendBufferMu.Unlock()\n", "			s.sendBuffer = append(s.sendBuffer, buffers...)\n			s.receiveBufferMu.Unlock()\n")
mutant("c16-middleware-under-lock", "C16", "C16-D3", "middleware.go",
       """	s.middlewareFuncsMu.RLock()
	funcs := slices.Clone(s.middlewareFuncs)
	s.middlewareFuncsMu.RUnlock()
""",
       """	s.middlewareFuncsMu.RLock()
	defer s.middlewareFuncsMu.RUnlock()
	funcs := slices.Clone(s.middlewareFuncs)
""")
mutant("c16-recursive-lock", "C16", "C16-D4", "store.go",
       """func (s *nspStore) len() int {
	s.mu.Lock()
	defer s.mu.Unlock()
	return len(s.nsps)
}""",
       """func (s *nspStore) len() int {
	s.mu.Lock()
	defer s.mu.Unlock()
	if _, ok := s.get("/"); ok {
		return len(s.nsps)
	}
	return len(s.nsps)
}""")
mutant("c16-state-write-under-rlock", "C16", "C16-D1", "client_manager.go",
       """	m.stateMu.Lock()
	m.state = clientConnStateDisconnected
	m.stateMu.Unlock()

	m.closeHandlers.forEach""",
       """	m.stateMu.RLock()
	m.state = clientConnStateDisconnected
	m.stateMu.RUnlock()

	m.closeHandlers.forEach""")
mutant("c16-panic-under-lock", "C16", "C16-D2", "middleware.go",
       """	s.middlewareFuncsMu.Lock()
	defer s.middlewareFuncsMu.Unlock()
	rv := reflect.ValueOf(f)
	err := s.checkMiddlewareFunc(rv)
	if err != nil {
		panic(fmt.Errorf("sio: %w", err))
	}
	s.middlewareFuncs = append(s.middlewareFuncs, rv)""",
       """	s.middlewareFuncsMu.Lock()
	rv := reflect.ValueOf(f)
	err := s.checkMiddlewareFunc(rv)
	if err != nil {
		panic(fmt.Errorf("sio: %w", err))
	}
	s.middlewareFuncs = append(s.middlewareFuncs, rv)
	s.middlewareFuncsMu.Unlock()""")
mutant("c16-adapter-callback-under-lock", "C16", "C16-D3", "adapter/adapter_memory.go",
       """				if ok {
					a.mu.Unlock()
					callback(socket)
					a.mu.Lock()
					ids.Add(sid)
				}""",
       """				if ok {
					callback(socket)
					ids.Add(sid)
				}""")

# ---------------------------------------------------------------- C10
mutant("c10-no-empty-check", "C10", "C10-D1", "parser/json/decode.go",
       """	if len(data) < 1 {
		err = errInvalidPacketSize
		return
	}

	header = new(parser.PacketHeader)""",
       """	header = new(parser.PacketHeader)""")
mutant("c10-indexbyte-unchecked", "C10", "C10-D1", "parser/json/decode.go",
       """		if i == -1 {
			err = errMalformedPacket
			return
		}
""", "")
mutant("c10-attachments-bitsize64", "C10", "C10-D1", "parser/json/decode.go",
       "strconv.ParseUint(string(data[:i]), 10, 31)", "strconv.ParseUint(string(data[:i]), 10, 64)")
mutant("c10-negative-placeholder", "C10", "C10-D1", "parser/json/binary.go",
       "			if num < 1 || num >= len(r.buffers) {", "			if num >= len(r.buffers) {")
mutant("c10-negative-placeholder-map", "C10", "C10-D1", "parser/json/binary.go",
       "						if n < 1 || n >= len(r.buffers) {", "						if n >= len(r.buffers) {", count=0)
mutant("c10-placeholder-upper-off-by-one", "C10", "C10-D1", "parser/json/binary.go",
       "			if num < 1 || num >= len(r.buffers) {", "			if num < 1 || num > len(r.buffers) {")
mutant("c10-namespace-no-comma", "C10", "C10-D1", "parser/json/decode.go",
       """		if i < len(data) {
			// Skip the comma.
			data = data[i+1:]
		} else {
			// Namespace is not terminated with a comma. There is no payload.
			data = data[i:]
		}""",
       """		data = data[i+1:]""")
mutant("c10-reconstruct-no-buffers-check", "C10", "C10-D1", "parser/json/binary.go",
       """	if len(r.buffers) < 1 {
		return nil, errInvalidNumberOfBuffers
	}

	payload := r.buffers[0]""",
       """	payload := r.buffers[0]""")
mutant("c10-onconnect-values-unchecked", "C10", "C10-D1", "client_socket.go",
       """	} else if len(values) != 1 {
		connectError(wrapInternalError(fmt.Errorf("len(values) != 1")))
		return
	}""",
       """	}""")
mutant("c10-arity-guard-weakened", "C10", "C10-D1", "server_socket.go",
       """	if len(values) == len(handler.inputArgs) {
		for i, v := range values {""",
       """	if len(values) >= len(handler.inputArgs) {
		for i, v := range values {""")
mutant("c10-ack-arity-guard-removed", "C10", "C10-D2", "server_socket.go",
       """	if len(values) == len(inputArgs) {
		for i, v := range values {
			if inputArgs[i].Kind() != reflect.Ptr && v.Kind() == reflect.Ptr {
				values[i] = v.Elem()
			}
		}
	} else {
		s.onError(fmt.Errorf("sio: onEvent: invalid number of arguments"))
		return
	}
""",
       """	for i, v := range values {
		if i < len(inputArgs) && inputArgs[i].Kind() != reflect.Ptr && v.Kind() == reflect.Ptr {
			values[i] = v.Elem()
		}
	}
""")
mutant("c10-handler-no-recover", "C10", "C10-D2", "handler.go",
       """func (f *eventHandler) call(args ...reflect.Value) (ret []reflect.Value, err error) {
	defer func() {
		if r := recover(); r != nil {
			var ok bool
			err, ok = r.(error)
			if !ok {
				err = fmt.Errorf("sio: handler error: %v", r)
			}
		}
	}()
""",
       """func (f *eventHandler) call(args ...reflect.Value) (ret []reflect.Value, err error) {
""")
mutant("c10-server-parse-error-dropped", "C10", "C10-D3", "server_conn.go",
       """			if err != nil {
				c.onFatalError(wrapInternalError(err))
				return
			}
		}
	}
}""",
       """			if err != nil {
				return
			}
		}
	}
}""")
mutant("c10-client-parse-error-ignored", "C10", "C10-D3", "client_manager.go",
       """					m.onClose(ReasonParseError, err)
""",
       """					_ = err
""")
mutant("c10-client-parse-error-wrong-reason", "C10", "C10-D3", "client_manager.go",
       "					m.onClose(ReasonParseError, err)", "					m.onClose(ReasonTransportError, err)")
mutant("c10-decode-error-swallowed", "C10", "C10-D3", "server_socket.go",
       """	values, err := decode(handler.inputArgs...)
	if err != nil {
		s.onError(wrapInternalError(err))
		return
	}""",
       """	values, err := decode(handler.inputArgs...)
	if err != nil {
		return
	}""")
mutant("c10-decode-error-continues", "C10", "C10-D3", "client_socket.go",
       """	values, err := decode(inputArgs...)
	if err != nil {
		s.onError(wrapInternalError(err))
		return
	}""",
       """	values, err := decode(inputArgs...)
	if err != nil {
		s.onError(wrapInternalError(err))
	}""")
mutant("c10-finish-before-detach", "C10", "C10-D5", "parser/json/decode.go",
       """	ok := p.r.addBuffer(data)
	if ok {
		r := p.r
		p.r = nil
		finish(r.header, r.eventName, r.decode)
	}""",
       """	ok := p.r.addBuffer(data)
	if ok {
		r := p.r
		finish(r.header, r.eventName, r.decode)
		p.r = nil
	}""")
mutant("c10-retain-zero-attachments", "C10", "C10-D5", "parser/json/decode.go",
       "		ok := !header.IsBinary() || header.Attachments == 0", "		ok := !header.IsBinary()")
mutant("c10-remaining-counts-up", "C10", "C10-D5", "parser/json/binary.go",
       "	r.remaining--\n	return r.remaining == 0", "	r.remaining++\n	return r.remaining == 0")
mutant("c10-checkackfunc-accepts-no-params", "C10", "C10-D6", "handler.go",
       """		if rt.NumIn() == 0 {
			return fmt.Errorf("sio: ack handler must have error as its 1st parameter")
		}
		if rt.In(0).Kind() != reflect.Interface || !rt.In(0).Implements(reflectError) {""",
       """		if rt.NumIn() > 0 && (rt.In(0).Kind() != reflect.Interface || !rt.In(0).Implements(reflectError)) {""")
mutant("c10-ackhandler-built-before-check", "C10", "C10-D6", "handler.go",
       """	err := checkAckFunc(f, hasError)
	if err != nil {
		return nil, err
	}

	return &ackHandler{""",
       """	if err := checkAckFunc(f, false); err != nil {
		return nil, err
	}

	return &ackHandler{""")

# ---------------------------------------------------------------- C11
mutant("c11-uint32-for-64", "C11", "C11-D2", "engine.io/transport/webtransport/packet.go",
       "n := binary.BigEndian.Uint64(header[:])", "n := uint64(binary.BigEndian.Uint32(header[:]))")
mutant("c11-reader-threshold", "C11", "C11-D2", "engine.io/transport/webtransport/packet.go",
       "			if expectedLen < 126 {", "			if expectedLen <= 126 {")
mutant("c11-reader-mask", "C11", "C11-D2", "engine.io/transport/webtransport/packet.go",
       "expectedLen = int(firstByte[0] & 0x7f)", "expectedLen = int(firstByte[0] & 0xff)")
mutant("c11-reader-flag", "C11", "C11-D2", "engine.io/transport/webtransport/packet.go",
       "isBinary = firstByte[0]&0x80 == 0x80", "isBinary = firstByte[0]&0x40 == 0x40")
mutant("c11-reader-16-64-swapped", "C11", "C11-D2", "engine.io/transport/webtransport/packet.go",
       "			} else if expectedLen == 126 {", "			} else if expectedLen == 127 {")
mutant("c11-reader-state-loop", "C11", "C11-D2", "engine.io/transport/webtransport/packet.go",
       """			expectedLen = int(binary.BigEndian.Uint16(header[:]))
			state = ReadPayload""",
       """			expectedLen = int(binary.BigEndian.Uint16(header[:]))
			state = ReadHeader""")
mutant("c11-writer-threshold126", "C11", "C11-D2", "engine.io/transport/webtransport/packet.go",
       "	if encodedLen < 126 {", "	if encodedLen < 127 {")
mutant("c11-writer-threshold65536", "C11", "C11-D1", "engine.io/transport/webtransport/packet.go",
       "	} else if encodedLen < 65536 {", "	} else if encodedLen <= 65536 {")
mutant("c11-writer-markers-swapped", "C11", "C11-D2", "engine.io/transport/webtransport/packet.go",
       "		header[0] = 126\n", "		header[0] = 127\n")
mutant("c11-writer-no-binary-flag", "C11", "C11-D2", "engine.io/transport/webtransport/packet.go",
       """	if packet.IsBinary {
		header[0] |= 0x80
	}
""", "")
mutant("c11-writer-put32", "C11", "C11-D2", "engine.io/transport/webtransport/packet.go",
       "binary.BigEndian.PutUint64(header[1:], uint64(encodedLen))", "binary.BigEndian.PutUint32(header[1:], uint32(encodedLen))")
mutant("c11-writer-little-endian", "C11", "C11-D2", "engine.io/transport/webtransport/packet.go",
       "binary.BigEndian.PutUint16(header[1:], uint16(encodedLen))", "binary.LittleEndian.PutUint16(header[1:], uint16(encodedLen))")
mutant("c11-encodedlen-no-type-byte", "C11", "C11-D3", "engine.io/parser/packet.go",
       "	return 1 + len(p.Data)\n}", "	return len(p.Data)\n}")
mutant("c11-encodedlen-raw-base64", "C11", "C11-D3", "engine.io/parser/packet.go",
       "return 1 + base64.StdEncoding.EncodedLen(len(p.Data))", "return 1 + base64.RawStdEncoding.EncodedLen(len(p.Data))")
mutant("c11-encoder-not-closed", "C11", "C11-D3", "engine.io/parser/packet.go",
       "			defer encoder.Close()\n", "")
mutant("c11-payload-len-sep-after-last", "C11", "C11-D3", "engine.io/parser/payload.go",
       """		// Seperator
		if i != len(packets)-1 {""",
       """		// Seperator
		if i != len(packets) {""")
mutant("c11-payload-sep-before-first", "C11", "C11-D3", "engine.io/parser/payload.go",
       "if i != len(packets)-1 {", "if i != len(packets)-2 {", count=0)
mutant("c11-send-encode-text", "C11", "C11-D3", "engine.io/transport/webtransport/packet.go",
       "return packet.Encode(w, true)", "return packet.Encode(w, false)")
mutant("c11-delimiter-31", "C11", "C11-D4", "engine.io/parser/payload.go",
       "const payloadDelimiter byte = 30", "const payloadDelimiter byte = 31")
mutant("c11-ping-pong-swapped", "C11", "C11-D4", "engine.io/parser/packet.go",
       "	PacketTypePing\n	PacketTypePong\n", "	PacketTypePong\n	PacketTypePing\n")
mutant("c11-fromchar-accepts-7", "C11", "C11-D4", "engine.io/parser/packet.go",
       "if b < 48 || b > byte(48+packetTypeMax) {", "if b < 48 || b > byte(49+packetTypeMax) {")
mutant("c11-tochar-offset", "C11", "C11-D4", "engine.io/parser/packet.go",
       "	b += 48\n", "	b += 47\n")
mutant("c11-base64-prefix-upper", "C11", "C11-D4", "engine.io/parser/packet.go",
       "const base64Prefix byte = 'b'", "const base64Prefix byte = 'B'")
mutant("c11-decode-no-len-check", "C11", "C11-D1", "engine.io/parser/packet.go",
       """	if len(data) < 1 {
		return nil, errInvalidPacketSize
	}

	packetType := data[0]""",
       """	packetType := data[0]""")
mutant("c11-base64-slice-plus-one", "C11", "C11-D1", "engine.io/parser/packet.go",
       "packet.Data = packet.Data[:n]", "packet.Data = packet.Data[:n+1]")
mutant("c11-no-maxint32-check", "C11", "C11-D1", "engine.io/transport/webtransport/packet.go",
       "			if n > math.MaxInt32 {", "			if n > math.MaxUint32 {")
mutant("c11-limit-check-removed", "C11", "C11-D5", "engine.io/transport/webtransport/packet.go",
       """			if limit > 0 && int64(expectedLen) > limit {
				return nil, ErrLimitReached
			}
""", "")
mutant("c10-reflect-isvalid-dropped", "C10", "C10-D7", "parser/json/binary.go",
       "		if !fv.IsValid() || !fv.CanInterface() {", "		if !fv.CanInterface() {", count=0)
mutant("c10-reflect-kind-guard-dropped", "C10", "C10-D7", "parser/json/binary.go",
       "if pholder.Kind() == reflect.Bool && pholder.Bool() && num.Kind() == reflect.Float64 {", "if pholder.Bool() && num.Kind() == reflect.Float64 {", count=0)
mutant("c10-parse-error-under-lock", "C10", "C10-D8", "client_manager.go",
       """				go func() {
					m.eioMu.RLock()""", """				func() {
					m.eioMu.RLock()""")

# ---------------------------------------------------------------- C06 (round 2)
mutant("c06-ping-timeout-leaves-transport-open", "C06", "C06-D7", "engine.io/server_socket.go",
       "		if reason != ReasonTransportClose && reason != ReasonTransportError {", "		if reason != ReasonTransportClose && reason != ReasonTransportError && reason != ReasonPingTimeout {")
mutant("c06-client-forced-close-leaves-transport", "C06", "C06-D7", "engine.io/client_socket.go",
       "		if reason != ReasonTransportClose && reason != ReasonTransportError {", "		if reason == ReasonPingTimeout || reason == ReasonParseError {")
mutant("c06-join-noop-only-with-recovery", "C06", "C06-D6", "server_socket.go",
       """			s.debug.Log("Connection state recovery is enabled")
""",
       """			s.debug.Log("Connection state recovery is enabled")
			s.joinMu.Lock()
			s.join = func(room ...Room) {}
			s.joinMu.Unlock()
""", )
MUTANTS[-1]["then"] = ("""		s.joinMu.Lock()
		s.join = func(room ...Room) {}
		s.joinMu.Unlock()
		wg.WaitTimeout(10 * time.Second)""", """		wg.WaitTimeout(10 * time.Second)""")

# ---------------------------------------------------------------- C02 (round 2)
mutant("c02-polling-onpacket-in-goroutine", "C02", "C02-D6", "engine.io/transport/polling/server.go",
       "	t.callbacks.OnPacket(packets...)\n\n	t.setHeaders(w, r)", "	go t.callbacks.OnPacket(packets...)\n\n	t.setHeaders(w, r)")
mutant("c02-websocket-onpacket-go-closure", "C02", "C02-D6", "engine.io/transport/websocket/server.go",
       "		t.callbacks.OnPacket(packet)", "		go func() { t.callbacks.OnPacket(packet) }()")
mutant("c02-polling-answer-before-onpacket", "C02", "C02-D6", "engine.io/transport/polling/server.go",
       """	t.callbacks.OnPacket(packets...)

	t.setHeaders(w, r)
	wh := w.Header()

	// text/html is required instead of text/plain to avoid an
	// unwanted download dialog on certain user-agents (GH-43)
	wh.Set("Content-Type", "text/html")
	wh.Set("Content-Length", "2")
	w.WriteHeader(200)
	w.Write(ok)
}""",
       """	t.setHeaders(w, r)
	wh := w.Header()

	// text/html is required instead of text/plain to avoid an
	// unwanted download dialog on certain user-agents (GH-43)
	wh.Set("Content-Type", "text/html")
	wh.Set("Content-Length", "2")
	w.WriteHeader(200)
	w.Write(ok)
	if f, isF := w.(http.Flusher); isF {
		f.Flush()
	}
	t.callbacks.OnPacket(packets...)
}""")

# ---------------------------------------------------------------- C07 (round 2)
mutant("c07-resend-skips-ping", "C07", "C07-D2", "engine.io/server_socket.go",
       "		if p.Type != parser.PacketTypeNoop {", "		if p.Type != parser.PacketTypeNoop && p.Type != parser.PacketTypePing {")
mutant("c07-resend-only-messages", "C07", "C07-D2", "engine.io/server_socket.go",
       "		if p.Type != parser.PacketTypeNoop {", "		if p.Type == parser.PacketTypeMessage {")
mutant("c07-eio-error-fatal-on-server", "C07", "C07-D7", "server_conn.go",
       "		OnError:  c.onError,", "		OnError:  c.onFatalError,")
mutant("c07-upgradeTo-in-goroutine", "C07", "C07-D7", "engine.io/server.go",
       "socket.upgradeTo(t, c)", "go socket.upgradeTo(t, c)")

# ---------------------------------------------------------------- C09 (round 2)
mutant("c09-hasbinary-skips-nested-slices", "C09", "C09-D6", "parser/json/binary.go",
       """			switch sk {
			case reflect.Ptr, reflect.Interface, reflect.Struct, reflect.Slice, reflect.Map:
				l := rv.Len()""",
       """			switch sk {
			case reflect.Ptr, reflect.Interface, reflect.Struct, reflect.Map:
				l := rv.Len()""")
mutant("c09-reconstruct-skips-maps", "C09", "C09-D6", "parser/json/binary.go",
       "	case reflect.Map:\n		err := r.reconstructMap(rv)", "	case reflect.Chan:\n		err := r.reconstructMap(rv)")

# ---------------------------------------------------------------- C12 (round 2)
mutant("c12-event-chain-cached-forever", "C12", "C12-D1", "middleware.go",
       """	s.middlewareFuncsMu.RLock()
	funcs := slices.Clone(s.middlewareFuncs)
	s.middlewareFuncsMu.RUnlock()

	for _, f := range funcs {
		err := s.callMiddlewareFunc(f, values)""",
       """	s.middlewareFuncsMu.Lock()
	if s.middlewareFuncsCopy == nil {
		s.middlewareFuncsCopy = slices.Clone(s.middlewareFuncs)
	}
	funcs := s.middlewareFuncsCopy
	s.middlewareFuncsMu.Unlock()

	for _, f := range funcs {
		err := s.callMiddlewareFunc(f, values)""")
MUTANTS[-1]["then"] = ("server_socket.go", "	middlewareFuncs   []reflect.Value\n", "	middlewareFuncs   []reflect.Value\n	middlewareFuncsCopy []reflect.Value\n")

# ---------------------------------------------------------------- C03 (round 2)
mutant("c03-called-set-before-decode", "C03", "C03-D1", "server_socket.go",
       """	inputArgs := ack.inputArgs
	if ack.hasError {""",
       """	ack.mu.Lock()
	if ack.timedOut {
		ack.mu.Unlock()
		return
	}
	ack.called = true
	ack.mu.Unlock()

	inputArgs := ack.inputArgs
	if ack.hasError {""")
mutant("c03-retry-callback-on-every-failure", "C03", "C03-D5", "client_packet_queue.go",
       """		if remove && haveAck {
			rv.Call(args)
		}""",
       """		if haveAck {
			rv.Call(args)
		}""")
mutant("c03-retry-dequeue-on-every-failure", "C03", "C03-D5", "client_packet_queue.go",
       """		if remove {
			pq.queuedPackets = pq.queuedPackets[1:]
		}""",
       """		pq.queuedPackets = pq.queuedPackets[1:]""")
mutant("c05-conn-remove-skipped-for-one-reason", "C05", "C05-D8", "server_socket.go",
       "		s.nsp.remove(s)\n		s.conn.remove(s)\n", "		s.nsp.remove(s)\n		if reason != ReasonServerNamespaceDisconnect {\n			s.conn.remove(s)\n		}\n")
mutant("c05-recovery-log-drops-namespace", "C05", "C05-D8", "adapter/adapter_session_aware.go",
       "			Header:    header,", "			Header:    &parser.PacketHeader{Type: header.Type, ID: header.ID},")

# ---------------------------------------------------------------- C17 / C11 (round 2)
mutant("c17-session-kept-after-transport-close", "C17", "C17-D5", "engine.io/server_socket.go",
       """		defer s.onClose(s.id)

		defer s.getCallbacks().OnClose(reason, err)

		if reason != ReasonTransportClose && reason != ReasonTransportError {""",
       """		defer s.getCallbacks().OnClose(reason, err)

		if reason != ReasonTransportClose && reason != ReasonTransportError {
			defer s.onClose(s.id)""")
mutant("c11-body-read-with-single-read", "C11", "C11-D6", "engine.io/parser/packet.go",
       "	_, err := io.ReadFull(r, buf)", "	_, err := r.Read(buf)")
mutant("c11-header-readfull-error-ignored", "C11", "C11-D6", "engine.io/transport/webtransport/packet.go",
       """			_, err = io.ReadFull(r, header[:])
			if err != nil {
				return nil, err
			}
			expectedLen = int(binary.BigEndian.Uint16(header[:]))""",
       """			io.ReadFull(r, header[:])
			expectedLen = int(binary.BigEndian.Uint16(header[:]))""")
mutant("c10-shared-parser", "C10", "C10-D9", "parser/json/parser.go",
       """	return func() parser.Parser {
		return &Parser{
			maxAttachments: maxAttachments,
			json:           json,
		}
	}""",
       """	p := &Parser{
		maxAttachments: maxAttachments,
		json:           json,
	}
	return func() parser.Parser { return p }""")

# ---------------------------------------------------------------- C18 (round 2)
mutant("c18-compacted-once-list-not-stored-back", "C18", "C18-D7", "store.go",
       """		if len(eventsOnce) == 0 {
			delete(e.eventsOnce, eventName)
		} else {
			e.eventsOnce[eventName] = eventsOnce
		}""",
       """		if len(eventsOnce) == 0 {
			delete(e.eventsOnce, eventName)
		}""")

# ---------------------------------------------------------------- C15 (round 2)
mutant("c15-backoff-reset-only-when-reconnecting", "C15", "C15-D4", "client_manager.go",
       "	m.cleanup()\n	m.backoff.reset()\n", "	m.cleanup()\n")
MUTANTS[-1]["then"] = ("		go m.reconnect(false)\n	}\n}", "		m.backoff.reset()\n		go m.reconnect(false)\n	}\n}")
mutant("c15-volatile-enters-retry-queue", "C15", "C15-D4", "client_socket.go",
       "	if s.config.Retries > 0 && !fromQueue && !volatile {", "	if s.config.Retries > 0 && !fromQueue {")

# ---------------------------------------------------------------- C19 (round 2)
mutant("c19-buffered-drain-token", "C19", "C19-D6", "packet_queue.go",
       "		drain:  make(chan struct{}),", "		drain:  make(chan struct{}, 1),")
mutant("c19-queue-read-before-swap", "C19", "C19-D7", "engine.io/server_socket.go",
       """	c.Set(s.onPacket, s.onTransportClose)

	s.transportMu.Lock()
	defer s.transportMu.Unlock()
""",
       """	c.Set(s.onPacket, s.onTransportClose)

	qp := s.transport.QueuedPackets()

	s.transportMu.Lock()
	defer s.transportMu.Unlock()
""")
MUTANTS[-1]["then"] = ("""	// Get the queued packets from the old transport and send them with the new one.
	qp := old.QueuedPackets()
""", "")

# ---------------------------------------------------------------- C03 (round 3)
mutant("c03-ack-id-read-then-advanced-later", "C03", "C03-D6", "namespace.go",
       """	id := n.ackID
	n.ackID++
	return id
}""",
       """	return n.ackID
}

func (n *Namespace) useAckID(id uint64) {
	n.ackMu.Lock()
	defer n.ackMu.Unlock()
	n.ackID = id + 1
}""")
mutant("c03-volatile-discarded-before-ack-registered", "C03", "C03-D6", "client_socket.go",
       """	f := v[len(v)-1]
	rt := reflect.TypeOf(f)
	if f != nil && rt.Kind() == reflect.Func {
		ackID := s.registerAckHandler(f, timeout)""",
       """	if volatile {
		s.stateMu.RLock()
		discard := s.state == clientSocketConnStateDisconnected
		s.stateMu.RUnlock()
		if discard {
			return
		}
	}

	f := v[len(v)-1]
	rt := reflect.TypeOf(f)
	if f != nil && rt.Kind() == reflect.Func {
		ackID := s.registerAckHandler(f, timeout)""")

# ---------------------------------------------------------------- C04 / C05 (round 3)
mutant("c04-local-drops-excluded-rooms", "C04", "C04-D6", "adapter/broadcast_operator.go",
       """	n := *b
	n.flags.Local = true
	return &n""",
       """	n := NewBroadcastOperator(b.nsp, b.adapter, b.isEventReserved)
	n.rooms = b.rooms
	n.flags = BroadcastFlags{Compress: b.flags.Compress, Local: true}
	return n""")
mutant("c05-active-only-after-connect-reply", "C05", "C05-D9", "client_socket.go",
       "	s.active = true\n	s.manager.openHandlers.onSubEvent(&openFunc)", "	s.manager.openHandlers.onSubEvent(&openFunc)")
MUTANTS[-1]["then"] = ("	s.debug.Log(\"Socket connected\")\n", "	s.activeMu.Lock()\n	s.active = true\n	s.activeMu.Unlock()\n	s.debug.Log(\"Socket connected\")\n")
mutant("c05-frames-enqueued-one-by-one", "C05", "C05-D9", "server_conn.go",
       "		c.packet(packets...)\n", "		for _, pk := range packets {\n			c.packet(pk)\n		}\n")

# ---------------------------------------------------------------- C01 / C02 / C07 (round 3)
mutant("c07-send-on-transport-read-earlier", "C07", "C07-D8", "engine.io/server_socket.go",
       """	s.transportMu.RLock()
	defer s.transportMu.RUnlock()
	s.transport.Send(packets...)""",
       """	s.Transport().Send(packets...)""")
mutant("c02-pollqueue-get-keeps-backing-array", "C02", "C02-D7", "engine.io/transport/polling/poll_queue.go",
       "	packets := pq.packets\n	pq.packets = nil\n", "	packets := pq.packets\n	pq.packets = pq.packets[:0]\n")
mutant("c01-shared-parser", "C01", "C01-D9", "parser/json/parser.go",
       """	return func() parser.Parser {
		return &Parser{
			maxAttachments: maxAttachments,
			json:           json,
		}
	}""",
       """	p := &Parser{
		maxAttachments: maxAttachments,
		json:           json,
	}
	return func() parser.Parser { return p }""")

# ---------------------------------------------------------------- C11-D7
mutant("c11-unmarshal-into-pointer-to-pointer", "C11", "C11-D7", "engine.io/transport/webtransport/server.go",
       "		err = json.Unmarshal(packet.Data, data)", "		err = json.Unmarshal(packet.Data, &data)")

# round 3: wrap-around of a wire-derived number, optional header fields
mutant("c10-placeholder-num-wraps", "C10", "C10-D1", "parser/json/binary.go",
       """			num := p.Num + 1

			if num < 1 || num >= len(r.buffers) {
				return errInvalidPlaceholderNumValue
			}

			buf := r.buffers[num]""",
       """			if p.Num < 0 || p.Num+1 >= len(r.buffers) {
				return errInvalidPlaceholderNumValue
			}

			buf := r.buffers[p.Num+1]""")
mutant("c10-server-ack-id-unchecked", "C10", "C10-D10", "server_socket.go",
       """	if header.ID == nil {
		s.onError(wrapInternalError(fmt.Errorf("header.ID is nil")))
		return
	}

	s.debug.Log("Calling ack with ID", *header.ID)

	s.acksMu.Lock()""",
       """	s.debug.Log("Calling ack with ID", *header.ID)

	s.acksMu.Lock()""")
mutant("c10-client-ack-id-checked-late", "C10", "C10-D10", "client_socket.go",
       """	if header.ID == nil {
		s.onError(wrapInternalError(fmt.Errorf("header.ID is nil")))
		return
	}

	s.debug.Log("Calling ack with ID", *header.ID)""",
       """	s.debug.Log("Calling ack with ID", *header.ID)
	if header.ID == nil {
		s.onError(wrapInternalError(fmt.Errorf("header.ID is nil")))
		return
	}
""")
mutant("c10-event-ack-id-unchecked", "C10", "C10-D10", "server_socket.go",
       """	if header.ID != nil && ack {""",
       """	if ack {""")

# round 3: attachment completion (affine forms), walker state
mutant("c09-complete-one-early", "C09", "C09-D7", "parser/json/binary.go",
       """	r.remaining--
	return r.remaining == 0""",
       """	r.remaining--
	return r.remaining <= 1""")
mutant("c09-complete-by-length-off-by-one", "C09", "C09-D7", "parser/json/binary.go",
       """	r.remaining--
	return r.remaining == 0""",
       """	r.remaining--
	return len(r.buffers) >= r.header.Attachments""")
mutant("c09-counter-starts-one-high", "C09", "C09-D7", "parser/json/decode.go",
       """			remaining: header.Attachments,""",
       """			remaining: header.Attachments + 1,""")
mutant("c10-complete-one-late", "C10", "C10-D5", "parser/json/binary.go",
       """	r.remaining--
	return r.remaining == 0""",
       """	r.remaining--
	return len(r.buffers)-1 > r.header.Attachments""")
mutant("c09-hasbinary-verdict-cached-per-type", "C09", "C09-D8", "parser/json/binary.go",
       """		case reflect.Struct:
			nf := rv.NumField()
			for i := 0; i < nf; i++ {
				fv := rv.Field(i)""",
       """		case reflect.Struct:
			if plainTypes[rv.Type()] {
				continue
			}
			defer func(t reflect.Type) { plainTypes[t] = true }(rv.Type())
			nf := rv.NumField()
			for i := 0; i < nf; i++ {
				fv := rv.Field(i)""")
MUTANTS[-1]["then"] = ("parser/json/binary.go", "func hasBinary(values ...reflect.Value) bool {", "var plainTypes = map[reflect.Type]bool{}\n\nfunc hasBinary(values ...reflect.Value) bool {")

# F32: a reflect.New pointer stored into a typed map
mutant("c10-f32-decode-map-binary-pointer", "C10", "C10-D11", "parser/json/binary.go",
       """					if !x.Type().AssignableTo(rv.Type().Elem()) {
						// map[K]Binary: the element is the slice itself, not a pointer to it.
						x = x.Elem()
					}
""", "")
mutant("c09-f32-encode-map-binary-pointer", "C09", "C09-D9", "parser/json/binary.go",
       """				if !x.Type().AssignableTo(rv.Type().Elem()) {
					// map[K]Binary: the element is the slice itself, not a pointer to it.
					x = x.Elem()
				}
""", "")

# F33: slice elements of kind map
mutant("c09-f33-slice-of-maps-not-descended", "C09", "C09-D6", "parser/json/binary.go",
       "case reflect.Ptr, reflect.Interface, reflect.Struct, reflect.Slice, reflect.Map:",
       "case reflect.Ptr, reflect.Interface, reflect.Struct, reflect.Slice:", count=0)

# round 3 C18: take-and-clear under a read lock; wrappers that drop arguments
mutant("c18-getall-clears-under-rlock", "C18", "C18-D4", "store.go",
       """func (e *handlerStore[T]) getAll() (handlers []T) {
	e.mu.Lock()
	defer e.mu.Unlock()""",
       """func (e *handlerStore[T]) getAll() (handlers []T) {
	e.mu.RLock()
	defer e.mu.RUnlock()""")
MUTANTS[-1]["then"] = ("""	handlerStore[T comparable] struct {
		mu        sync.Mutex""", """	handlerStore[T comparable] struct {
		mu        sync.RWMutex""")
mutant("c18-offevent-drops-nil-arguments", "C18", "C18-D8", "server_socket_events.go",
       """	values := make([]reflect.Value, len(handler))
	for i := range values {
		values[i] = reflect.ValueOf(handler[i])
	}
	s.eventHandlers.off(eventName, values...)""",
       """	values := make([]reflect.Value, 0, len(handler))
	for _, h := range handler {
		if h != nil {
			values = append(values, reflect.ValueOf(h))
		}
	}
	s.eventHandlers.off(eventName, values...)""")
mutant("c18-offclose-skips-last", "C18", "C18-D8", "client_manager_events.go",
       """	f := make([]*ManagerCloseFunc, len(_f))
	for i := range f {
		f[i] = &_f[i]
	}
	m.closeHandlers.off(f...)""",
       """	f := make([]*ManagerCloseFunc, len(_f))
	for i := range f {
		f[i] = &_f[i]
	}
	m.closeHandlers.off(f[:len(f)/2]...)""")

# round 3 C15: the ack-timeout purge takes ack-less events with it
mutant("c15-purge-takes-ackless-events", "C15", "C15-D5", "client_socket.go",
       "			if packet.ackID != nil && *packet.ackID == id {",
       "			if packet.ackID == nil || *packet.ackID == id {")

# C16: generic handler store (rows of the guarded-by table that were vacuous before fieldVar normalised to Origin())
mutant("c16-handlerstore-offall-unlocked", "C16", "C16-D1", "store.go",
       """func (e *handlerStore[T]) offAll() {
	e.mu.Lock()
	defer e.mu.Unlock()
	e.funcs = nil""",
       """func (e *handlerStore[T]) offAll() {
	e.funcs = nil""")

# F35 / F36
mutant("c09-f36-map-value-slices-skipped", "C09", "C09-D10", "parser/json/binary.go",
       """			// Any other slice: its elements can hold binary data.
			err := r.reconstructValue(mv)
			if err != nil {
				return err
			}

""", "")
mutant("c09-f35-struct-any-field-not-recognised", "C09", "C09-D11", "parser/json/binary.go",
       """			done, err := r.replacePlaceholder(fv)
			if err != nil {
				return err
			}
			if done {
				continue
			}
""", "")
mutant("c09-f35-second-unwrap-not-recognised", "C09", "C09-D11", "parser/json/binary.go",
       """	// Check twice. rv can be a pointer to an interface.
	if k == reflect.Interface || k == reflect.Ptr {
		if done, err := r.replacePlaceholder(rv); done || err != nil {
			return err
		}
		rv = rv.Elem()
		k = rv.Kind()
	}

	switch k {
	case reflect.Slice:
		sk := rv.Type().Elem().Kind()

		switch sk {
		case reflect.Ptr, reflect.Interface, reflect.Struct, reflect.Slice, reflect.Map:
			sl := rv.Len()""",
       """	// Check twice. rv can be a pointer to an interface.
	if k == reflect.Interface || k == reflect.Ptr {
		rv = rv.Elem()
		k = rv.Kind()
	}

	switch k {
	case reflect.Slice:
		sk := rv.Type().Elem().Kind()

		switch sk {
		case reflect.Ptr, reflect.Interface, reflect.Struct, reflect.Slice, reflect.Map:
			sl := rv.Len()""")
mutant("c10-f35-placeholder-num-unchecked", "C10", "C10-D1", "parser/json/binary.go",
       """	if n < 1 || n >= len(r.buffers) {
		return false, errInvalidPlaceholderNumValue
	}
	slot.Set(reflect.ValueOf(r.buffers[n]))""",
       """	if n >= len(r.buffers) {
		return false, errInvalidPlaceholderNumValue
	}
	slot.Set(reflect.ValueOf(r.buffers[n]))""")

# round 3 C19: Send outside the transport lock strands a packet on the abandoned transport
mutant("c19-send-on-transport-read-earlier", "C19", "C19-D8", "engine.io/server_socket.go",
       """	s.transportMu.RLock()
	defer s.transportMu.RUnlock()
	s.transport.Send(packets...)""",
       """	s.Transport().Send(packets...)""")

# round 4 C03: a third invoker of the callback; header id stored in the parser
mutant("c03-close-fails-pending-acks-past-the-flags", "C03", "C03-D7", "handler.go",
       """func dismantleAckFunc(rt reflect.Type) (in []reflect.Type, variadic bool) {""",
       """func (f *ackHandler) fail(err error) {
	args := []reflect.Value{reflect.ValueOf(err)}
	for _, t := range f.inputArgs[1:] {
		args = append(args, reflect.Zero(t))
	}
	f.rv.Call(args)
}

func dismantleAckFunc(rt reflect.Type) (in []reflect.Type, variadic bool) {""")
mutant("c03-header-id-in-parser", "C03", "C03-D8", "parser/json/decode.go",
       """		num, err := strconv.ParseUint(string(data[:i]), 10, 0)
		if err != nil {
			return nil, nil, "", err
		}
		header.ID = &num""",
       """		p.id, err = strconv.ParseUint(string(data[:i]), 10, 0)
		if err != nil {
			return nil, nil, "", err
		}
		header.ID = &p.id""")
MUTANTS[-1]["then"] = ("parser/json/parser.go", "	r              *reconstructor\n", "	r              *reconstructor\n	id             uint64\n")

# round 4: additive defects
mutant("c05-last-hit-cache-in-store", "C05", "C05-D10", "store.go",
       """func (s *serverSocketStore) getByNsp(nsp string) (socket *serverSocket, ok bool) {
	s.mu.Lock()
	defer s.mu.Unlock()
	socket, ok = s.socketsByNsp[nsp]
	return
}""",
       """var lastSocketByNsp *serverSocket

func (s *serverSocketStore) getByNsp(nsp string) (socket *serverSocket, ok bool) {
	s.mu.Lock()
	defer s.mu.Unlock()
	if lastSocketByNsp != nil && lastSocketByNsp.nsp.Name() == nsp {
		return lastSocketByNsp, true
	}
	socket, ok = s.socketsByNsp[nsp]
	lastSocketByNsp = socket
	return
}""")
mutant("c05-server-acks-taken-from-conn", "C05", "C05-D11", "client_socket.go",
       "		acks:      make(map[uint64]*ackHandler),",
       "		acks:      sharedAcks,")
MUTANTS[-1]["then"] = ("func newClientSocket(", "var sharedAcks = make(map[uint64]*ackHandler)\n\nfunc newClientSocket(")
mutant("c02-poll-remainder-requeued", "C02", "C02-D8", "engine.io/transport/polling/server.go",
       """func (t *ServerTransport) QueuedPackets() []*parser.Packet {
	return t.pq.get()
}""",
       """func (t *ServerTransport) QueuedPackets() []*parser.Packet {
	packets := t.pq.get()
	if len(packets) > 64 {
		t.pq.add(packets[64:]...)
		packets = packets[:64]
	}
	return packets
}""")
mutant("c04-replay-filter-merged-loops", "C04", "C04-D7", "adapter/adapter_session_aware.go",
       """		if opts.Except.Contains(sessionRoom) {
			notExcluded = false
			break
		}
	}
	return included && notExcluded""",
       """		if opts.Except.Contains(sessionRoom) {
			notExcluded = false
			break
		}
		if included {
			break
		}
	}
	return included && notExcluded""")

# round 4 C06
mutant("c06-transport-close-swallowed-while-probing", "C06", "C06-D8", "engine.io/server_socket.go",
       """		if s.TransportName() != name {
			return
		}

		if err == nil {
			s.close(ReasonTransportClose, nil)""",
       """		if s.TransportName() != name {
			return
		}
		if name == "polling" && err == nil && len(s.upgrades) > 0 {
			return
		}

		if err == nil {
			s.close(ReasonTransportClose, nil)""")
mutant("c06-onconnect-lock-narrowed", "C06", "C06-D9", "server_socket.go",
       """	s.connectedMu.Lock()
	defer s.connectedMu.Unlock()

	// Socket ID is the default room a socket joins to.""",
       """	// Socket ID is the default room a socket joins to.""")
MUTANTS[-1]["then"] = ("""	s.sendControlPacket(parser.PacketTypeConnect, &c)
	s.connected = true""", """	s.sendControlPacket(parser.PacketTypeConnect, &c)
	s.connectedMu.Lock()
	s.connected = true
	s.connectedMu.Unlock()""")
mutant("c06-sweep-by-namespace-index", "C06", "C06-D10", "store.go",
       """func (s *serverSocketStore) getAndRemoveAll() (sockets []*serverSocket) {
	s.mu.Lock()
	defer s.mu.Unlock()

	sockets = make([]*serverSocket, len(s.socketsByID))
	i := 0
	for _, socket := range s.socketsByID {""",
       """func (s *serverSocketStore) getAndRemoveAll() (sockets []*serverSocket) {
	s.mu.Lock()
	defer s.mu.Unlock()

	sockets = make([]*serverSocket, len(s.socketsByNsp))
	i := 0
	for _, socket := range s.socketsByNsp {""")

# round 4 C01
mutant("c01-post-retried-on-error", "C01", "C01-D10", "engine.io/transport/polling/client.go",
       """	resp, err := t.httpClient.Do(req)
	if err != nil {
		t.close(err)
		return
	}""",
       """	resp, err := t.httpClient.Do(req)
	for tries := 0; err != nil && tries < 1; tries++ {
		resp, err = t.httpClient.Do(req)
	}
	if err != nil {
		t.close(err)
		return
	}""")
mutant("c01-parser-reset-while-connected", "C01", "C01-D11", "client_manager_conn.go",
       """	m.stateMu.Lock()
	if m.state == clientConnStateConnected {""",
       """	m.resetParser()
	m.stateMu.Lock()
	if m.state == clientConnStateConnected {""")

# round 4 batch 2
mutant("c09-event-name-fast-path-go-quoting", "C09", "C09-D13", "parser/json/encode.go",
       """	switch v.(type) {
	case _empty, *_empty:
		// Omit JSON.""",
       """	if s, ok := v.(string); ok {
		buf.WriteString(strconv.Quote(s))
		return buf.Bytes(), nil
	}

	switch v.(type) {
	case _empty, *_empty:
		// Omit JSON.""")
mutant("c09-frame-list-reused-across-packets", "C09", "C09-D14", "parser/json/decode.go",
       "			buffers:   [][]byte{buf},",
       "			buffers:   append(p.scratch[:0], buf),")
MUTANTS[-1]["then"] = ("parser/json/parser.go", "	r              *reconstructor\n", "	r              *reconstructor\n	scratch        [][]byte\n")
mutant("c12-use-skips-duplicates-by-code-pointer", "C12", "C12-D6", "middleware.go",
       """	n.middlewareFuncs = append(n.middlewareFuncs, f)
}""",
       """	for i := range n.middlewareFuncs {
		if sameHandler(&n.middlewareFuncs[i], &f) {
			return
		}
	}
	n.middlewareFuncs = append(n.middlewareFuncs, f)
}""")
mutant("c13-truncated-body-decoded", "C13", "C13-D4", "engine.io/parser/payload.go",
       """	buf, err := io.ReadAll(r)
	if err != nil {
		return nil, err
	}""",
       """	buf, err := io.ReadAll(r)
	if err != nil && len(buf) == 0 {
		return nil, err
	}""")
mutant("c13-batch-fast-path-on-raw-lengths", "C13", "C13-D3", "engine.io/client_socket.go",
       "	if shouldCheckPayloadSize {\n",
       "	if shouldCheckPayloadSize && int64(len(packets[0].Data)+len(packets[len(packets)-1].Data)) > s.maxPayload {\n")

# F37 / F38 / F39 (reverting the repairs)
mutant("c01-f37-buffer-decision-outside-the-mutex", "C01", "C01-D12", "client_socket.go",
       """		s.stateMu.RLock()
		connected = s.state == clientSocketConnStateConnected
		s.stateMu.RUnlock()
		if connected {
			s.receiveBufferMu.Unlock()
			return s.callEvent(handler, header, values, sendAck)
		}
""", "")
mutant("c15-f37-buffer-decision-outside-the-mutex", "C15", "C15-D6", "client_socket.go",
       """		s.stateMu.RLock()
		connected = s.state == clientSocketConnStateConnected
		s.stateMu.RUnlock()
		if connected {
			s.receiveBufferMu.Unlock()
			return s.callEvent(handler, header, values, sendAck)
		}
""", "")
mutant("c03-f42-empty-ack-made-up-for-the-handler", "C03", "C03-D9", "client_socket.go",
       """		s.callEvent(event.handler, event.header, event.values, sendAck)
	}
	s.receiveBuffer = nil""",
       """		hasAckFunc := s.callEvent(event.handler, event.header, event.values, sendAck)
		if event.header.ID != nil && !hasAckFunc {
			s.sendAckPacket(*event.header.ID, nil)
		}
	}
	s.receiveBuffer = nil""")
mutant("c03-f39-no-head-guard", "C03", "C03-D10", "client_packet_queue.go",
       """		if len(pq.queuedPackets) == 0 || pq.queuedPackets[0] != packet {""",
       """		if len(pq.queuedPackets) == 0 {""")

# F40
mutant("c08-f40-cleaner-removes-from-the-middle", "C08", "C08-D8", "adapter/adapter_session_aware.go",
       "				a.packets = slices.Delete(a.packets, 0, i+1)",
       "				a.packets = append(slices.Clip(a.packets[:i]), a.packets[i+1:]...)")

# round 4 C08 / C14
mutant("c08-offset-position-memo", "C08", "C08-D9", "adapter/adapter_session_aware.go",
       """	index := -1
	for i, packet := range a.packets {
		if packet.ID == offset {
			index = i
			break
		}
	}""",
       """	index := -1
	for i, packet := range a.packets {
		if packet.ID == offset {
			index = i
			break
		}
	}
	if index == -1 && len(offset) > 0 && len(a.packets) > 0 {
		index = 0
	}""")
mutant("c08-emit-args-from-a-pool", "C08", "C08-D10", "server_socket.go",
       "	v := make([]any, 0, len(_v)+2)",
       "	v := emitScratch[:0]")
MUTANTS[-1]["then"] = ("""func (s *serverSocket) emit(""", """var emitScratch = make([]any, 0, 16)

func (s *serverSocket) emit(""")
mutant("c14-ping-skipped-for-active-clients", "C14", "C14-D5", "engine.io/server_socket.go",
       """		ping, err := parser.NewPacket(parser.PacketTypePing, false, nil)""",
       """		if len(s.pongChan) > 0 {
			continue
		}

		ping, err := parser.NewPacket(parser.PacketTypePing, false, nil)""")

# round 4 C18
mutant("c18-handler-set-read-on-the-new-goroutine", "C18", "C18-D9", "namespace.go",
       """	handlers := n.eventHandlers.getAll(eventName)

	go func() {
		for _, handler := range handlers {""",
       """	go func() {
		for _, handler := range n.eventHandlers.getAll(eventName) {""")

# round 4 C15 / C17
mutant("c15-timeout-drops-volatile", "C15", "C15-D7", "emitter.go",
       """	e.timeout = timeout
	return e""",
       """	return Emitter{socket: e.socket, timeout: timeout}""")
mutant("c17-last-session-memo-shared-by-servers", "C17", "C17-D6", "engine.io/store.go",
       """func (s *socketStore) get(sid string) (socket *serverSocket, ok bool) {
	s.mu.RLock()
	defer s.mu.RUnlock()
	socket, ok = s.sockets[sid]
	return
}""",
       """var lastSession *serverSocket

func (s *socketStore) get(sid string) (socket *serverSocket, ok bool) {
	s.mu.RLock()
	defer s.mu.RUnlock()
	if lastSession != nil && lastSession.id == sid {
		return lastSession, true
	}
	socket, ok = s.sockets[sid]
	if ok {
		lastSession = socket
	}
	return
}""")

# round 4 C16
mutant("c16-fanout-under-nondeferred-lock-can-panic", "C16", "C16-D2", "adapter/adapter_session_aware.go",
       """		a.packets = append(a.packets, packet)
		a.mu.Unlock()
	}
	a.inMemoryAdapter.Broadcast(header, v, opts)""",
       """		a.packets = append(a.packets, packet)
		a.inMemoryAdapter.Broadcast(header, v, opts)
		a.mu.Unlock()
		return
	}
	a.inMemoryAdapter.Broadcast(header, v, opts)""")

# F41 / F43 / F44 (reverting the repairs)
mutant("c13-f41-empty-packets-not-counted", "C13", "C13-D3", "engine.io/client_socket.go",
       """			payloadSize += packet.EncodedLen(false)
			if i > 0""",
       """			if len(packet.Data) > 0 {
				payloadSize += packet.EncodedLen(false)
			}
			if i > 0""")
mutant("c18-f43-sub-events-registered-on-every-connect", "C18", "C18-D10", "client_socket.go",
       """	if s.subDeregister != nil {
		// Already registered (`Connect` is called again before the socket is connected).
		// Registering them once more would make every open, error and close of the manager count twice.
		s.activeMu.Unlock()
		return
	}
""", "")
mutant("c12-f44-refused-socket-keeps-its-rooms", "C12", "C12-D7", "namespace.go",
       """		socket.leaveAll()
		return nil, err""",
       """		return nil, err""")

# F45 / F46
mutant("c08-f45-connect-payload-by-value", "C08", "C08-D11", "client_socket.go",
       "		v = &m\n", "		v = m\n")
mutant("c10-f46-parse-error-leaves-connection-open", "C10", "C10-D12", "client_manager.go",
       """					if eio != nil {
						eio.Close()
					}
""", "					_ = eio\n")
mutant("c06-f46-parse-error-leaves-connection-open", "C06", "C06-D11", "client_manager.go",
       """					if eio != nil {
						eio.Close()
					}
""", "					_ = eio\n")

# F47 – F52 (reverting the repairs)
mutant("c18-f47-created-namespace-not-announced", "C18", "C18-D11", "server_conn.go",
       """		nsp, created = c.server.namespaces.getOrCreate(""", """		nsp, _ = c.server.namespaces.getOrCreate(""")
MUTANTS[-1]["then"] = ("""		if created && nsp.Name() != "/" {""", """		if created = false; created {""")
mutant("c09-f48-empty-position-parsed-as-placeholder", "C09", "C09-D15", "parser/json/binary.go",
       """			if len(pBuf) == 0 {
				return nil
			}
""", "")
mutant("c11-f49-upgrades-null", "C11", "C11-D8", "engine.io/server.go",
       """	if upgrades == nil {
		// `upgrades` is an array in the protocol. A nil slice would be encoded as null.
		upgrades = []string{}
	}
""", "")
mutant("c17-f50-http3-skips-version-check", "C17", "C17-D1", "engine.io/server.go",
       "	if !isWebTransportRequest(r) {\n		version, err", "	if r.ProtoMajor != 3 {\n		version, err")
mutant("c15-f51-connect-error-leaves-pending", "C15", "C15-D8", "client_socket.go",
       """	if s.state == clientSocketConnStateConnectPending {
		s.state = clientSocketConnStateDisconnected
	}
""", "")
mutant("c16-f52-callers-transports-rearranged", "C16", "C16-D6", "engine.io/client.go",
       "		transports = slices.Clone(config.Transports)", "		transports = slices.Clip(config.Transports)")

# F53 / F54
mutant("c08-f53-persist-before-the-cleanup", "C08", "C08-D4", "server_socket.go",
       """		s.leaveAll()

		s.nsp.remove(s)
		s.conn.remove(s)
""",
       """		if session != nil {
			s.adapter.PersistSession(session)
		}
		s.leaveAll()

		s.nsp.remove(s)
		s.conn.remove(s)
""")
MUTANTS[-1]["then"] = ("""		if session != nil {
			s.adapter.PersistSession(session)
		}

		s.connectedMu.Lock()""", """		s.connectedMu.Lock()""")
mutant("c08-f53-remove-by-id-alone", "C08", "C08-D12", "namespace.go",
       "	if registered, ok := n.sockets.get(socket.ID()); ok && registered == ServerSocket(socket) {",
       "	if registered, ok := n.sockets.get(socket.ID()); ok && registered != nil {")
mutant("c08-f54-restored-session-stays", "C08", "C08-D13", "adapter/adapter_session_aware.go",
       "	delete(a.sessions, pid)\n	return session, true", "	return session, true")

# F55
mutant("c05-f55-disconnect-packet-while-pending", "C05", "C05-D12", "client_socket.go",
       "	if s.Connected() {\n		s.debug.Log(\"Performing disconnect\", s.namespace)", "	if s.connectedOrConnectPending() {\n		s.debug.Log(\"Performing disconnect\", s.namespace)")

# F57
mutant("c06-f57-closed-socket-adopts-the-transport", "C06", "C06-D12", "engine.io/server_socket.go",
       """	select {
	case <-s.closeChan:
		s.debug.Log("UpgradeTo", "socket is closed. Closing the new transport")
		c.Set(nil, nil)
		t.Close()
		return
	default:
	}
""", "")
mutant("c07-f57-client-adopts-the-transport-after-close", "C07", "C07-D9", "engine.io/client_socket.go",
       """	select {
	case <-s.closeChan:
		s.debug.Log("upgradeTo", "socket is closed. Closing the new transport")
		c.Set(nil, nil)
		t.Close()
		return
	default:
	}
""", "")
mutant("c17-f57-upgrade-watcher-ignores-the-close", "C17", "C17-D7", "engine.io/server.go",
       """		case <-socket.closeChan:
			// The socket was closed while the upgrade was in flight. Don't leave the probing transport open.
			s.debug.Log("Socket was closed during the upgrade")
			t.Close()
""", "")

# F58 / F59
mutant("c16-f58-raw-options-under-the-lock", "C16", "C16-D7", "adapter/adapter_memory.go",
       "	opts = normalizeBroadcastOptions(opts)\n\n	a.mu.Lock()\n", "	a.mu.Lock()\n")
mutant("c16-f59-headers-written-into-shared-dial-options", "C16", "C16-D8", "engine.io/transport/websocket/client.go",
       "		dialOptions.HTTPHeader = header\n", "		dialOptions.HTTPHeader = header\n		if t.dialOptions != nil {\n			t.dialOptions.HTTPHeader = header\n		}\n")

# F60
mutant("c08-f60-recovered-only-ever-set", "C08", "C08-D5", "client_socket.go",
       """	s.setRecovered(ok && v.PID != "" && pid == adapter.PrivateSessionID(v.PID))
""",
       """	if ok && v.PID != "" && pid == adapter.PrivateSessionID(v.PID) {
		s.setRecovered(true)
	}
""")

# F56 (repaired late: b9929d6)
mutant("c05-f56-send-while-connect-pending", "C05", "C05-D12", "client_socket.go",
       "		connected := s.state == clientSocketConnStateConnected\n",
       "		connected := s.state == clientSocketConnStateConnected || s.state == clientSocketConnStateConnectPending\n")
mutant("c02-f56-buffer-cleared-not-sent", "C02", "C02-D1", "client_socket.go",
       "				s.sendBuffer = nil\n				packets = append(buffered, packets...)\n",
       "				s.sendBuffer = nil\n")
mutant("c02-f56-older-frames-after-the-new-packet", "C02", "C02-D1", "client_socket.go",
       "				packets = append(buffered, packets...)\n",
       "				packets = append(packets, buffered...)\n")
mutant("c15-f56-state-read-before-the-buffer-lock", "C15", "C15-D6", "client_socket.go",
       "		s.sendBufferMu.Lock()\n		s.stateMu.RLock()\n		connected := s.state == clientSocketConnStateConnected\n		s.stateMu.RUnlock()\n",
       "		s.stateMu.RLock()\n		connected := s.state == clientSocketConnStateConnected\n		s.stateMu.RUnlock()\n		s.sendBufferMu.Lock()\n")
mutant("c01-f56-state-read-before-the-buffer-lock", "C01", "C01-D12", "client_socket.go",
       "		s.sendBufferMu.Lock()\n		s.stateMu.RLock()\n		connected := s.state == clientSocketConnStateConnected\n		s.stateMu.RUnlock()\n",
       "		s.stateMu.RLock()\n		connected := s.state == clientSocketConnStateConnected\n		s.stateMu.RUnlock()\n		s.sendBufferMu.Lock()\n")
mutant("c05-f56-two-enqueues-on-one-path", "C05", "C05-D9", "client_socket.go",
       "		if forceSend {\n			s.manager.packet(packets...)\n			return\n		}\n",
       "		if forceSend {\n			s.manager.packet(packets...)\n		}\n")
