#!/bin/bash
# Development test (not a registered check): behaviour-preserving rename of every
# parameter, receiver, named result and local variable in a scratch copy of /repo;
# every check must say about the renamed copy what it says about /repo.
set -e
export GOFLAGS=-mod=mod GOPROXY=off GOSUMDB=off GOTOOLCHAIN=local GOWORK=off
V=$(cd "$(dirname "$0")/.." && pwd)
D=$(mktemp -d /tmp/siorn-XXXX); trap 'rm -rf $D' EXIT
(cd $V && go build -o bin/renamelocals ./cmd/renamelocals)
mkdir $D/repo $D/verif; rsync -a --exclude .git /repo/ $D/repo/; cp $V/KNOWN_FINDINGS.txt $D/verif/
$V/bin/renamelocals $D/repo
(cd $D/repo && go build ./...)
rc=0
for id in $(cd $V && ./bin/sioverif list); do
  if $V/bin/sioverif check $id --repo $D/repo --verif $D/verif > $D/out.$id 2>&1; then echo "$id silent"; else echo "$id ALARM/UNDECIDED on renamed copy: $(grep -m2 -E '^violation|UNDECIDED' $D/out.$id | cut -c1-200)"; rc=1; fi
done
exit $rc
