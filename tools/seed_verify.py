#!/usr/bin/env python3
"""Verifies a seeded change produced by a blind sub-agent and files it under
/verif/seeded/<id>/.

usage: seed_verify.py <dir with patch.diff zz_demo_test.go where.txt meta.json> <seed id> [--no-demo] [--props C01,C02]

Steps (all in a scratch copy of /repo outside /repo and /verif, removed afterwards):
  1. clean copy: demo must PASS;  2. apply patch: builds, demo must FAIL;
  3. run the checks of the owning property (and --props) against the patched copy.
"""
import json, os, shutil, subprocess, sys, tempfile

VERIF = os.path.dirname(os.path.dirname(os.path.abspath(__file__)))
ENV = dict(os.environ, GOFLAGS="-mod=mod", GOPROXY="off", GOSUMDB="off", GOTOOLCHAIN="local", GOWORK="off")

def sh(cmd, cwd, timeout=900):
    r = subprocess.run(cmd, cwd=cwd, env=ENV, capture_output=True, text=True, timeout=timeout)
    return r.returncode, (r.stdout + r.stderr)

def main():
    src, sid = sys.argv[1], sys.argv[2]
    nodemo = "--no-demo" in sys.argv
    props = None
    if "--props" in sys.argv:
        props = sys.argv[sys.argv.index("--props") + 1].split(",")
    meta = json.load(open(os.path.join(src, "meta.json")))
    where = open(os.path.join(src, "where.txt")).read().strip() or "."
    prop = meta.get("property")
    d = tempfile.mkdtemp(prefix="sioseed-")
    log = {}
    try:
        repo = os.path.join(d, "repo")
        subprocess.run(["rsync", "-a", "--exclude", ".git", "/repo/", repo + "/"], check=True)
        sh(["git", "init", "-q", "."], repo); sh(["git", "add", "-A"], repo); sh(["git", "-c", "user.email=a@b", "-c", "user.name=x", "commit", "-qm", "base"], repo)
        demo_dst = os.path.join(repo, where, "zz_demo_test.go")
        pkg = "./" + where if where != "." else "."
        if not nodemo:
            shutil.copy(os.path.join(src, "zz_demo_test.go"), demo_dst)
            rc, out = sh(["go", "test", "-vet=off", "-count=1", "-run", "^TestDemo$", pkg], repo)
            log["demo_clean"] = "PASS" if rc == 0 else "FAIL"
            log["demo_clean_tail"] = out[-300:]
        rc, out = sh(["git", "apply", os.path.join(src, "patch.diff")], repo)
        if rc != 0:
            rc, out = sh(["git", "apply", "-3", os.path.join(src, "patch.diff")], repo)
        if rc != 0:
            print("PATCH DOES NOT APPLY:", out[-400:]); log["apply"] = "FAIL"
            print(json.dumps(log, indent=1)); return 2
        rc, out = sh(["go", "build", "./..."], repo)
        log["build"] = "ok" if rc == 0 else "FAIL " + out[-300:]
        if not nodemo:
            rc, out = sh(["go", "test", "-vet=off", "-count=1", "-run", "^TestDemo$", pkg], repo)
            log["demo_patched"] = "PASS" if rc == 0 else "FAIL"
            log["demo_patched_tail"] = out[-400:]
            os.remove(demo_dst)
        claimed = [c["property_id"] for c in json.load(open(os.path.join(VERIF, "MANIFEST.json")))["checks"]]
        torun = props or ([prop] if prop in claimed else [])
        caught = {}
        vd = os.path.join(d, "verif"); os.makedirs(vd)
        shutil.copy(os.path.join(VERIF, "KNOWN_FINDINGS.txt"), vd)
        for pr in torun:
            rc, out = sh([os.path.join(VERIF, "bin/sioverif"), "check", pr, "--repo", repo, "--verif", vd], VERIF)
            viol = [l for l in out.splitlines() if l.startswith("violation:")]
            caught[pr] = {"exit": rc, "violations": [v[:300] for v in viol[:4]]}
        log["checks"] = caught
        ok = log.get("build") == "ok" and (nodemo or (log.get("demo_clean") == "PASS" and log.get("demo_patched") == "FAIL"))
        log["confirmed"] = ok
        print(json.dumps(log, indent=1))
        if ok and not nodemo:
            dst = os.path.join(VERIF, "seeded", sid)
            os.makedirs(dst, exist_ok=True)
            for f in ["patch.diff", "zz_demo_test.go", "where.txt"]:
                if os.path.abspath(os.path.join(src, f)) != os.path.abspath(os.path.join(dst, f)):
                    shutil.copy(os.path.join(src, f), dst)
            meta["verified_by_me"] = {
                "ran": "tools/seed_verify.py: scratch copy of /repo; demo on clean copy (%s), patch applied + go build ./... (%s), demo on patched copy (%s)" % (log.get("demo_clean"), log.get("build"), log.get("demo_patched")),
                "checks_at_filing": caught,
            }
            json.dump(meta, open(os.path.join(dst, "meta.json"), "w"), indent=1)
        return 0 if ok else 1
    finally:
        shutil.rmtree(d, ignore_errors=True)

sys.exit(main())
