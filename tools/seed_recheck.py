#!/usr/bin/env python3
"""Re-verifies every filed seeded change (/verif/seeded/<id>/) in full — demo on a
clean scratch copy, demo on the patched copy, all claimed checks of the owning
property plus any listed under meta["also_check"] — and writes
/verif/seeded/SUMMARY.md.  usage: seed_recheck.py [-j N] [--only SUBSTR]"""
import json, os, subprocess, sys, concurrent.futures as cf
HERE = os.path.dirname(os.path.abspath(__file__)); VERIF = os.path.dirname(HERE)
def one(sid):
    d = os.path.join(VERIF, "seeded", sid)
    meta = json.load(open(os.path.join(d, "meta.json")))
    props = [meta["property"]] + meta.get("also_check", [])
    r = subprocess.run([sys.executable, os.path.join(HERE, "seed_verify.py"), d, sid, "--props", ",".join(props)], capture_output=True, text=True)
    try:
        log = json.loads(r.stdout[r.stdout.index("{"):])
    except Exception:
        log = {"error": r.stdout[-300:] + r.stderr[-300:]}
    return sid, meta, log
def main():
    j = 4; only = None
    a = sys.argv[1:]
    while a:
        x = a.pop(0)
        if x == "-j": j = int(a.pop(0))
        elif x == "--only": only = a.pop(0)
    sids = sorted(x for x in os.listdir(os.path.join(VERIF, "seeded")) if os.path.isdir(os.path.join(VERIF, "seeded", x)) and (not only or only in x))
    rows = []
    with cf.ThreadPoolExecutor(max_workers=j) as ex:
        for sid, meta, log in ex.map(one, sids):
            caught = []
            for p, v in log.get("checks", {}).items():
                if v["exit"] == 1:
                    rules = sorted({x.split()[1] for x in v["violations"] if x.startswith("violation:")})
                    caught.append(p + " (" + ", ".join(rules) + ")")
            rows.append((sid, meta["property"], meta.get("summary", "")[:150].replace("|", "/"), log.get("confirmed"), "; ".join(caught) or "MISSED"))
            print(sid, log.get("confirmed"), "; ".join(caught) or "MISSED", flush=True)
    # rows are kept in a cache so that a partial run (--only) updates its rows and leaves the others
    cache_path = os.path.join(VERIF, "seeded", "summary_rows.json")
    cache = {}
    if os.path.exists(cache_path):
        cache = json.load(open(cache_path))
    for r in rows:
        cache[r[0]] = list(r)
    json.dump(cache, open(cache_path, "w"), indent=0, sort_keys=True)
    rows = [tuple(cache[k]) for k in sorted(cache) if os.path.isdir(os.path.join(VERIF, "seeded", k))]
    with open(os.path.join(VERIF, "seeded", "SUMMARY.md"), "w") as f:
        f.write("# Seeded changes from blind sub-agents: verification and detection\n\n")
        f.write("Each row was re-verified by tools/seed_recheck.py: demo passes on a clean scratch copy of /repo, fails with the patch, patch builds; then the owning property's check was run against the patched copy.\n\n")
        f.write("| seed | property | change | confirmed | caught by |\n|---|---|---|---|---|\n")
        for r in rows:
            f.write("| %s | %s | %s | %s | %s |\n" % r)
    missed = [r[0] for r in rows if r[4] == "MISSED"]
    print("seeds:", len(rows), "missed:", missed)
main()
