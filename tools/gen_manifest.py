#!/usr/bin/env python3
"""Generates /verif/MANIFEST.json from the table below (kept next to the
analyser so that claims and rules are edited together)."""
import json, os, sys

ENV = "GOFLAGS=-mod=mod GOPROXY=off GOSUMDB=off GOTOOLCHAIN=local GOWORK=off"

# property id -> (decided clauses, not decided / trusted base, technique)
CLAIMED = {}
NA = {}

def claim(pid, text, note, technique, design_ref):
    CLAIMED[pid] = dict(text=text, note=note, technique=technique, design_ref=design_ref)

def na(pid, reason):
    NA[pid] = reason

exec(open(os.path.join(os.path.dirname(__file__), "claims.py")).read())

checks = []
for pid in sorted(CLAIMED):
    c = CLAIMED[pid]
    checks.append({
        "property_id": pid,
        "quick_cmd": f"{ENV} ./bin/sioverif check {pid} --tier quick",
        "thorough_cmd": f"{ENV} ./bin/sioverif check {pid} --tier thorough",
        "evidence_file": f"/verif/evidence/{pid}.json",
        "replay_cmd_template": f"{ENV} ./bin/sioverif explain {{path}}",
        "engine": "sioverif",
        "level_claimed": {"category": "other", "text": c["text"], "design_ref": c["design_ref"]},
        "level_note": c["note"],
        "technique": c["technique"],
    })

manifest = {
    "version": 1,
    "setup_cmd": f"cd /verif && {ENV} go build -o bin/sioverif ./cmd/sioverif",
    "hooks": {
        "guard": "verif",
        "enable": "no hooks are needed: the analyser reads /repo's source (go/packages, default build tags; thorough also -tags sio_deadlock); nothing in /repo is instrumented",
        "baseline_off_cmd": "cd /repo && GOFLAGS=-mod=mod GOPROXY=off GOSUMDB=off go test -vet=off -count=1 -timeout 25m ./...",
        "source_commits": [],
        "add_only": True,
    },
    "engines": [{
        "name": "sioverif",
        "path": "/verif/cmd/sioverif",
        "serves_properties": sorted(CLAIMED),
        "kind_free_text": "repository-specific static analyser over go/packages + go/ssa (x/tools v0.29.0): term extraction, dominator/guard queries, path-pruned reachability, must-/may-hold locksets and lock-order graph over the VTA call graph, call-site census, reflect-setter taint, zone (difference-bound) abstract interpretation for bounds proofs, constant folding of SSA conditions with CFG path enumeration, AST pattern rules; no execution of /repo code",
    }],
    "checks": checks,
    "not_applicable": [{"property_id": p, "reason": NA[p]} for p in sorted(NA)],
    "notes": "Technique family: static analysis. Every claimed check is level 'other': it decides named structural clauses that are necessary conditions of the property (listed in level_claimed.text and in the evidence), not the behaviour itself. Exit 2 (no VIOLATION line) means the analyser could not decide (load error, anchor renamed). Known findings: /verif/KNOWN_FINDINGS.txt.",
}
allp = [json.loads(l)["id"] for l in open(os.path.join(os.path.dirname(__file__), "..", "properties.jsonl"))]
missing = [p for p in allp if p not in CLAIMED and p not in NA]
if missing:
    sys.exit(f"properties neither claimed nor not_applicable: {missing}")
both = [p for p in allp if p in CLAIMED and p in NA]
if both:
    sys.exit(f"properties both claimed and not_applicable: {both}")
json.dump(manifest, open(os.path.join(os.path.dirname(__file__), "..", "MANIFEST.json"), "w"), indent=1)
print("claimed:", sorted(CLAIMED), "n/a:", sorted(NA))
