# Edited together with the rules in cmd/sioverif/rules_*.go.
# A property appears under na() until its rule set exists, is silent on the
# final tree (apart from listed known findings) and has caught its mutants.

NOT_YET = "static rule set for this property is not built yet in this snapshot; see DESIGN.md section 2 for the planned clauses and section 4 for what static analysis cannot decide about it"

claim("C19",
  "Decides the structural necessary conditions of 'no lost wake-up': (D1) every drop-if-full wake-up channel of the send queues is buffered; (D2) add() publishes the packets before signalling and signals on every path after publishing; (D3) the consumer re-reads the queue after a wake-up and reports ok only for a non-empty read; (D4) the drainer loop leaves only on close and forwards every non-empty poll unmodified to Send; (D5) nobody else consumes the queues. Breaking any of them loses or strands a queued packet under some interleaving. This is a shape check over all paths of the anchored functions, not an exploration of interleavings.",
  "Not decided: absence of lost wake-ups over all interleavings. Trusted: go/ssa's control-flow graph, the anchor table in rules_c19.go.",
  "custom SSA rules: channel-capacity census, must-pass-through and guard queries", "DESIGN.md §2 C19")

for pid in ["C01","C02","C03","C04","C05","C06","C07","C08","C09","C10","C11","C12","C13","C14","C15","C16","C17","C18"]:
    na(pid, NOT_YET)
