# Edited together with the rules in cmd/sioverif/rules_*.go.
# A property appears under na() until its rule set exists, is silent on the
# final tree (apart from listed known findings) and has caught its mutants.

NOT_YET = "static rule set for this property is not built yet in this snapshot; see DESIGN.md section 2 for the planned clauses and section 4 for what static analysis cannot decide about it"

claim("C19",
  "Decides the structural necessary conditions of 'no lost wake-up': (D1) every drop-if-full wake-up channel of the send queues is buffered; (D2) add() publishes the packets before signalling and signals on every path after publishing; (D3) the consumer re-reads the queue after a wake-up and reports ok only for a non-empty read; (D4) the drainer loop leaves only on close and forwards every non-empty poll unmodified to Send; (D5) nobody else consumes the queues. Breaking any of them loses or strands a queued packet under some interleaving. This is a shape check over all paths of the anchored functions, not an exploration of interleavings.",
  "Not decided: absence of lost wake-ups over all interleavings. Trusted: go/ssa's control-flow graph, the anchor table in rules_c19.go.",
  "custom SSA rules: channel-capacity census, must-pass-through and guard queries", "DESIGN.md §2 C19")

claim("C03",
  "Decides the shape that makes reply and timeout mutually exclusive and one-shot: (D1) ackHandler.call, the timer closure and the per-event sendAck closures each test the other side's flag and set their own in ONE critical section, the loser cannot reach the callback, the callback runs outside the lock, and the flags are touched nowhere else without the mutex; (D2) onAck looks up and deletes the entry in one acksMu region, calls only the found entry, deletes before calling; Emit puts the id returned by registerAckHandler into header.ID and forwards its timeout; (D3) with a timeout the handler is built by newAckHandlerWithTimeout, whose single timer goroutine waits exactly `timeout`, passes ErrAckTimeout, calls timeoutFunc, which deletes the entry under acksMu; no delete-inside-range (the purge) and no lock left held on that path; (D4) lock pairing / no panic under a non-deferred Lock on acksMu, sendBufferMu, ackHandler.mu. Each is necessary: breaking it yields a double or a missing callback, or a wedged socket, under some schedule.",
  "Not decided: which reply arrives, timer vs reply in real time, equality of reply arguments, behaviour of reflect.Call. Trusted: go/ssa CFG, anchor table in rules_c03.go.",
  "custom SSA rules: lockset (must-hold) + same-critical-section, path-pruned reachability, value wiring; AST delete-inside-range rule", "DESIGN.md §2 C03")

claim("C18",
  "Decides: (D1) no delete-inside-range in the handler stores and the exported On/Once/Off files (the shape that made Off(a,b) panic); (D2) every exported Off<X>(f...) reaches a store whose equality is func identity, not the address of a per-call copy; (D3) OffAll clears every registry field of its receiver (4 types, all fields enumerated from the struct); (D4) getAll reads and clears the once-list in one critical section on every path, returns all lists and writes no persistent list; (D5) the no-handler branch of off()/OffEvent clears both lists and is keyed on emptiness, not nil-ness; (D6) On appends to the persistent list and Once to the once-list under the mutex. Each clause is necessary for 'On every time, Once at most once, Off exactly what it names'.",
  "Not decided: equivalence with a reference model over all call sequences; concurrency beyond the critical-section shape. Trusted: go/ssa, go/types, anchor table in rules_c18.go.",
  "custom AST + SSA rules: delete-inside-range pattern (with positive control), struct-field exhaustiveness, lockset/same-region, pruned reachability", "DESIGN.md §2 C18")

for pid in ["C01","C02","C04","C05","C06","C07","C08","C09","C10","C11","C12","C13","C14","C15","C16","C17"]:
    na(pid, NOT_YET)
