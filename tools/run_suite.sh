#!/bin/bash
# usage: run_suite.sh <repo dir> <out prefix>  — runs the pinned suite once (JSON) and lists failing tests
export GOFLAGS=-mod=mod GOPROXY=off GOSUMDB=off GOTOOLCHAIN=local; unset GOWORK
cd "$1" && go test -json -vet=off -count=1 -timeout 25m ./... > "$2.json" 2>"$2.err"
python3 - "$2.json" <<'PY' > "$2.summary"
import json,sys
res={}
for l in open(sys.argv[1]):
    try: e=json.loads(l)
    except: continue
    if e.get('Action') in ('pass','fail','skip') and e.get('Test'):
        res[e['Package']+'::'+e['Test']]=e['Action']
base=json.load(open('/root/.vp/BASELINE.json'))
stable=set(base['stable_pass'])
fails=sorted(k for k,v in res.items() if v=='fail')
print("passed",sum(1 for v in res.values() if v=='pass'),"failed",len(fails))
for f in fails: print("FAIL", "STABLE-IN-BASELINE" if f in stable else "(flaky/always-fail in baseline)", f)
missing=[s for s in stable if s not in res]
print("stable tests missing from run:",len(missing))
PY
cat "$2.summary"
