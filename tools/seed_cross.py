#!/usr/bin/env python3
"""Cross-check (development tool): applies every filed seed to a scratch copy and runs
ALL property checks against it.  A seed breaks its own property; an alarm of
another property's check must be legitimate too (the change really breaks that
property as well) — otherwise it is a false alarm of that check.
usage: seed_cross.py [-j N] [--only SUBSTR]   → prints a table, writes seeded/CROSS.md"""
import json, os, shutil, subprocess, sys, tempfile, concurrent.futures as cf
HERE = os.path.dirname(os.path.abspath(__file__)); VERIF = os.path.dirname(HERE)
ENV = dict(os.environ, GOFLAGS="-mod=mod", GOPROXY="off", GOSUMDB="off", GOTOOLCHAIN="local", GOWORK="off")
PROPS = ["C%02d" % i for i in range(1, 20)]
def one(sid):
    d = tempfile.mkdtemp(prefix="siocross-")
    try:
        repo = os.path.join(d, "repo"); vd = os.path.join(d, "verif"); os.makedirs(vd)
        subprocess.run(["rsync", "-a", "--exclude", ".git", "/repo/", repo + "/"], check=True)
        subprocess.run(["git", "init", "-q", "."], cwd=repo)
        r = subprocess.run(["git", "apply", os.path.join(VERIF, "seeded", sid, "patch.diff")], cwd=repo, capture_output=True, text=True)
        if r.returncode != 0:
            r = subprocess.run(["patch", "-p1", "-i", os.path.join(VERIF, "seeded", sid, "patch.diff")], cwd=repo, capture_output=True, text=True)
            if r.returncode != 0:
                return sid, {"error": "patch does not apply"}
        shutil.copy(os.path.join(VERIF, "KNOWN_FINDINGS.txt"), vd)
        res = {}
        # one load of the program, every property's quick tier (sioverif checkall)
        r = subprocess.run([os.path.join(VERIF, "bin/sioverif"), "checkall", "--repo", repo, "--verif", vd], env=ENV, capture_output=True, text=True)
        cur = []
        for l in (r.stdout + r.stderr).splitlines() if "== C" not in r.stderr else []:
            pass
        for l in r.stdout.splitlines():
            if l.startswith("== C"):
                p = l.split()[1]; code = int(l.split("exit=")[1])
                if code != 0:
                    v = [x for x in cur if x.startswith("violation:") or x.startswith("UNDECIDED")]
                    res[p] = {"exit": code, "lines": [x[:260] for x in v[:3]]}
                cur = []
            else:
                cur.append(l)
        if not any(l.startswith("== C19") for l in r.stdout.splitlines()):
            res["error"] = {"exit": r.returncode, "lines": [(r.stderr or "")[-300:]]}
        return sid, res
    finally:
        shutil.rmtree(d, ignore_errors=True)
def main():
    j = 5; only = None; a = sys.argv[1:]
    while a:
        x = a.pop(0)
        if x == "-j": j = int(a.pop(0))
        elif x == "--only": only = a.pop(0)
    sids = sorted(x for x in os.listdir(os.path.join(VERIF, "seeded")) if os.path.isdir(os.path.join(VERIF, "seeded", x)) and (not only or only in x))
    rows = []
    with cf.ThreadPoolExecutor(max_workers=j) as ex:
        for sid, res in ex.map(one, sids):
            own = sid.split("-")[0]
            others = {p: v for p, v in res.items() if p != own and p != "error"}
            print(sid, "own:", "CAUGHT" if own in res else "missed", "others:", json.dumps(others)[:1500], flush=True)
            rows.append((sid, own in res, others))
    cache_path = os.path.join(VERIF, "seeded", "cross_rows.json")
    cache = json.load(open(cache_path)) if os.path.exists(cache_path) else {}
    for sid, own, others in rows:
        cache[sid] = [sid, own, others]
    json.dump(cache, open(cache_path, "w"), indent=0, sort_keys=True)
    rows = [tuple(cache[k]) for k in sorted(cache) if os.path.isdir(os.path.join(VERIF, "seeded", k))]
    with open(os.path.join(VERIF, "seeded", "CROSS.md"), "w") as f:
        f.write("# Every seed against every check (tools/seed_cross.py)\n\n| seed | own check | other checks that report it (rule: first line) |\n|---|---|---|\n")
        for sid, own, others in rows:
            o = "; ".join("%s: %s" % (p, (v["lines"][0] if v["lines"] else "exit %d" % v["exit"]).replace("|", "/")[:200]) for p, v in sorted(others.items())) or "—"
            f.write("| %s | %s | %s |\n" % (sid, "caught" if own else "MISSED", o))
main()
