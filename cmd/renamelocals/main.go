// renamelocals — development tool (not part of any check): rewrites a scratch
// copy of the repository so that every parameter, receiver, named result and
// local variable gets a different name (suffix "Q").  Behaviour is unchanged;
// the checks must say the same about the renamed copy as about the original.
//
//	renamelocals <dir of scratch copy> [-params-only]
package main

import (
	"fmt"
	"go/ast"
	"go/token"
	"go/types"
	"os"
	"sort"
	"strings"

	"golang.org/x/tools/go/packages"
)

func main() {
	dir := os.Args[1]
	cfg := &packages.Config{Mode: packages.LoadSyntax, Dir: dir, Tests: false}
	pkgs, err := packages.Load(cfg, "./...")
	if err != nil {
		panic(err)
	}
	type edit struct {
		off int
		old string
	}
	edits := map[string][]edit{}
	n := 0
	for _, pkg := range pkgs {
		if len(pkg.Errors) > 0 {
			fmt.Println("errors in", pkg.PkgPath, pkg.Errors[0])
			continue
		}
		if strings.Contains(pkg.PkgPath, "/examples") {
			continue
		}
		info := pkg.TypesInfo
		isLocal := func(obj types.Object) bool {
			v, ok := obj.(*types.Var)
			if !ok || v.IsField() || v.Name() == "_" || v.Name() == "" {
				return false
			}
			if v.Parent() == nil || v.Parent() == types.Universe || (v.Pkg() != nil && v.Parent() == v.Pkg().Scope()) {
				return false
			}
			return true
		}
		add := func(id *ast.Ident, obj types.Object) {
			if obj == nil || !isLocal(obj) {
				return
			}
			pos := pkg.Fset.Position(id.Pos())
			if !strings.HasPrefix(pos.Filename, dir) || strings.HasSuffix(pos.Filename, "_test.go") {
				return
			}
			edits[pos.Filename] = append(edits[pos.Filename], edit{pos.Offset, id.Name})
			n++
		}
		for id, obj := range info.Defs {
			add(id, obj)
		}
		for id, obj := range info.Uses {
			add(id, obj)
		}
		// struct literal keys / selector fields are not locals; implicit objects (type switches) are handled through Defs of the symbolic var
		for _, f := range pkg.Syntax {
			ast.Inspect(f, func(nd ast.Node) bool {
				ts, ok := nd.(*ast.TypeSwitchStmt)
				if !ok {
					return true
				}
				if as, ok := ts.Assign.(*ast.AssignStmt); ok && len(as.Lhs) == 1 {
					if id, ok := as.Lhs[0].(*ast.Ident); ok && id.Name != "_" {
						pos := pkg.Fset.Position(id.Pos())
						if strings.HasPrefix(pos.Filename, dir) && !strings.HasSuffix(pos.Filename, "_test.go") {
							edits[pos.Filename] = append(edits[pos.Filename], edit{pos.Offset, id.Name})
						}
					}
				}
				return true
			})
		}
	}
	for file, es := range edits {
		src, err := os.ReadFile(file)
		if err != nil {
			panic(err)
		}
		sort.Slice(es, func(i, j int) bool { return es[i].off > es[j].off })
		last := -1
		for _, e := range es {
			if e.off == last {
				continue
			}
			last = e.off
			if string(src[e.off:e.off+len(e.old)]) != e.old {
				panic(fmt.Sprintf("%s@%d: expected %q", file, e.off, e.old))
			}
			src = append(src[:e.off+len(e.old)], append([]byte("Q"), src[e.off+len(e.old):]...)...)
		}
		if err := os.WriteFile(file, src, 0o644); err != nil {
			panic(err)
		}
	}
	_ = token.NoPos
	fmt.Println("renamed identifiers:", n, "files:", len(edits))
}
