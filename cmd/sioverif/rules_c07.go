package main

// C07 — transport upgrade loses, duplicates and breaks nothing.

import (
	"fmt"
	"go/constant"
	"go/token"
	"go/types"
	"golang.org/x/tools/go/callgraph"
	"sort"
	"strings"

	"golang.org/x/tools/go/ssa"
)

func init() {
	register(&PropertySpec{
		ID:         "C07",
		NotDecided: "no loss or duplication across the swap for all traffic patterns and phases (a schedule/fault property); decided are the transportMu guard of the transport field, the contents and order of the write-locked swap region, inertness of the candidate's close callback until the swap, that failure paths touch only the candidate, and the NOOP/in-flight-poll shape.",
		Run:        runC07,
	})
}

// callersHold: every static call site of fn in the module holds lock
// (expressed relative to the callee's receiver: <recv>.<lockField>).
func callersHold(p *Program, fn *ssa.Function, lockField string, needW bool) (bool, string) {
	n := 0
	for _, caller := range p.SrcFuncs() {
		li := (*LockInfo)(nil)
		for _, cs := range Calls(caller) {
			sc := cs.Common().StaticCallee()
			if sc == nil || originOf(sc) != fn {
				continue
			}
			n++
			if li == nil {
				li = LocksInherit(caller)
			}
			recv := stripAmp(Term(cs.Common().Args[0]))
			held := li.Held(cs.Instr)
			m, ok := held[recv+"."+lockField]
			if !ok || (needW && m != LockW) {
				return false, FuncName(caller) + " calls it with " + held.String()
			}
		}
	}
	if n == 0 {
		return false, "no caller found"
	}
	return true, fmt.Sprintf("all %d callers hold it", n)
}

// guardedField: every access to short.typ.field holds <base>.<lockField>
// (any mode for reads, write mode for writes), directly or through all callers.
func guardedField(c *Ctx, rule, short, typ, field, lockField string, exempt map[string]string) int {
	p := c.P
	fv := p.Field(short, typ, field)
	n := 0
	for _, fn := range p.SrcFuncs() {
		var li *LockInfo
		for _, fa := range FieldAccesses(fn) {
			if fa.Field != fv {
				continue
			}
			n++
			name := short + "." + typ + "." + field + "@" + FuncName(fn)
			if reason, ok := exempt[FuncName(fn)]; ok {
				c.Except(rule, name, fa.Instr.Pos(), reason)
				continue
			}
			if li == nil {
				li = Locks(fn)
			}
			lock := fa.Base + "." + lockField
			m, held := li.Held(fa.Instr)[lock]
			ok := held && (!fa.Write || m == LockW)
			detail := ""
			if !ok {
				// through callers?
				top := fn
				if top.Parent() == nil && top.Signature.Recv() != nil && fa.Base == recvOf(top) {
					if okc, why := callersHold(p, top, lockField, fa.Write); okc {
						ok = true
						detail = "guard held by every caller (" + why + ")"
					} else {
						detail = "not held here (" + li.Held(fa.Instr).String() + ") and not by every caller: " + why
					}
				} else {
					detail = "held=" + li.Held(fa.Instr).String()
				}
			}
			kind := "read"
			if fa.Write {
				kind = "write"
			}
			c.Ob(rule, name, fa.Instr.Pos(), ok, kind+" of "+typ+"."+field+" without "+lock+" ("+detail+")")
		}
	}
	return n
}

func runC07(c *Ctx) {
	p := c.P

	c.Rule("C07-D1", "guard: the current-transport field of both Engine.IO sockets is read under transportMu (read or write mode) and written only under its write lock", 16)
	guardedField(c, "C07-D1", "eio", "serverSocket", "transport", "transportMu", map[string]string{
		"eio.newServerSocket": "constructor: the socket is not published yet",
	})
	guardedField(c, "C07-D1", "eio", "clientSocket", "transport", "transportMu", nil)

	c.Rule("C07-D2", "swap region: upgradeTo holds the write lock while it swaps the transport, discards the old one, takes its queued packets and re-sends every non-NOOP one on the new transport; finishUpgradeTo holds it while it swaps, discards and sends the UPGRADE packet (first frame on the new transport)", 12)
	swapRegion(c, "C07-D2")

	c.Rule("C07-D3", "candidate is inert until the swap: callbacks given to a candidate transport have a nil close callback until upgradeTo/finishUpgradeTo installs the socket's; onTransportClose ignores a transport that is not the current one", 8)
	{
		for _, a := range []struct{ short, fn string }{{"eio", "Server.maybeUpgrade"}, {"eio", "clientSocket.tryUpgradeTo"}} {
			top := p.Fn(a.short, a.fn)
			n := 0
			for _, f := range WithAnons(top) {
				for _, cs := range CallsTo(Calls(f), `\(\*transport\.Callbacks\)\.Set`) {
					n++
					c.Ob("C07-D3", a.short+"."+a.fn+"/candidate-onClose-nil", cs.Pos(), Term(cs.Arg(1)) == "nil", "candidate callbacks installed with close callback "+Term(cs.Arg(1))+" before the swap: a failing probe would close the live socket")
				}
			}
			c.Ob("C07-D3", a.short+"."+a.fn+"/sets-candidate-callbacks", top.Pos(), n >= 1, "the candidate's packet callback is never installed")
		}
		for _, a := range []struct{ short, fn string }{{"eio", "serverSocket.upgradeTo"}, {"eio", "clientSocket.finishUpgradeTo"}} {
			fn := p.Fn(a.short, a.fn)
			all := CallsTo(Calls(fn), `\(\*transport\.Callbacks\)\.Set`)
			// a Set(nil, nil) on the branch that refuses the transport because the socket is closed mutes the candidate: not the swap
			var cs []CallSite
			for _, x := range all {
				if Term(x.Arg(0)) == "nil" && Term(x.Arg(1)) == "nil" {
					continue
				}
				cs = append(cs, x)
			}
			ok := len(cs) == 1 && strings.Contains(Term(cs[0].Arg(0)), "onPacket") && strings.Contains(Term(cs[0].Arg(1)), "onTransportClose")
			c.Ob("C07-D3", a.short+"."+a.fn+"/installs-socket-callbacks", fn.Pos(), ok, "the swap must install the socket's onPacket and onTransportClose on the new transport")
		}
		for _, tn := range []string{"serverSocket", "clientSocket"} {
			top := p.Fn("eio", tn+".onTransportClose")
			n := 0
			for _, f := range WithAnons(top) {
				cl := CallsTo(Calls(f), `\(\*eio\.`+tn+`\)\.close`)
				if len(cl) == 0 {
					continue
				}
				n++
				reach, trail := PrunedCanReach(f, nil, []Assume{{`\(s\.TransportName\(\) != name\)`, true}, {`\(s\.TransportName\(\) == name\)`, false}}, callPred(`\(\*eio\.`+tn+`\)\.close`), nil)
				c.Ob("C07-D3", "eio."+tn+".onTransportClose/superseded-ignored", f.Pos(), !reach, "the close of a transport that is not the current one still closes the socket: "+trailString(p, trail))
				// the comparison exists at all
				cmp := findInstrs(f, func(in ssa.Instruction) bool {
					b, ok := in.(*ssa.BinOp)
					return ok && strings.Contains(Term(b), "s.TransportName()") && strings.Contains(Term(b), "name")
				})
				c.Ob("C07-D3", "eio."+tn+".onTransportClose/compares-name", f.Pos(), len(cmp) >= 1, "onTransportClose does not compare the closing transport's name with the current transport")
			}
			c.Ob("C07-D3", "eio."+tn+".onTransportClose/closes", top.Pos(), n == 1, "onTransportClose must close the socket when the current transport closes")
		}
	}

	c.Rule("C07-D4", "failure touches only the candidate: on every path of maybeUpgrade / tryUpgradeTo the only Close/close/Discard receivers are the candidate transport; a failed upgrade reports an error but never closes the socket", 6)
	{
		for _, a := range []struct{ short, fn, sockVar string }{{"eio", "Server.maybeUpgrade", "socket"}, {"eio", "clientSocket.tryUpgradeTo", "s"}} {
			top := p.Fn(a.short, a.fn)
			n := 0
			for _, f := range WithAnons(top) {
				for _, cs := range Calls(f) {
					mn, isM := isMethodNamed(cs.Common(), "Close", "close", "Discard", "closeAll")
					if !isM {
						continue
					}
					recv := stripAmp(Term(cs.Recv()))
					n++
					c.Ob("C07-D4", a.short+"."+a.fn+"/"+mn+"@"+FuncName(f), cs.Pos(), recv == "t", mn+"() is called on "+recv+" in an upgrade attempt (only the candidate transport `t` may be closed; the connection must keep working on its original transport)")
				}
			}
			c.Ob("C07-D4", a.short+"."+a.fn+"/closes-candidate-on-failure", top.Pos(), n >= 2, fmt.Sprintf("%d close sites for the candidate (timeout and invalid packet paths must close it)", n))
		}
		// timeout path closes the candidate and reports
		for _, a := range []struct{ short, fn, errSink string }{{"eio", "Server.maybeUpgrade", `\(\*eio\.serverSocket\)\.onError`}, {"eio", "clientSocket.tryUpgradeTo", `\(\*eio\.clientSocket\)\.onError`}} {
			top := p.Fn(a.short, a.fn)
			found := false
			for _, f := range WithAnons(top) {
				for _, cs := range CallsTo(Calls(f), `time\.After`) {
					if !strings.HasSuffix(Term(cs.Arg(0)), ".upgradeTimeout") {
						continue
					}
					found = true
					c.Ob("C07-D4", a.short+"."+a.fn+"/timeout-wait", cs.Pos(), true, "upgrade timeout waits for "+Term(cs.Arg(0)))
				}
			}
			c.Ob("C07-D4", a.short+"."+a.fn+"/has-timeout", top.Pos(), found, "no wait on upgradeTimeout: a stalled upgrade would never be abandoned")
			errs := 0
			for _, f := range WithAnons(top) {
				errs += len(CallsTo(Calls(f), a.errSink))
			}
			c.Ob("C07-D4", a.short+"."+a.fn+"/reports-failure", top.Pos(), errs >= 2, "failed upgrades must be reported through onError")
		}
	}

	c.Rule("C07-D7", "a failed upgrade is not fatal one layer up, and the swap is synchronous: the function the Socket.IO layer wires as eio.Callbacks.OnError (raised by a failed, stalled or timed-out upgrade) "+
		"reaches no close of the connection (serverConn.close/onFatalError, Manager.onClose/Close, the Engine.IO socket's Close) on either side; the server calls upgradeTo synchronously from the probe handler "+
		"(a `go` there lets the frame after UPGRADE reach the probe handler, which kills the candidate)", 3)
	{
		onErr := p.Field("eio", "Callbacks", "OnError")
		closers := regexpMustCompile(`\(\*sio\.serverConn\)\.(close|onFatalError)|\(\*sio\.Manager\)\.(onClose|Close|destroy)|\(\*eio\.(server|client)Socket\)\.(Close|close)|\(eio\.(Server)?Socket\)\.Close`)
		n := 0
		for _, top := range []*ssa.Function{p.Fn("sio", "newServerConn"), p.Fn("sio", "Manager.connect")} {
			for _, f := range WithAnons(top) {
				for _, st := range findInstrs(f, fieldStorePred(onErr)) {
					n++
					var target *ssa.Function
					val := st.(*ssa.Store).Val
					for {
						if ct, ok := val.(*ssa.ChangeType); ok {
							val = ct.X
							continue
						}
						break
					}
					switch v := val.(type) {
					case *ssa.MakeClosure:
						target, _ = v.Fn.(*ssa.Function)
						// a bound method value: the wrapper calls the method
						if target != nil && target.Synthetic != "" {
							for _, cs := range Calls(target) {
								if sc := cs.Common().StaticCallee(); sc != nil {
									target = sc
								}
							}
						}
					case *ssa.Function:
						target = v
					}
					if target == nil {
						c.Ob("C07-D7", FuncName(top)+"/OnError-wired", st.Pos(), false, "cannot resolve the function stored as eio.Callbacks.OnError: "+Term(st.(*ssa.Store).Val))
						continue
					}
					reach := p.Reach(target, func(e *callgraph.Edge) bool { return p.inModule(e.Callee.Func) || e.Callee.Func == nil }, false)
					var bad []string
					for g := range reach {
						if closers.MatchString(FuncName(originOf(g))) {
							bad = append(bad, strings.Join(pathTo(reach, g), " → "))
						}
					}
					sort.Strings(bad)
					detail := ""
					if len(bad) > 0 {
						detail = bad[0]
					}
					c.Ob("C07-D7", FuncName(top)+"/OnError-not-fatal", st.Pos(), len(bad) == 0, "the Engine.IO error callback ("+FuncName(target)+") closes the connection: "+detail+" — an upgrade that fails or stalls (the only source of that callback while the old transport is healthy) would take the working connection down")
				}
			}
		}
		if n < 2 {
			c.Undecided("C07-D7: found %d stores to eio.Callbacks.OnError in newServerConn / Manager.connect, expected 2", n)
		}
		mu := p.Fn("eio", "Server.maybeUpgrade")
		k := 0
		for _, f := range WithAnons(mu) {
			for _, in := range findInstrs(f, anyCallPred(`\(\*eio\.serverSocket\)\.upgradeTo`)) {
				k++
				_, isCall := in.(*ssa.Call)
				c.Ob("C07-D7", "eio.Server.maybeUpgrade/upgradeTo-synchronous", in.Pos(), isCall, "upgradeTo is started with go/defer: the probe handler keeps reading the candidate while the swap has not happened yet")
			}
		}
		if k == 0 {
			c.Ob("C07-D7", "eio.Server.maybeUpgrade/upgradeTo-synchronous", mu.Pos(), false, "maybeUpgrade never calls upgradeTo")
		}
	}

	c.Rule("C07-D9", "an upgrade that finishes after the session closed is refused (F57, shared with C06-D12)", 3)
	closedSocketAdoptsNoTransport(c, "C07-D9")

	c.Rule("C07-D8", "packets are handed to the current transport under the lock: the transport's Send is called on the transport field itself while transportMu is read-held (both sockets, including the client's batcher) — "+
		"a Send that picked the transport earlier and enqueues after upgradeTo has drained the old queue is lost", 2)
	sendUnderTransportLock(c, "C07-D8")

	c.Rule("C07-D6", "the upgrade timeout is disarmed before the swap: in both probe handlers `once.Do(close(done))` precedes upgradeTo/finishUpgradeTo on every path (else the timeout can fire after a successful probe, close the candidate, and the pending swap moves the socket onto a dead transport); and the new transport has the same read limit as a directly connected one (shared with C13-D2)", 4)
	for _, a := range []struct{ short, fn, swap string }{
		{"eio", "Server.maybeUpgrade", `\(\*eio\.serverSocket\)\.upgradeTo`},
		{"eio", "clientSocket.tryUpgradeTo", `\(\*eio\.clientSocket\)\.finishUpgradeTo`},
	} {
		top := p.Fn(a.short, a.fn)
		n := 0
		for _, f := range WithAnons(top) {
			for _, sw := range CallsTo(Calls(f), a.swap) {
				n++
				isDisarm := func(in ssa.Instruction) bool {
					cl, ok := in.(*ssa.Call)
					if !ok {
						return false
					}
					sc := cl.Call.StaticCallee()
					if sc == nil || sc.Name() != "Do" || !isOnceType(sc.Signature.Recv().Type()) {
						return false
					}
					// the Do body closes `done`
					if mc, isMC := cl.Call.Args[1].(*ssa.MakeClosure); isMC {
						for _, c2 := range Calls(mc.Fn.(*ssa.Function)) {
							if c2.Name == "close" && stripAmp(Term(c2.Common().Args[0])) == "done" {
								return true
							}
						}
					}
					return false
				}
				early, trail := CanReachAvoiding(f, nil, func(in ssa.Instruction) bool { return in == sw.Instr }, isDisarm)
				c.Ob("C07-D6", a.short+"."+a.fn+"/disarm-before-swap", sw.Pos(), !early, "the swap is reachable before the upgrade timeout was disarmed (once.Do(close(done))): "+trailString(p, trail))
			}
		}
		c.Ob("C07-D6", a.short+"."+a.fn+"/swap-site", top.Pos(), n == 1, fmt.Sprintf("%d swap calls in the probe handler (expected 1)", n))
	}
	websocketReadLimit(c, "C07-D6")

	c.Rule("C07-D5", "polling hand-over: Discard releases the pending poll with a NOOP packet; the client's poll loop delivers a successfully received poll result unconditionally (also when Discard happened meanwhile); QueuedPackets hands over what is still queued — all of it: get() leaves nothing in the queue of the transport that is being discarded", 5)
	queueGetResets(c, "C07-D5")
	{
		fn := p.Fn("polling", "ServerTransport.Discard")
		body := onceBodyOf(fn, "t.once")
		ok := false
		if body != nil {
			np := CallsTo(Calls(body), `eioparser\.NewPacket`)
			snd := CallsTo(Calls(body), `\(\*polling\.ServerTransport\)\.Send`)
			ok = len(np) == 1 && Term(np[0].Arg(0)) == "6" && len(snd) == 1 && strings.Contains(Term(snd[0].Arg(0)), "NewPacket") || (len(np) == 1 && Term(np[0].Arg(0)) == "6" && len(snd) == 1)
		}
		c.Ob("C07-D5", "polling.ServerTransport.Discard/noop", fn.Pos(), ok, "Discard must send one NOOP (type 6) packet to release the pending poll request")
		qp := p.Fn("polling", "ServerTransport.QueuedPackets")
		g := CallsTo(Calls(qp), `\(\*polling\.pollQueue\)\.get`)
		okq := len(g) == 1
		for _, b := range qp.Blocks {
			if ret, isR := b.Instrs[len(b.Instrs)-1].(*ssa.Return); isR && len(ret.Results) == 1 {
				if Term(ret.Results[0]) != "t.pq.get()" {
					okq = false
				}
			}
		}
		c.Ob("C07-D5", "polling.ServerTransport.QueuedPackets", qp.Pos(), okq, "QueuedPackets must return everything still queued (pq.get())")
		run := p.Fn("polling", "ClientTransport.Run")
		polls := CallsTo(Calls(run), `\(\*polling\.ClientTransport\)\.poll`)
		if len(polls) != 1 {
			c.Ob("C07-D5", "polling.ClientTransport.Run/poll", run.Pos(), false, fmt.Sprintf("expected one poll call in Run, found %d", len(polls)))
		} else {
			T := Term(polls[0].Instr.(*ssa.Call))
			isDeliver := func(in ssa.Instruction) bool {
				if !callPred(`\(\*transport\.Callbacks\)\.OnPacket`)(in) {
					return false
				}
				return Term(in.(*ssa.Call).Call.Args[1]) == T+"#0"
			}
			lost, trail := PrunedCanReach(run, polls[0].Instr, []Assume{{regexpQuote("(" + T + "#1 != nil)"), false}, {regexpQuote("(" + T + "#1 == nil)"), true}}, orPred(func(in ssa.Instruction) bool { return in == polls[0].Instr }, func(in ssa.Instruction) bool { _, ok := in.(*ssa.Return); return ok }), isDeliver)
			c.Ob("C07-D5", "polling.ClientTransport.Run/in-flight-poll-delivered", polls[0].Pos(), !lost, "a poll that returned packets can be dropped (next poll or return reached without OnPacket(packets)): "+trailString(p, trail))
		}
		// websocket/webtransport have no queue: QueuedPackets returns nil (nothing can be lost there)
		for _, short := range []string{"websocket", "webtransport"} {
			q := p.Fn(short, "ServerTransport.QueuedPackets")
			okn := true
			for _, b := range q.Blocks {
				if ret, isR := b.Instrs[len(b.Instrs)-1].(*ssa.Return); isR && len(ret.Results) == 1 && Term(ret.Results[0]) != "nil" {
					okn = false
				}
			}
			c.Ob("C07-D5", short+".ServerTransport.QueuedPackets", q.Pos(), okn, "unqueued transports return nil")
		}
	}
}

func swapRegion(c *Ctx, rule string) {
	p := c.P
	{
		fn := p.Fn("eio", "serverSocket.upgradeTo")
		li := Locks(fn)
		name := "eio.serverSocket.upgradeTo"
		tf := p.Field("eio", "serverSocket", "transport")
		swaps := findInstrs(fn, fieldStorePred(tf))
		if len(swaps) != 1 {
			c.Ob(rule, name+"/swap", fn.Pos(), false, fmt.Sprintf("expected one store to s.transport, found %d", len(swaps)))
			return
		}
		sw := swaps[0]
		c.Ob(rule, name+"/swap-to-candidate", sw.Pos(), Term(sw.(*ssa.Store).Val) == "t" && li.HoldsW(sw, "s.transportMu"), "s.transport = "+Term(sw.(*ssa.Store).Val)+" held="+li.Held(sw).String())
		for _, a := range []struct{ what, pat string }{
			{"old.Discard", `\(eio\.ServerTransport\)\.Discard`},
			{"old.QueuedPackets", `\(eio\.ServerTransport\)\.QueuedPackets`},
			{"t.Send", `\(eio\.ServerTransport\)\.Send`},
		} {
			cs := CallsTo(Calls(fn), a.pat)
			if len(cs) != 1 {
				c.Ob(rule, name+"/"+a.what, fn.Pos(), false, fmt.Sprintf("expected one %s call, found %d", a.what, len(cs)))
				continue
			}
			recv := Term(cs[0].Common().Value)
			wantRecv := "s.transport"
			if a.what == "t.Send" {
				wantRecv = "t"
			}
			okr := recv == wantRecv
			if a.what != "t.Send" {
				// receiver is the value of s.transport loaded BEFORE the swap
				ld, isLoad := cs[0].Common().Value.(ssa.Instruction)
				okr = okr && isLoad && Dominates(ld, sw)
			}
			c.Ob(rule, name+"/"+a.what+"-receiver", cs[0].Pos(), okr, a.what+" is called on "+recv+" (expected the old transport captured before the swap / the new transport for Send)")
			c.Ob(rule, name+"/"+a.what+"-in-region", cs[0].Pos(), !cs[0].IsGo() && li.HoldsW(cs[0].Instr, "s.transportMu") && SameRegion(li, sw, cs[0].Instr, "s.transportMu"), a.what+" must run inside the same write-locked region as the swap (else a concurrent Send overtakes the re-sent packets); held="+li.Held(cs[0].Instr).String())
			c.Ob(rule, name+"/"+a.what+"-after-swap", cs[0].Pos(), Dominates(sw, cs[0].Instr), a.what+" must follow the swap")
			if a.what == "t.Send" {
				c.Ob(rule, name+"/resend-every-non-noop", cs[0].Pos(), inLoop(cs[0].Instr.Block()) && (HasGuard(cs[0].Instr, `\(.*QueuedPackets\(\)\[.*\]\.Type != 6\)==true`) || HasGuard(cs[0].Instr, `\(.*QueuedPackets\(\)\[.*\]\.Type == 6\)==false`)) && func() bool {
					el := varargElems(cs[0].Arg(0))
					return len(el) == 1 && strings.Contains(Term(el[0]), "QueuedPackets()[")
				}(), "every queued packet except NOOP must be re-sent on the new transport; sends "+Term(cs[0].Arg(0))+" under "+strings.Join(GuardTerms(cs[0].Instr), ","))
				var extra []string
				for _, g := range GuardTerms(cs[0].Instr) {
					if strings.Contains(g, "Type") || strings.Contains(g, "idx<") {
						continue
					}
					// "the socket has not been closed meanwhile" (non-blocking look at closeChan) is the one legitimate condition
					if strings.HasPrefix(g, "(select@") && strings.HasSuffix(g, "== 0)==false") {
						continue
					}
					extra = append(extra, g)
				}
				// fold the packet-type test for every Engine.IO packet type: re-sent iff it is not NOOP
				for T := int64(0); T <= 6; T++ {
					var as []Assume
					for _, b := range fn.Blocks {
						for _, in := range b.Instrs {
							bo, ok := in.(*ssa.BinOp)
							if !ok || !strings.HasSuffix(Term(bo.X), ".Type") {
								continue
							}
							k, isK := bo.Y.(*ssa.Const)
							if !isK || k.Value == nil || k.Value.Kind() != constant.Int {
								continue
							}
							switch bo.Op {
							case token.EQL:
								as = append(as, assumeCond(bo, T == k.Int64()))
							case token.NEQ:
								as = append(as, assumeCond(bo, T != k.Int64()))
							}
						}
					}
					// from the loop header (first instruction of the Send's loop body region): is the Send reachable for this type?
					reach, _ := PrunedCanReach(fn, sw, as, func(in ssa.Instruction) bool { return in == cs[0].Instr }, nil)
					c.Ob(rule, fmt.Sprintf("%s/resend-type-%d", name, T), cs[0].Pos(), reach == (T != 6), fmt.Sprintf("a queued packet of Engine.IO type %d is re-sent on the new transport: %v (every type except NOOP=6 must be, NOOP must not: a queued PING/MESSAGE/CLOSE that is dropped is lost for good)", T, reach))
				}
				c.Ob(rule, name+"/resend-unconditional", cs[0].Pos(), len(extra) == 0, fmt.Sprintf("re-send happens only under extra condition(s) %v", extra))
			}
		}
	}
	{
		fn := p.Fn("eio", "clientSocket.finishUpgradeTo")
		li := Locks(fn)
		name := "eio.clientSocket.finishUpgradeTo"
		tf := p.Field("eio", "clientSocket", "transport")
		swaps := findInstrs(fn, fieldStorePred(tf))
		if len(swaps) != 1 {
			c.Ob(rule, name+"/swap", fn.Pos(), false, fmt.Sprintf("expected one store to s.transport, found %d", len(swaps)))
			return
		}
		sw := swaps[0]
		c.Ob(rule, name+"/swap-to-candidate", sw.Pos(), Term(sw.(*ssa.Store).Val) == "t" && li.HoldsW(sw, "s.transportMu"), "s.transport = "+Term(sw.(*ssa.Store).Val)+" held="+li.Held(sw).String())
		snd := CallsTo(Calls(fn), `\(eio\.ClientTransport\)\.Send`)
		dis := CallsTo(Calls(fn), `\(eio\.ClientTransport\)\.Discard`)
		if len(snd) != 1 || len(dis) != 1 {
			c.Ob(rule, name+"/shape", fn.Pos(), false, fmt.Sprintf("expected one Send and one Discard; found %d and %d", len(snd), len(dis)))
			return
		}
		np := CallsTo(Calls(fn), `eioparser\.NewPacket`)
		okUp := len(np) == 1 && Term(np[0].Arg(0)) == "5" && strings.HasPrefix(Term(snd[0].Arg(0)), "new(") || (len(np) == 1 && Term(np[0].Arg(0)) == "5")
		c.Ob(rule, name+"/sends-UPGRADE", snd[0].Pos(), okUp && Term(snd[0].Common().Value) == "t" && !snd[0].IsGo(), "the UPGRADE (type 5) packet must be sent synchronously on the new transport")
		c.Ob(rule, name+"/UPGRADE-in-region", snd[0].Pos(), li.HoldsW(snd[0].Instr, "s.transportMu") && SameRegion(li, sw, snd[0].Instr, "s.transportMu") && Dominates(sw, snd[0].Instr), "UPGRADE must be sent inside the write-locked swap region after the swap, so it is the first frame on the new transport; held="+li.Held(snd[0].Instr).String())
		ld, isLoad := dis[0].Common().Value.(ssa.Instruction)
		c.Ob(rule, name+"/discards-old", dis[0].Pos(), isLoad && Dominates(ld, sw) && Term(dis[0].Common().Value) == "s.transport" && li.HoldsW(dis[0].Instr, "s.transportMu"), "Discard must be called on the old transport (captured before the swap) inside the region")
	}
	_ = types.Typ
}

// sendUnderTransportLock (C07-D8, shared with C01 and C02): both Engine.IO
// sockets hand packets to the CURRENT transport while transportMu is read-held:
// the transport's Send (server) / every transport call of the batcher (client)
// is made inside the read-locked region of Send — not on a transport value read
// under the lock and used after it was released: upgradeTo swaps and drains the
// old queue under the write lock, so a send that is in flight on the old
// transport after the drain lands in a queue nobody reads any more.
func sendUnderTransportLock(c *Ctx, rule string) {
	p := c.P
	for _, tn := range []string{"serverSocket", "clientSocket"} {
		fn := p.Fn("eio", tn+".Send")
		name := "eio." + tn + ".Send"
		n := 0
		for _, f := range append([]*ssa.Function{fn}, calleesWithin(p, fn, "eio", 2)...) {
			li := LocksInherit(f)
			for _, cs := range Calls(f) {
				cc := cs.Common()
				if !cc.IsInvoke() || !(strings.HasSuffix(cc.Value.Type().String(), "ServerTransport") || strings.HasSuffix(cc.Value.Type().String(), "ClientTransport")) {
					continue
				}
				if cc.Method.Name() != "Send" {
					continue
				}
				n++
				held := false
				for l := range li.Held(cs.Instr) {
					if strings.HasSuffix(l, ".transportMu") {
						held = true
					}
				}
				recvIsField := strings.HasSuffix(stripAmp(Term(cc.Value)), ".transport")
				c.Ob(rule, name+"/transport.Send-under-transportMu@"+FuncName(f), cs.Pos(), held && recvIsField, "the transport's Send is called on "+Term(cc.Value)+" with transportMu "+map[bool]string{true: "held", false: "NOT held"}[held]+
					": it must be the transport field itself, read and used inside one read-locked region — a transport obtained earlier (Transport()) can be the discarded one by now, and its queue is never read again")
			}
		}
		if n == 0 {
			c.Ob(rule, name+"/transport.Send-under-transportMu", fn.Pos(), false, "Send never reaches the transport's Send")
		}
	}
}

// calleesWithin: unexported functions of package short that fn calls statically (synchronously), to the given depth.
func calleesWithin(p *Program, fn *ssa.Function, short string, depth int) []*ssa.Function {
	var out []*ssa.Function
	seen := map[*ssa.Function]bool{fn: true}
	var walk func(f *ssa.Function, d int)
	walk = func(f *ssa.Function, d int) {
		if d == 0 {
			return
		}
		for _, cs := range Calls(f) {
			if _, isCall := cs.Instr.(*ssa.Call); !isCall {
				continue
			}
			sc := cs.Common().StaticCallee()
			if sc == nil || seen[sc] || sc.Pkg == nil || len(sc.Blocks) == 0 {
				continue
			}
			if s, _ := shortOf(sc.Pkg.Pkg.Path()); s != short {
				continue
			}
			seen[sc] = true
			out = append(out, sc)
			walk(sc, d-1)
		}
	}
	walk(fn, depth)
	return out
}

// queueOnlyTailAppendOrEmptied (C02-D7): FIFO by construction — the queue field of both packet
// queues is written only by add (the parameter itself or an append at the tail) and set to nil
// by get/reset/close.  Any other writer (a take-what-fits helper, a filter, a re-queue) can
// take packets out of the middle: later packets overtake earlier ones, and the attachment frames
// of a binary packet are separated from their header.
func queueOnlyTailAppendOrEmptied(c *Ctx, rule string) {
	p := c.P
	for _, a := range []struct{ short, typ string }{{"sio", "packetQueue"}, {"polling", "pollQueue"}} {
		fv := p.Field(a.short, a.typ, "packets")
		n := 0
		for _, fn := range p.SrcFuncs() {
			for _, st := range findInstrs(fn, fieldStorePred(fv)) {
				n++
				top := FuncName(EnclosingTop(fn))
				k, isK := st.(*ssa.Store).Val.(*ssa.Const)
				isNil := isK && k.Value == nil
				isAdd := strings.HasSuffix(top, "."+a.typ+").add")
				c.Ob(rule, a.short+"."+a.typ+".packets/writer@"+top, st.Pos(), isNil || isAdd,
					"the queue is rewritten with "+Term(st.(*ssa.Store).Val)+" outside add: only add may put packets in (at the tail) and get/reset/close empty it whole — a writer that keeps or re-inserts a part of the queue lets later packets overtake earlier ones and splits a binary packet's frames")
			}
		}
		c.Ob(rule, a.short+"."+a.typ+".packets/writers-found", token.NoPos, n >= 3, "fewer writers of the queue field found than confirmed by hand (add ×2, get)")
	}
}

// queueGetResets (C02-D7, C19-D8): get() hands the queued slice out and forgets
// it — the field is reset to nil in the same critical section.  Keeping the
// backing array (`q.packets = q.packets[:0]`) makes the next add() overwrite
// frames the consumer has not encoded yet.
func queueGetResets(c *Ctx, rule string) {
	p := c.P
	for _, a := range []struct{ short, typ, fn string }{{"sio", "packetQueue", "packetQueue.get"}, {"polling", "pollQueue", "pollQueue.get"}} {
		fn := p.Fn(a.short, a.fn)
		fv := p.Field(a.short, a.typ, "packets")
		name := a.short + "." + a.fn
		sts := findInstrs(fn, fieldStorePred(fv))
		okR := len(sts) >= 1
		detail := "get() does not reset the queue"
		for _, st := range sts {
			k, isK := st.(*ssa.Store).Val.(*ssa.Const)
			if !isK || k.Value != nil {
				okR = false
				detail = "get() leaves " + Term(st.(*ssa.Store).Val) + " in the queue: the storage handed to the consumer stays reachable from the queue, and the next add() writes into it while the consumer is still sending it"
			}
		}
		c.Ob(rule, name+"/resets-to-nil", fn.Pos(), okR, detail)
		// and add() never writes into storage it does not own exclusively: it stores its parameter or an append to the field
	}
}
