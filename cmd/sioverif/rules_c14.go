package main

// C14 — heartbeats.

import (
	"fmt"
	"strings"

	"golang.org/x/tools/go/ssa"
)

func init() {
	register(&PropertySpec{
		ID:         "C14",
		NotDecided: "actual detection time (a real-time quantity) and behaviour under black-holing; decided are that every wait of the two heartbeat loops is for exactly the configured/announced durations in the combination the bound states, the outcomes of each wake-up, buffered mailboxes, and unit agreement between announced and parsed values.",
		Run:        runC14,
	})
}

func waitCalls(fn *ssa.Function) []CallSite {
	return CallsTo(Calls(fn), `time\.(Sleep|After|NewTimer|NewTicker|AfterFunc|Tick)|context\.With(Timeout|Deadline)`)
}

func runC14(c *Ctx) {
	p := c.P

	c.Rule("C14-D5", "every interval is probed: in the server's pingPong loop no path leads from one sleep of pingInterval to the next without sending the PING and without waiting for the PONG — the client's "+
		"watchdog closes a connection on which no PING arrives for pingInterval + pingTimeout, so a ping skipped because 'the client was heard from anyway' kills exactly the busy, healthy connections", 2)
	{
		fn := p.Fn("eio", "serverSocket.pingPong")
		sleeps := CallsTo(Calls(fn), `time\.Sleep`)
		var sl ssa.Instruction
		for _, cs := range sleeps {
			if len(cs.Common().Args) == 1 && Term(cs.Common().Args[0]) == "pingInterval" && inLoop(cs.Instr.Block()) {
				sl = cs.Instr
			}
		}
		if sl == nil {
			c.Undecided("C14-D5: the sleep of pingInterval in pingPong's loop was not recognised")
		} else {
			again := func(in ssa.Instruction) bool { return in == sl }
			skipPing, t1 := CanReachAvoiding(fn, sl, again, callPred(`\(\*eio\.serverSocket\)\.Send`))
			c.Ob("C14-D5", "eio.serverSocket.pingPong/ping-every-interval", sl.Pos(), !skipPing, "an iteration of the ping loop reaches the next sleep without sending a PING: "+trailString(p, t1))
			waitsPong := func(in ssa.Instruction) bool {
				se, ok := in.(*ssa.Select)
				if !ok {
					return false
				}
				for _, st := range se.States {
					if strings.HasSuffix(Term(st.Chan), ".pongChan") {
						return true
					}
				}
				return false
			}
			skipWait, t2 := CanReachAvoiding(fn, sl, again, waitsPong)
			c.Ob("C14-D5", "eio.serverSocket.pingPong/pong-awaited-every-interval", sl.Pos(), !skipWait, "an iteration of the ping loop reaches the next sleep without waiting for the PONG: "+trailString(p, t2))
		}
	}

	c.Rule("C14-D6", "the heartbeat does not depend on the write path it watches (F66, known finding): the pong timer is armed before (or independently of) a PING send that can block", 1)
	heartbeatIndependentOfWrites(c, "C14-D6")

	c.Rule("C14-D1", "bound arithmetic: the server's ping loop sleeps pingInterval, then waits pingTimeout for the pong after sending a PING; the client's watchdog waits pingInterval+pingTimeout; both durations flow unchanged from the server configuration / the handshake, and announced and parsed values use the same unit", 14)
	{
		fn := p.Fn("eio", "serverSocket.pingPong")
		name := "eio.serverSocket.pingPong"
		ws := waitCalls(fn)
		c.Ob("C14-D1", name+"/waits", fn.Pos(), len(ws) == 2, fmt.Sprintf("%d timed waits in the ping loop (expected 2: interval sleep and pong timeout)", len(ws)))
		var sleep, timeout *CallSite
		for i := range ws {
			a := Term(ws[i].Arg(0))
			switch a {
			case "pingInterval":
				sleep = &ws[i]
			case "pingTimeout":
				timeout = &ws[i]
			default:
				c.Ob("C14-D1", name+"/wait-duration", ws[i].Pos(), false, "a wait of the ping loop lasts "+a+" (only pingInterval and pingTimeout are allowed: detection must happen within pingInterval + pingTimeout)")
			}
			c.Ob("C14-D1", name+"/wait-in-loop", ws[i].Pos(), inLoop(ws[i].Instr.Block()), "the wait is outside the ping loop")
		}
		sends := CallsTo(Calls(fn), `\(\*eio\.serverSocket\)\.Send`)
		c.Ob("C14-D1", name+"/interval-sleep", fn.Pos(), sleep != nil, "no sleep of pingInterval between pings")
		c.Ob("C14-D1", name+"/pong-timeout", fn.Pos(), timeout != nil, "no wait of pingTimeout for the pong")
		if len(sends) != 1 {
			c.Ob("C14-D1", name+"/ping-sent", fn.Pos(), false, fmt.Sprintf("expected one Send in the ping loop, found %d", len(sends)))
		} else {
			el := varargElems(sends[0].Arg(0))
			okPing := len(el) == 1 && strings.HasPrefix(Term(el[0]), "eioparser.NewPacket(2, ")
			c.Ob("C14-D1", name+"/ping-packet", sends[0].Pos(), okPing && !sends[0].IsGo(), "the loop must send a PING (type 2) packet synchronously")
			if sleep != nil && timeout != nil {
				c.Ob("C14-D1", name+"/order", sends[0].Pos(), Dominates(sleep.Instr, sends[0].Instr) && Dominates(sends[0].Instr, timeout.Instr), "order must be: sleep(pingInterval) → Send(PING) → wait(pingTimeout)")
			}
		}
		// the timeout's expiry (and only it) leads to close
		cl := CallsTo(Calls(fn), `\(\*eio\.serverSocket\)\.close`)
		if timeout != nil && len(cl) == 1 {
			// the select state receiving from time.After(pingTimeout)
			okCase := false
			for _, st := range SelectStates(fn) {
				if st.Send || st.Chan != "time.After(pingTimeout)" {
					continue
				}
				for _, b := range blocksOfSelectCase(st.Sel, st.Index) {
					if b.Dominates(cl[0].Instr.Block()) {
						okCase = true
					}
				}
			}
			c.Ob("C14-D1", name+"/timeout-leads-to-close", cl[0].Pos(), okCase, "close(ReasonPingTimeout) is not in the case of the pingTimeout wait")
		} else {
			c.Ob("C14-D1", name+"/timeout-leads-to-close", fn.Pos(), false, "expected exactly one close call in the ping loop")
		}
	}
	{
		// parameters flow unchanged from the Server configuration
		cons := p.Fn("eio", "newServerSocket")
		for _, cs := range CallsTo(Calls(cons), `\(\*eio\.serverSocket\)\.pingPong`) {
			c.Ob("C14-D1", "eio.newServerSocket/starts-ping-loop", cs.Pos(), cs.IsGo() && Term(cs.Arg(0)) == "pingInterval" && Term(cs.Arg(1)) == "pingTimeout", "pingPong("+Term(cs.Arg(0))+", "+Term(cs.Arg(1))+") must be started with `go` and the constructor's own parameters")
		}
		c.Ob("C14-D1", "eio.newServerSocket/ping-loop-started", cons.Pos(), len(CallsTo(Calls(cons), `\(\*eio\.serverSocket\)\.pingPong`)) == 1, "the ping loop is not started exactly once per session")
		ns := p.Fn("eio", "Server.newSocket")
		for _, cs := range CallsTo(Calls(ns), `eio\.newServerSocket`) {
			c.Ob("C14-D1", "eio.Server.newSocket/durations", cs.Pos(), Term(cs.Arg(4)) == "s.pingInterval" && Term(cs.Arg(5)) == "s.pingTimeout", "newServerSocket receives ("+Term(cs.Arg(4))+", "+Term(cs.Arg(5))+") (expected s.pingInterval, s.pingTimeout)")
		}
		// what is announced is what is used
		hp := p.Fn("eio", "Server.newHandshakePacket")
		for _, a := range []struct{ field, want string }{
			{"PingInterval", "(s.pingInterval / 1000000)"},
			{"PingTimeout", "(s.pingTimeout / 1000000)"},
		} {
			fv := p.Field("eioparser", "HandshakeResponse", a.field)
			sts := findInstrs(hp, fieldStorePred(fv))
			v := "<none>"
			if len(sts) == 1 {
				v = Term(sts[0].(*ssa.Store).Val)
			}
			c.Ob("C14-D1", "eio.Server.newHandshakePacket/"+a.field, hp.Pos(), v == a.want, "announced "+a.field+" = "+v+" (expected "+a.want+": the enforced duration in milliseconds)")
		}
		for _, a := range []struct{ fn, want string }{
			{"HandshakeResponse.GetPingInterval", "(hr.PingInterval * 1000000)"},
			{"HandshakeResponse.GetPingTimeout", "(hr.PingTimeout * 1000000)"},
		} {
			fn := p.Fn("eioparser", a.fn)
			ok := false
			v := ""
			for _, b := range fn.Blocks {
				if ret, isR := b.Instrs[len(b.Instrs)-1].(*ssa.Return); isR && len(ret.Results) == 1 {
					v = Term(ret.Results[0])
					ok = v == a.want
				}
			}
			c.Ob("C14-D1", "eioparser."+a.fn, fn.Pos(), ok, "parsed duration = "+v+" (expected "+a.want+": milliseconds, the unit announced)")
		}
		// server config fields written only in newServer
		for _, fld := range []string{"pingInterval", "pingTimeout"} {
			fv := p.Field("eio", "Server", fld)
			for _, f := range p.SrcFuncs() {
				for _, st := range findInstrs(f, fieldStorePred(fv)) {
					c.Ob("C14-D1", "eio.Server."+fld+"/written@"+FuncName(f), st.Pos(), FuncName(EnclosingTop(f)) == "eio.newServer", "Server."+fld+" is written in "+FuncName(f))
				}
			}
		}
	}
	{
		fn := p.Fn("eio", "clientSocket.handleTimeout")
		name := "eio.clientSocket.handleTimeout"
		ws := waitCalls(fn)
		ok := len(ws) == 1
		v := ""
		if ok {
			v = Term(ws[0].Arg(0))
			ok = (v == "(s.pingInterval + s.pingTimeout)" || v == "(s.pingTimeout + s.pingInterval)") && inLoop(ws[0].Instr.Block())
		}
		c.Ob("C14-D1", name+"/watchdog-duration", fn.Pos(), ok, fmt.Sprintf("the client watchdog must wait exactly s.pingInterval + s.pingTimeout inside its loop (found %d waits, %s)", len(ws), v))
		co := p.Fn("eio", "clientSocket.connect")
		for _, a := range []struct{ field, want string }{{"pingInterval", ".GetPingInterval()"}, {"pingTimeout", ".GetPingTimeout()"}} {
			fv := p.Field("eio", "clientSocket", a.field)
			sts := findInstrs(co, fieldStorePred(fv))
			okf := len(sts) == 1 && strings.HasSuffix(Term(sts[0].(*ssa.Store).Val), a.want)
			c.Ob("C14-D1", "eio.clientSocket.connect/"+a.field, co.Pos(), okf, "clientSocket."+a.field+" must be taken from the handshake response ("+a.want+")")
			for _, f := range p.SrcFuncs() {
				if EnclosingTop(f) == co {
					continue
				}
				for _, st := range findInstrs(f, fieldStorePred(fv)) {
					c.Ob("C14-D1", "eio.clientSocket."+a.field+"/written@"+FuncName(f), st.Pos(), false, "clientSocket."+a.field+" is overwritten in "+FuncName(f))
				}
			}
		}
		ht := CallsTo(Calls(co), `\(\*eio\.clientSocket\)\.handleTimeout`)
		c.Ob("C14-D1", "eio.clientSocket.connect/starts-watchdog", co.Pos(), len(ht) == 1 && ht[0].IsGo(), "the watchdog must be started (go handleTimeout) after a successful connect")
	}

	c.Rule("C14-D2", "outcomes: pong ⇒ next iteration, timeout ⇒ close and stop; a PONG packet feeds the mailbox; a PING packet feeds the client's mailbox and is answered with a PONG carrying its data; a closed socket stops both loops", 9)
	{
		fn := p.Fn("eio", "serverSocket.pingPong")
		for _, st := range SelectStates(fn) {
			if st.Send {
				continue
			}
			for _, b := range blocksOfSelectCase(st.Sel, st.Index) {
				first := b.Instrs[0]
				switch st.Chan {
				case "s.pongChan":
					reach, trail := CanReachAvoiding(fn, first, callPred(`\(\*eio\.serverSocket\)\.close`), callPred(`time\.Sleep`))
					isClose := callPred(`\(\*eio\.serverSocket\)\.close`)(first)
					c.Ob("C14-D2", "eio.serverSocket.pingPong/pong-keeps-alive", st.Sel.Pos(), !reach && !isClose, "after a pong the loop can reach close() before the next interval sleep: "+trailString(p, trail))
					exit, trail2 := CanReachExitAvoiding(fn, first, callPred(`time\.Sleep`))
					c.Ob("C14-D2", "eio.serverSocket.pingPong/pong-continues", st.Sel.Pos(), !exit, "after a pong the ping loop returns instead of scheduling the next ping: "+trailString(p, trail2))
				case "time.After(pingTimeout)":
					again, trail := CanReachAvoiding(fn, first, callPred(`time\.Sleep`), nil)
					_ = trail
					isClose := callPred(`\(\*eio\.serverSocket\)\.close`)
					skip, trail3 := CanReachExitAvoiding(fn, first, isClose)
					c.Ob("C14-D2", "eio.serverSocket.pingPong/timeout-closes", st.Sel.Pos(), (!skip || isClose(first)) && !again, "on ping timeout the loop does not close the socket and stop: "+trailString(p, trail3))
				}
			}
		}
		hp := p.Fn("eio", "serverSocket.handlePacket")
		// a PONG signals pongChan — directly in handlePacket or through the onPong helper (either shape is fine)
		var sigSites []ssa.Instruction // instructions of handlePacket under which the signal happens
		for _, st := range SelectStates(hp) {
			if st.Send && st.Chan == "s.pongChan" {
				sigSites = append(sigSites, st.Sel)
			}
		}
		if on := p.FnOpt("eio", "serverSocket.onPong"); on != nil {
			sig := false
			for _, st := range SelectStates(on) {
				if st.Send && st.Chan == "s.pongChan" {
					sig = true
				}
			}
			c.Ob("C14-D2", "eio.serverSocket.onPong/signals", on.Pos(), sig, "onPong must signal pongChan")
			whoMayCall(c, "C14-D2", `\(\*eio\.serverSocket\)\.onPong`, []string{"(*eio.serverSocket).handlePacket"}, true)
			if sig {
				for _, cs := range CallsTo(Calls(hp), `\(\*eio\.serverSocket\)\.onPong`) {
					sigSites = append(sigSites, cs.Instr)
				}
			}
		}
		okPong := len(sigSites) == 1 && HasGuard(sigSites[0], `\(packet\.Type == 3\)==true`) && len(GuardTerms(sigSites[0])) == 1
		c.Ob("C14-D2", "eio.serverSocket.handlePacket/pong→onPong", hp.Pos(), okPong, fmt.Sprintf("a PONG (type 3) packet must signal pongChan (directly or through onPong), under no further condition, at exactly one place; found %d signal sites", len(sigSites)))
		// nobody else signals pongChan (a stale pong hides a dead peer for one more interval)
		pcf := p.Field("eio", "serverSocket", "pongChan")
		for _, f := range pkgFuncs(p, map[string]bool{"eio": true}) {
			for _, st := range SelectStates(f) {
				if st.Send && strings.HasSuffix(st.Chan, ".pongChan") {
					top := FuncName(ownerOf(EnclosingTop(f)))
					c.Ob("C14-D2", "eio.serverSocket.pongChan/signalled-only-for-PONG@"+FuncName(f), st.Sel.Pos(), top == "(*eio.serverSocket).handlePacket" || top == "(*eio.serverSocket).onPong", "pongChan is signalled from "+FuncName(f)+": only a received PONG may signal it")
				}
			}
		}
		_ = pcf
		// every received packet reaches handlePacket
		opk := p.Fn("eio", "serverSocket.onPacket")
		h := CallsTo(Calls(opk), `\(\*eio\.serverSocket\)\.handlePacket`)
		c.Ob("C14-D2", "eio.serverSocket.onPacket/handles-each", opk.Pos(), len(h) == 1 && inLoop(h[0].Instr.Block()) && len(GuardTerms(h[0].Instr)) == 1, "every received packet must be passed to handlePacket")
	}
	{
		hp := p.Fn("eio", "clientSocket.handlePacket")
		sig := false
		var sigSel *ssa.Select
		for _, st := range SelectStates(hp) {
			if st.Send && st.Chan == "s.pingChan" {
				sig = true
				sigSel = st.Sel
			}
		}
		okSig := sig && HasGuard(sigSel, `\(packet\.Type == 2\)==true`) && len(GuardTerms(sigSel)) == 1
		c.Ob("C14-D2", "eio.clientSocket.handlePacket/ping→mailbox", hp.Pos(), okSig, "a PING (type 2) packet must signal pingChan (re-arming the watchdog)")
		np := CallsTo(Calls(hp), `eioparser\.NewPacket`)
		snd := CallsTo(Calls(hp), `\(\*eio\.clientSocket\)\.Send`)
		okPong := len(np) == 1 && Term(np[0].Arg(0)) == "3" && Term(np[0].Arg(2)) == "packet.Data" && len(snd) == 1 && HasGuard(snd[0].Instr, `\(packet\.Type == 2\)==true`)
		c.Ob("C14-D2", "eio.clientSocket.handlePacket/ping→pong", hp.Pos(), okPong, "a PING must be answered with a PONG (type 3) carrying the ping's data")
		opk := p.Fn("eio", "clientSocket.onPacket")
		h := CallsTo(Calls(opk), `\(\*eio\.clientSocket\)\.handlePacket`)
		c.Ob("C14-D2", "eio.clientSocket.onPacket/handles-each", opk.Pos(), len(h) == 1 && inLoop(h[0].Instr.Block()) && len(GuardTerms(h[0].Instr)) == 1, "every received packet must be passed to handlePacket")
		fn := p.Fn("eio", "clientSocket.handleTimeout")
		for _, st := range SelectStates(fn) {
			if st.Send {
				continue
			}
			for _, b := range blocksOfSelectCase(st.Sel, st.Index) {
				first := b.Instrs[0]
				isClose := callPred(`\(\*eio\.clientSocket\)\.close`)
				switch {
				case st.Chan == "s.pingChan":
					reach, trail := CanReachAvoiding(fn, first, isClose, func(in ssa.Instruction) bool { s, ok := in.(*ssa.Select); return ok && s.Blocking })
					c.Ob("C14-D2", "eio.clientSocket.handleTimeout/ping-keeps-alive", st.Sel.Pos(), !reach && !isClose(first), "after a ping the watchdog can close the socket without waiting again: "+trailString(p, trail))
					exit, trail2 := CanReachExitAvoiding(fn, first, func(in ssa.Instruction) bool { s, ok := in.(*ssa.Select); return ok && s.Blocking })
					c.Ob("C14-D2", "eio.clientSocket.handleTimeout/ping-rearms", st.Sel.Pos(), !exit, "after a ping the watchdog returns instead of re-arming: "+trailString(p, trail2))
				case strings.HasPrefix(st.Chan, "time.After("):
					skip, trail := CanReachExitAvoiding(fn, first, isClose)
					c.Ob("C14-D2", "eio.clientSocket.handleTimeout/timeout-closes", st.Sel.Pos(), !skip || isClose(first), "on watchdog expiry the socket is not closed: "+trailString(p, trail))
				}
			}
		}
	}

	c.Rule("C14-D4", "a heartbeat queued at the upgrade is not lost (shared with C07-D2): every packet still queued on the old transport except NOOP — PING included — is re-sent on the new transport inside the swap region; a dropped PING makes a live, answering peer time out", 12)
	swapRegion(c, "C14-D4")

	c.Rule("C14-D3", "heartbeat mailboxes are buffered: pongChan and pingChan are signalled with a non-blocking send, so capacity >= 1 is needed for a pong/ping that arrives while the loop is not yet waiting", 2)
	checkBufferedSignal(c, "C14-D3", []chanField{{"eio", "serverSocket", "pongChan"}, {"eio", "clientSocket", "pingChan"}}, nil)
}
