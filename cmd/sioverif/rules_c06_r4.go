package main

// Round-4 rules of C06.

import (
	"fmt"
	"strings"

	"golang.org/x/tools/go/ssa"
)

func c06Round4(c *Ctx) {
	p := c.P

	// ---- D8: the close of the current transport always closes the session
	c.Rule("C06-D8", "the one-shot close event of the CURRENT transport always ends the session: in onTransportClose of both Engine.IO sockets, with the session still open (closeChan not closed) and the closing "+
		"transport being the current one (TransportName() == name), no path returns without calling close(...) — a transport reports its close once, so a swallowed event leaves a session that accepts "+
		"requests and lingers until the ping timeout reports the wrong reason", 2)
	for _, side := range []string{"serverSocket", "clientSocket"} {
		top := p.Fn("eio", side+".onTransportClose")
		n := 0
		for _, fn := range WithAnons(top) {
			closes := CallsTo(Calls(fn), `\(\*eio\.`+side+`\)\.close`)
			if len(closes) == 0 || fn == top && len(WithAnons(top)) > 1 {
				if fn != top {
					continue
				}
				if len(closes) == 0 {
					continue
				}
			}
			n++
			var as []Assume
			for _, b := range fn.Blocks {
				for _, in := range b.Instrs {
					bo, ok := in.(*ssa.BinOp)
					if !ok {
						continue
					}
					t := Term(bo)
					switch {
					case strings.Contains(t, "select@") && strings.HasSuffix(t, "== 0)"):
						as = append(as, assumeCond(bo, false))
					case strings.Contains(t, "TransportName()") && strings.Contains(t, " != "):
						as = append(as, assumeCond(bo, false))
					case strings.Contains(t, "TransportName()") && strings.Contains(t, " == "):
						as = append(as, assumeCond(bo, true))
					}
				}
			}
			skip, trail := PrunedCanReach(fn, nil, as, nil, callPred(`\(\*eio\.`+side+`\)\.close`))
			c.Ob("C06-D8", "eio."+side+".onTransportClose/current-transport-close-ends-session", fn.Pos(), !skip && len(as) >= 1,
				"with the session open and the closing transport being the current one, a path returns without close(...): "+trailString(p, trail))
		}
		if n == 0 {
			c.Undecided("C06-D8: no close(...) call found in eio.%s.onTransportClose", side)
		}
	}

	// ---- D9: admission is atomic with respect to close
	c.Rule("C06-D9", "admission is atomic with respect to close: in serverSocket.onConnect the join of the socket's own room, the CONNECT reply and `connected = true` lie in one write-locked region of "+
		"connectedMu, which Connected() (read by onClose) takes too — otherwise a close that arrives during onConnect sees 'not connected', spends the closeOnce and returns, and onConnect then "+
		"finishes on a dead connection: the socket stays listed and in its room, no disconnect is ever reported", 3)
	{
		fn := p.Fn("sio", "serverSocket.onConnect")
		li := Locks(fn)
		sts := findInstrs(fn, storeValPred(`s\.connected`, `true`))
		joins := CallsTo(Calls(fn), `\(\*sio\.serverSocket\)\.Join`)
		reply := CallsTo(Calls(fn), `\(\*sio\.serverSocket\)\.sendControlPacket`)
		// (a tree that joins the own room elsewhere has no join to place here: joining before the socket is registered
		// cannot race with its close, and a join after the close is C06-D6's matter)
		if len(sts) != 1 || len(reply) == 0 {
			c.Undecided("C06-D9: onConnect: connected=true stores %d, Join calls %d, sendControlPacket calls %d", len(sts), len(joins), len(reply))
		} else {
			st := sts[0]
			c.Ob("C06-D9", "sio.serverSocket.onConnect/flag-under-lock", st.Pos(), li.HoldsW(st, "s.connectedMu"), "connected = true without connectedMu write-held; held="+li.Held(st).String())
			for _, j := range joins {
				c.Ob("C06-D9", "sio.serverSocket.onConnect/join-in-region", j.Pos(), li.HoldsW(j.Instr, "s.connectedMu") && SameRegion(li, j.Instr, st, "s.connectedMu"), "the join of the socket's room is not in the critical section that sets connected; held="+li.Held(j.Instr).String())
			}
			for _, r := range reply {
				c.Ob("C06-D9", "sio.serverSocket.onConnect/reply-in-region", r.Pos(), li.HoldsW(r.Instr, "s.connectedMu") && SameRegion(li, r.Instr, st, "s.connectedMu"), "the CONNECT reply is not sent in the critical section that sets connected; held="+li.Held(r.Instr).String())
			}
		}
		cf := p.Fn("sio", "serverSocket.Connected")
		cli := Locks(cf)
		okc := false
		for _, fa := range FieldAccesses(cf) {
			if fdisp(fa.Field) == "connected" && !fa.Write && cli.HoldsAny(fa.Instr, "s.connectedMu") {
				okc = true
			}
		}
		c.Ob("C06-D9", "sio.serverSocket.Connected/reads-under-lock", cf.Pos(), okc, "Connected() must read the flag under connectedMu (it is how onClose waits for a running onConnect)")
	}

	// ---- D10: the sweep enumerates the complete index
	c.Rule("C06-D10", "the sweep finds every socket: serverSocketStore.getAll and getAndRemoveAll (directly or through a helper of the store) enumerate the map keyed by the socket id — set() also files the socket "+
		"under its namespace name, a key a second CONNECT for the same namespace overwrites, so the namespace index can miss a socket that is still registered by id", 2)
	for _, name := range []string{"getAll", "getAndRemoveAll"} {
		fn := p.Fn("sio", "serverSocketStore."+name)
		var ranges []*ssa.Range
		collect := func(f *ssa.Function) {
			for _, ff := range WithAnons(f) {
				for _, b := range ff.Blocks {
					for _, in := range b.Instrs {
						if r, ok := in.(*ssa.Range); ok {
							if _, isMap := r.X.Type().Underlying().(interface{ Key() interface{} }); isMap || true {
								ranges = append(ranges, r)
							}
						}
					}
				}
			}
		}
		collect(fn)
		for _, cs := range Calls(fn) {
			if sc := cs.Common().StaticCallee(); sc != nil && p.inModule(sc) && sc.Signature.Recv() != nil && strings.HasSuffix(sc.Signature.Recv().Type().String(), "serverSocketStore") && originOf(sc) != fn {
				collect(sc)
			}
		}
		if len(ranges) == 0 {
			c.Undecided("C06-D10: no range loop found in serverSocketStore.%s", name)
			continue
		}
		for _, r := range ranges {
			t := Term(r.X)
			c.Ob("C06-D10", "sio.serverSocketStore."+name+"/enumerates-by-id", r.Pos(), strings.HasSuffix(t, ".socketsByID"), fmt.Sprintf("the sockets are enumerated from %s: only the map keyed by socket id holds every registered socket", t))
		}
	}
}
