// sioverif — repository-specific static analyser deciding structural clauses of
// the properties in /verif/properties.jsonl for karagenc/socket.io-go.
//
//	sioverif check <id> [--tier quick|thorough] [--repo /repo] [--verif /verif]
//	sioverif explain <violation.json>
//	sioverif list
//
// Exit codes: 0 every obligation discharged (or a listed known finding),
// 1 at least one VIOLATION line, 2 cannot decide (load error, unresolved
// anchor, rule matched fewer instances than confirmed by hand, internal panic).
package main

import (
	"encoding/json"
	"fmt"
	"os"
	"runtime/debug"
	"sort"
	"strconv"
	"time"
)

type PropertySpec struct {
	ID         string
	NotDecided string
	Run        func(c *Ctx)
	// Widths: also analyse under GOARCH=386 in the thorough tier (integer width sensitive rules)
	Arch386 func(c *Ctx)
}

var registry = map[string]*PropertySpec{}

func register(p *PropertySpec) { registry[p.ID] = p }

func main() {
	if len(os.Args) < 2 {
		usage()
	}
	switch os.Args[1] {
	case "check":
		os.Exit(cmdCheck(os.Args[2:]))
	case "explain":
		os.Exit(cmdExplain(os.Args[2:]))
	case "checkall":
		os.Exit(cmdCheckAll(os.Args[2:]))
	case "list":
		var ids []string
		for id := range registry {
			ids = append(ids, id)
		}
		sort.Strings(ids)
		for _, id := range ids {
			fmt.Println(id)
		}
	case "dump":
		os.Exit(cmdDump(os.Args[2:]))
	case "bounds":
		os.Exit(cmdBounds(os.Args[2:]))
	case "callees":
		os.Exit(cmdCallees(os.Args[2:]))
	case "refnames":
		os.Exit(cmdRefNames(os.Args[2:]))
	case "debug":
		os.Exit(cmdDebug(os.Args[2:]))
	case "census":
		os.Exit(cmdCensus(os.Args[2:]))
	default:
		usage()
	}
}

func usage() {
	fmt.Fprintln(os.Stderr, "usage: sioverif check <id> [--tier quick|thorough] [--repo DIR] [--verif DIR] | explain <file> | list | dump <pkg> <func>")
	os.Exit(2)
}

type opts struct {
	tier, repo, verif string
	rest              []string
}

func parseOpts(args []string) opts {
	o := opts{tier: os.Getenv("VERIF_TIER"), repo: "/repo", verif: "/verif"}
	for i := 0; i < len(args); i++ {
		switch args[i] {
		case "--tier":
			i++
			o.tier = args[i]
		case "--repo":
			i++
			o.repo = args[i]
		case "--verif":
			i++
			o.verif = args[i]
		default:
			o.rest = append(o.rest, args[i])
		}
	}
	if o.tier != "thorough" {
		o.tier = "quick"
	}
	return o
}

func cmdCheck(args []string) (code int) {
	o := parseOpts(args)
	if len(o.rest) != 1 {
		usage()
	}
	spec := registry[o.rest[0]]
	if spec == nil {
		fmt.Fprintf(os.Stderr, "unknown property %q\n", o.rest[0])
		return 2
	}
	seed, _ := strconv.Atoi(os.Getenv("VERIF_SEED"))
	started := time.Now()
	defer func() {
		if r := recover(); r != nil {
			if ae, ok := r.(anchorError); ok {
				fmt.Fprintf(os.Stderr, "UNDECIDED property=%s: %s\n", spec.ID, ae.msg)
			} else {
				fmt.Fprintf(os.Stderr, "UNDECIDED property=%s: internal error: %v\n%s\n", spec.ID, r, debug.Stack())
			}
			code = 2
		}
	}()
	rr := &runResult{}
	type cfg struct {
		name, tags string
		env        []string
		run        func(*Ctx)
	}
	cfgs := []cfg{{"default tags, GOARCH=host", "", nil, spec.Run}}
	if o.tier == "thorough" {
		cfgs = append(cfgs, cfg{"-tags sio_deadlock", "sio_deadlock", nil, spec.Run})
	}
	for i, cf := range cfgs {
		p := Load(o.repo, cf.tags, cf.env)
		c := NewCtx(p, spec.ID, o.tier, cf.name)
		for _, f := range p.SrcFuncs() {
			c.SawFn(FuncName(f))
		}
		runGuarded(c, cf.run)
		mergeCtx(rr, c)
		if i == 0 && spec.Arch386 != nil {
			// integer-width sensitive rules once more with int/uint = 32 bits (the
			// type-checked program is the same; only the width model of the prover changes)
			c32 := NewCtx(p, spec.ID, o.tier, "int/uint modelled as 32 bits (GOARCH=386/arm)")
			c32.Arch32 = true
			runGuarded(c32, spec.Arch386)
			mergeCtx(rr, c32)
		}
	}
	return finish(o.verif, spec, o.tier, seed, rr, started, o.repo)
}

// cmdCheckAll is a development aid (tools/seed_cross.py): the quick tier of every property over ONE load of
// the program, each delimited by a line "== <id> exit=<n>".  The registered commands never use it.
func cmdCheckAll(args []string) int {
	o := parseOpts(args)
	var ids []string
	for id := range registry {
		ids = append(ids, id)
	}
	sort.Strings(ids)
	p := Load(o.repo, "", nil)
	worst := 0
	for _, id := range ids {
		spec := registry[id]
		code := func() (code int) {
			started := time.Now()
			defer func() {
				if r := recover(); r != nil {
					if ae, ok := r.(anchorError); ok {
						fmt.Fprintf(os.Stdout, "UNDECIDED property=%s: %s\n", spec.ID, ae.msg)
					} else {
						fmt.Fprintf(os.Stdout, "UNDECIDED property=%s: internal error: %v\n", spec.ID, r)
					}
					code = 2
				}
			}()
			rr := &runResult{}
			c := NewCtx(p, spec.ID, "quick", "default tags, GOARCH=host")
			for _, f := range p.SrcFuncs() {
				c.SawFn(FuncName(f))
			}
			runGuarded(c, spec.Run)
			mergeCtx(rr, c)
			if spec.Arch386 != nil {
				c32 := NewCtx(p, spec.ID, "quick", "int/uint modelled as 32 bits (GOARCH=386/arm)")
				c32.Arch32 = true
				runGuarded(c32, spec.Arch386)
				mergeCtx(rr, c32)
			}
			return finish(o.verif, spec, "quick", 0, rr, started, o.repo)
		}()
		fmt.Printf("== %s exit=%d\n", id, code)
		if code > worst {
			worst = code
		}
	}
	return worst
}

func cmdExplain(args []string) int {
	if len(args) < 1 {
		usage()
	}
	b, err := os.ReadFile(args[0])
	if err != nil {
		fmt.Fprintln(os.Stderr, err)
		return 2
	}
	var v map[string]any
	if err := json.Unmarshal(b, &v); err != nil {
		fmt.Fprintln(os.Stderr, err)
		return 2
	}
	fmt.Printf("property : %v\nrule     : %v — %v\nconstruct: %v\nposition : %v\ndetail   : %v\nconfig   : %v\n", v["property_id"], v["rule"], v["rule_text"], v["construct"], v["pos"], v["detail"], v["config"])
	fmt.Println("re-deriving on the current tree:")
	id, _ := v["property_id"].(string)
	rc := cmdCheck(append([]string{id}, args[1:]...))
	return rc
}

// runGuarded runs a property's rules; an anchor that no longer resolves stops the remaining rules of that
// configuration, but what was established before it is kept: a violation already found is still reported.
func runGuarded(c *Ctx, run func(*Ctx)) {
	defer func() {
		if r := recover(); r != nil {
			if ae, ok := r.(anchorError); ok {
				c.Undecided("%s", ae.msg)
				return
			}
			panic(r)
		}
	}()
	run(c)
}
