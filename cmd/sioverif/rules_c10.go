package main

// C10 — no peer input crashes or wedges the Socket.IO decoder.

import (
	"fmt"
	"go/constant"
	"go/token"
	"go/types"
	"sort"
	"strings"

	"golang.org/x/tools/go/callgraph"
	"golang.org/x/tools/go/ssa"
)

func init() {
	register(&PropertySpec{
		ID: "C10",
		NotDecided: "behaviour of the libraries the decoder calls (sonic / encoding/json, reflect: a panic or unbounded recursion inside them is not seen), memory exhaustion by legitimately large inputs, " +
			"recursion depth of reconstruct* over nested values, and the run-time liveness of other connections (decided instead: no run-time panic site of the Go language — index, slice, make, " +
			"lossy integer conversion, division, single-result type assertion — on the receive path of the Socket.IO layer is left unproven, decode errors reach the error handlers, handlers are " +
			"invoked only with the arity they declare and under recover, and the attachment typestate of the parser cannot retain a finished packet).",
		Run:     runC10,
		Arch386: func(c *Ctx) { runC10Bounds(c) },
	})
}

// decodeScope: module functions reachable in the VTA call graph from the
// functions that receive peer packets, restricted to the given packages and not
// expanded through the cut functions.
func decodeScope(p *Program, entries []*ssa.Function, pkgs map[string]bool, cut map[*ssa.Function]string) map[*ssa.Function][]string {
	scope := map[*ssa.Function][]string{}
	inPkgs := func(fn *ssa.Function) bool {
		top := originOf(EnclosingTop(fn))
		var path string
		if top.Pkg != nil {
			path = top.Pkg.Pkg.Path()
		} else if obj := top.Object(); obj != nil && obj.Pkg() != nil {
			path = obj.Pkg().Path()
		}
		s, ok := shortOf(path)
		return ok && pkgs[s]
	}
	for _, e := range entries {
		pred := p.Reach(e, func(ed *callgraph.Edge) bool {
			callee := ed.Callee.Func
			if _, isCut := cut[originOf(EnclosingTop(callee))]; isCut {
				return false
			}
			if _, isCut := cut[originOf(EnclosingTop(ed.Caller.Func))]; isCut {
				return false
			}
			return p.inModule(callee) && inPkgs(callee)
		}, false)
		for fn := range pred {
			if !p.inModule(fn) || len(fn.Blocks) == 0 || !inPkgs(fn) {
				continue
			}
			if _, seen := scope[fn]; !seen {
				scope[fn] = pathTo(pred, fn)
			}
		}
	}
	return scope
}

// c10Exceptions: obligations the zone domain cannot express, each confirmed by
// reading; keyed by function and a pattern of the operand (field names, not
// positions).  One line of reason each.
var c10Exceptions = []struct{ fn, kind, expr, reason string }{
	{"(*sio.serverSocket).onAck", "slice", `\.inputArgs\[1:\]$`,
		"taken only under ack.hasError; handlers with hasError are built by newAckHandler(f, true) after checkAckFunc(f, true) required NumIn() >= 1, and inputArgs holds NumIn() entries (construction order and the NumIn guard are checked by C10-D6)"},
	{"(*sio.clientSocket).onAck", "slice", `\.inputArgs\[1:\]$`,
		"same invariant as the server side: hasError implies len(inputArgs) >= 1 (C10-D6)"},
	{"(*sio.clientSocket).callEvent", "index", `\[\(len\(.+\) - 1\)…?\]?$`,
		"reached only when handler.ack() is true, i.e. the handler's last parameter is a func; values has one entry per parameter (arity guard in onEvent, C10-D2) and the offset strip above removes a last value only when it is a string, which a func parameter's value is not"},
}

// c10Cut: functions of the Socket.IO layer that are reachable from the receive
// path but whose operands are supplied by the local application, not by the peer.
var c10Cut = []struct{ pkg, fn, reason string }{
	{"sio", "clientSocket.emit", "operands are the arguments the application passed to Emit (re-sent from the offline/retry buffers on connect)"},
	{"sio", "clientPacketQueue.addToQueue", "the application's retry queue: operands are Emit arguments and the queue's own state"},
	{"sio", "clientPacketQueue.drainQueue", "the application's retry queue"},
}

func runC10Bounds(c *Ctx) map[*ssa.Function][]string {
	p := c.P
	entries := []*ssa.Function{p.Fn("sio", "serverConn.onEIOPacket"), p.Fn("sio", "Manager.onEIOPacket")}
	cut := map[*ssa.Function]string{}
	for _, ct := range c10Cut {
		cut[p.Fn(ct.pkg, ct.fn)] = ct.reason
	}
	scope := decodeScope(p, entries, map[string]bool{"sio": true, "jsonparser": true, "parser": true}, cut)
	// the whole decoder package is in scope whether or not today's call graph reaches a function
	for _, f := range p.SrcFuncs() {
		top := originOf(EnclosingTop(f))
		if top.Pkg != nil {
			if s, _ := shortOf(top.Pkg.Pkg.Path()); s == "jsonparser" && len(f.Blocks) > 0 {
				if _, ok := scope[f]; !ok {
					scope[f] = []string{FuncName(f)}
				}
			}
		}
	}
	ip := newInterproc(p, c.Arch32)
	var fns []*ssa.Function
	for fn := range scope {
		fns = append(fns, fn)
	}
	sort.Slice(fns, func(i, j int) bool { return FuncName(fns[i]) < FuncName(fns[j]) })

	c.Rule("C10-D1", "panic-site census with proof: in every function of the Socket.IO layer (packages sio, parser, parser/json) reachable from onEIOPacket — and in all of parser/json — each index, slice, make, "+
		"lossy integer conversion, integer division and single-result type assertion is proven safe by the zone prover (branch conditions, len/make/append/IndexByte/ParseUint models, loop invariants, "+
		"callee result bounds, caller-established parameter bounds), lies under a deferred recover of its own function, or is one of the listed exceptions", 200)
	used := make([]bool, len(c10Exceptions))
	nDecoder := 0
	for _, fn := range fns {
		for _, ob := range ip.proveFunc(fn) {
			construct := FuncName(fn) + "/" + ob.Kind + "/" + trunc(ob.Expr, 90)
			if strings.Contains(FuncName(fn), "jsonparser") {
				nDecoder++
			}
			if ob.Proved {
				c.Ob("C10-D1", construct, ob.Instr.Pos(), true, ob.Why)
				continue
			}
			excepted := false
			for i, ex := range c10Exceptions {
				if ex.fn == FuncName(fn) && ex.kind == ob.Kind && regexpMustCompile(".*(?:"+ex.expr+").*").MatchString(ob.Expr) {
					c.Except("C10-D1", construct, ob.Instr.Pos(), ex.reason)
					used[i] = true
					excepted = true
					break
				}
			}
			if !excepted {
				c.Ob("C10-D1", construct, ob.Instr.Pos(), false, fmt.Sprintf("%s %s can fail at run time on the receive path (reached via %s): %s", ob.Kind, trunc(ob.Expr, 120), strings.Join(scope[fn], " → "), ob.Detail))
			}
		}
	}
	c.Note("C10-D1 scope: %d functions (%d obligations in parser/json); cut: %d application-side functions", len(fns), nDecoder, len(c10Cut))
	if nDecoder < 60 {
		c.Undecided("C10-D1: only %d obligations found in parser/json (expected at least 60)", nDecoder)
	}
	for _, ct := range c10Cut {
		c.Note("C10-D1 cut %s.%s: %s", ct.pkg, ct.fn, ct.reason)
	}
	return scope
}

func isDecodeCall(in ssa.Instruction) (*ssa.Call, bool) {
	call, ok := in.(*ssa.Call)
	if !ok || call.Call.IsInvoke() || call.Call.StaticCallee() != nil {
		return nil, false
	}
	if _, isB := call.Call.Value.(*ssa.Builtin); isB {
		return nil, false
	}
	nt, ok := call.Call.Value.Type().(*types.Named)
	if !ok || nt.Obj().Name() != "Decode" || nt.Obj().Pkg() == nil || !strings.HasSuffix(nt.Obj().Pkg().Path(), "/parser") {
		return nil, false
	}
	return call, true
}

func extractOf(call *ssa.Call, idx int) *ssa.Extract {
	if call.Referrers() == nil {
		return nil
	}
	for _, r := range *call.Referrers() {
		if e, ok := r.(*ssa.Extract); ok && e.Index == idx {
			return e
		}
	}
	return nil
}

func assumeCond(v ssa.Value, val bool) Assume { return Assume{regexpQuote(Term(v)), val} }

// nilTests: the branch conditions of fn that compare v with nil, as assumptions for "v != nil".
func nonNilAssumes(fn *ssa.Function, v ssa.Value) []Assume {
	var out []Assume
	for _, b := range fn.Blocks {
		for _, in := range b.Instrs {
			bo, ok := in.(*ssa.BinOp)
			if !ok || (bo.Op != token.NEQ && bo.Op != token.EQL) || (bo.X != v && !loadOfCellHolding(bo.X, v)) {
				continue
			}
			if k, isK := bo.Y.(*ssa.Const); !isK || k.Value != nil {
				continue
			}
			out = append(out, assumeCond(bo, bo.Op == token.NEQ))
		}
	}
	return out
}

func runC10(c *Ctx) {
	p := c.P
	scope := runC10Bounds(c)

	c10ReflectValidity(c, scope)
	c10NoReentry(c)
	c10ParserPerConnection(c)
	c10HeaderOptionalFields(c, scope)
	reflectMapStoreRule(c, "C10-D11")
	c.Rule("C10-D12", "a parse error ends the connection it came from (F46, shared with C06-D11): on the client, after onClose(ReasonParseError) the Engine.IO socket the frame arrived on is closed on every path", 1)
	parseErrorClosesConnection(c, "C10-D12")

	// ---------------------------------------------------------------- D2
	c.Rule("C10-D2", "handlers see only well-formed input: after every decode(...) the number of values is compared with the number of declared parameters before a handler is invoked "+
		"(values[k] uses are D1 obligations), and every reflect.Value.Call on the receive path lies under a deferred recover", 7)
	c.Rule("C10-D3", "decode errors are reported: an error of Parser.Add reaches onFatalError (server) / onClose(ReasonParseError) (client); an error of the decode closure reaches "+
		"onError / onFatalError / the connect-error handlers, and no handler is invoked with the values of a failed decode", 16)
	invoker := callPred(`\(\*sio\.eventHandler\)\.call|\(\*sio\.ackHandler\)\.call|\(\*sio\.(server|client)Socket\)\.callEvent|\(\*sio\.serverSocket\)\.callMiddlewares`)
	errReportNamed := callPred(`\(\*sio\.(server|client)Socket\)\.onError|\(\*sio\.serverConn\)\.onFatalError|\(\*sio\.Manager\)\.onError|\(\*sio\.(server|client)Socket\)\.onClose|\(\*sio\.Manager\)\.onClose`)
	errReport := func(in ssa.Instruction) bool {
		if errReportNamed(in) {
			return true
		}
		// a local closure that runs the connect-error handlers (clientSocket.onConnect's connectError)
		if call, ok := in.(*ssa.Call); ok {
			if mc, ok := call.Call.Value.(*ssa.MakeClosure); ok {
				return len(CallsTo(CallsDeep(mc.Fn.(*ssa.Function)), `\(\*sio\.handlerStore\[.*\]\)\.forEach.*`)) > 0
			}
		}
		return false
	}
	nDecode := 0
	for _, f := range p.SrcFuncs() {
		top := originOf(EnclosingTop(f))
		if top.Pkg == nil {
			continue
		}
		if s, _ := shortOf(top.Pkg.Pkg.Path()); s != "sio" {
			continue
		}
		for _, b := range f.Blocks {
			for _, in := range b.Instrs {
				dc, ok := isDecodeCall(in)
				if !ok {
					continue
				}
				nDecode++
				name := FuncName(f)
				vals, errv := extractOf(dc, 0), extractOf(dc, 1)
				// D3: the error is tested, reported, and the values are not used on that path
				if errv == nil {
					c.Ob("C10-D3", name+"/decode-error-tested", dc.Pos(), false, "the error result of decode(...) is discarded")
					continue
				}
				as := nonNilAssumes(f, errv)
				c.Ob("C10-D3", name+"/decode-error-tested", dc.Pos(), len(as) > 0, "the error result of decode(...) is never compared with nil")
				if len(as) > 0 {
					r, trail := PrunedCanReach(f, dc, as, nil, errReport)
					c.Ob("C10-D3", name+"/decode-error-reported", dc.Pos(), !r, "a decode error can reach a return without onError/onFatalError/connect-error handlers being called: "+trailString(p, trail))
					r2, trail2 := PrunedCanReach(f, dc, as, invoker, nil)
					c.Ob("C10-D3", name+"/decode-error-stops", dc.Pos(), !r2, "after a decode error a handler is still invoked: "+trailString(p, trail2))
				}
				// D2: arity guard before handler invocation
				if len(findInstrs(f, invoker)) == 0 {
					continue
				}
				var guards []Assume
				if vals != nil && len(dc.Call.Args) == 1 {
					argsV := dc.Call.Args[0]
					for _, bb := range f.Blocks {
						for _, i2 := range bb.Instrs {
							bo, ok := i2.(*ssa.BinOp)
							if !ok || (bo.Op != token.EQL && bo.Op != token.NEQ) {
								continue
							}
							isLenOf := func(v, of ssa.Value) bool {
								cl, ok := v.(*ssa.Call)
								if !ok {
									return false
								}
								bi, ok := cl.Call.Value.(*ssa.Builtin)
								if !ok || bi.Name() != "len" {
									return false
								}
								a := cl.Call.Args[0]
								return a == of || Term(a) == Term(of)
							}
							if (isLenOf(bo.X, vals) && isLenOf(bo.Y, argsV)) || (isLenOf(bo.Y, vals) && isLenOf(bo.X, argsV)) {
								guards = append(guards, assumeCond(bo, bo.Op == token.NEQ)) // assume: lengths differ
							}
						}
					}
				}
				if len(guards) == 0 {
					c.Ob("C10-D2", name+"/arity-guard", dc.Pos(), false, "no comparison of len(values) with the number of declared parameters between decode(...) and the handler invocation")
					continue
				}
				r, trail := PrunedCanReach(f, dc, append(guards, flipAll(as)...), invoker, nil)
				c.Ob("C10-D2", name+"/arity-guard", dc.Pos(), !r, "a handler can be invoked although the number of decoded values differs from the number of declared parameters: "+trailString(p, trail))
			}
		}
	}
	if nDecode < 7 {
		c.Undecided("C10: found %d decode(...) call sites in package sio, expected 7", nDecode)
	}

	// reflect.Value.Call under recover
	{
		var fns []*ssa.Function
		for fn := range scope {
			fns = append(fns, fn)
		}
		sort.Slice(fns, func(i, j int) bool { return FuncName(fns[i]) < FuncName(fns[j]) })
		n := 0
		for _, fn := range fns {
			for _, cs := range CallsTo(Calls(fn), `\(reflect\.Value\)\.Call(Slice)?`) {
				n++
				c.Ob("C10-D2", FuncName(fn)+"/reflect-call-recovered", cs.Pos(), recoveredAt(fn, cs.Instr), "reflect.Value.Call on the receive path without a deferred recover in the same function: a handler/arity/type mismatch panic would take the process down (decode runs on a bare goroutine)")
			}
		}
		if n < 3 {
			c.Undecided("C10-D2: found %d reflect.Value.Call sites on the receive path, expected at least 3", n)
		}
	}

	// ---------------------------------------------------------------- D3 (Parser.Add errors)
	for _, e := range []struct{ fn, report string }{
		{"serverConn.onEIOPacket", `\(\*sio\.serverConn\)\.onFatalError`},
		{"Manager.onEIOPacket", `\(\*sio\.Manager\)\.onClose`},
	} {
		fn := p.Fn("sio", e.fn)
		adds := CallsTo(Calls(fn), `\(parser\.Parser\)\.Add|\(\*jsonparser\.Parser\)\.Add`)
		if len(adds) != 1 {
			anchorFail("C10-D3: %s: expected one Parser.Add call, found %d", e.fn, len(adds))
		}
		add := adds[0].Instr.(*ssa.Call)
		as := nonNilAssumes(fn, add)
		c.Ob("C10-D3", "sio."+e.fn+"/add-error-tested", add.Pos(), len(as) > 0, "the error of Parser.Add is not compared with nil")
		if len(as) == 0 {
			continue
		}
		reports := anyCallPred(e.report)
		viaClosure := func(in ssa.Instruction) bool {
			// `go func() { … report(…) … }()`: the literal that is started (or called) here reports
			ci, ok := in.(ssa.CallInstruction)
			if !ok {
				return false
			}
			mc, ok := ci.Common().Value.(*ssa.MakeClosure)
			if !ok {
				return false
			}
			lit := mc.Fn.(*ssa.Function)
			skip, _ := CanReachExitAvoiding(lit, nil, reports)
			return !skip
		}
		r, trail := PrunedCanReach(fn, add, as, nil, orPred(reports, viaClosure))
		c.Ob("C10-D3", "sio."+e.fn+"/add-error-reported", add.Pos(), !r, "a parse error can be dropped without closing the connection: "+trailString(p, trail))
		// after an error no further frame of the batch is fed to the parser
		r2, trail2 := PrunedCanReach(fn, add, as, func(in ssa.Instruction) bool { return in == ssa.Instruction(add) }, nil)
		c.Ob("C10-D3", "sio."+e.fn+"/add-error-stops", add.Pos(), !r2, "after a parse error the next frame is still fed to the parser: "+trailString(p, trail2))
		if e.fn == "Manager.onEIOPacket" {
			for _, cs := range CallsTo(CallsDeep(fn), e.report) {
				ok := len(cs.Common().Args) >= 2 && Term(cs.Common().Args[1]) == fmt.Sprintf("%q:sio.Reason", "parse error") || strings.Contains(Term(cs.Common().Args[1]), "parse error")
				c.Ob("C10-D3", "sio."+e.fn+"/reason-parse-error", cs.Pos(), ok, "the close reason for a parse error must be ReasonParseError; got "+Term(cs.Common().Args[1]))
			}
		}
	}

	// ---------------------------------------------------------------- D5 typestate
	c.Rule("C10-D5", "attachment typestate: Parser.Add hands a packet to finish only after detaching the reconstructor (p.r = nil), a packet that needs no attachments is never retained, "+
		"a frame arriving while a reconstructor is retained is added to it and nothing else, and the attachment counter only moves down to zero", 6)
	{
		fn := p.Fn("jsonparser", "Parser.Add")
		rField := p.Field("jsonparser", "Parser", "r")
		clearR := func(in ssa.Instruction) bool {
			st, ok := in.(*ssa.Store)
			if !ok {
				return false
			}
			fa, ok := st.Addr.(*ssa.FieldAddr)
			if !ok || fieldVar(fa.X.Type(), fa.Field) != rField {
				return false
			}
			k, isK := st.Val.(*ssa.Const)
			return isK && k.Value == nil
		}
		setR := func(in ssa.Instruction) bool {
			st, ok := in.(*ssa.Store)
			if !ok {
				return false
			}
			fa, ok := st.Addr.(*ssa.FieldAddr)
			return ok && fieldVar(fa.X.Type(), fa.Field) == rField && !clearR(in)
		}
		isFinish := func(in ssa.Instruction) bool {
			call, ok := in.(*ssa.Call)
			if !ok {
				return false
			}
			par, ok := call.Call.Value.(*ssa.Parameter)
			return ok && par == fn.Params[2]
		}
		fins := findInstrs(fn, isFinish)
		if len(fins) < 2 {
			anchorFail("C10-D5: expected two finish(...) calls in Parser.Add, found %d", len(fins))
		}
		for _, fi := range fins {
			dominated := false
			for _, st := range findInstrs(fn, clearR) {
				if Dominates(st, fi) {
					if r, _ := CanReachAvoiding(fn, st, func(in ssa.Instruction) bool { return in == fi }, nil); r {
						// no re-attachment between the clear and the call
						if r2, _ := CanReachAvoiding(fn, st, setR, func(in ssa.Instruction) bool { return in == fi }); !r2 {
							dominated = true
						}
					}
				}
			}
			c.Ob("C10-D5", "jsonparser.Parser.Add/detach-before-finish", fi.Pos(), dominated, "finish(...) is called while p.r still holds the finished reconstructor: the next packet would be swallowed as an attachment (and a re-entrant Add would corrupt it)")
		}
		// no attachments needed → not retained
		ph := CallsTo(Calls(fn), `\(\*jsonparser\.Parser\)\.parseHeader`)
		if len(ph) != 1 {
			anchorFail("C10-D5: parseHeader call not found in Parser.Add")
		}
		hdrErr := extractOf(ph[0].Instr.(*ssa.Call), 3)
		base := flipAll(nonNilAssumes(fn, hdrErr))
		base = append(base, Assume{`\(p\.r == nil\)`, true}, Assume{`\(p\.r != nil\)`, false}, Assume{`\(p\.maxAttachments > 0\)`, false})
		r1, t1 := PrunedCanReach(fn, nil, append(base, Assume{`.*\.IsBinary\(\)`, false}), nil, clearR)
		c.Ob("C10-D5", "jsonparser.Parser.Add/non-binary-not-retained", fn.Pos(), !r1, "a non-binary packet can leave Add with the reconstructor retained: every later packet would be treated as its attachment: "+trailString(p, t1))
		r2, t2 := PrunedCanReach(fn, nil, append(base, Assume{`.*\.IsBinary\(\)`, true}, Assume{`\(.*\.Attachments == 0\)`, true}, Assume{`\(.*\.Attachments != 0\)`, false}, Assume{`\(.*\.Attachments > 0\)`, false}, Assume{`\(.*\.Attachments < 1\)`, true}), nil, clearR)
		c.Ob("C10-D5", "jsonparser.Parser.Add/zero-attachments-not-retained", fn.Pos(), !r2, "a binary packet announcing 0 attachments can leave Add with the reconstructor retained (remaining would go negative and never reach 0): "+trailString(p, t2))
		// retained reconstructor: the frame goes to addBuffer, never to parseHeader
		r3, t3 := PrunedCanReach(fn, nil, []Assume{{`\(p\.r == nil\)`, false}, {`\(p\.r != nil\)`, true}}, callPred(`\(\*jsonparser\.Parser\)\.parseHeader`), nil)
		c.Ob("C10-D5", "jsonparser.Parser.Add/attachment-not-parsed-as-header", fn.Pos(), !r3, "with a reconstructor retained the frame is parsed as a new header: "+trailString(p, t3))
		r4, t4 := PrunedCanReach(fn, nil, []Assume{{`\(p\.r == nil\)`, false}, {`\(p\.r != nil\)`, true}}, nil, callPred(`\(\*jsonparser\.reconstructor\)\.addBuffer`))
		c.Ob("C10-D5", "jsonparser.Parser.Add/attachment-added", fn.Pos(), !r4, "with a reconstructor retained a frame can be dropped without addBuffer: "+trailString(p, t4))
		// the count of attachments: complete exactly at the announced number (affine forms; shared with C09-D7)
		attachmentCompletion(c, "C10-D5")
	}

	// ---------------------------------------------------------------- D6 hasError invariant
	c.Rule("C10-D6", "invariant behind the inputArgs[1:] exceptions: ackHandler.hasError / inputArgs are stored only by newAckHandler, after checkAckFunc(f, hasError) succeeded, "+
		"and checkAckFunc rejects a hasError function without parameters", 4)
	{
		nah := p.Fn("sio", "newAckHandler")
		for _, fld := range []string{"hasError", "inputArgs"} {
			fv := p.Field("sio", "ackHandler", fld)
			n := 0
			for _, f := range p.SrcFuncs() {
				for _, fa := range FieldAccesses(f) {
					if fa.Field == fv && fa.Write {
						n++
						c.Ob("C10-D6", FuncName(f)+"/stores-"+fld, fa.Instr.Pos(), originOf(EnclosingTop(f)) == nah, "ackHandler."+fld+" is stored outside newAckHandler: the hasError ⇒ len(inputArgs) ≥ 1 invariant is no longer established at one place")
					}
				}
			}
			if n == 0 {
				c.Undecided("C10-D6: no store to ackHandler.%s found", fld)
			}
		}
		chk := CallsTo(Calls(nah), `sio\.checkAckFunc`)
		if len(chk) != 1 {
			c.Ob("C10-D6", "sio.newAckHandler/checks-first", nah.Pos(), false, fmt.Sprintf("newAckHandler must call checkAckFunc once; found %d calls", len(chk)))
		} else {
			call := chk[0].Instr.(*ssa.Call)
			okArgs := len(call.Call.Args) == 2 && call.Call.Args[1] == ssa.Value(nah.Params[1]) && call.Call.Args[0] == ssa.Value(nah.Params[0])
			c.Ob("C10-D6", "sio.newAckHandler/checks-same-args", call.Pos(), okArgs, "checkAckFunc must be called with newAckHandler's own (f, hasError)")
			as := nonNilAssumes(nah, call)
			hv := p.Field("sio", "ackHandler", "hasError")
			r, trail := PrunedCanReach(nah, call, as, fieldStorePred(hv), nil)
			c.Ob("C10-D6", "sio.newAckHandler/checks-first", call.Pos(), len(as) > 0 && !r, "a handler is constructed although checkAckFunc failed: "+trailString(p, trail))
			for _, st := range findInstrs(nah, fieldStorePred(hv)) {
				c.Ob("C10-D6", "sio.newAckHandler/check-dominates-construction", st.Pos(), Dominates(call, st), "the handler is constructed on a path that skips checkAckFunc")
			}
		}
		// checkAckFunc: under hasError, NumIn() < 1 is an error
		caf := p.Fn("sio", "checkAckFunc")
		var numInGuards []Assume
		for _, b := range caf.Blocks {
			for _, in := range b.Instrs {
				bo, ok := in.(*ssa.BinOp)
				if !ok {
					continue
				}
				t := Term(bo)
				if strings.Contains(t, ".NumIn()") {
					switch {
					case bo.Op == token.LSS && Term(bo.Y) == "1", bo.Op == token.EQL && Term(bo.Y) == "0", bo.Op == token.LEQ && Term(bo.Y) == "0":
						numInGuards = append(numInGuards, assumeCond(bo, true))
					case bo.Op == token.GEQ && Term(bo.Y) == "1", bo.Op == token.GTR && Term(bo.Y) == "0", bo.Op == token.NEQ && Term(bo.Y) == "0":
						numInGuards = append(numInGuards, assumeCond(bo, false))
					}
				}
			}
		}
		if len(numInGuards) == 0 {
			c.Ob("C10-D6", "sio.checkAckFunc/rejects-no-params", caf.Pos(), false, "checkAckFunc no longer tests NumIn() < 1 for handlers that take an error")
		} else {
			as := append(numInGuards, Assume{regexpQuote(vname(caf.Params[1])), true})
			r, trail := PrunedCanReach(caf, nil, as, func(in ssa.Instruction) bool {
				ret, ok := in.(*ssa.Return)
				if !ok || len(ret.Results) != 1 {
					return false
				}
				k, isK := ret.Results[0].(*ssa.Const)
				return isK && k.Value == nil
			}, nil)
			c.Ob("C10-D6", "sio.checkAckFunc/rejects-no-params", caf.Pos(), !r, "a hasError ack function without parameters is accepted: onAck then slices inputArgs[1:] of an empty slice when the peer acknowledges: "+trailString(p, trail))
		}
	}
}

func flipAll(as []Assume) []Assume {
	out := make([]Assume, len(as))
	for i, a := range as {
		out[i] = Assume{a.Re, !a.Val}
	}
	return out
}

func init() {
	debugHooks["c10scope"] = func(p *Program) {
		entries := []*ssa.Function{p.Fn("sio", "serverConn.onEIOPacket"), p.Fn("sio", "Manager.onEIOPacket")}
		scope := decodeScope(p, entries, map[string]bool{"sio": true, "jsonparser": true, "parser": true}, map[*ssa.Function]string{})
		for fn, path := range scope {
			fmt.Println(FuncName(fn), "<-", strings.Join(path, " → "))
		}
	}
}

// ---------------------------------------------------------------- reflect validity typestate

// reflectMayBeInvalid: v can be the zero reflect.Value (calling almost any
// method on it panics inside package reflect).
func reflectMayBeInvalid(v ssa.Value, depth int, seen map[ssa.Value]bool) bool {
	if depth > 8 || seen[v] {
		return false
	}
	seen[v] = true
	switch x := v.(type) {
	case *ssa.Call:
		sc := x.Call.StaticCallee()
		if sc == nil {
			return false
		}
		switch sc.String() {
		case "(reflect.Value).MapIndex", "(reflect.Value).FieldByName", "(reflect.Value).FieldByNameFunc", "(reflect.Value).MethodByName", "reflect.Indirect":
			return true
		case "(reflect.Value).Elem":
			// Elem of a freshly made pointer is valid
			if rc, ok := x.Call.Args[0].(*ssa.Call); ok && rc.Call.StaticCallee() != nil {
				switch rc.Call.StaticCallee().String() {
				case "reflect.New":
					return false
				}
			}
			return true
		}
		return false
	case *ssa.Phi:
		for _, e := range x.Edges {
			if reflectMayBeInvalid(e, depth+1, seen) {
				return true
			}
		}
	}
	return false
}

// invalidAssumes: for every branch condition of fn that says something about the validity of v, the outcome it has
// when v is the zero Value: v.IsValid() false, v.Kind() == K false, v.Kind() != K true (K a real kind), and for
// v = x.Elem(): x.IsNil() true (Elem of a non-nil interface or pointer is valid).
func invalidAssumes(fn *ssa.Function, v ssa.Value) []Assume {
	var as []Assume
	for _, cond := range validityConds(fn, v) {
		val := false
		if bo, ok := cond.(*ssa.BinOp); ok && bo.Op == token.NEQ {
			val = true
		}
		as = append(as, assumeCond(cond, val))
	}
	if call, ok := v.(*ssa.Call); ok && call.Call.StaticCallee() != nil && call.Call.StaticCallee().String() == "(reflect.Value).Elem" {
		x := call.Call.Args[0]
		for _, b := range fn.Blocks {
			for _, in := range b.Instrs {
				if c2, ok := in.(*ssa.Call); ok && c2.Call.StaticCallee() != nil && c2.Call.StaticCallee().String() == "(reflect.Value).IsNil" && (c2.Call.Args[0] == x || Term(c2.Call.Args[0]) == Term(x)) {
					as = append(as, assumeCond(c2, true))
				}
			}
		}
	}
	return as
}

// validityConds: the branch conditions of fn that decide whether v is a valid reflect.Value: v.IsValid(), and
// comparisons of v.Kind() with a real kind (== K: true implies valid; != K: false implies valid).
func validityConds(fn *ssa.Function, v ssa.Value) []ssa.Value {
	var out []ssa.Value
	isMethodOn := func(c ssa.Value, name string, recv ssa.Value) bool {
		call, ok := c.(*ssa.Call)
		if !ok || call.Call.StaticCallee() == nil || call.Call.StaticCallee().String() != "(reflect.Value)."+name {
			return false
		}
		return call.Call.Args[0] == recv
	}
	// kindOf: c computes v.Kind(), directly or as the twin phi of v (same block, edge i is Kind() of v's edge i)
	var kindOf func(c ssa.Value) bool
	kindOf = func(c ssa.Value) bool {
		if isMethodOn(c, "Kind", v) {
			return true
		}
		pk, ok := c.(*ssa.Phi)
		pv, ok2 := v.(*ssa.Phi)
		if !ok || !ok2 || pk.Block() != pv.Block() || len(pk.Edges) != len(pv.Edges) {
			return false
		}
		for i := range pk.Edges {
			if !isMethodOn(pk.Edges[i], "Kind", pv.Edges[i]) {
				// nested twin (second `if k == Interface { rv = rv.Elem(); k = rv.Kind() }`)
				ek, okk := pk.Edges[i].(*ssa.Phi)
				ev, okv := pv.Edges[i].(*ssa.Phi)
				if !okk || !okv || ek.Block() != ev.Block() || len(ek.Edges) != len(ev.Edges) {
					return false
				}
				for j := range ek.Edges {
					if !isMethodOn(ek.Edges[j], "Kind", ev.Edges[j]) {
						return false
					}
				}
			}
		}
		return true
	}
	for _, b := range fn.Blocks {
		for _, in := range b.Instrs {
			switch x := in.(type) {
			case *ssa.Call:
				if isMethodOn(x, "IsValid", v) {
					out = append(out, x)
				}
			case *ssa.BinOp:
				if x.Op != token.EQL && x.Op != token.NEQ {
					continue
				}
				k, isK := x.Y.(*ssa.Const)
				if !isK || k.Value == nil || k.Value.Kind() != constant.Int || k.Int64() == 0 { // reflect.Invalid == 0
					continue
				}
				if kindOf(x.X) {
					out = append(out, x)
				}
			}
		}
	}
	return out
}

func c10ReflectValidity(c *Ctx, scope map[*ssa.Function][]string) {
	p := c.P
	c.Rule("C10-D7", "reflect typestate on the decode side of parser/json: a reflect.Value that may be the zero Value (result of Elem of a possibly nil pointer/interface, MapIndex, FieldByName…) is used "+
		"— a method other than IsValid/Kind/String called on it, or passed to another function — only on paths where v.IsValid() or a Kind comparison with a real kind holds; otherwise package reflect panics on the decode goroutine", 10)
	safe := map[string]bool{"IsValid": true, "Kind": true, "String": true}
	n := 0
	var fns []*ssa.Function
	for fn := range scope {
		if strings.Contains(FuncName(fn), "jsonparser.reconstructor") {
			fns = append(fns, fn)
		}
	}
	sort.Slice(fns, func(i, j int) bool { return FuncName(fns[i]) < FuncName(fns[j]) })
	for _, fn := range fns {
		for _, b := range fn.Blocks {
			for _, in := range b.Instrs {
				call, ok := in.(*ssa.Call)
				if !ok {
					continue
				}
				sc := call.Call.StaticCallee()
				if sc == nil {
					continue
				}
				for ai, a := range call.Call.Args {
					if !strings.HasSuffix(a.Type().String(), "reflect.Value") {
						continue
					}
					isRecv := ai == 0 && strings.HasPrefix(sc.String(), "(reflect.Value).")
					if isRecv && safe[sc.Name()] {
						continue
					}
					if !isRecv && !p.inModule(sc) {
						// handing a possibly zero Value to reflect/other libraries: Set, SetMapIndex(k, zero) deletes — not a panic by itself
						continue
					}
					if !reflectMayBeInvalid(a, 0, map[ssa.Value]bool{}) {
						continue
					}
					n++
					as := invalidAssumes(fn, a)
					r, trail := PrunedCanReach(fn, nil, as, func(i2 ssa.Instruction) bool { return i2 == ssa.Instruction(call) }, nil)
					what := "method " + sc.Name() + " is called on it"
					if !isRecv {
						what = "it is passed to " + FuncName(sc)
					}
					c.Ob("C10-D7", FuncName(fn)+"/"+sc.Name()+"("+trunc(Term(a), 60)+")", call.Pos(), !r,
						fmt.Sprintf("%s may be the zero reflect.Value (%d validity tests found) and %s on a path where neither IsValid() nor a Kind test holds: %s", trunc(Term(a), 80), len(as), what, trailString(p, trail)))
				}
			}
		}
	}
	c.Note("C10-D7: %d uses of possibly zero reflect.Values in %d decode-side functions", n, len(fns))
}

// c10NoReentry: nothing called synchronously while the connection's parser mutex
// is held may acquire that mutex again (Go mutexes are not re-entrant): the
// receive loop would block forever on itself, the error would never be reported
// and every later frame would be stuck behind it.
func c10NoReentry(c *Ctx) {
	p := c.P
	c.Rule("C10-D8", "no self-deadlock on the parser mutex: no function reachable by synchronous calls (VTA call graph, closures and interface calls included) from a call made while "+
		"serverConn.parserMu / Manager.parserMu is held acquires a mutex of that class — in particular the error path of onEIOPacket (onFatalError, onClose → resetParser) must leave the critical section or run on its own goroutine", 2)
	useCGForLocks = true
	edges := lockOrderEdges(p)
	for _, cls := range []string{"sio.serverConn.parserMu", "sio.Manager.parserMu"} {
		bad := false
		for _, e := range edges {
			if e.from == cls && e.to == cls && e.via != "direct" {
				bad = true
				c.Ob("C10-D8", cls+"@"+FuncName(e.fn), e.instr.Pos(), false, fmt.Sprintf("%s is held at this call and a function reachable from it (%s) locks a mutex of the same class: the receive path blocks on itself, the parse error is never reported and the connection is wedged", cls, e.via))
			}
		}
		if !bad {
			c.Ob("C10-D8", cls, p.Fn("sio", "serverConn.onEIOPacket").Pos(), true, "")
		}
	}
	// the rule must see the lock at all: both onEIOPacket functions acquire their parserMu
	for _, fnn := range []string{"serverConn.onEIOPacket", "Manager.onEIOPacket"} {
		fn := p.Fn("sio", fnn)
		n := 0
		for _, cs := range Calls(fn) {
			if op, ok := lockOpOf(cs.Instr); ok && strings.HasSuffix(op.lock, "parserMu") {
				n++
			}
		}
		if n == 0 {
			c.Undecided("C10-D8: %s does not lock parserMu (lock not recognised)", fnn)
		}
	}
}

// c10ParserPerConnection: the reassembly state of a half-received binary packet
// lives in the Parser.  One peer that withholds an attachment must not make the
// next frame of ANOTHER connection disappear as that attachment: every
// connection owns its parser.
func c10ParserPerConnection(c *Ctx) {
	c.Rule("C10-D9", "each connection decodes with its own parser: the Creator returned by jsonparser.NewCreator allocates a new Parser on every call (the value it returns is allocated inside the closure, not captured), "+
		"and both newServerConn and the Manager obtain their parser by calling the creator — a shared Parser shares the attachment reassembly state, so one peer that withholds an attachment swallows other connections' frames", 3)
	c10ParserPerConnectionRule(c, "C10-D9")
}

func c10ParserPerConnectionRule(c *Ctx, rule string) {
	p := c.P
	nc := p.Fn("jsonparser", "NewCreator")
	n := 0
	for _, cl := range nc.AnonFuncs {
		if cl.Signature.Results().Len() != 1 {
			continue
		}
		for _, ret := range effReturns(cl) {
			n++
			v := ret.Results[0]
			for {
				if mi, ok := v.(*ssa.MakeInterface); ok {
					v = mi.X
					continue
				}
				break
			}
			al, isAlloc := v.(*ssa.Alloc)
			c.Ob(rule, "jsonparser.NewCreator/fresh-parser-per-call", ret.Pos(), isAlloc && al.Parent() == cl && al.Heap, "the creator returns "+Term(v)+", which is not allocated by this call: every connection would decode with the same Parser")
		}
	}
	if n == 0 {
		c.Ob(rule, "jsonparser.NewCreator/fresh-parser-per-call", nc.Pos(), false, "NewCreator does not return a creator closure that builds a Parser")
	}
	for _, a := range []struct{ fn, field string }{{"newServerConn", "serverConn"}, {"NewManager", "Manager"}} {
		fn := p.Fn("sio", a.fn)
		pf := p.Field("sio", a.field, "parser")
		sts := []ssa.Instruction{}
		for _, f := range WithAnons(fn) {
			sts = append(sts, findInstrs(f, fieldStorePred(pf))...)
		}
		if len(sts) == 0 {
			c.Ob(rule, "sio."+a.fn+"/own-parser", fn.Pos(), false, "the constructor does not set "+a.field+".parser")
			continue
		}
		for _, st := range sts {
			t := Term(st.(*ssa.Store).Val)
			c.Ob(rule, "sio."+a.fn+"/own-parser", st.Pos(), strings.HasPrefix(t, "dyn:") && strings.HasSuffix(t, "()"), a.field+".parser is set to "+t+": it must be the result of calling the parser creator for this connection")
		}
	}
}

// loadOfCellHolding: x is a load of a local cell (a variable captured by a closure lives in one) whose only
// store is v.
func loadOfCellHolding(x, v ssa.Value) bool {
	ld, ok := x.(*ssa.UnOp)
	if !ok || ld.Op != token.MUL {
		return false
	}
	al, ok := ld.X.(*ssa.Alloc)
	if !ok || al.Referrers() == nil {
		return false
	}
	n, match := 0, false
	for _, r := range *al.Referrers() {
		if st, isSt := r.(*ssa.Store); isSt && st.Addr == ssa.Value(al) {
			n++
			if st.Val == v {
				match = true
			}
		}
	}
	return n == 1 && match
}
