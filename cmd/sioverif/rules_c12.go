package main

// C12 — middlewares gate admission and events.

import (
	"fmt"
	"strings"

	"golang.org/x/tools/go/ssa"
)

func init() {
	register(&PropertySpec{
		ID:         "C12",
		NotDecided: "behaviour for all chains of middlewares and concurrent connects (a program/schedule property); decided are the chain shape (slice order, abort on first non-nil), admission dominated by chain success or the documented skip, nothing observable before the chain, rejection turned into CONNECT_ERROR carrying the rejection, and the event chain dominating the handler call and receiving the event name.",
		Run:        runC12,
	})
}

func chainShape(c *Ctx, rule, short, fnName, field, callPat, lockField string) {
	p := c.P
	fn := p.Fn(short, fnName)
	name := short + "." + fnName
	calls := findInstrs(fn, func(in ssa.Instruction) bool {
		ci, ok := in.(*ssa.Call)
		if !ok {
			return false
		}
		n := calleeName(&ci.Call)
		return strings.HasPrefix(n, "dyn:") && strings.Contains(n, field) || (callPat != "" && callPred(callPat)(in))
	})
	if len(calls) != 1 {
		c.Ob(rule, name+"/call-site", fn.Pos(), false, fmt.Sprintf("expected exactly one middleware invocation site, found %d", len(calls)))
		return
	}
	call := calls[0].(*ssa.Call)
	T := Term(call)
	c.Ob(rule, name+"/in-loop", call.Pos(), inLoop(call.Block()), "the middleware invocation is not in a loop over the chain")
	// iterates the registered chain (or a copy of it) by increasing index
	src := T
	// the chain walked is the registry field itself, or a clone of it taken in this very call — not a cached copy
	okSrc := regexpMustCompile(`.*(slices\.Clone\()?`+regexpQuote(recvOf(fn)+"."+field)+`\)?\[idx<.*`).MatchString(src)
	c.Ob(rule, name+"/iterates-chain-in-order", call.Pos(), okSrc, "invoked function is "+calleeName(&call.Call)+" (expected element [i] of "+recvOf(fn)+"."+field+" for the range index i)")
	// abort on first non-nil
	again, trail := PrunedCanReach(fn, call, []Assume{{regexpQuote("(" + T + " != nil)"), true}, {regexpQuote("(" + T + " == nil)"), false}}, func(in ssa.Instruction) bool { return in == ssa.Instruction(call) }, nil)
	c.Ob(rule, name+"/abort-on-first-rejection", call.Pos(), !again, "after a middleware returned non-nil the next middleware is still invoked: "+trailString(p, trail))
	// a rejection returns non-nil
	for _, b := range fn.Blocks {
		ret, ok := b.Instrs[len(b.Instrs)-1].(*ssa.Return)
		if !ok || len(ret.Results) != 1 || (len(b.Preds) == 0 && b.Index != 0) {
			continue
		}
		rt := Term(ret.Results[0])
		reachRej, _ := PrunedCanReach(fn, call, []Assume{{regexpQuote("(" + T + " != nil)"), true}, {regexpQuote("(" + T + " == nil)"), false}}, func(in ssa.Instruction) bool { return in == ret }, nil)
		if reachRej {
			c.Ob(rule, name+"/rejection-returned", ret.Pos(), rt != "nil", "after a rejection the chain returns nil (the rejection is swallowed)")
		}
		// returning nil only when every middleware accepted: unreachable directly from a non-nil result is covered above;
		// a nil return must not be reachable from the loop body without the loop being exhausted
		if rt == "nil" {
			okDone := false
			for _, g := range GuardTerms(ret) {
				if strings.Contains(g, "idx<") && strings.HasSuffix(g, "==false") {
					okDone = true
				}
			}
			c.Ob(rule, name+"/accept-only-after-whole-chain", ret.Pos(), okDone, "the chain reports success before every middleware ran")
		}
	}
	// user code is not called under the registration lock (Use from a middleware would deadlock)
	li := Locks(fn)
	c.Ob(rule, name+"/no-lock-while-calling", call.Pos(), !li.HoldsAny(call, recvOf(fn)+"."+lockField), "middleware invoked with "+lockField+" held; held="+li.Held(call).String())
}

func recvOf(fn *ssa.Function) string { return vname(fn.Params[0]) }

func runC12(c *Ctx) {
	p := c.P

	c.Rule("C12-D1", "chain shape: middlewares run in registration (slice) order, the first non-nil result aborts the chain and is returned, success only after the whole chain; Use appends under the write lock", 12)
	chainShape(c, "C12-D1", "sio", "Namespace.runMiddlewares", "middlewareFuncs", "", "middlewareFuncsMu")
	chainShape(c, "C12-D1", "sio", "serverSocket.callMiddlewares", "middlewareFuncs", `\(\*sio\.serverSocket\)\.callMiddlewareFunc`, "middlewareFuncsMu")
	for _, tn := range []string{"Namespace", "serverSocket"} {
		fn := p.Fn("sio", tn+".Use")
		li := Locks(fn)
		fv := p.Field("sio", tn, "middlewareFuncs")
		sts := findInstrs(fn, fieldStorePred(fv))
		ok := len(sts) == 1 && strings.HasPrefix(Term(sts[0].(*ssa.Store).Val), "append("+recvOf(fn)+".middlewareFuncs, ") && li.HoldsW(sts[0], recvOf(fn)+".middlewareFuncsMu")
		c.Ob("C12-D1", "sio."+tn+".Use/appends", fn.Pos(), ok, "Use must append to middlewareFuncs under the write lock (registration order = execution order)")
	}
	{
		// the rejection value is what the middleware returned
		fn := p.Fn("sio", "Namespace.runMiddlewares")
		fv := p.Field("sio", "middlewareError", "v")
		sts := findInstrs(fn, fieldStorePred(fv))
		ok := len(sts) == 1 && strings.HasPrefix(Term(sts[0].(*ssa.Store).Val), "dyn:")
		v := ""
		if len(sts) > 0 {
			v = Term(sts[0].(*ssa.Store).Val)
		}
		c.Ob("C12-D1", "sio.Namespace.runMiddlewares/carries-rejection", fn.Pos(), ok, "middlewareError.v = "+v+" (expected the middleware's own return value)")
		// middleware receives this socket and handshake
		for _, cs := range Calls(fn) {
			if strings.HasPrefix(cs.Name, "dyn:") && len(cs.Common().Args) == 2 {
				c.Ob("C12-D1", "sio.Namespace.runMiddlewares/args", cs.Pos(), Term(cs.Common().Args[0]) == "socket" && Term(cs.Common().Args[1]) == "handshake", "middleware called with ("+Term(cs.Common().Args[0])+", "+Term(cs.Common().Args[1])+")")
			}
		}
	}

	c.Rule("C12-D2", "admission after the chain: doConnect is reachable only after runMiddlewares returned nil, or on the documented skip (recovery enabled ∧ ¬UseMiddlewares ∧ socket recovered); connected=true, the own-room join and the connection handlers happen only under onConnect/doConnect", 10)
	{
		fn := p.Fn("sio", "Namespace.add")
		rms := CallsTo(Calls(fn), `\(\*sio\.Namespace\)\.runMiddlewares`)
		dcs := CallsTo(Calls(fn), `\(\*sio\.Namespace\)\.doConnect`)
		if len(rms) != 1 || len(dcs) == 0 {
			c.Ob("C12-D2", "sio.Namespace.add/shape", fn.Pos(), false, fmt.Sprintf("expected one runMiddlewares and at least one doConnect call; found %d and %d", len(rms), len(dcs)))
		} else {
			rm := rms[0]
			T := Term(rm.Instr.(*ssa.Call))
			isDC := callPred(`\(\*sio\.Namespace\)\.doConnect`)
			reach, trail := PrunedCanReach(fn, rm.Instr, []Assume{{regexpQuote("(" + T + " != nil)"), true}, {regexpQuote("(" + T + " == nil)"), false}}, isDC, nil)
			c.Ob("C12-D2", "sio.Namespace.add/no-admission-after-rejection", rm.Pos(), !reach, "doConnect reachable although runMiddlewares returned an error: "+trailString(p, trail))
			// a rejected add returns the error and no socket
			for _, ret := range effReturns(fn) {
				if len(ret.Results) != 2 {
					continue
				}
				if r, _ := PrunedCanReach(fn, rm.Instr, []Assume{{regexpQuote("(" + T + " != nil)"), true}}, func(in ssa.Instruction) bool { return in == ret }, nil); r {
					c.Ob("C12-D2", "sio.Namespace.add/rejection-returned", ret.Pos(), Term(ret.Results[0]) == "nil" && Term(ret.Results[1]) == T, "after a rejection add returns ("+Term(ret.Results[0])+", "+Term(ret.Results[1])+") (expected nil and the chain's error)")
				}
			}
			isRM := func(in ssa.Instruction) bool { return in == rm.Instr }
			for _, as := range [][]Assume{
				{{`socket\.Recovered\(\)|.*\.Recovered\(\)`, false}},
				{{`.*\.connectionStateRecovery\.UseMiddlewares`, true}},
				{{`.*\.connectionStateRecovery\.Enabled`, false}},
			} {
				skip, trail := PrunedCanReach(fn, nil, as, isDC, isRM)
				c.Ob("C12-D2", "sio.Namespace.add/skip-only-as-documented["+as[0].Re+"="+fmt.Sprint(as[0].Val)+"]", fn.Pos(), !skip, "doConnect reachable without running the middlewares although the documented skip condition does not hold: "+trailString(p, trail))
			}
			// doConnect receives the socket the chain saw
			for _, dc := range dcs {
				c.Ob("C12-D2", "sio.Namespace.add/admits-checked-socket", dc.Pos(), Term(dc.Arg(0)) == Term(rm.Arg(0)), "doConnect("+Term(dc.Arg(0))+") but the chain checked "+Term(rm.Arg(0)))
			}
		}
		// connected = true only in onConnect
		fv := p.Field("sio", "serverSocket", "connected")
		for _, f := range p.SrcFuncs() {
			for _, st := range findInstrs(f, fieldStorePred(fv)) {
				if Term(st.(*ssa.Store).Val) == "true" {
					c.Ob("C12-D2", "serverSocket.connected=true@"+FuncName(f), st.Pos(), FuncName(f) == "(*sio.serverSocket).onConnect", "connected is set to true in "+FuncName(f))
				}
			}
		}
		oc := p.Fn("sio", "serverSocket.onConnect")
		j := CallsTo(Calls(oc), `\(\*sio\.serverSocket\)\.Join`)
		ownRoom := false
		for _, st := range findInstrs(oc, func(in ssa.Instruction) bool { _, ok := in.(*ssa.Store); return ok }) {
			s := st.(*ssa.Store)
			if ia, ok := s.Addr.(*ssa.IndexAddr); ok && strings.Contains(Term(s.Val), "s.ID()") && len(j) == 1 {
				if sl, ok := j[0].Arg(0).(*ssa.Slice); ok && sl.X == ia.X {
					ownRoom = true
				}
			}
		}
		c.Ob("C12-D2", "sio.serverSocket.onConnect/own-room", oc.Pos(), len(j) == 1 && ownRoom, "onConnect must join the socket's own room (Room(s.ID()))")
		// connection handlers only from doConnect
		for _, f := range p.SrcFuncs() {
			for _, cs := range CallsTo(Calls(f), `\(\*sio\.handlerStore\[T\]\)\.forEach`) {
				recv := stripAmp(Term(cs.Common().Args[0]))
				if strings.HasSuffix(recv, ".connectionHandlers") || strings.HasSuffix(recv, ".anyConnectionHandlers") {
					c.Ob("C12-D2", recv+".forEach@"+FuncName(f), cs.Pos(), FuncName(EnclosingTop(f)) == "(*sio.Namespace).doConnect", "connection handlers are run from "+FuncName(f)+" (only doConnect, i.e. after the chain, may)")
				}
			}
		}
		whoMayCall(c, "C12-D2", `\(\*sio\.Namespace\)\.doConnect`, []string{"(*sio.Namespace).add"}, true)
		whoMayCall(c, "C12-D2", `\(\*sio\.serverSocket\)\.onConnect`, []string{"(*sio.Namespace).doConnect"}, true)
		whoMayCall(c, "C12-D2", `\(\*sio\.nspSocketStore\)\.set`, []string{"(*sio.Namespace).doConnect"}, true)
	}

	c.Rule("C12-D3", "nothing before the chain: no code that Namespace.add runs before runMiddlewares joins a room, sends to the client or lists the socket", 1)
	beforeChain(c, "C12-D3")

	c.Rule("C12-D4", "rejection ⇒ CONNECT_ERROR with its data: a rejected add answers connectError with middlewareError.data(); data() yields the middleware's value (or its Error() text)", 3)
	{
		fn := p.Fn("sio", "serverConn.connect")
		ces := CallsTo(Calls(fn), `\(\*sio\.serverConn\)\.connectError`)
		found := false
		for _, ce := range ces {
			a := Term(ce.Arg(0))
			if strings.HasSuffix(a, ".data()") {
				found = HasGuard(ce.Instr, `errors\.As\(.*\)==true`)
				c.Ob("C12-D4", "sio.serverConn.connect/data-forwarded", ce.Pos(), found && strings.Contains(Term(ce.Arg(1)), "Name()"), "connectError("+a+", "+Term(ce.Arg(1))+") must send the middleware's data for the namespace being joined, under errors.As(err, &mErr)")
			}
		}
		if !found {
			c.Ob("C12-D4", "sio.serverConn.connect/data-forwarded", fn.Pos(), false, "no connectError(mErr.data(), …) on the rejection path")
		}
		ce := p.Fn("sio", "serverConn.connectError")
		// CONNECT_ERROR type and the message field
		tf := p.Field("parser", "PacketHeader", "Type")
		sts := findInstrs(ce, fieldStorePred(tf))
		c.Ob("C12-D4", "sio.serverConn.connectError/type", ce.Pos(), len(sts) == 1 && Term(sts[0].(*ssa.Store).Val) == "4", "connectError must send a CONNECT_ERROR (type 4) packet")
		nf := p.Field("parser", "PacketHeader", "Namespace")
		sts2 := findInstrs(ce, fieldStorePred(nf))
		c.Ob("C12-D4", "sio.serverConn.connectError/namespace", ce.Pos(), len(sts2) == 1 && Term(sts2[0].(*ssa.Store).Val) == "nsp", "CONNECT_ERROR must be addressed to the namespace given")
		mf := p.Field("sio", "connectError", "Message")
		sts3 := findInstrs(ce, fieldStorePred(mf))
		okm := len(sts3) == 1 && strings.Contains(Term(sts3[0].(*ssa.Store).Val), "message")
		c.Ob("C12-D4", "sio.serverConn.connectError/message", ce.Pos(), okm, "CONNECT_ERROR.message must carry the given message")
		d := p.Fn("sio", "middlewareError.data")
		okd := true
		for _, b := range d.Blocks {
			if ret, ok := b.Instrs[len(b.Instrs)-1].(*ssa.Return); ok && len(ret.Results) == 1 {
				t := Term(ret.Results[0])
				if t != "e.v" && !strings.Contains(t, "e.v.(error)#0.Error()") {
					okd = false
				}
			}
		}
		c.Ob("C12-D4", "sio.middlewareError.data", d.Pos(), okd, "data() must return the stored value or its Error() text")
	}

	c.Rule("C12-D7", "nothing of a refused socket remains (F44): in Namespace.add every path on which runMiddlewares returned an error passes leaveAll() before it returns", 1)
	refusedSocketLeavesNothing(c, "C12-D7")

	c.Rule("C12-D8", "the event middlewares see each event once (F63, known finding): the ServerSocket.Use chain is not run inside the per-handler call", 1)
	eventMiddlewaresOncePerPacket(c, "C12-D8")

	c.Rule("C12-D6", "every registered middleware is in the chain: Namespace.Use and serverSocket.Use append their argument on every path that returns normally — no early return before the append (a 'skip duplicates' "+
		"test compares function identity by code pointer, so two closures of one literal look equal and the second gate is silently dropped)", 2)
	for _, name := range []string{"Namespace.Use", "serverSocket.Use"} {
		fn := p.Fn("sio", name)
		isAppend := func(in ssa.Instruction) bool {
			st, ok := in.(*ssa.Store)
			if !ok || !strings.HasSuffix(Addr(st.Addr), ".middlewareFuncs") {
				return false
			}
			call, ok := st.Val.(*ssa.Call)
			if !ok {
				return false
			}
			b, ok := call.Call.Value.(*ssa.Builtin)
			return ok && b.Name() == "append"
		}
		skip, trail := CanReachExitAvoiding(fn, nil, isAppend)
		c.Ob("C12-D6", "sio."+name+"/always-appends", fn.Pos(), !skip && len(findInstrs(fn, isAppend)) >= 1, "a path through Use returns without appending the middleware: "+trailString(p, trail))
	}

	c.Rule("C12-D5", "event chain: the handler call is preceded on every path by callMiddlewares, is unreachable when it returned an error, and the chain receives the event name as its first value followed by the decoded arguments", 5)
	{
		fn := p.Fn("sio", "serverSocket.onEvent")
		cms := CallsTo(Calls(fn), `\(\*sio\.serverSocket\)\.callMiddlewares`)
		hcs := CallsTo(Calls(fn), `\(\*sio\.eventHandler\)\.call`)
		if len(cms) != 1 || len(hcs) != 1 {
			c.Ob("C12-D5", "sio.serverSocket.onEvent/shape", fn.Pos(), false, fmt.Sprintf("expected one callMiddlewares and one handler.call; found %d and %d", len(cms), len(hcs)))
		} else {
			cm, hc := cms[0], hcs[0]
			T := Term(cm.Instr.(*ssa.Call))
			early, trail := CanReachAvoiding(fn, nil, func(in ssa.Instruction) bool { return in == hc.Instr }, func(in ssa.Instruction) bool { return in == cm.Instr })
			c.Ob("C12-D5", "sio.serverSocket.onEvent/chain-before-handler", hc.Pos(), !early, "the handler is reachable without running the event middlewares: "+trailString(p, trail))
			rej, trail2 := PrunedCanReach(fn, cm.Instr, []Assume{{regexpQuote("(" + T + " != nil)"), true}, {regexpQuote("(" + T + " == nil)"), false}}, func(in ssa.Instruction) bool { return in == hc.Instr }, nil)
			c.Ob("C12-D5", "sio.serverSocket.onEvent/rejected-event-not-handled", hc.Pos(), !rej, "the handler is reachable although an event middleware returned an error: "+trailString(p, trail2))
			sil, trail3 := PrunedCanReach(fn, cm.Instr, []Assume{{regexpQuote("(" + T + " != nil)"), true}}, nil, callPred(`\(\*sio\.serverSocket\)\.onError`))
			c.Ob("C12-D5", "sio.serverSocket.onEvent/rejection-reported", cm.Pos(), !sil, "a middleware rejection is not reported to the socket's error handlers: "+trailString(p, trail3))
			// first value = event name, rest = decoded values
			arg := cm.Arg(0)
			okName := false
			detail := "callMiddlewares receives " + Term(arg)
			if ap, ok := arg.(*ssa.Call); ok && calleeName(&ap.Call) == "append" && Term(ap.Call.Args[1]) == Term(hc.Arg(0)) && strings.Contains(Term(hc.Arg(0)), "decode(") {
				if sl, ok := ap.Call.Args[0].(*ssa.Slice); ok {
					if al, ok := sl.X.(*ssa.Alloc); ok {
						for _, r := range *al.Referrers() {
							if ia, ok := r.(*ssa.IndexAddr); ok && Term(ia.Index) == "0" {
								for _, r2 := range *ia.Referrers() {
									if st, ok := r2.(*ssa.Store); ok && Term(st.Val) == "reflect.ValueOf(eventName)" {
										okName = true
									}
								}
							}
						}
					}
				}
			}
			c.Ob("C12-D5", "sio.serverSocket.onEvent/chain-gets-event-name", cm.Pos(), okName, detail+" (expected reflect.ValueOf(eventName) followed by the decoded values): middlewares would take the first argument for the name")
			// the handler gets the decoded values (not the middleware's slice)
			c.Ob("C12-D5", "sio.serverSocket.onEvent/handler-gets-values", hc.Pos(), strings.HasPrefix(Term(hc.Arg(0)), "dyn:decode(handler.inputArgs)#0"), "handler.call receives "+Term(hc.Arg(0))+" (expected the values decoded for this handler)")
		}
		// eventName comes from onPacket's parameter
		op := p.Fn("sio", "serverSocket.onPacket")
		for _, cs := range CallsTo(Calls(op), `\(\*sio\.serverSocket\)\.onEvent`) {
			c.Ob("C12-D5", "sio.serverSocket.onPacket/passes-event-name", cs.Pos(), Term(cs.Arg(0)) == "eventName", "onEvent receives event name "+Term(cs.Arg(0)))
		}
		mf := p.Fn("sio", "serverSocket.callMiddlewareFunc")
		rc := CallsTo(Calls(mf), `\(reflect\.Value\)\.Call`)
		c.Ob("C12-D5", "sio.serverSocket.callMiddlewareFunc/calls-with-values", mf.Pos(), len(rc) == 1 && Term(rc[0].Arg(0)) == "values", "the middleware function must be called with the values it was given")
		// a non-nil error result is returned
		okRet := false
		for _, b := range mf.Blocks {
			for _, in := range b.Instrs {
				if st, ok := in.(*ssa.Store); ok && Addr(st.Addr) == "err" && strings.Contains(Term(st.Val), ".Interface().(error)") {
					okRet = true
				}
			}
		}
		c.Ob("C12-D5", "sio.serverSocket.callMiddlewareFunc/returns-error", mf.Pos(), okRet, "the middleware's error result must be returned")
	}
}

// beforeChain: effects reachable from calls that Namespace.add makes before
// runMiddlewares.
func beforeChain(c *Ctx, rule string) {
	p := c.P
	fn := p.Fn("sio", "Namespace.add")
	rms := CallsTo(Calls(fn), `\(\*sio\.Namespace\)\.runMiddlewares`)
	if len(rms) != 1 {
		c.Ob(rule, "sio.Namespace.add/chain", fn.Pos(), false, "runMiddlewares call not found")
		return
	}
	isRM := func(in ssa.Instruction) bool { return in == rms[0].Instr }
	effect := `\(\*sio\.serverSocket\)\.Join|\(adapter\.Adapter\)\.AddAll|\(\*sio\.serverConn\)\.sendBuffers|\(\*sio\.nspSocketStore\)\.set|\(\*sio\.serverSocketStore\)\.set|\(\*sio\.serverSocket\)\.(sendControlPacket|emit|onConnect)`
	n := 0
	seen := map[*ssa.Function]bool{}
	for _, cs := range Calls(fn) {
		if cs.Instr == rms[0].Instr {
			continue
		}
		// executed before the chain on some path?
		if before, _ := CanReachAvoiding(fn, cs.Instr, isRM, nil); !before {
			continue
		}
		callee := cs.Common().StaticCallee()
		if callee == nil || !p.inModule(callee) {
			continue
		}
		// effects in the callee (depth 2 through static module callees; closures created are not run here)
		var visit func(f *ssa.Function, d int, path string)
		visit = func(f *ssa.Function, d int, path string) {
			if seen[f] || f.Blocks == nil {
				return
			}
			seen[f] = true
			for _, e := range CallsTo(Calls(f), effect) {
				n++
				c.Ob(rule, FuncName(f)+"→"+shortCallee(e.Name), e.Pos(), false, "before the middleware chain ran, "+path+" calls "+e.Name+": a connection that a middleware then rejects has already joined rooms / been sent packets, and nothing removes them")
			}
			if d > 0 {
				for _, cs2 := range Calls(f) {
					if sc := cs2.Common().StaticCallee(); sc != nil && p.inModule(sc) {
						visit(sc, d-1, path+"→"+FuncName(sc))
					}
				}
			}
		}
		visit(callee, 1, "Namespace.add→"+FuncName(callee))
	}
	// direct effects in add itself before the chain
	for _, e := range CallsTo(Calls(fn), effect) {
		if before, _ := CanReachAvoiding(fn, e.Instr, isRM, nil); before {
			n++
			c.Ob(rule, "sio.Namespace.add→"+shortCallee(e.Name), e.Pos(), false, "Namespace.add calls "+e.Name+" before the middleware chain")
		}
	}
	if n == 0 {
		c.Ob(rule, "sio.Namespace.add/clean-before-chain", fn.Pos(), true, "no join/send/listing reachable before runMiddlewares")
	}
}
