package main

import (
	"fmt"

	"golang.org/x/tools/go/ssa"
)

// cmdCallees <pkg> <func> : prints, per dynamic call site, the callees the VTA graph knows.
func cmdCallees(args []string) int {
	o := parseOpts(args)
	p := Load(o.repo, "", nil)
	fn := p.Fn(o.rest[0], o.rest[1])
	cg := p.CallGraph()
	for _, f := range WithAnons(fn) {
		n := cg.Nodes[f]
		if n == nil {
			continue
		}
		for _, e := range n.Out {
			if e.Site == nil {
				continue
			}
			if e.Site.Common().StaticCallee() != nil {
				continue
			}
			_, isGo := e.Site.(*ssa.Go)
			fmt.Printf("%s: %s → %s (inModule=%v synthetic=%q go=%v)\n", p.Pos(e.Site.Pos()), FuncName(f), FuncName(e.Callee.Func), p.inModule(e.Callee.Func), e.Callee.Func.Synthetic, isGo)
		}
	}
	return 0
}

// cmdBounds <pkg> [Type.method|func] : runs the bounds prover and prints every obligation.
func cmdBounds(args []string) int {
	o := parseOpts(args)
	p := Load(o.repo, "", nil)
	var fns []*ssa.Function
	if len(o.rest) == 2 {
		fns = WithAnons(p.Fn(o.rest[0], o.rest[1]))
	} else {
		for _, f := range p.SrcFuncs() {
			top := EnclosingTop(f)
			if top.Pkg != nil {
				if s, _ := shortOf(top.Pkg.Pkg.Path()); s == o.rest[0] {
					fns = append(fns, f)
				}
			} else if obj := originOf(top).Object(); obj != nil && obj.Pkg() != nil {
				if s, _ := shortOf(obj.Pkg().Path()); s == o.rest[0] {
					fns = append(fns, f)
				}
			}
		}
	}
	np, nu := 0, 0
	ip := newInterproc(p, false)
	for _, f := range fns {
		for _, ob := range ip.proveFunc(f) {
			st := "PROVED"
			if !ob.Proved {
				st = "OPEN  "
				nu++
			} else {
				np++
			}
			fmt.Printf("%s %-7s %-28s %s  %s  %s %s\n", st, ob.Kind, p.Pos(ob.Instr.Pos()), FuncName(f), trunc(ob.Expr, 80), trunc(ob.Detail, 200), ob.Why)
		}
	}
	fmt.Printf("proved=%d open=%d\n", np, nu)
	return 0
}

func trunc(s string, n int) string {
	if len(s) > n {
		return s[:n] + "…"
	}
	return s
}

var debugHooks = map[string]func(p *Program){}

func cmdDebug(args []string) int {
	o := parseOpts(args)
	p := Load(o.repo, "", nil)
	h := debugHooks[o.rest[0]]
	if h == nil {
		fmt.Println("no such hook")
		return 2
	}
	h(p)
	return 0
}
