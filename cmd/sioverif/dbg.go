package main

import (
	"fmt"

	"golang.org/x/tools/go/ssa"
)

// cmdCallees <pkg> <func> : prints, per dynamic call site, the callees the VTA graph knows.
func cmdCallees(args []string) int {
	o := parseOpts(args)
	p := Load(o.repo, "", nil)
	fn := p.Fn(o.rest[0], o.rest[1])
	cg := p.CallGraph()
	for _, f := range WithAnons(fn) {
		n := cg.Nodes[f]
		if n == nil {
			continue
		}
		for _, e := range n.Out {
			if e.Site == nil {
				continue
			}
			if e.Site.Common().StaticCallee() != nil {
				continue
			}
			_, isGo := e.Site.(*ssa.Go)
			fmt.Printf("%s: %s → %s (inModule=%v synthetic=%q go=%v)\n", p.Pos(e.Site.Pos()), FuncName(f), FuncName(e.Callee.Func), p.inModule(e.Callee.Func), e.Callee.Func.Synthetic, isGo)
		}
	}
	return 0
}
