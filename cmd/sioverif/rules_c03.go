package main

// C03 — acks fire at most once, exactly once with a timeout, with the right reply.

import (
	"fmt"
	"go/token"
	"go/types"
	"strings"

	"golang.org/x/tools/go/ssa"
)

func init() {
	register(&PropertySpec{
		ID:         "C03",
		NotDecided: "which reply arrives, timer/reply races in real time, equality of the reply arguments; decided are the test-and-set shape of reply vs. timeout, delete-on-lookup of the ack entry, the id wiring, that the timeout path cannot be aborted by a panic in the purge, and lock pairing on the ack mutexes.",
		Run:        runC03,
	})
}

// anonContaining returns the nested closures of fn that contain a call matching pattern.
func anonContaining(fn *ssa.Function, pattern string) []*ssa.Function {
	var out []*ssa.Function
	for _, f := range WithAnons(fn)[1:] {
		if len(CallsTo(Calls(f), pattern)) > 0 {
			out = append(out, f)
		}
	}
	return out
}

// testAndSet checks one instance of the rule: in fn, under lock `lock`,
// the flag `otherFlag` is tested and `ownFlag` set in one critical section,
// and `action` is unreachable once otherFlag was seen true, runs only after
// ownFlag was set, and runs with the lock released.
func testAndSet(c *Ctx, rule, name string, fn *ssa.Function, lock, otherFlag, ownFlag, action string) {
	li := Locks(fn)
	actions := findInstrs(fn, callPred(action))
	if len(actions) == 0 {
		c.Ob(rule, name+"/action", fn.Pos(), false, "no call matching "+action+" in "+FuncName(fn))
		return
	}
	tests := findInstrs(fn, loadPred(regexpQuote(otherFlag)))
	sets := findInstrs(fn, storeValPred(regexpQuote(ownFlag), "true"))
	c.Ob(rule, name+"/tests-"+otherFlag, fn.Pos(), len(tests) > 0, FuncName(fn)+" never reads "+otherFlag)
	c.Ob(rule, name+"/sets-"+ownFlag, fn.Pos(), len(sets) > 0, FuncName(fn)+" never sets "+ownFlag+" = true")
	for _, t := range tests {
		c.Ob(rule, name+"/test-under-lock", t.Pos(), li.HoldsAny(t, lock), otherFlag+" is read without "+lock+" held; held="+li.Held(t).String())
		for _, s := range sets {
			c.Ob(rule, name+"/one-critical-section", s.Pos(), SameRegion(li, t, s, lock), "testing "+otherFlag+" and setting "+ownFlag+" are not in one critical section of "+lock+": both sides can win")
		}
	}
	for _, s := range sets {
		c.Ob(rule, name+"/set-under-lock", s.Pos(), li.HoldsW(s, lock), ownFlag+" is set without "+lock+" held; held="+li.Held(s).String())
	}
	// action unreachable when the other side has won
	reach, trail := PrunedCanReach(fn, nil, []Assume{{regexpQuote(otherFlag), true}}, callPred(action), nil)
	c.Ob(rule, name+"/loser-does-not-act", actions[0].Pos(), !reach, "with "+otherFlag+"==true the action "+action+" is still reachable: "+trailString(c.P, trail))
	// action only after own flag set
	early, trail := CanReachAvoiding(fn, nil, callPred(action), storeValPred(regexpQuote(ownFlag), "true"))
	c.Ob(rule, name+"/set-before-act", actions[0].Pos(), !early, "the action is reachable without first setting "+ownFlag+": "+trailString(c.P, trail))
	for _, a := range actions {
		c.Ob(rule, name+"/act-outside-lock", a.Pos(), !li.HoldsAny(a, lock), "the action runs with "+lock+" held (a callback that re-enters would deadlock)")
	}
}

func runC03(c *Ctx) {
	p := c.P

	c.Rule("C03-D1", "test-and-set: reply path and timeout path test the other side's flag and set their own in one critical section; the loser does not invoke the callback; the callback runs outside the lock", 30)
	testAndSet(c, "C03-D1", "ackHandler.call", p.Fn("sio", "ackHandler.call"), "f.mu", "f.timedOut", "f.called", `\(reflect\.Value\)\.Call`)
	{
		fn := p.Fn("sio", "newAckHandlerWithTimeout")
		tc := anonContaining(fn, `\(reflect\.Value\)\.Call`)
		if len(tc) != 1 {
			c.Ob("C03-D1", "newAckHandlerWithTimeout/timer-closure", fn.Pos(), false, fmt.Sprintf("expected exactly one closure invoking the callback, found %d", len(tc)))
		} else {
			testAndSet(c, "C03-D1", "ackTimeout", tc[0], "h.mu", "h.called", "h.timedOut", `\(reflect\.Value\)\.Call`)
		}
	}
	for _, a := range []struct{ short, fn string }{{"sio", "serverSocket.onPacket"}, {"sio", "clientSocket.onPacket"}} {
		fn := p.Fn(a.short, a.fn)
		cl := anonContaining(fn, `\(\*sio\.(server|client)Socket\)\.sendAckPacket`)
		if len(cl) != 1 {
			c.Ob("C03-D1", a.fn+"/sendAck-closure", fn.Pos(), false, fmt.Sprintf("expected exactly one sendAck closure, found %d", len(cl)))
			continue
		}
		testAndSet(c, "C03-D1", a.fn+"/sendAck", cl[0], "mu", "sent", "sent", `\(\*sio\.(server|client)Socket\)\.sendAckPacket`)
	}
	// nobody else touches called/timedOut
	for _, fld := range []string{"called", "timedOut"} {
		fv := p.Field("sio", "ackHandler", fld)
		for _, fn := range p.SrcFuncs() {
			for _, fa := range FieldAccesses(fn) {
				if fa.Field != fv {
					continue
				}
				li := Locks(fn)
				c.Ob("C03-D1", "ackHandler."+fld+"@"+FuncName(fn), fa.Instr.Pos(), li.HoldsAny(fa.Instr, fa.Base+".mu"), "ackHandler."+fld+" accessed without the handler's mutex; held="+li.Held(fa.Instr).String())
				// each flag is SET only by the side it belongs to, which then runs the callback on every path:
				// a third place that sets `called` (say, before decoding the reply) silences the timer without calling anybody
				if fa.Write {
					owner := FuncName(ownerOf(EnclosingTop(fn)))
					want := map[string]string{"called": "(*sio.ackHandler).call", "timedOut": "sio.newAckHandlerWithTimeout"}[fld]
					c.Ob("C03-D1", "ackHandler."+fld+"/set-only-by-its-side@"+FuncName(fn), fa.Instr.Pos(), owner == want, "ackHandler."+fld+" is set in "+FuncName(fn)+"; only "+want+" may set it, because that is the function that then invokes the callback on every path — setting it elsewhere makes the other side stand down while nobody calls back")
				}
			}
		}
	}

	c03CallbackOwners(c)
	c.Rule("C03-D9", "a buffered event is acknowledged only through a handler's ack function (F38, F42): emitBuffered itself neither records an ack id as answered nor sends an ACK packet — an ACK made up on behalf of "+
		"a handler without an ack function uses up the id, so the real reply (sent after the handler returned, or by another handler of the same event) is dropped; the sendAck closure is the one sender", 2)
	deferredAckNotSuppressed(c, "C03-D9")
	c.Rule("C03-D10", "the retry queue's replacement ack acts only for its own packet (F39): every pop of queuedPackets[1:] in the replacement closure of addToQueue is behind the test queuedPackets[0] == packet made in "+
		"the same critical section of pq.mu, and the application's callback is invoked only behind that test", 2)
	replacementAckHeadGuard(c, "C03-D10")
	c.Rule("C03-D8", "a decoded header owns its storage (shared with C09-D12): every pointer field of the PacketHeader built in parser/json (the ack id) is set to the address of a variable of that call, nil, or a pointer "+
		"the caller passed — never to a field of the Parser or a package-level variable, which the next packet of the connection overwrites while this packet's handlers (dispatched on their own goroutines) still read it", 1)
	headerOwnsItsStorage(c, "C03-D8")

	c.Rule("C03-D11", "a queued emit keeps its timeout (F64, known finding): addToQueue receives the emit's timeout", 1)
	retryQueueKeepsTimeout(c, "C03-D11")

	c.Rule("C03-D5", "retry queue: the application's callback of a queued emit is invoked, and the packet leaves the queue, only on a final outcome — the reply, or the failure of the last allowed try (tryCount > Retries) — never on the failure of an intermediate try (the packet is re-sent then and will report again)", 2)
	{
		top := p.Fn("sio", "clientPacketQueue.addToQueue")
		n := 0
		for _, f := range WithAnons(top)[1:] {
			calls := CallsTo(Calls(f), `\(reflect\.Value\)\.Call`)
			if len(calls) == 0 {
				continue
			}
			// intermediate failure: the error argument is non-nil and tryCount <= Retries
			as := []Assume{{`!.*\.IsNil\(\)`, true}, {`.*\.IsNil\(\)`, false}, {`\(.*tryCount > .*Retries\)`, false}, {`\(.*tryCount <= .*Retries\)`, true}, {`\(.*tryCount >= .*Retries\)`, false}, {`\(.*Retries < .*tryCount\)`, false}}
			for _, cs := range calls {
				n++
				r, trail := PrunedCanReach(f, nil, as, func(in ssa.Instruction) bool { return in == cs.Instr }, nil)
				c.Ob("C03-D5", FuncName(f)+"/callback-only-on-final-outcome", cs.Pos(), !r, "the application's ack callback is invoked although this try failed and another try follows: it will be invoked again with the next outcome: "+trailString(p, trail))
			}
			pops := findInstrs(f, func(in ssa.Instruction) bool {
				st, ok := in.(*ssa.Store)
				return ok && strings.HasSuffix(Addr(st.Addr), ".queuedPackets")
			})
			for _, po := range pops {
				n++
				r, trail := PrunedCanReach(f, nil, as, func(in ssa.Instruction) bool { return in == po }, nil)
				c.Ob("C03-D5", FuncName(f)+"/dequeue-only-on-final-outcome", po.Pos(), !r, "the packet leaves the retry queue although this try failed and another try follows: "+trailString(p, trail))
			}
		}
		if n < 2 {
			c.Undecided("C03-D5: found %d callback/dequeue sites in the retry queue's replacement ack, expected at least 2", n)
		}
	}

	c.Rule("C03-D6", "ack ids are unique per emitter: the id counter is read and advanced in ONE critical section of its mutex (fetch-and-increment) and is stored nowhere else — two concurrent emits that read the same id "+
		"register two handlers under one key: one callback gets the other event's reply, the other only the timeout; and once an emit has registered an ack with a timeout, no later early return of emit can skip the send path "+
		"silently before the handler exists (a discarded volatile packet with a callback still gets ErrAckTimeout exactly once)", 5)
	for _, a := range []struct{ short, typ, fn, field, mu string }{
		{"sio", "Namespace", "Namespace.nextAckID", "ackID", "ackMu"},
		{"sio", "clientSocket", "clientSocket.nextAckID", "ackID", "acksMu"},
	} {
		fn := p.Fn(a.short, a.fn)
		fv := p.Field(a.short, a.typ, a.field)
		li := Locks(fn)
		recv := vname(fn.Params[0])
		name := "sio." + a.fn
		incs := findInstrs(fn, func(in ssa.Instruction) bool {
			st, ok := in.(*ssa.Store)
			if !ok || !fieldStorePred(fv)(in) {
				return false
			}
			bo, ok := st.Val.(*ssa.BinOp)
			return ok && bo.Op == token.ADD && Term(bo.Y) == "1" && isFieldLoadOf(bo.X, fv)
		})
		c.Ob("C03-D6", name+"/advances", fn.Pos(), len(incs) == 1 && li.HoldsW(incs[0], recv+"."+a.mu), "the id generator must advance the counter by one under "+a.mu+" in the very call that hands the id out")
		// the returned id is the counter value read in that same critical section
		for _, ret := range effReturns(fn) {
			okRet := false
			if len(ret.Results) == 1 && len(incs) == 1 {
				vals := []ssa.Value{ret.Results[0]}
				// a function with a defer returns through a result slot: look at what was stored into it
				if ld, isLd := ret.Results[0].(*ssa.UnOp); isLd {
					if al, isAl := ld.X.(*ssa.Alloc); isAl && al.Referrers() != nil {
						vals = nil
						for _, r := range *al.Referrers() {
							if st, isSt := r.(*ssa.Store); isSt && st.Addr == ssa.Value(al) {
								vals = append(vals, st.Val)
							}
						}
					}
				}
				okRet = len(vals) > 0
				for _, v := range vals {
					ld, isLd := v.(*ssa.UnOp)
					if !isLd || !isFieldLoadOf(ld, fv) || !li.HoldsW(ld, recv+"."+a.mu) || !SameRegion(li, ld, incs[0], recv+"."+a.mu) {
						okRet = false
					}
				}
			}
			c.Ob("C03-D6", name+"/fetch-and-increment", ret.Pos(), okRet, "the id returned is not the counter value read in the critical section that advances it: two concurrent callers can obtain the same id")
		}
		// nobody else stores the counter
		for _, f := range p.SrcFuncs() {
			if EnclosingTop(f) == fn {
				continue
			}
			for _, st := range findInstrs(f, fieldStorePred(fv)) {
				if rawTop(f) != f && EnclosingTop(f) == fn {
					continue
				}
				c.Ob("C03-D6", a.typ+"."+a.field+"/stored-only-by-generator@"+FuncName(f), st.Pos(), false, a.typ+"."+a.field+" is stored in "+FuncName(f)+": ids handed out before that store can be handed out again")
			}
		}
	}
	{
		// client emit: the ack handler is registered before any decision to discard the packet
		em := p.Fn("sio", "clientSocket.emit")
		reg := callPred(`\(\*sio\.clientSocket\)\.registerAckHandler`)
		send := callPred(`dyn:s\.sendBuffers|\(\*sio\.clientSocket\)\._sendBuffers|\(\*sio\.clientSocket\)\.sendBuffers.*`)
		if len(findInstrs(em, reg)) == 0 || len(findInstrs(em, send)) == 0 {
			c.Undecided("C03-D6: clientSocket.emit: registerAckHandler / sendBuffers call not found")
		} else {
			// with an ack function present and no retry queue, every path to a return passes registerAckHandler
			as := []Assume{{`\(s\.config\.Retries > 0\)`, false}, {`.*\.Kind\(\) == 19\)`, true}, {`\(.* != nil:.*\)|\(.* != nil\)`, true}}
			skip, trail := PrunedCanReach(em, nil, as, nil, func(in ssa.Instruction) bool { return reg(in) || isPanicOrErr(in) })
			c.Ob("C03-D6", "sio.clientSocket.emit/ack-registered-before-any-discard", em.Pos(), !skip, "an emit that carries an ack function can return before the ack was registered (for instance a volatile packet discarded early): its callback is never invoked, not even with the timeout: "+trailString(p, trail))
		}
	}

	c.Rule("C03-D2", "delete-on-lookup: onAck looks the ack up and deletes it in one acksMu critical section, calls it only when found; Emit places the registered id in the header", 14)
	for _, tn := range []string{"serverSocket", "clientSocket"} {
		fn := p.Fn("sio", tn+".onAck")
		li := Locks(fn)
		isLookup := func(in ssa.Instruction) bool {
			l, ok := in.(*ssa.Lookup)
			return ok && Term(l.X) == "s.acks" && l.CommaOk
		}
		isDelete := func(in ssa.Instruction) bool {
			cl, ok := in.(*ssa.Call)
			if !ok {
				return false
			}
			b, ok := cl.Call.Value.(*ssa.Builtin)
			return ok && b.Name() == "delete" && Term(cl.Call.Args[0]) == "s.acks"
		}
		looks := findInstrs(fn, isLookup)
		dels := findInstrs(fn, isDelete)
		name := "sio." + tn + ".onAck"
		if len(looks) != 1 || len(dels) < 1 {
			c.Ob("C03-D2", name+"/shape", fn.Pos(), false, fmt.Sprintf("expected one comma-ok lookup of s.acks and a delete; found %d lookups, %d deletes", len(looks), len(dels)))
			continue
		}
		lk := looks[0].(*ssa.Lookup)
		key := Term(lk.Index)
		c.Ob("C03-D2", name+"/key", lk.Pos(), key == "*header.ID", "ack looked up by "+key+" (expected the id of the received header)")
		for _, d := range dels {
			dk := Term(d.(*ssa.Call).Call.Args[1])
			c.Ob("C03-D2", name+"/delete-key", d.Pos(), dk == key, "deletes key "+dk+" but looked up "+key)
			c.Ob("C03-D2", name+"/one-critical-section", d.Pos(), SameRegion(li, looks[0], d, "s.acksMu"), "lookup and delete of the ack entry are not in one critical section of s.acksMu: two replies with the same id could both find it")
		}
		lookTerm := Term(lk)
		calls := findInstrs(fn, callPred(`\(\*sio\.ackHandler\)\.call`))
		if len(calls) == 0 {
			c.Ob("C03-D2", name+"/calls-ack", fn.Pos(), false, "onAck never calls the ack handler")
		}
		for _, cl := range calls {
			recv := stripAmp(Term(cl.(*ssa.Call).Call.Args[0]))
			c.Ob("C03-D2", name+"/calls-looked-up", cl.Pos(), recv == lookTerm+"#0", "ack.call receiver is "+recv+" (expected the looked-up entry "+lookTerm+"#0)")
			// unreachable when not found
			reach, trail := PrunedCanReach(fn, nil, []Assume{{regexpQuote(lookTerm + "#1"), false}}, func(in ssa.Instruction) bool { return in == cl }, nil)
			c.Ob("C03-D2", name+"/only-when-found", cl.Pos(), !reach, "ack.call reachable when the id was not found: "+trailString(p, trail))
			// delete before call on all paths
			early, trail := PrunedCanReach(fn, looks[0], []Assume{{regexpQuote(lookTerm + "#1"), true}}, func(in ssa.Instruction) bool { return in == cl }, isDelete)
			c.Ob("C03-D2", name+"/delete-before-call", cl.Pos(), !early, "ack.call reachable without deleting the entry first (a duplicate reply would fire the callback again): "+trailString(p, trail))
		}
	}
	// id wiring in emit and registration under the mutex
	for _, tn := range []string{"serverSocket", "clientSocket"} {
		fn := p.Fn("sio", tn+".emit")
		regs := CallsTo(Calls(fn), `\(\*sio\.`+tn+`\)\.registerAckHandler`)
		name := "sio." + tn + ".emit"
		if len(regs) != 1 {
			c.Ob("C03-D2", name+"/register", fn.Pos(), false, fmt.Sprintf("expected one registerAckHandler call, found %d", len(regs)))
		} else {
			// header.ID = &ackID ; ackID = result of registerAckHandler
			regv := regs[0].Instr.(*ssa.Call)
			okWire := false
			detail := "the id returned by registerAckHandler does not reach header.ID"
			for _, st := range findInstrs(fn, fieldStorePred(p.Field("parser", "PacketHeader", "ID"))) {
				s := st.(*ssa.Store)
				// value stored is &ackID (an Alloc) which is stored with regv
				if al, ok := s.Val.(*ssa.Alloc); ok {
					for _, r := range *al.Referrers() {
						if s2, ok := r.(*ssa.Store); ok && s2.Addr == al && s2.Val == regv {
							okWire = true
							detail = "header.ID = &" + vname(al) + ", " + vname(al) + " = " + Term(regv)
						}
					}
				}
			}
			c.Ob("C03-D2", name+"/id-wiring", regs[0].Pos(), okWire, detail)
			// timeout param forwarded
			arg := Term(regs[0].Arg(1))
			c.Ob("C03-D2", name+"/timeout-forwarded", regs[0].Pos(), arg == "timeout", "registerAckHandler receives timeout="+arg+" (expected the emit's timeout parameter)")
		}
		rf := p.Fn("sio", tn+".registerAckHandler")
		li := Locks(rf)
		ups := findInstrs(rf, func(in ssa.Instruction) bool {
			mu, ok := in.(*ssa.MapUpdate)
			return ok && Term(mu.Map) == "s.acks"
		})
		if len(ups) == 0 {
			c.Ob("C03-D2", "sio."+tn+".registerAckHandler/stores", rf.Pos(), false, "registerAckHandler never stores into s.acks")
		}
		for _, u := range ups {
			mu := u.(*ssa.MapUpdate)
			k := Term(mu.Key)
			c.Ob("C03-D2", "sio."+tn+".registerAckHandler/store", u.Pos(), li.HoldsW(u, "s.acksMu") && !strings.Contains(k, "header"), fmt.Sprintf("s.acks[%s] = … held=%s", k, li.Held(u)))
			// the key is the id returned
			rets := findInstrs(rf, func(in ssa.Instruction) bool { _, ok := in.(*ssa.Return); return ok })
			for _, r := range rets {
				rv := Term(r.(*ssa.Return).Results[0])
				c.Ob("C03-D2", "sio."+tn+".registerAckHandler/returns-key", r.Pos(), rv == k || strings.Contains(rv, k), "returns "+rv+" but registered under "+k)
			}
		}
	}

	c.Rule("C03-D3", "the timeout path cannot be aborted: with a timeout, registerAckHandler builds the handler with newAckHandlerWithTimeout; its timer closure sleeps for the given timeout, and between `timedOut = true` and the callback there is no delete-inside-range and no lock left held", 8)
	for _, tn := range []string{"serverSocket", "clientSocket"} {
		rf := p.Fn("sio", tn+".registerAckHandler")
		name := "sio." + tn + ".registerAckHandler"
		// assuming timeout != 0, must reach newAckHandlerWithTimeout before return
		skip, trail := PrunedCanReach(rf, nil, []Assume{{`\(timeout == 0\)`, false}, {`\(φ?\(?.*timeout.* == 0\)`, false}}, nil, callPred(`sio\.newAckHandlerWithTimeout`))
		c.Ob("C03-D3", name+"/timeout-handler", rf.Pos(), !skip, "with a non-zero timeout a path returns without newAckHandlerWithTimeout: "+trailString(p, trail))
		for _, cs := range CallsTo(Calls(rf), `sio\.newAckHandlerWithTimeout`) {
			t := Term(cs.Arg(1))
			c.Ob("C03-D3", name+"/timeout-arg", cs.Pos(), strings.Contains(t, "timeout"), "newAckHandlerWithTimeout receives "+t+" as timeout")
			// the timeout closure deletes the ack entry under acksMu
			cl, ok := cs.Arg(2).(*ssa.MakeClosure)
			if !ok {
				c.Ob("C03-D3", name+"/timeoutFunc", cs.Pos(), false, "timeoutFunc is not a closure literal")
				continue
			}
			tf := cl.Fn.(*ssa.Function)
			tli := Locks(tf)
			dels := findInstrs(tf, func(in ssa.Instruction) bool {
				c2, ok := in.(*ssa.Call)
				if !ok {
					return false
				}
				b, ok := c2.Call.Value.(*ssa.Builtin)
				return ok && b.Name() == "delete" && Term(c2.Call.Args[0]) == "s.acks"
			})
			c.Ob("C03-D3", name+"/timeoutFunc-deletes-entry", tf.Pos(), len(dels) > 0 && tli.HoldsW(dels[0], "s.acksMu"), "the timeout closure must delete the ack entry under acksMu (else a late reply finds it)")
			for l, at := range tli.LeakAtReturn {
				c.Ob("C03-D3", name+"/timeoutFunc-leak-"+l, at.Pos(), false, "lock "+l+" still held when the timeout closure returns")
			}
			c.Ob("C03-D3", name+"/timeoutFunc-no-leak", tf.Pos(), len(tli.LeakAtReturn) == 0, "locks left held by the timeout closure")
		}
	}
	// the purge removes ALL buffered frames of the timed-out ack id (a binary packet has several frames with one id)
	{
		rf := p.Fn("sio", "clientSocket.registerAckHandler")
		for _, cs := range CallsTo(Calls(rf), `sio\.newAckHandlerWithTimeout`) {
			cl, ok := cs.Arg(2).(*ssa.MakeClosure)
			if !ok {
				continue
			}
			tf := cl.Fn.(*ssa.Function)
			tli := Locks(tf)
			sts := findInstrs(tf, storePred(`s\.sendBuffer`))
			if len(sts) == 0 {
				c.Ob("C03-D3", "sio.clientSocket.registerAckHandler/purge", tf.Pos(), false, "the timeout closure never purges s.sendBuffer: frames of a timed-out emit would still be sent on connect")
			}
			for _, st := range sts {
				v := st.(*ssa.Store).Val
				t := Term(v)
				okAll := false
				detail := "s.sendBuffer = " + t
				if call, isCall := v.(*ssa.Call); isCall && strings.HasPrefix(calleeName(&call.Call), "slices.DeleteFunc") && Term(call.Call.Args[0]) == "s.sendBuffer" {
					// predicate: true only for frames carrying this id
					if pc, isCl := call.Call.Args[1].(*ssa.MakeClosure); isCl {
						pf := pc.Fn.(*ssa.Function)
						okAll = true
						for _, b := range pf.Blocks {
							ret, isRet := b.Instrs[len(b.Instrs)-1].(*ssa.Return)
							if !isRet || len(ret.Results) != 1 {
								continue
							}
							rt := Term(ret.Results[0])
							if rt == "false" {
								continue
							}
							if rt == "true" {
								if !HasGuard(ret, `\(\*packet\.ackID == id\)==true`) {
									okAll = false
									detail = "the purge predicate returns true without the guard `*packet.ackID == id`: it would drop frames of other packets"
								}
							} else if !strings.Contains(rt, "*packet.ackID == id") {
								okAll = false
								detail = "the purge predicate returns " + rt + ", not a test of this ack id"
							}
						}
					}
				} else if ph, isPhi := v.(*ssa.Phi); isPhi && inLoop(ph.Block()) {
					okAll = true // filter loop building the kept slice
				} else if inLoop(st.Block()) {
					okAll = true // element-wise filter in a loop over the buffer (delete-inside-range is checked separately)
				}
				if !okAll && !strings.Contains(detail, "predicate") {
					detail += " — this removes at most one frame, but every frame of a multi-frame (binary) packet carries the same ack id (see _sendBuffers); the remaining attachment frames would be flushed as orphans on connect"
				}
				c.Ob("C03-D3", "sio.clientSocket.registerAckHandler/purge-all-frames", st.Pos(), okAll && tli.HoldsW(st, "s.sendBufferMu"), detail+"; held="+tli.Held(st).String())
			}
		}
		// every frame of one packet is tagged with the same ack id
		sb := p.Fn("sio", "clientSocket._sendBuffers")
		fv := p.Field("sio", "sendBufferItem", "ackID")
		tag := findInstrs(sb, fieldStorePred(fv))
		okTag := len(tag) == 1 && Term(tag[0].(*ssa.Store).Val) == "ackID" && inLoop(tag[0].Block())
		c.Ob("C03-D3", "sio.clientSocket._sendBuffers/frames-tagged", sb.Pos(), okTag, "every buffered frame must be tagged with the emit's ack id (the purge finds them by it)")
	}
	delInRangeRule(c, "C03-D3", "sio", func(recv, name string) bool {
		switch name {
		case "registerAckHandler", "onAck", "newAckHandler", "newAckHandlerWithTimeout":
			return true
		}
		return false
	}, 20)
	{
		fn := p.Fn("sio", "newAckHandlerWithTimeout")
		gos := 0
		for _, cs := range Calls(fn) {
			if !cs.IsGo() {
				continue
			}
			gos++
			mc, ok := cs.Common().Value.(*ssa.MakeClosure)
			if !ok {
				c.Ob("C03-D3", "newAckHandlerWithTimeout/timer", cs.Pos(), false, "timer goroutine is not a closure literal")
				continue
			}
			tf := mc.Fn.(*ssa.Function)
			sl := CallsTo(Calls(tf), `time\.(Sleep|After|NewTimer)`)
			ok2 := len(sl) > 0 && Term(sl[0].Common().Args[0]) == "timeout"
			c.Ob("C03-D3", "newAckHandlerWithTimeout/waits-timeout", cs.Pos(), ok2, "the timer goroutine must wait for exactly the `timeout` parameter before testing `called`")
			// first arg of callback is ErrAckTimeout
			found := false
			for _, in := range findInstrs(tf, func(in ssa.Instruction) bool { _, ok := in.(*ssa.Store); return ok }) {
				if strings.Contains(Term(in.(*ssa.Store).Val), "ErrAckTimeout") {
					found = true
				}
			}
			c.Ob("C03-D3", "newAckHandlerWithTimeout/passes-ErrAckTimeout", cs.Pos(), found, "the timeout path does not pass ErrAckTimeout to the callback")
			// timeoutFunc called before the callback, after timedOut set
			tfc := findInstrs(tf, func(in ssa.Instruction) bool {
				cl, ok := in.(*ssa.Call)
				return ok && stripAmp(Term(cl.Call.Value)) == "timeoutFunc"
			})
			c.Ob("C03-D3", "newAckHandlerWithTimeout/calls-timeoutFunc", cs.Pos(), len(tfc) == 1, "the timer closure must call timeoutFunc (which removes the ack entry and purges buffered frames)")
		}
		c.Ob("C03-D3", "newAckHandlerWithTimeout/timer-goroutine", fn.Pos(), gos == 1, fmt.Sprintf("expected exactly one timer goroutine, found %d", gos))
		// the handler is built with hasError=true so the callback has an error slot
		for _, cs := range CallsTo(Calls(fn), `sio\.newAckHandler`) {
			c.Ob("C03-D3", "newAckHandlerWithTimeout/hasError", cs.Pos(), Term(cs.Arg(1)) == "true", "newAckHandler(f, "+Term(cs.Arg(1))+"): a timeout handler needs the error slot")
		}
	}

	c.Rule("C03-D4", "socket usable afterwards: on acksMu, sendBufferMu and ackHandler.mu every Lock is released on every path, and no panic is raised while one of them is held by a non-deferred Lock", 10)
	lockDiscipline(c, "C03-D4", func(lock string) bool {
		return strings.HasSuffix(lock, ".acksMu") || strings.HasSuffix(lock, ".sendBufferMu") || ((strings.HasPrefix(lock, "f.") || strings.HasPrefix(lock, "h.")) && strings.HasSuffix(lock, ".mu"))
	}, func(fn *ssa.Function) bool {
		pos := p.Fset.Position(fn.Pos()).Filename
		return strings.HasSuffix(pos, "/handler.go") || strings.HasSuffix(pos, "/client_socket.go") || strings.HasSuffix(pos, "/server_socket.go") || strings.HasSuffix(pos, "/client_packet_queue.go")
	})
}

// lockDiscipline: for all functions selected by fnSel and locks selected by
// lockSel: (a) no lock still held at a normal return without a deferred
// unlock, (b) no explicit panic while held by a non-deferred Lock, (c) no
// unlock of a lock that is not certainly held.
func lockDiscipline(c *Ctx, rule string, lockSel func(string) bool, fnSel func(*ssa.Function) bool) {
	for _, fn := range c.P.SrcFuncs() {
		if !fnSel(fn) {
			continue
		}
		li := Locks(fn)
		uses := false
		for _, b := range fn.Blocks {
			for _, in := range b.Instrs {
				if op, ok := lockOpOf(in); ok && lockSel(op.lock) {
					uses = true
				}
			}
		}
		if !uses {
			continue
		}
		name := FuncName(fn)
		bad := false
		for l, at := range li.LeakAtReturn {
			if lockSel(l) {
				bad = true
				c.Ob(rule, name+"/leak/"+l, at.Pos(), false, "lock "+l+" is still held at this return and no deferred unlock exists")
			}
		}
		for _, b := range fn.Blocks {
			for _, in := range b.Instrs {
				if _, ok := in.(*ssa.Panic); !ok {
					continue
				}
				for l := range li.Held(in) {
					if lockSel(l) && !li.Deferred[l] {
						bad = true
						c.Ob(rule, name+"/panic-under/"+l, in.Pos(), false, "explicit panic while "+l+" is held by a non-deferred Lock: the mutex stays locked for ever after a recovered panic")
					}
				}
			}
		}
		for _, u := range li.BadUnlock {
			if op, _ := lockOpOf(u); lockSel(op.lock) {
				bad = true
				c.Ob(rule, name+"/unlock-not-held/"+op.lock, u.Pos(), false, "Unlock of "+op.lock+" on a path where it is not certainly held")
			}
		}
		if !bad {
			c.Ob(rule, name+"/paired", fn.Pos(), true, "every Lock of the selected mutexes is released on every path; no panic under a non-deferred Lock")
		}
	}
	_ = token.NoPos
}

func isFieldLoadOf(v ssa.Value, fv *types.Var) bool {
	u, ok := v.(*ssa.UnOp)
	if !ok || u.Op != token.MUL {
		return false
	}
	fa, ok := u.X.(*ssa.FieldAddr)
	return ok && fieldVar(fa.X.Type(), fa.Field) == fv
}

func isPanicOrErr(in ssa.Instruction) bool {
	if _, ok := in.(*ssa.Panic); ok {
		return true
	}
	return callPred(`\(\*sio\.clientSocket\)\.onError`)(in)
}
