package main

// Term extraction (A5): a canonical, human-readable expression for an SSA
// value, resolved through the type-checked program.  Rules compare terms, not
// source text: `s.transport` is the load of field `transport` of the value
// named `s`, whatever the statement it appears in looks like.

import (
	"fmt"
	"go/constant"
	"go/token"
	"go/types"
	"sort"
	"strings"

	"golang.org/x/tools/go/ssa"
)

type termer struct {
	visiting map[ssa.Value]bool
}

func Term(v ssa.Value) string {
	t := &termer{visiting: map[ssa.Value]bool{}}
	return t.term(v, 0)
}

// Addr is like Term but for a value used as an address (lock receivers,
// store targets): &s.mu prints as "s.mu".
func Addr(v ssa.Value) string {
	t := &termer{visiting: map[ssa.Value]bool{}}
	return t.addr(v, 0)
}

const maxTermDepth = 12

func varName(v ssa.Value) (string, bool) {
	switch v := v.(type) {
	case *ssa.Alloc:
		if v.Comment != "" && !strings.Contains(v.Comment, " ") && v.Comment != "complit" && v.Comment != "varargs" && v.Comment != "new" && v.Comment != "slicelit" && v.Comment != "makeslice" {
			return vname(v), true
		}
	case *ssa.FreeVar:
		return vname(v), true
	}
	return "", false
}

func (t *termer) addr(v ssa.Value, d int) string {
	if d > maxTermDepth {
		return "…"
	}
	switch v := v.(type) {
	case *ssa.FieldAddr:
		return strings.TrimPrefix(t.term(v.X, d+1), "&") + "." + fieldName(v.X.Type(), v.Field)
	case *ssa.IndexAddr:
		return strings.TrimPrefix(t.term(v.X, d+1), "&") + "[" + t.term(v.Index, d+1) + "]"
	case *ssa.Alloc, *ssa.FreeVar:
		if n, ok := varName(v); ok {
			return n
		}
	case *ssa.Global:
		return globalName(v)
	}
	return "*" + t.term(v, d+1)
}

func fieldName(T types.Type, idx int) string {
	T = T.Underlying()
	if p, ok := T.(*types.Pointer); ok {
		T = p.Elem().Underlying()
	}
	if st, ok := T.(*types.Struct); ok && idx < st.NumFields() {
		return fdisp(st.Field(idx))
	}
	return fmt.Sprintf("f%d", idx)
}

func globalName(g *ssa.Global) string {
	if g.Pkg != nil {
		s, _ := shortOf(g.Pkg.Pkg.Path())
		if i := strings.LastIndex(s, "/"); i >= 0 {
			s = s[i+1:]
		}
		return s + "." + g.Name()
	}
	return g.Name()
}

func calleeName(c *ssa.CallCommon) string {
	if c.IsInvoke() {
		return shortenPaths(c.Method.FullName())
	}
	switch f := c.Value.(type) {
	case *ssa.Function:
		return FuncName(originOf(f))
	case *ssa.MakeClosure:
		return FuncName(originOf(f.Fn.(*ssa.Function)))
	case *ssa.Builtin:
		return f.Name()
	}
	return "dyn:" + Term(c.Value)
}

func (t *termer) term(v ssa.Value, d int) string {
	if v == nil {
		return "<nil>"
	}
	if d > maxTermDepth {
		return "…"
	}
	switch v := v.(type) {
	case *ssa.Parameter:
		if s := siteOf(v.Parent()); s != nil {
			for i, par := range v.Parent().Params {
				if par == v && i < len(s.Call.Args) {
					return t.term(s.Call.Args[i], d+1)
				}
			}
		}
		return vname(v)
	case *ssa.FreeVar:
		return "&" + vname(v)
	case *ssa.Alloc:
		if sv := singleStoreValue(v); sv != nil && !t.visiting[v] {
			// a local that is assigned exactly once and only read afterwards (`for _, item := range xs`,
			// `x := f()` whose field is then read): it IS that value, whatever it is called
			t.visiting[v] = true
			defer delete(t.visiting, v)
			return "&" + t.term(sv, d+1)
		}
		if n, ok := varName(v); ok {
			return "&" + n
		}
		return "new(" + shortenPaths(types.TypeString(deref(v.Type()), nil)) + ")@" + v.Name()
	case *ssa.Global:
		return "&" + globalName(v)
	case *ssa.Const:
		if v.Value == nil {
			return "nil"
		}
		if v.Value.Kind() == constant.String {
			return v.Value.ExactString()
		}
		return v.Value.String()
	case *ssa.Function:
		return FuncName(v)
	case *ssa.Builtin:
		return v.Name()
	case *ssa.MakeClosure:
		return "closure:" + FuncName(v.Fn.(*ssa.Function))
	case *ssa.UnOp:
		switch v.Op {
		case token.MUL:
			return t.addr(v.X, d+1)
		case token.NOT:
			return "!" + t.term(v.X, d+1)
		case token.SUB:
			return "-" + t.term(v.X, d+1)
		case token.ARROW:
			return "<-" + t.term(v.X, d+1)
		case token.XOR:
			return "^" + t.term(v.X, d+1)
		}
	case *ssa.BinOp:
		if b, ok := loopIndex(v); ok {
			return "idx<" + t.term(b, d+1) + ">"
		}
		return "(" + t.term(v.X, d+1) + " " + v.Op.String() + " " + t.term(v.Y, d+1) + ")"
	case *ssa.FieldAddr:
		return "&" + t.addr(v, d)
	case *ssa.IndexAddr:
		return "&" + t.addr(v, d)
	case *ssa.Field:
		return t.term(v.X, d+1) + "." + fieldName(v.X.Type(), v.Field)
	case *ssa.Index:
		return t.term(v.X, d+1) + "[" + t.term(v.Index, d+1) + "]"
	case *ssa.Lookup:
		return t.term(v.X, d+1) + "[" + t.term(v.Index, d+1) + "]"
	case *ssa.Extract:
		return t.term(v.Tuple, d+1) + "#" + fmt.Sprint(v.Index)
	case *ssa.Call:
		// a normaliser of caller-supplied options returns "the same options, with nil sets made empty": rules speak of
		// the options, so its result is printed as its argument
		if sc := v.Call.StaticCallee(); sc != nil && termIdentityFuncs[sc.String()] && len(v.Call.Args) == 1 {
			return t.term(v.Call.Args[0], d+1)
		}
		return t.call(v.Common(), d)
	case *ssa.Phi:
		if b, ok := loopIndex(v); ok {
			return "idx<" + t.term(b, d+1) + ">"
		}
		if t.visiting[v] {
			return "φ" + vname(v)
		}
		t.visiting[v] = true
		defer delete(t.visiting, v)
		set := map[string]bool{}
		for _, e := range v.Edges {
			set[t.term(e, d+1)] = true
		}
		var parts []string
		for s := range set {
			parts = append(parts, s)
		}
		sort.Strings(parts)
		if len(parts) == 1 {
			return parts[0]
		}
		return "φ(" + strings.Join(parts, " | ") + ")"
	case *ssa.ChangeType:
		return t.term(v.X, d+1)
	case *ssa.ChangeInterface:
		return t.term(v.X, d+1)
	case *ssa.MakeInterface:
		return t.term(v.X, d+1)
	case *ssa.Convert:
		return "conv:" + shortenPaths(types.TypeString(v.Type(), nil)) + "(" + t.term(v.X, d+1) + ")"
	case *ssa.SliceToArrayPointer:
		return t.term(v.X, d+1)
	case *ssa.Slice:
		// the `new([N]T)[:]` of variadic calls and slice literals prints as its elements
		if v.Low == nil && v.High == nil {
			if al, ok := v.X.(*ssa.Alloc); ok {
				if _, named := varName(al); !named {
					if els := varargElems(v); len(els) > 0 {
						var parts []string
						for _, e := range els {
							parts = append(parts, t.term(e, d+1))
						}
						return "[" + strings.Join(parts, ", ") + "]"
					}
				}
			}
		}
		s := t.term(v.X, d+1) + "["
		if v.Low != nil {
			s += t.term(v.Low, d+1)
		}
		s += ":"
		if v.High != nil {
			s += t.term(v.High, d+1)
		}
		if v.Max != nil {
			s += ":" + t.term(v.Max, d+1)
		}
		return s + "]"
	case *ssa.TypeAssert:
		return t.term(v.X, d+1) + ".(" + shortenPaths(types.TypeString(v.AssertedType, nil)) + ")"
	case *ssa.MakeSlice:
		return "make(" + shortenPaths(types.TypeString(v.Type(), nil)) + ", " + t.term(v.Len, d+1) + ", " + t.term(v.Cap, d+1) + ")"
	case *ssa.MakeMap:
		return "make(" + shortenPaths(types.TypeString(v.Type(), nil)) + ")"
	case *ssa.MakeChan:
		return "make(" + shortenPaths(types.TypeString(v.Type(), nil)) + ", " + t.term(v.Size, d+1) + ")"
	case *ssa.Range:
		return "range(" + t.term(v.X, d+1) + ")"
	case *ssa.Next:
		return "next(" + t.term(v.Iter, d+1) + ")"
	case *ssa.Select:
		return "select@" + v.Name()
	}
	return fmt.Sprintf("%T@%s", v, v.Name())
}

func (t *termer) call(c *ssa.CallCommon, d int) string {
	var args []string
	for _, a := range c.Args {
		args = append(args, t.term(a, d+1))
	}
	if c.IsInvoke() {
		return t.term(c.Value, d+1) + "." + c.Method.Name() + "(" + strings.Join(args, ", ") + ")"
	}
	if f := c.StaticCallee(); f != nil && f.Signature.Recv() != nil && len(args) > 0 {
		recv := strings.TrimPrefix(args[0], "&")
		mname := originOf(f).Name()
		if obj, ok := originOf(f).Object().(*types.Func); ok {
			mname = fndisp(obj)
		}
		return recv + "." + mname + "(" + strings.Join(args[1:], ", ") + ")"
	}
	return calleeName(c) + "(" + strings.Join(args, ", ") + ")"
}

func deref(T types.Type) types.Type {
	if p, ok := T.Underlying().(*types.Pointer); ok {
		return p.Elem()
	}
	return T
}

// originOf maps an instantiation of a generic function to its generic origin,
// so that rules name `(*sio.handlerStore[T]).off` whatever T is.
func originOf(f *ssa.Function) *ssa.Function {
	if o := f.Origin(); o != nil {
		return o
	}
	return f
}

// loopIndex recognises the index value of a counting loop in either source
// form — `for i := range xs` / `for i, x := range xs` (SSA: φ(-1, v) + 1) and
// `for i := 0; i < n; i++` (SSA: φ(0, v + 1)) — and returns the bound it is
// compared with in the loop header, so both forms print as idx<bound>.
func loopIndex(v ssa.Value) (ssa.Value, bool) {
	isConst := func(x ssa.Value, k int64) bool {
		c, ok := x.(*ssa.Const)
		return ok && c.Value != nil && c.Value.Kind() == constant.Int && c.Int64() == k
	}
	var header *ssa.BasicBlock
	switch x := v.(type) {
	case *ssa.BinOp: // range form: v = φ(-1 | v) + 1
		if x.Op != token.ADD || !isConst(x.Y, 1) {
			return nil, false
		}
		ph, ok := x.X.(*ssa.Phi)
		if !ok || len(ph.Edges) < 2 {
			return nil, false
		}
		inits := 0
		for _, e := range ph.Edges {
			switch {
			case isConst(e, -1):
				inits++
			case e == ssa.Value(x):
			default:
				return nil, false
			}
		}
		if inits != 1 {
			return nil, false
		}
		header = ph.Block()
	case *ssa.Phi: // index form: v = φ(0 | v + 1)
		if len(x.Edges) < 2 {
			return nil, false
		}
		step := func(e ssa.Value) bool {
			b, ok := e.(*ssa.BinOp)
			return ok && b.Op == token.ADD && b.X == ssa.Value(x) && isConst(b.Y, 1)
		}
		inits := 0
		for _, e := range x.Edges {
			switch {
			case isConst(e, 0):
				inits++
			case step(e):
			default:
				return nil, false
			}
		}
		if inits != 1 {
			return nil, false
		}
		header = x.Block()
	default:
		return nil, false
	}
	if len(header.Instrs) == 0 {
		return nil, false
	}
	ifi, ok := header.Instrs[len(header.Instrs)-1].(*ssa.If)
	if !ok {
		return nil, false
	}
	cond, ok := ifi.Cond.(*ssa.BinOp)
	if !ok || cond.Op != token.LSS || cond.X != v {
		return nil, false
	}
	return cond.Y, true
}

// fdisp: the display (reference) name of a struct field.
func fdisp(fv *types.Var) string {
	if n, ok := dispField[fv.Origin()]; ok {
		return n
	}
	return fv.Name()
}

// singleStoreValue: the local is written by exactly one plain store of a struct
// value and otherwise only read (directly or field by field); nil otherwise.
func singleStoreValue(al *ssa.Alloc) ssa.Value {
	if al.Referrers() == nil {
		return nil
	}
	if _, isStruct := deref(al.Type()).Underlying().(*types.Struct); !isStruct {
		return nil
	}
	var stored ssa.Value
	for _, r := range *al.Referrers() {
		switch x := r.(type) {
		case *ssa.Store:
			if x.Addr != ssa.Value(al) || stored != nil {
				return nil
			}
			stored = x.Val
		case *ssa.FieldAddr:
			if x.Referrers() == nil {
				continue
			}
			for _, r2 := range *x.Referrers() {
				if u, ok := r2.(*ssa.UnOp); !ok || u.Op != token.MUL {
					if _, isDbg := r2.(*ssa.DebugRef); !isDbg {
						return nil
					}
				}
			}
		case *ssa.UnOp:
			if x.Op != token.MUL {
				return nil
			}
		case *ssa.DebugRef:
		default:
			return nil
		}
	}
	// only for values read from somewhere (an element, a field, a call result), not for literals built in place
	switch stored.(type) {
	case *ssa.UnOp, *ssa.Call, *ssa.Extract, *ssa.Lookup, *ssa.Index, *ssa.Field:
		return stored
	}
	return nil
}

// termIdentityFuncs: module functions whose result stands for their argument in terms (confirmed by reading).
var termIdentityFuncs = map[string]bool{
	"github.com/karagenc/socket.io-go/adapter.normalizeBroadcastOptions": true,
}
