package main

// C03-D7: the application's ack callback (ackHandler.rv) is read only by the two
// sides that arbitrate with the called/timedOut flags.
// C03-D8 (shared with C09-D12): a decoded header owns its storage.

import (
	"fmt"
	"go/types"
	"strings"

	"golang.org/x/tools/go/ssa"
)

func c03CallbackOwners(c *Ctx) {
	p := c.P
	c.Rule("C03-D7", "who may invoke the callback: the field ackHandler.rv (the application's ack function) is read only in ackHandler.call and in the timer goroutine of newAckHandlerWithTimeout — the two sides that "+
		"test and set called/timedOut in one critical section before they invoke it (C03-D1) — and written only where the handler is built; a third reader (a 'fail fast' helper, a close hook) invokes "+
		"the callback past the arbitration, so it can run twice", 3)
	fv := p.Field("sio", "ackHandler", "rv")
	owners := map[string]bool{"(*sio.ackHandler).call": true, "sio.newAckHandlerWithTimeout": true}
	builders := map[string]bool{"sio.newAckHandler": true}
	for _, fn := range p.SrcFuncs() {
		for _, fa := range FieldAccesses(fn) {
			if fa.Field != fv {
				continue
			}
			owner := FuncName(ownerOf(EnclosingTop(fn)))
			if fa.Write {
				c.Ob("C03-D7", "ackHandler.rv/written@"+FuncName(fn), fa.Instr.Pos(), builders[owner] || isFreshBase(fa.Addr.X), "ackHandler.rv is written in "+owner+": the callback of a pending ack must not be swapped after registration")
				continue
			}
			c.Ob("C03-D7", "ackHandler.rv/read@"+FuncName(fn), fa.Instr.Pos(), owners[owner], "ackHandler.rv is read in "+owner+", outside the two functions that arbitrate between reply and timeout with called/timedOut under the handler's mutex: whatever invokes it here can do so after (or before) the legitimate side did — the callback runs twice")
		}
	}
}

// headerOwnsItsStorage: pointer-typed fields of the PacketHeader that parseHeader builds point to storage allocated
// for this packet (a local that escapes), never into the parser or a package-level variable.
func headerOwnsItsStorage(c *Ctx, rule string) {
	p := c.P
	n := 0
	for _, fn := range jsonparserTopFuncs(p) {
		for _, f := range WithAnons(fn) {
			for _, b := range f.Blocks {
				for _, in := range b.Instrs {
					st, ok := in.(*ssa.Store)
					if !ok {
						continue
					}
					fa, ok := st.Addr.(*ssa.FieldAddr)
					if !ok {
						continue
					}
					nt, ok := deref(fa.X.Type()).(*types.Named)
					if !ok || nt.Obj().Name() != "PacketHeader" || nt.Obj().Pkg() == nil || !strings.HasSuffix(nt.Obj().Pkg().Path(), "/parser") {
						continue
					}
					fvar := fieldVar(fa.X.Type(), fa.Field)
					if fvar == nil {
						continue
					}
					if _, isPtr := fvar.Type().Underlying().(*types.Pointer); !isPtr {
						continue
					}
					n++
					okv := false
					what := Term(st.Val)
					switch v := st.Val.(type) {
					case *ssa.Alloc:
						okv = true // a variable of this call (moved to the heap because its address is kept)
						what = "the address of a variable of this call"
					case *ssa.Const:
						okv = v.Value == nil
					case *ssa.Parameter:
						okv = true // the caller's pointer, forwarded (encode side)
					}
					c.Ob(rule, fmt.Sprintf("%s/PacketHeader.%s#%d", FuncName(f), fdisp(fvar), n), in.Pos(), okv,
						fmt.Sprintf("PacketHeader.%s is set to %s: a header handed to finish() must own what it points to — storage inside the parser (or a package-level variable) is overwritten by the next packet of the connection while handlers of this one still read it (an ACK is then looked up under the id of a later packet)", fdisp(fvar), what))
				}
			}
		}
	}
	if n == 0 {
		c.Undecided("%s: no store into a pointer field of PacketHeader found in parser/json", rule)
	}
}
