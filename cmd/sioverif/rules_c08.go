package main

// C08 — state recovery replays exactly the missed packets, or falls back cleanly.

import (
	"fmt"
	"go/token"
	"regexp"
	"strings"

	"golang.org/x/tools/go/ssa"
)

func init() {
	register(&PropertySpec{
		ID:         "C08",
		NotDecided: "completeness and order of the replay over all histories, disconnect points, reconnection times and clean-up passes; decided are log-before-deliver, polarity agreement of the two expiry predicates and what the cleaner deletes, that ok=true is unreachable with a missing/expired session or an unknown offset, the scan-after-offset/filter shape, persist-before-leaveAll, what a restored socket takes from the session, and the client's offset bookkeeping.",
		Run:        runC08,
	})
}

// expiredForm normalises an expiry predicate's returned term to
// "after(<stamp field>,<duration>)" when it means now > stamp + d.
func expiredForm(t string) (string, bool) {
	for _, re := range []*regexp.Regexp{
		regexp.MustCompile(`^time\.Now\(\)\.After\((.+)\.Add\((.+)\)\)$`),
		regexp.MustCompile(`^(.+)\.Add\((.+)\)\.Before\(time\.Now\(\)\)$`),
		regexp.MustCompile(`^\(time\.Since\((.+)\) > (.+)\)$`),
		regexp.MustCompile(`^\(time\.Now\(\)\.Sub\((.+)\) > (.+)\)$`),
	} {
		if m := re.FindStringSubmatch(t); m != nil {
			return "after(" + m[1] + "," + m[2] + ")", true
		}
	}
	return t, false
}

func soleReturnTerm(fn *ssa.Function) string {
	out := ""
	for _, b := range fn.Blocks {
		if ret, ok := b.Instrs[len(b.Instrs)-1].(*ssa.Return); ok && len(ret.Results) == 1 && !(len(b.Preds) == 0 && b.Index != 0) {
			if out != "" {
				return "<several returns>"
			}
			out = retTerm(ret, 0)
		}
	}
	return out
}

func runC08(c *Ctx) {
	p := c.P

	c.Rule("C08-D1", "log before deliver: for an EVENT without ack id the adapter appends the packet (with the offset id it also appends to the arguments) to the log under mu before the inner Broadcast; exactly those packets are logged", 8)
	{
		fn := p.Fn("adapter", "sessionAwareAdapter.Broadcast")
		li := Locks(fn)
		name := "adapter.sessionAwareAdapter.Broadcast"
		isLog := storePred(`a\.packets`)
		logs := findInstrs(fn, isLog)
		inner := CallsTo(Calls(fn), `\(\*adapter\.inMemoryAdapter\)\.Broadcast`)
		if len(logs) != 1 || len(inner) != 1 {
			c.Ob("C08-D1", name+"/shape", fn.Pos(), false, fmt.Sprintf("expected one append to a.packets and one inner Broadcast; found %d and %d", len(logs), len(inner)))
		} else {
			lg := logs[0].(*ssa.Store)
			isEv := []Assume{{`\(header\.Type == 2\)`, true}, {`\(header\.Type != 2\)`, false}, {`\(header\.ID == nil\)`, true}, {`\(header\.ID != nil\)`, false}}
			early, trail := PrunedCanReach(fn, nil, isEv, func(in ssa.Instruction) bool { return in == inner[0].Instr }, isLog)
			c.Ob("C08-D1", name+"/log-precedes-delivery", inner[0].Pos(), !early, "an EVENT without ack id reaches the inner Broadcast before it was logged: a client disconnecting in between misses it for ever: "+trailString(p, trail))
			c.Ob("C08-D1", name+"/log-under-mu", lg.Pos(), li.HoldsW(lg, "a.mu") && strings.HasPrefix(Term(lg.Val), "append(a.packets, ["), "the log must be appended to under a.mu; stores "+Term(lg.Val))
			var conds []string
			for _, g := range GuardTerms(lg) {
				conds = append(conds, g)
			}
			okCond := len(conds) == 2 && containsStr(conds, "(header.Type == 2)==true") && containsStr(conds, "(header.ID == nil)==true")
			c.Ob("C08-D1", name+"/logs-exactly-events-without-ack", lg.Pos(), okCond, fmt.Sprintf("logging condition is %v (expected exactly: type EVENT and no ack id)", conds))
			// the entry: ID = yeast id, Data = v with the id appended, Opts = opts, Header = header
			want := map[string]string{"ID": "a.yeaster.Yeast()", "Opts": "opts", "Header": "header", "Data": "append(v, [a.yeaster.Yeast()])"}
			for fld, w := range want {
				fv := p.Field("adapter", "PersistedPacket", fld)
				sts := findInstrs(fn, fieldStorePred(fv))
				v := "<none>"
				if len(sts) == 1 {
					v = Term(sts[0].(*ssa.Store).Val)
				}
				c.Ob("C08-D1", name+"/entry."+fld, lg.Pos(), v == w, "logged "+fld+" = "+v+" (expected "+w+")")
			}
			fvT := p.Field("adapter", "PersistedPacket", "EmittedAt")
			stT := findInstrs(fn, fieldStorePred(fvT))
			c.Ob("C08-D1", name+"/entry.EmittedAt", lg.Pos(), len(stT) == 1 && Term(stT[0].(*ssa.Store).Val) == "time.Now()", "logged EmittedAt must be time.Now()")
			// one id generation per broadcast
			ys := CallsTo(Calls(fn), `\(\*.*yeast\.Yeaster\)\.Yeast`)
			c.Ob("C08-D1", name+"/one-id", fn.Pos(), len(ys) == 1 && li.HoldsW(ys[0].Instr, "a.mu"), "exactly one offset id must be generated per logged packet, under a.mu (ids and log order must agree)")
			// delivered arguments carry the id
			dv := Term(inner[0].Arg(1))
			c.Ob("C08-D1", name+"/delivers-with-id", inner[0].Pos(), strings.Contains(dv, "append(v, [a.yeaster.Yeast()])"), "the inner Broadcast receives "+dv+" (expected the arguments with the offset id appended when logged)")
		}
	}

	c.Rule("C08-D2", "polarity agreement: both expiry predicates mean `now is after stamp + window`; the cleaner and RestoreSession delete only what the predicate calls expired, using the adapter's window", 7)
	{
		hp := p.Fn("adapter", "PersistedPacket.HasExpired")
		hs := p.Fn("adapter", "sessionWithTimestamp.hasExpired")
		f1, ok1 := expiredForm(soleReturnTerm(hp))
		f2, ok2 := expiredForm(soleReturnTerm(hs))
		c.Ob("C08-D2", "adapter.PersistedPacket.HasExpired/polarity", hp.Pos(), ok1 && f1 == "after(p.EmittedAt,maxDisconnectDuration)", "HasExpired returns "+soleReturnTerm(hp)+" — expected `now after EmittedAt + window` (true for OLD packets); an inverted predicate makes the cleaner delete fresh packets and recovery succeed with a gap")
		c.Ob("C08-D2", "adapter.sessionWithTimestamp.hasExpired/polarity", hs.Pos(), ok2 && f2 == "after(s.DisconnectedAt,maxDisconnectDuration)", "hasExpired returns "+soleReturnTerm(hs)+" — expected `now after DisconnectedAt + window`")
		cl := p.Fn("adapter", "sessionAwareAdapter.cleaner")
		li := Locks(cl)
		for _, d := range findInstrs(cl, func(in ssa.Instruction) bool { return isBuiltinDelete(in, "a.sessions") }) {
			c.Ob("C08-D2", "adapter.sessionAwareAdapter.cleaner/sessions", d.Pos(), HasGuard(d, `.*\.hasExpired\(a\.maxDisconnectDuration\)==true`) && li.HoldsW(d, "a.mu"), "the cleaner may delete a session only when hasExpired(a.maxDisconnectDuration) is true, under a.mu; guards="+strings.Join(GuardTerms(d), ","))
		}
		sts := findInstrs(cl, storePred(`a\.packets`))
		for _, st := range sts {
			c.Ob("C08-D2", "adapter.sessionAwareAdapter.cleaner/packets", st.Pos(), HasGuard(st, `.*\.HasExpired\(a\.maxDisconnectDuration\)==true`) && li.HoldsW(st, "a.mu"), "the cleaner may drop a packet only when HasExpired(a.maxDisconnectDuration) is true, under a.mu; guards="+strings.Join(GuardTerms(st), ","))
			// what is dropped contains no packet newer than the expired one: append(packets[:i], packets[i+1:]...) or packets[i+1:]
			v := Term(st.(*ssa.Store).Val)
			// the cut ends exactly behind the expired entry (index + 1): packets[i+1:], slices.Delete(packets, 0, i+1),
			// append(packets[:0], packets[i+1:]...); that nothing is taken from the middle is C08-D8's business
			okShape := regexp.MustCompile(`^a\.packets\[\((.+) \+ 1\):\]$`).MatchString(v) ||
				regexp.MustCompile(`^slices\.Delete\(a\.packets, 0, \((.+) \+ 1\)\)$`).MatchString(v) ||
				regexp.MustCompile(`^append\(a\.packets\[:0\], a\.packets\[\((.+) \+ 1\):\]\)$`).MatchString(v) ||
				regexp.MustCompile(`^append\(a\.packets\[:(.+)\], a\.packets\[\((.+) \+ 1\):\]\)$`).MatchString(v)
			c.Ob("C08-D2", "adapter.sessionAwareAdapter.cleaner/drops-only-expired-index", st.Pos(), okShape, "the cleaner stores "+v+" (expected the log cut just behind the expired entry)")
		}
		c.Ob("C08-D2", "adapter.sessionAwareAdapter.cleaner/sites", cl.Pos(), len(sts) >= 1 && len(findInstrs(cl, func(in ssa.Instruction) bool { return isBuiltinDelete(in, "a.sessions") })) >= 1, "the cleaner must expire both sessions and packets")
		// cleaner duration
		ws := waitCalls(cl)
		c.Ob("C08-D2", "adapter.sessionAwareAdapter.cleaner/period", cl.Pos(), len(ws) == 1 && Term(ws[0].Arg(0)) == "a.cleanerDuration", "the cleaner must sleep a.cleanerDuration between passes")
		// the window is the configured MaxDisconnectionDuration
		cons := p.Fn("adapter", "newSessionAwareAdapter")
		fv := p.Field("adapter", "sessionAwareAdapter", "maxDisconnectDuration")
		st2 := findInstrs(cons, fieldStorePred(fv))
		c.Ob("C08-D2", "adapter.newSessionAwareAdapter/window", cons.Pos(), len(st2) == 1 && Term(st2[0].(*ssa.Store).Val) == "maxDisconnectionDuration", "the adapter's window must be the constructor's maxDisconnectionDuration")
		ns := p.Fn("sio", "NewServer")
		cr := CallsTo(Calls(ns), `adapter\.NewSessionAwareAdapterCreator`)
		c.Ob("C08-D2", "sio.NewServer/window", ns.Pos(), len(cr) == 1 && strings.HasSuffix(Term(cr[0].Arg(0)), "connectionStateRecovery.MaxDisconnectionDuration"), "the session-aware adapter must be created with the configured MaxDisconnectionDuration")
	}

	c.Rule("C08-D3", "no recovery with a gap: RestoreSession reports ok=true only when the session exists, has not expired and the offset is in the log; missed packets are the entries after the found index that shouldIncludePacket admits for the session's rooms, in log order", 10)
	{
		fn := p.Fn("adapter", "sessionAwareAdapter.RestoreSession")
		li := Locks(fn)
		name := "adapter.sessionAwareAdapter.RestoreSession"
		isTrue := func(in ssa.Instruction) bool {
			if st, ok := in.(*ssa.Store); ok && Addr(st.Addr) == "ok" && Term(st.Val) == "true" {
				return true
			}
			if ret, ok := in.(*ssa.Return); ok && len(ret.Results) == 2 && Term(ret.Results[1]) == "true" {
				return true
			}
			return false
		}
		trues := findInstrs(fn, isTrue)
		c.Ob("C08-D3", name+"/can-succeed", fn.Pos(), len(trues) >= 1, "RestoreSession never reports success")
		for _, a := range []struct {
			what string
			as   []Assume
		}{
			{"unknown-session", []Assume{{`ok`, false}, {`a\.sessions\[pid\]#1`, false}}},
			{"expired-session", []Assume{{`ok`, true}, {`a\.sessions\[pid\]#1`, true}, {`.*\.hasExpired\(a\.maxDisconnectDuration\)`, true}}},
			{"unknown-offset", []Assume{{`ok`, true}, {`a\.sessions\[pid\]#1`, true}, {`.*\.hasExpired\(a\.maxDisconnectDuration\)`, false}, {`\(.* == -1\)`, true}, {`\(.* != -1\)`, false}, {`\(.* < 0\)`, true}, {`\(.* >= 0\)`, false}}},
		} {
			r, trail := PrunedCanReach(fn, nil, a.as, isTrue, nil)
			c.Ob("C08-D3", name+"/"+a.what+"-not-recovered", fn.Pos(), !r, "RestoreSession can report a recovered session with "+a.what+": "+trailString(p, trail))
		}
		// the index is found by comparing the packet id with the offset; -1 when absent
		cmp := findInstrs(fn, func(in ssa.Instruction) bool {
			b, ok := in.(*ssa.BinOp)
			return ok && strings.HasSuffix(Term(b.X), ".ID") && strings.HasPrefix(Term(b.X), "a.packets[") && Term(b.Y) == "offset"
		})
		c.Ob("C08-D3", name+"/offset-lookup", fn.Pos(), len(cmp) == 1 && inLoop(cmp[0].Block()), "the offset must be searched by comparing each logged packet's ID with the presented offset")
		inc := CallsTo(Calls(fn), `adapter\.shouldIncludePacket`)
		if len(inc) != 1 {
			c.Ob("C08-D3", name+"/filter", fn.Pos(), false, fmt.Sprintf("expected one shouldIncludePacket call, found %d", len(inc)))
		} else {
			a0, a1 := Term(inc[0].Arg(0)), Term(inc[0].Arg(1))
			okArgs := a0 == "a.sessions[pid]#0.SessionToPersist.Rooms" && strings.HasPrefix(a1, "a.packets[") && strings.HasSuffix(a1, "].Opts")
			c.Ob("C08-D3", name+"/filter-args", inc[0].Pos(), okArgs && inLoop(inc[0].Instr.Block()), "shouldIncludePacket("+a0+", "+a1+") (expected the session's rooms and each later packet's options)")
			// the scan starts right after the found index and advances by one: either an index loop over a.packets that
			// starts at found+1, or a counting/range loop over the sub-slice a.packets[found+1:]
			idx := strings.TrimSuffix(strings.TrimPrefix(a1, "a.packets["), "].Opts")
			isFoundPlus1 := func(v ssa.Value) bool {
				bo, ok := v.(*ssa.BinOp)
				if !ok || bo.Op != token.ADD || Term(bo.Y) != "1" {
					return false
				}
				// the found index: the value the unknown-offset test compares with -1 / 0
				for _, blk := range append(append([]*ssa.BasicBlock{}, fn.Blocks...), EnclosingTop(bo.Parent()).Blocks...) {
					for _, in := range blk.Instrs {
						if cb, ok := in.(*ssa.BinOp); ok && cb.X == resolveParam(bo.X) && (Term(cb.Y) == "-1" || Term(cb.Y) == "0") {
							switch cb.Op {
							case token.EQL, token.NEQ, token.LSS, token.GEQ:
								return true
							}
						}
					}
				}
				return false
			}
			okScan := false
			var elemAddr *ssa.IndexAddr
			if ia, isIA := unwrapLoadAddr(inc[0].Arg(1)); isIA {
				elemAddr = ia
				switch base := ia.X.(type) {
				case *ssa.Slice: // a.packets[found+1:][k], k = 0,1,2,…
					if _, isCount := loopIndex(ia.Index); isCount && base.High == nil && base.Low != nil && isFoundPlus1(base.Low) && Term(base.X) == "a.packets" {
						okScan = true
					}
				default: // a.packets[i], i = found+1, found+2, …
					if ph, isPhi := ia.Index.(*ssa.Phi); isPhi && len(ph.Edges) == 2 && Term(ia.X) == "a.packets" {
						initOK, stepOK := false, false
						for _, e := range ph.Edges {
							bo, isB := e.(*ssa.BinOp)
							if !isB || bo.Op != token.ADD || Term(bo.Y) != "1" {
								continue
							}
							if bo.X == ssa.Value(ph) {
								stepOK = true
							} else if isFoundPlus1(bo) {
								initOK = true
							}
						}
						okScan = initOK && stepOK
					}
				}
			}
			c.Ob("C08-D3", name+"/scan-after-offset", inc[0].Pos(), okScan, "the scan index is "+idx+" (expected to start at found index + 1 — the offset packet itself was received — and advance by 1)")
			// included ⇒ appended (in order), excluded ⇒ not
			T := Term(inc[0].Instr.(*ssa.Call))
			apps := findInstrs(fn, func(in ssa.Instruction) bool {
				cl, ok := in.(*ssa.Call)
				if !ok {
					return false
				}
				b, ok := cl.Call.Value.(*ssa.Builtin)
				return ok && b.Name() == "append" && strings.Contains(Term(cl.Call.Args[0]), "missedPackets")
			})
			// the appended element is the very entry that was tested (same element address)
			sameEntry := false
			if len(apps) == 1 && elemAddr != nil {
				for _, el := range varargElems(apps[0].(*ssa.Call).Call.Args[1]) {
					if ia2, ok := unwrapLoadAddr(el); ok && ia2 == elemAddr {
						sameEntry = true
					}
					if u, ok := el.(*ssa.UnOp); ok && u.X == ssa.Value(elemAddr) {
						sameEntry = true
					}
				}
			}
			okApp := len(apps) == 1 && HasGuard(apps[0], regexpQuote(T)+"==true") && sameEntry
			c.Ob("C08-D3", name+"/appends-admitted", inc[0].Pos(), okApp, "an admitted packet (and only it) must be appended to the missed packets, the very entry that was tested")
			c.Ob("C08-D3", name+"/under-mu", inc[0].Pos(), li.HoldsW(inc[0].Instr, "a.mu"), "the log must be scanned under a.mu")
		}
		// result carries the session's data and the missed packets
		mf := p.Field("adapter", "SessionToPersist", "MissedPackets")
		sts := findInstrs(fn, fieldStorePred(mf))
		c.Ob("C08-D3", name+"/returns-missed", fn.Pos(), len(sts) == 1 && strings.Contains(Term(sts[0].(*ssa.Store).Val), "missedPackets"), "the returned session must carry the collected missed packets")
		replayFilterRule(c, "C08-D3")
	}

	c.Rule("C08-D4", "persist/restore ordering: on a recoverable disconnect the socket's rooms are read before leaveAll and the session is persisted only after the socket has left its rooms and the namespace (F53: both are keyed by the id the recovered socket takes over); the session carries sid, pid and those rooms; a restored socket takes sid, pid and rooms from the session and is the only kind marked recovered; RestoreSession is asked with the client's pid and offset", 10)
	{
		owner := p.Fn("sio", "serverSocket.onClose")
		body := onceBodyOf(owner, "s.closeOnce")
		if body == nil {
			c.Ob("C08-D4", "sio.serverSocket.onClose/once", owner.Pos(), false, "close body not found")
		} else {
			ps := CallsTo(Calls(body), `\(adapter\.Adapter\)\.PersistSession`)
			sr := CallsTo(Calls(body), `\(adapter\.Adapter\)\.SocketRooms`)
			isLeave := callPred(`\(\*sio\.serverSocket\)\.leaveAll`)
			if len(ps) != 1 || len(sr) != 1 {
				c.Ob("C08-D4", "sio.serverSocket.onClose/persist", body.Pos(), false, fmt.Sprintf("expected one PersistSession and one SocketRooms call; found %d and %d", len(ps), len(sr)))
			} else {
				as := []Assume{{`s\.Connected\(\)`, true}, {`s\.server\.connectionStateRecovery\.Enabled`, true}, {`sio\.recoverableDisconnectReasons\.Contains\(\[reason\]\)`, true}}
				// the rooms are read while the socket still has them
				early, trail := PrunedCanReach(body, nil, as, func(in ssa.Instruction) bool { return in == sr[0].Instr }, isLeave)
				lateRead, _ := PrunedCanReach(body, nil, as, isLeave, func(in ssa.Instruction) bool { return in == sr[0].Instr })
				c.Ob("C08-D4", "sio.serverSocket.onClose/rooms-read-before-leaveAll", sr[0].Pos(), early && !lateRead && Term(sr[0].Arg(0)) == "s.ID()", "on a recoverable disconnect the socket's rooms (SocketRooms(s.ID())) must be read before leaveAll: the persisted room list would be empty: "+trailString(p, trail))
				// F53: the session becomes visible to a returning client only after this socket has left its rooms and the
				// namespace — both are keyed by the socket id, which the recovered socket takes over
				isRemove := callPred(`\(\*sio\.Namespace\)\.remove`)
				for _, cl := range []struct {
					what string
					pred instrPred
				}{{"leaveAll", isLeave}, {"Namespace.remove", isRemove}} {
					before, tr := PrunedCanReach(body, nil, as, func(in ssa.Instruction) bool { return in == ps[0].Instr }, cl.pred)
					c.Ob("C08-D4", "sio.serverSocket.onClose/persist-after-"+cl.what, ps[0].Pos(), !before, "PersistSession is reachable before "+cl.what+": from that moment the client can come back and get a new socket with the same id, and this socket's "+cl.what+" (by id) then strips the new socket — connected, recovered, and never reached by any emit again: "+trailString(p, tr))
				}
				var sidStore ssa.Instruction
				if sts := findInstrs(body, fieldStorePred(p.Field("adapter", "SessionToPersist", "SID"))); len(sts) == 1 {
					sidStore = sts[0]
				}
				okG := sidStore != nil && HasGuard(sidStore, `s\.server\.connectionStateRecovery\.Enabled==true`) && HasGuard(sidStore, `sio\.recoverableDisconnectReasons\.Contains\(\[reason\]\)==true`)
				// and whatever was built is persisted
				built := append(append([]Assume{}, as...), Assume{`\(.*SessionToPersist.* != nil\)`, true}, Assume{`\(.*SessionToPersist.* == nil\)`, false})
				skipP, _ := PrunedCanReach(body, nil, built, nil, func(in ssa.Instruction) bool { return in == ps[0].Instr })
				c.Ob("C08-D4", "sio.serverSocket.onClose/persist-condition", ps[0].Pos(), okG && !skipP, "the session must be built exactly when recovery is enabled and the reason is recoverable, and then persisted on every path; guards="+strings.Join(GuardTerms(ps[0].Instr), ","))
				for fld, want := range map[string]string{"SID": "s.ID()", "PID": "s.pid"} {
					fv := p.Field("adapter", "SessionToPersist", fld)
					sts := findInstrs(body, fieldStorePred(fv))
					v := "<none>"
					if len(sts) == 1 {
						v = Term(sts[0].(*ssa.Store).Val)
					}
					c.Ob("C08-D4", "sio.serverSocket.onClose/session."+fld, ps[0].Pos(), v == want, "persisted "+fld+" = "+v+" (expected "+want+")")
				}
				fv := p.Field("adapter", "SessionToPersist", "Rooms")
				sts := findInstrs(body, fieldStorePred(fv))
				okR := len(sts) == 1 && strings.Contains(Term(sts[0].(*ssa.Store).Val), "s.adapter.SocketRooms(s.ID())#0") && strings.HasSuffix(Term(sts[0].(*ssa.Store).Val), ".ToSlice()")
				c.Ob("C08-D4", "sio.serverSocket.onClose/session.Rooms", ps[0].Pos(), okR, "persisted Rooms must be the rooms just read from the adapter")
			}
		}
		cons := p.Fn("sio", "newServerSocket")
		for fld, want := range map[string]string{"id": "previousSession.SID", "pid": "previousSession.PID"} {
			fv := p.Field("sio", "serverSocket", fld)
			found := false
			for _, st := range findInstrs(cons, fieldStorePred(fv)) {
				if Term(st.(*ssa.Store).Val) == want && HasGuard(st, `\(previousSession != nil\)==true`) {
					found = true
				}
			}
			c.Ob("C08-D4", "sio.newServerSocket/restores-"+fld, cons.Pos(), found, "a restored socket must take "+fld+" from the session ("+want+")")
		}
		rf := p.Field("sio", "serverSocket", "recovered")
		for _, f := range p.SrcFuncs() {
			for _, st := range findInstrs(f, fieldStorePred(rf)) {
				if Term(st.(*ssa.Store).Val) == "true" {
					c.Ob("C08-D4", "serverSocket.recovered=true@"+FuncName(f), st.Pos(), f == cons && HasGuard(st, `\(previousSession != nil\)==true`), "recovered is set to true in "+FuncName(f)+" (only a socket built from a restored session may be)")
				}
			}
		}
		j := CallsTo(Calls(cons), `\(\*sio\.serverSocket\)\.Join`)
		// (any further Join of the constructor — e.g. of the socket's own room — is none of this rule's business)
		rejoined := false
		for _, jc := range j {
			if Term(jc.Arg(0)) == "previousSession.Rooms" && HasGuard(jc.Instr, `\(previousSession != nil\)==true`) {
				rejoined = true
			}
		}
		c.Ob("C08-D4", "sio.newServerSocket/rejoins-rooms", cons.Pos(), rejoined, "a restored socket must re-join the session's rooms")
		// replay: each missed packet re-encoded with its own header and data, in order
		enc := CallsTo(Calls(cons), `\(parser\.Parser\)\.Encode`)
		okE := len(enc) == 1 && inLoop(enc[0].Instr.Block()) && strings.HasPrefix(Term(enc[0].Arg(0)), "previousSession.MissedPackets[") && strings.HasSuffix(Term(enc[0].Arg(0)), "].Header") && strings.HasSuffix(Term(enc[0].Arg(1)), "].Data")
		c.Ob("C08-D4", "sio.newServerSocket/replays-missed", cons.Pos(), okE, "every missed packet must be re-encoded from its own logged header and data, in log order")
		add := p.Fn("sio", "Namespace.add")
		rs := CallsTo(Calls(add), `\(adapter\.Adapter\)\.RestoreSession`)
		okA := len(rs) == 1 && strings.HasSuffix(Term(rs[0].Arg(0)), ".SessionID") && strings.HasSuffix(Term(rs[0].Arg(1)), ".Offset") && HasGuard(rs[0].Instr, `n\.server\.connectionStateRecovery\.Enabled==true`)
		c.Ob("C08-D4", "sio.Namespace.add/restore-args", add.Pos(), okA, "RestoreSession must be asked with the pid and offset the client presented, only when recovery is enabled")
		if len(rs) == 1 {
			T := Term(rs[0].Instr.(*ssa.Call))
			// a failed restore yields a fresh socket (previousSession nil)
			for _, ns := range CallsTo(Calls(add), `sio\.newServerSocket`) {
				a4 := Term(ns.Arg(4))
				if a4 != "nil" {
					c.Ob("C08-D4", "sio.Namespace.add/restored-only-if-ok", ns.Pos(), a4 == T+"#0" && HasGuard(ns.Instr, regexpQuote(T+"#1")+"==true"), "a socket is built from session "+a4+" without RestoreSession having reported ok")
				}
			}
		}
		// the pid handed to the client is the socket's pid
		oc := p.Fn("sio", "serverSocket.onConnect")
		pf := p.Field("sio", "sidInfo", "PID")
		sts := findInstrs(oc, fieldStorePred(pf))
		c.Ob("C08-D4", "sio.serverSocket.onConnect/announces-pid", oc.Pos(), len(sts) == 1 && Term(sts[0].(*ssa.Store).Val) == "s.pid", "the CONNECT reply must carry the socket's private session id")
	}

	c.Rule("C08-D6", "replay of logged packets (shared with C09-D1): the log keeps the caller's header and arguments and the replay re-encodes them, so Encode must not rewrite what it is given — today it replaces Binary leaves by placeholders in place and flips the logged header to BINARY_EVENT, so a binary packet is replayed with its header announcing an attachment that is never sent", 4)
	encodePurity(c, "C08-D6")

	c.Rule("C08-D7", "the cut between 'missed' and 'live' is atomic: (a) in sessionAwareAdapter.Broadcast the append to the packet log and the fan-out (the inner Broadcast) lie in one critical section of the adapter's "+
		"mutex — otherwise a packet logged before a RestoreSession and fanned out after the socket is registered reaches the client twice; (b) in Namespace.add the RestoreSession call and the registration of "+
		"the socket (doConnect) lie in one critical section of a lock that the broadcast path also takes — otherwise a packet broadcast in between is neither among the missed packets nor delivered live, "+
		"and the session is still reported recovered", 2)
	{
		bc := p.Fn("adapter", "sessionAwareAdapter.Broadcast")
		li := Locks(bc)
		appends := findInstrs(bc, fieldStorePred(p.Field("adapter", "sessionAwareAdapter", "packets")))
		fan := CallsTo(Calls(bc), `\(\*adapter\.inMemoryAdapter\)\.Broadcast`)
		if len(appends) == 0 || len(fan) == 0 {
			c.Undecided("C08-D7: log append (%d) or inner Broadcast (%d) not found in sessionAwareAdapter.Broadcast", len(appends), len(fan))
		} else {
			okR := true
			for _, ap := range appends {
				for _, f := range fan {
					if !(li.HoldsAny(f.Instr, "a.mu") && SameRegion(li, ap, f.Instr, "a.mu")) {
						okR = false
					}
				}
			}
			c.Ob("C08-D7", "adapter.sessionAwareAdapter.Broadcast/append-and-fanout", fan[0].Pos(), okR, "the packet is appended to the log under a.mu, the mutex is released, and only then is it fanned out (held at the fan-out: "+li.Held(fan[0].Instr).String()+"): a RestoreSession and the registration of the recovering socket fit in between — the packet is among the missed packets AND delivered live")
		}
		add := p.Fn("sio", "Namespace.add")
		ali := LocksInherit(add)
		rs := CallsTo(Calls(add), `.*RestoreSession.*`)
		reg := CallsTo(Calls(add), `\(\*sio\.Namespace\)\.doConnect`)
		if len(rs) == 0 || len(reg) == 0 {
			c.Undecided("C08-D7: RestoreSession (%d) or doConnect (%d) call not found in Namespace.add", len(rs), len(reg))
		} else {
			okA := true
			for _, r := range reg {
				common := false
				for l := range ali.Held(rs[0].Instr) {
					if _, also := ali.Held(r.Instr)[l]; also && SameRegion(ali, rs[0].Instr, r.Instr, l) {
						common = true
					}
				}
				if !common {
					okA = false
				}
			}
			c.Ob("C08-D7", "sio.Namespace.add/restore-to-registration", rs[0].Pos(), okA, "RestoreSession fixes the missed packets under the adapter's mutex and releases it; the socket becomes reachable for broadcasts only in doConnect (after newServerSocket has encoded the missed packets, and after the middlewares when UseMiddlewares is set); no lock spans the two (held at RestoreSession: "+ali.Held(rs[0].Instr).String()+"): a broadcast in between is lost for this client although it is told the session was recovered")
		}
	}

	c.Rule("C08-D8", "the packet log stays contiguous: sessionAwareAdapter.packets is only ever extended at the end (append of the new packet in Broadcast) or cut at the front (a.packets[k:], "+
		"slices.Delete(a.packets, 0, k), append(a.packets[:0], a.packets[k:]...)) — never has an element taken out of the middle: RestoreSession replays everything behind the client's offset, so a packet "+
		"removed from between two kept ones is silently missing from a session that is still reported recovered (F40)", 2)
	{
		fv := p.Field("adapter", "sessionAwareAdapter", "packets")
		n := 0
		for _, fn := range p.SrcFuncs() {
			for _, in := range findInstrs(fn, fieldStorePred(fv)) {
				if isFreshBase(in.(*ssa.Store).Addr.(*ssa.FieldAddr).X) {
					continue
				}
				n++
				v := in.(*ssa.Store).Val
				t := Term(v)
				okForm := false
				how := t
				switch x := v.(type) {
				case *ssa.Slice:
					// a.packets[k:]
					okForm = x.High == nil && x.Low != nil && strings.HasSuffix(Term(x.X), ".packets")
				case *ssa.Call:
					if b, isB := x.Call.Value.(*ssa.Builtin); isB && b.Name() == "append" && len(x.Call.Args) == 2 {
						base := Term(x.Call.Args[0])
						switch {
						case strings.HasSuffix(base, ".packets"):
							// append(a.packets, p): extension at the end — the second operand must not be a part of the log itself
							okForm = !strings.Contains(Term(x.Call.Args[1]), ".packets[")
						case strings.HasSuffix(base, ".packets[:0]"):
							// append(a.packets[:0], a.packets[k:]...): the suffix moved to the front
							if sl, isSl := x.Call.Args[1].(*ssa.Slice); isSl {
								okForm = sl.High == nil && sl.Low != nil && strings.HasSuffix(Term(sl.X), ".packets")
							}
						}
					} else if sc := x.Call.StaticCallee(); sc != nil && strings.HasPrefix(sc.String(), "slices.Delete[") && len(x.Call.Args) == 3 {
						okForm = strings.HasSuffix(Term(x.Call.Args[0]), ".packets") && Term(x.Call.Args[1]) == "0"
						how = "slices.Delete(" + Term(x.Call.Args[0]) + ", " + Term(x.Call.Args[1]) + ", " + Term(x.Call.Args[2]) + ")"
					} else if x.Call.StaticCallee() != nil && strings.HasPrefix(x.Call.StaticCallee().String(), "slices.Delete") {
						how = t
					}
				case *ssa.Const:
					okForm = x.Value == nil
				}
				c.Ob("C08-D8", "adapter.sessionAwareAdapter.packets@"+FuncName(fn), in.Pos(), okForm, "the log is set to "+trunc(how, 100)+": neither an extension at the end nor a cut at the front — a packet leaves the middle of the log, and a session whose offset is an older packet is recovered without it")
			}
		}
		if n < 2 {
			c.Undecided("C08-D8: only %d stores to sessionAwareAdapter.packets found", n)
		}
	}

	c.Rule("C08-D9", "the replay starts behind the packet the client names: in RestoreSession every position from which the missed-packet scan can start (index + 1) is a position at which `a.packets[pos].ID == offset` "+
		"was found true on the way, or the not-found value — not a remembered position (a memo of log positions goes stale with every clean-up pass: the session is recovered from the wrong place, "+
		"with a gap or with packets it already has)", 1)
	{
		fn := p.Fn("adapter", "sessionAwareAdapter.RestoreSession")
		n := 0
		var blocks []*ssa.BasicBlock
		for _, f := range append([]*ssa.Function{fn}, transparentCalleesOf(fn)...) {
			blocks = append(blocks, f.Blocks...)
		}
		for _, b := range blocks {
			for _, in := range b.Instrs {
				bo, ok := in.(*ssa.BinOp)
				if !ok || bo.Op != token.ADD || Term(bo.Y) != "1" || !isIntType(bo.Type()) {
					continue
				}
				// the start of the missed-packet scan: (index + 1) that feeds an index into a.packets
				usedAsStart := false
				var chase func(v ssa.Value, d int)
				chase = func(v ssa.Value, d int) {
					if d > 3 || v.Referrers() == nil {
						return
					}
					for _, r := range *v.Referrers() {
						switch y := r.(type) {
						case *ssa.IndexAddr:
							if strings.HasSuffix(Term(y.X), ".packets") && y.Index == v {
								usedAsStart = true
							}
						case *ssa.Slice:
							// for _, p := range a.packets[index+1:]
							if strings.HasSuffix(Term(y.X), ".packets") && y.Low == v {
								usedAsStart = true
							}
						case *ssa.Phi:
							chase(y, d+1)
						}
					}
				}
				chase(bo, 0)
				if !usedAsStart {
					continue
				}
				start := resolveParam(bo.X) // the position handed to a private helper is the caller's
				if _, isPhi := start.(*ssa.Phi); !isPhi {
					continue // the scan's own i + 1
				}
				if ph := start.(*ssa.Phi); len(ph.Edges) == 2 && (ph.Edges[0] == ssa.Value(bo) || ph.Edges[1] == ssa.Value(bo)) {
					continue // the scan's induction variable
				}
				n++
				bad := ""
				seen := map[ssa.Value]bool{}
				var walk func(v ssa.Value)
				walk = func(v ssa.Value) {
					if seen[v] || bad != "" {
						return
					}
					seen[v] = true
					ph, isPhi := v.(*ssa.Phi)
					if !isPhi {
						if k, isK := v.(*ssa.Const); isK && Term(k) == "-1" {
							return
						}
						bad = Term(v) + " (not under a packet-id comparison)"
						return
					}
					for i, e := range ph.Edges {
						if k, isK := e.(*ssa.Const); isK && Term(k) == "-1" {
							continue
						}
						if _, isP := e.(*ssa.Phi); isP {
							// either another merge, or the scan index itself arriving over a guarded edge
							pred := ph.Block().Preds[i]
							if len(pred.Instrs) > 0 && HasGuard(pred.Instrs[len(pred.Instrs)-1], `^\(a\.packets\[`+regexpQuote(Term(e))+`\]\.ID == offset\)==true$`) {
								continue
							}
							walk(e)
							continue
						}
						pred := ph.Block().Preds[i]
						if len(pred.Instrs) > 0 && HasGuard(pred.Instrs[len(pred.Instrs)-1], `^\(a\.packets\[`+regexpQuote(Term(e))+`\]\.ID == offset\)==true$`) {
							continue
						}
						bad = Term(e) + " (arrives without the test a.packets[" + Term(e) + "].ID == offset)"
					}
				}
				walk(start)
				c.Ob("C08-D9", fmt.Sprintf("adapter.sessionAwareAdapter.RestoreSession/start-is-the-found-offset#%d", n), bo.Pos(), bad == "", "the missed-packet scan can start behind position "+trunc(bad, 120))
			}
		}
		if n == 0 {
			c.Undecided("C08-D9: the start of the missed-packet scan (index + 1 used to index a.packets) was not recognised in RestoreSession")
		}
	}

	c.Rule("C08-D10", "what is logged is not reused: the argument list handed to (adapter.Adapter).Broadcast — which the session-aware adapter keeps as the logged packet's data — is built in that call on a slice "+
		"made there (make / literal, extended by append), never on pooled or otherwise longer-lived storage that the next emit overwrites", 2)
	{
		n := 0
		for _, fn := range p.SrcFuncs() {
			if fn.Pkg == nil {
				continue
			}
			if sh, _ := shortOf(fn.Pkg.Pkg.Path()); sh != "sio" && sh != "adapter" {
				continue
			}
			for _, cs := range Calls(fn) {
				if !cs.Common().IsInvoke() || cs.Common().Method.Name() != "Broadcast" || len(cs.Common().Args) < 2 || cs.Instr.Parent() != fn {
					continue
				}
				if !strings.HasSuffix(cs.Common().Value.Type().String(), "adapter.Adapter") {
					continue
				}
				n++
				bad := ""
				seen := map[ssa.Value]bool{}
				var walk func(v ssa.Value)
				walk = func(v ssa.Value) {
					if seen[v] || bad != "" {
						return
					}
					seen[v] = true
					v = resolveParam(v)
					switch x := v.(type) {
					case *ssa.MakeSlice:
					case *ssa.Const:
					case *ssa.Parameter:
						// the caller's variadic arguments, forwarded: a fresh slice per call by the language
					case *ssa.Slice:
						if _, isAl := x.X.(*ssa.Alloc); isAl {
							return
						}
						walk(x.X)
					case *ssa.Phi:
						for _, e := range x.Edges {
							walk(e)
						}
					case *ssa.Call:
						if bi, isB := x.Call.Value.(*ssa.Builtin); isB && bi.Name() == "append" {
							walk(x.Call.Args[0])
							return
						}
						bad = Term(v)
					case *ssa.UnOp:
						if al, isAl := x.X.(*ssa.Alloc); isAl && al.Referrers() != nil {
							for _, r := range *al.Referrers() {
								if st, isSt := r.(*ssa.Store); isSt && st.Addr == ssa.Value(al) {
									walk(st.Val)
								}
							}
							return
						}
						bad = Term(v)
					default:
						bad = Term(v)
					}
				}
				walk(cs.Common().Args[1])
				c.Ob("C08-D10", "sio/broadcast-args-fresh@"+FuncName(fn), cs.Pos(), bad == "", "the argument list handed to Broadcast is built on "+trunc(bad, 80)+": the recovery log keeps this very slice, and storage that is reused by a later emit rewrites the logged packets (a recovering client gets the newest packet several times instead of the ones it missed)")
			}
		}
		if n < 2 {
			c.Undecided("C08-D10: only %d Broadcast calls on the adapter found in package sio", n)
		}
	}

	c.Rule("C08-D11", "the reconnecting client's CONNECT can be encoded (F45): every value that can reach the `v` argument of (parser.Parser).Encode in the Socket.IO layer — through the wrappers' parameters, phis and locals — "+
		"is nil, a pointer, or a struct sentinel; a map or slice by value is refused by the encoder, and the CONNECT that presents {pid, offset} was exactly that: with recovery enabled the Go client never reconnected", 3)
	encoderArgumentsAccepted(c, "C08-D11")

	c.Rule("C08-D12", "a socket removes only itself (F53): Namespace.remove takes the socket out of the namespace's table only when the instance registered under that id is this socket — a recovered socket has the id of "+
		"its predecessor, whose late clean-up must not remove it", 1)
	{
		fn := p.Fn("sio", "Namespace.remove")
		for _, cs := range CallsTo(Calls(fn), `\(\*sio\.nspSocketStore\)\.remove`) {
			same := false
			for _, g := range Guards(cs.Instr) {
				if bo, ok := g.Cond.(*ssa.BinOp); ok && ((bo.Op == token.EQL && g.Val) || (bo.Op == token.NEQ && !g.Val)) {
					tx, ty := Term(bo.X), Term(bo.Y)
					if (strings.Contains(tx, ".get(") && strings.Contains(ty, "socket")) || (strings.Contains(ty, ".get(") && strings.Contains(tx, "socket")) {
						same = true
					}
				}
			}
			c.Ob("C08-D12", "sio.Namespace.remove/only-the-registered-instance", cs.Pos(), same, fmt.Sprintf("the entry is removed under %v, by id alone: the clean-up of a socket whose id a recovered socket has taken over removes the NEW socket from the namespace", GuardTerms(cs.Instr)))
		}
	}
	c.Rule("C08-D13", "a session is restored once (F54): on every path on which RestoreSession returns ok=true the session has been deleted from the table — the new socket persists it again on its own recoverable disconnect; a "+
		"record that stays can be presented again after a deliberate disconnect, or while the recovered socket is still connected (two sockets, one id)", 1)
	{
		fn := p.Fn("adapter", "sessionAwareAdapter.RestoreSession")
		del := func(in ssa.Instruction) bool { return isBuiltinDelete(in, "a.sessions") }
		okAll := true
		var at ssa.Instruction
		for _, b := range fn.Blocks {
			ret, ok := b.Instrs[len(b.Instrs)-1].(*ssa.Return)
			if !ok {
				continue
			}
			// the success return: the one behind the store of the missed packets into the returned session
			success := false
			for _, st := range findInstrs(fn, fieldStorePred(p.Field("adapter", "SessionToPersist", "MissedPackets"))) {
				if Dominates(st, ret) {
					success = true
				}
			}
			if !success {
				continue
			}
			at = ret
			dominated := false
			for _, d := range findInstrs(fn, del) {
				if Dominates(d, ret) {
					dominated = true
				}
			}
			if !dominated {
				okAll = false
			}
		}
		pos := fn.Pos()
		if at != nil {
			pos = at.Pos()
		}
		c.Ob("C08-D13", "adapter.sessionAwareAdapter.RestoreSession/consumes-the-session", pos, okAll && at != nil, "RestoreSession returns ok=true without deleting the session from a.sessions")
	}

	c.Rule("C08-D5", "client offset bookkeeping: the CONNECT payload presents the stored pid and last offset; the pid is stored from the CONNECT reply and `recovered` set only when it equals the one presented; the values handed to a handler are exactly those decoded for it (no re-slicing between decode and call)", 6)
	{
		sc := p.Fn("sio", "clientSocket.sendConnectPacket")
		okP, okO := false, false
		for _, in := range findInstrs(sc, func(in ssa.Instruction) bool { _, ok := in.(*ssa.MapUpdate); return ok }) {
			mu := in.(*ssa.MapUpdate)
			if Term(mu.Key) == `"pid"` && Term(mu.Value) == "s.pid()#0" {
				okP = true
			}
			if Term(mu.Key) == `"offset"` && Term(mu.Value) == "s.lastOffset()#0" {
				okO = true
			}
		}
		c.Ob("C08-D5", "sio.clientSocket.sendConnectPacket/presents-pid", sc.Pos(), okP, "the CONNECT payload must carry the stored pid under \"pid\"")
		c.Ob("C08-D5", "sio.clientSocket.sendConnectPacket/presents-offset", sc.Pos(), okO, "the CONNECT payload must carry the last recorded offset under \"offset\"")
		// JSON keys agree with what the server parses
		af := p.Struct("sio", "authRecoveryFields")
		tags := map[string]string{}
		for i := 0; i < af.NumFields(); i++ {
			tags[af.Field(i).Name()] = af.Tag(i)
		}
		c.Ob("C08-D5", "sio.authRecoveryFields/keys", p.Named("sio", "authRecoveryFields").Obj().Pos(), tags["SessionID"] == `json:"pid"` && tags["Offset"] == `json:"offset"`, fmt.Sprintf("server-side keys %v must be pid/offset, the keys the client writes", tags))
		oc := p.Fn("sio", "clientSocket.onConnect")
		sp := CallsTo(Calls(oc), `\(\*sio\.clientSocket\)\.setPID`)
		c.Ob("C08-D5", "sio.clientSocket.onConnect/stores-pid", oc.Pos(), len(sp) == 1 && strings.HasSuffix(Term(sp[0].Arg(0)), ".PID"), "the pid of the CONNECT reply must be stored")
		rc := CallsTo(Calls(oc), `\(\*sio\.clientSocket\)\.setRecovered`)
		okRec := false
		for _, r := range rc {
			// value form: recovered = ok && reply.PID != "" && pid == reply.PID, assigned on every CONNECT reply (F60)
			if t := Term(r.Arg(0)); strings.Contains(t, "s.pid()#0 == ") && strings.Contains(t, ".PID") && !strings.Contains(t, "true |") {
				okRec = true
				if len(sp) == 1 {
					late, _ := CanReachAvoiding(oc, sp[0].Instr, callPred(`\(\*sio\.clientSocket\)\.pid`), nil)
					okRec = okRec && !late
				}
			}
			if Term(r.Arg(0)) == "true" {
				okRec = HasGuard(r.Instr, `\(s\.pid\(\)#0 == .*\.PID\)==true`) && HasGuard(r.Instr, `s\.pid\(\)#1==true`)
				if len(sp) == 1 {
					// the stored pid is read (for the comparison) before it is overwritten
					late, _ := CanReachAvoiding(oc, sp[0].Instr, callPred(`\(\*sio\.clientSocket\)\.pid`), nil)
					okRec = okRec && !late
				}
			}
		}
		// F60: the flag is assigned on every successful CONNECT reply — a new session after a recovered one is not "recovered"
		connectedStore := findInstrs(oc, storeValPred(`s\.state`, p.ConstVal("sio", "clientSocketConnStateConnected")+`(:.*)?`))
		everyReply := len(connectedStore) >= 1
		for _, st := range connectedStore {
			if skip, _ := CanReachAvoiding(oc, nil, func(in ssa.Instruction) bool { return in == st }, callPred(`\(\*sio\.clientSocket\)\.setRecovered`)); skip {
				everyReply = false
			}
		}
		c.Ob("C08-D5", "sio.clientSocket.onConnect/recovered-assigned-on-every-reply", oc.Pos(), everyReply, "a path through onConnect reaches `state = connected` without assigning the recovered flag: after one recovered session every later session — also a brand-new one — is still reported as recovered")
		c.Ob("C08-D5", "sio.clientSocket.onConnect/recovered-iff-same-pid", oc.Pos(), okRec, "recovered may be set only when the server answered with the pid the client presented (compared before the new pid is stored)")
		ce := p.Fn("sio", "clientSocket.callEvent")
		for _, hc := range CallsTo(Calls(ce), `\(\*sio\.eventHandler\)\.call`) {
			arg := hc.Arg(0)
			resliced := false
			seen := map[ssa.Value]bool{}
			var walk func(v ssa.Value)
			walk = func(v ssa.Value) {
				if seen[v] {
					return
				}
				seen[v] = true
				switch x := v.(type) {
				case *ssa.Slice:
					resliced = true
				case *ssa.Phi:
					for _, e := range x.Edges {
						walk(e)
					}
				}
			}
			walk(arg)
			c.Ob("C08-D5", "sio.clientSocket.callEvent/arity-conserved", hc.Pos(), !resliced, "the handler receives "+Term(arg)+": the decoded values are re-sliced before the call — whenever the client holds a private session id the LAST decoded argument is taken for the recovery offset if it is a string, although the decoder yields exactly one value per handler parameter (the offset the server appends is never among them): a user's trailing string argument is stripped, the handler is not called, and lastOffset is corrupted")
		}
		so := CallsTo(Calls(ce), `\(\*sio\.clientSocket\)\.setLastOffset`)
		c.Ob("C08-D5", "sio.clientSocket.callEvent/records-offset", ce.Pos(), len(so) >= 1, "the client never records an offset")
	}
}

// replayFilterRule (C08-D3, shared with C04-D7): shouldIncludePacket — the filter that decides which logged broadcasts
// a recovering session is replayed — tests targets and exclusions against every room of the session.
func replayFilterRule(c *Ctx, rule string) {
	p := c.P
		sip := p.Fn("adapter", "shouldIncludePacket")
		var calls []string
		for _, cs := range Calls(sip) {
			if cs.Common().IsInvoke() {
				calls = append(calls, Term(cs.Common().Value)+"."+cs.Common().Method.Name()+"("+func() string {
					if len(cs.Common().Args) > 0 {
						return Term(cs.Common().Args[0])
					}
					return ""
				}()+")")
			}
		}
		need := []string{"opts.Rooms.Contains([", "opts.Rooms.Cardinality()", "opts.Except.Contains(["}
		okS := true
		for _, n := range need {
			f := false
			for _, cl := range calls {
				if strings.HasPrefix(cl, n) {
					f = true
				}
			}
			okS = okS && f
		}
		c.Ob(rule, "adapter.shouldIncludePacket/tests", sip.Pos(), okS, fmt.Sprintf("shouldIncludePacket must test target rooms (or none given) and excluded rooms against the session's rooms; calls: %v", calls))
		// every session room is tested against the exclusions: the loop around Except.Contains is left
		// only when the rooms are exhausted or an exclusion matched
		for _, ex := range findInstrs(sip, setCallPred("Contains", `opts\.Except`)) {
			okExit := true
			detail := ""
			for _, e := range loopExits(ex.Block()) {
				ifi, isIf := e.from.Instrs[len(e.from.Instrs)-1].(*ssa.If)
				if !isIf {
					continue
				}
				ct := Term(ifi.Cond)
				takenTrue := e.from.Succs[0] == e.to
				switch {
				case strings.Contains(ct, "idx<") && !takenTrue:
				case strings.HasPrefix(ct, "opts.Except.Contains(") && takenTrue:
				default:
					okExit = false
					detail = fmt.Sprintf("the exclusion loop is also left when `%s` is %v", ct, takenTrue)
				}
			}
			c.Ob(rule, "adapter.shouldIncludePacket/excluded-for-every-room", ex.Pos(), okExit && inLoop(ex.Block()), "every room of the session must be tested against opts.Except; "+detail+": a session in an excluded room is replayed the packet when one of its other rooms matched first")
		}
		rt := soleReturnTerm(sip)
		_ = rt
		// an exclusion match can never yield true
		exT := false
		for _, b := range sip.Blocks {
			if ret, isR := b.Instrs[len(b.Instrs)-1].(*ssa.Return); isR && len(ret.Results) == 1 && Term(ret.Results[0]) != "false" {
				if reach, _ := PrunedCanReach(sip, nil, []Assume{{`opts\.Except\.Contains\(\[.*\]\)`, true}}, func(in ssa.Instruction) bool { return in == ret }, nil); reach {
					// reachable with an exclusion matched: the returned value must then be false (phi edge)
					if ph, isPhi := ret.Results[0].(*ssa.Phi); !isPhi || !strings.Contains(Term(ph), "false") {
						if !strings.Contains(Term(ret.Results[0]), "φ(") {
							exT = true
						}
					}
				}
			}
		}
		c.Ob(rule, "adapter.shouldIncludePacket/excluded-never-included", sip.Pos(), !exT, "shouldIncludePacket can return a non-false constant although an exclusion matched")
}
