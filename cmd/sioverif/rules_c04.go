package main

// C04 — a broadcast reaches exactly the selected sockets, once.

import (
	"fmt"
	"go/token"
	"go/types"
	"strings"

	"golang.org/x/tools/go/ssa"
)

func init() {
	register(&PropertySpec{
		ID:         "C04",
		NotDecided: "correctness of the set computation for every membership matrix and (T,E) pair, and interval semantics under concurrent joins (enumerations over runtime states); decided are that the two inverse indexes move together, sender exclusion, operator immutability, the selection guards dominating delivery, complete iteration, and that a closed socket leaves all rooms with joins disabled first.",
		Run:        runC04,
	})
}

func isBuiltinDelete(in ssa.Instruction, mapTerm string) bool {
	cl, ok := in.(*ssa.Call)
	if !ok {
		return false
	}
	b, ok := cl.Call.Value.(*ssa.Builtin)
	return ok && b.Name() == "delete" && Term(cl.Call.Args[0]) == mapTerm
}

func setCallPred(method, recvPattern string) instrPred {
	return func(in ssa.Instruction) bool {
		ci, ok := in.(ssa.CallInstruction)
		if !ok {
			return false
		}
		cc := ci.Common()
		if !cc.IsInvoke() || cc.Method.Name() != method {
			return false
		}
		if !strings.Contains(shortenPaths(cc.Method.FullName()), "mapset.Set") {
			return false
		}
		return regexpMatch(recvPattern, Term(cc.Value))
	}
}

func runC04(c *Ctx) {
	p := c.P

	c.Rule("C04-D1", "inverse indexes move together: AddAll records (sid,room) in both sids[sid] and rooms[room] in one mu region; Delete removes the pair from both and drops an emptied room set; only DeleteAll removes the sids entry, after removing the sid from each of its rooms", 14)
	{
		fn := p.Fn("adapter", "inMemoryAdapter.AddAll")
		li := Locks(fn)
		name := "adapter.inMemoryAdapter.AddAll"
		sAdd := findInstrs(fn, setCallPred("Add", `a\.sids\[sid\](#0)?`))
		rAdd := findInstrs(fn, func(in ssa.Instruction) bool {
			if !setCallPred("Add", `.*`)(in) {
				return false
			}
			t := Term(in.(*ssa.Call).Call.Value)
			return strings.Contains(t, "a.rooms[") && Term(in.(*ssa.Call).Call.Args[0]) == "sid"
		})
		c.Ob("C04-D1", name+"/sids-side", fn.Pos(), len(sAdd) == 1 && inLoop(sAdd[0].Block()) && li.HoldsW(sAdd[0], "a.mu"), "AddAll must add each room to sids[sid] inside the loop under a.mu")
		c.Ob("C04-D1", name+"/rooms-side", fn.Pos(), len(rAdd) == 1 && inLoop(rAdd[0].Block()) && li.HoldsW(rAdd[0], "a.mu"), "AddAll must add sid to rooms[room] inside the loop under a.mu")
		if len(sAdd) == 1 && len(rAdd) == 1 {
			// room argument of the sids side is the loop's room; the rooms side indexes by the same room
			roomArg := Term(sAdd[0].(*ssa.Call).Call.Args[0])
			rrecv := Term(rAdd[0].(*ssa.Call).Call.Value)
			c.Ob("C04-D1", name+"/same-room", rAdd[0].Pos(), strings.HasPrefix(roomArg, "rooms[") && strings.Contains(rrecv, "a.rooms["+roomArg+"]"), "sids side adds "+roomArg+", rooms side adds to "+rrecv+" — they must be the same room")
			// every iteration that reaches s.Add also reaches r.Add unless sid is already a member
			skip, trail := PrunedCanReach(fn, sAdd[0], []Assume{{`.*\.Contains\(\[sid\]\)`, false}}, orPred(func(in ssa.Instruction) bool { return in == sAdd[0] }, func(in ssa.Instruction) bool { _, ok := in.(*ssa.Return); return ok }), func(in ssa.Instruction) bool { return in == rAdd[0] })
			c.Ob("C04-D1", name+"/both-or-none", rAdd[0].Pos(), !skip, "an iteration can add the room to sids[sid] without adding sid to rooms[room]: "+trailString(p, trail))
			c.Ob("C04-D1", name+"/one-region", rAdd[0].Pos(), SameRegion(li, sAdd[0], rAdd[0], "a.mu"), "the two indexes are updated in different critical sections")
		}
		// a new room set is published in a.rooms
		up := findInstrs(fn, func(in ssa.Instruction) bool {
			m, ok := in.(*ssa.MapUpdate)
			return ok && Term(m.Map) == "a.rooms"
		})
		c.Ob("C04-D1", name+"/publishes-new-room", fn.Pos(), len(up) == 1 && strings.HasPrefix(Term(up[0].(*ssa.MapUpdate).Value), "mapset.NewThreadUnsafeSet") && HasGuard(up[0], `a\.rooms\[.*\]#1==false`), "a set created for a new room must be stored in a.rooms[room] (only when the room was absent)")
		upS := findInstrs(fn, func(in ssa.Instruction) bool {
			m, ok := in.(*ssa.MapUpdate)
			return ok && Term(m.Map) == "a.sids"
		})
		c.Ob("C04-D1", name+"/publishes-sid", fn.Pos(), len(upS) == 1 && Term(upS[0].(*ssa.MapUpdate).Key) == "sid" && HasGuard(upS[0], `a\.sids\[sid\]#1==false`), "a set for a new sid must be stored in a.sids[sid] (only when absent: an existing membership set must not be replaced)")
	}
	{
		fn := p.Fn("adapter", "inMemoryAdapter.Delete")
		li := Locks(fn)
		name := "adapter.inMemoryAdapter.Delete"
		rem := findInstrs(fn, setCallPred("Remove", `a\.sids\[sid\]#0`))
		okRem := len(rem) == 1 && Term(rem[0].(*ssa.Call).Call.Args[0]) == "room" && li.HoldsW(rem[0], "a.mu") && HasGuard(rem[0], `a\.sids\[sid\]#1==true`)
		c.Ob("C04-D1", name+"/sids-side", fn.Pos(), okRem, "Delete must remove the room from sids[sid] under a.mu")
		dl := CallsTo(Calls(fn), `\(\*adapter\.inMemoryAdapter\)\.delete`)
		if p.FnOpt("adapter", "inMemoryAdapter.delete") != nil {
			okDl := len(dl) == 1 && Term(dl[0].Arg(0)) == "sid" && Term(dl[0].Arg(1)) == "room" && li.HoldsW(dl[0].Instr, "a.mu")
			c.Ob("C04-D1", name+"/rooms-side", fn.Pos(), okDl, "Delete must remove sid from rooms[room] (a.delete(sid, room)) under a.mu")
			if len(dl) == 1 {
				skip, trail := CanReachExitAvoiding(fn, nil, func(in ssa.Instruction) bool { return in == dl[0].Instr })
				c.Ob("C04-D1", name+"/rooms-side-always", dl[0].Pos(), !skip, "a path through Delete skips the rooms index: "+trailString(p, trail))
			}
		} else {
			// the helper was inlined: the rooms-side removal itself must be here, under a.mu, on every path
			rs := roomSideRemoval(c, "C04-D1", name, fn)
			for _, in := range rs {
				c.Ob("C04-D1", name+"/rooms-side", in.Pos(), li.HoldsW(in, "a.mu"), "the rooms index must be updated under a.mu")
			}
			lk := findInstrs(fn, func(in ssa.Instruction) bool { l, ok := in.(*ssa.Lookup); return ok && Term(l.X) == "a.rooms" })
			if len(lk) >= 1 {
				skip, trail := CanReachExitAvoiding(fn, nil, func(in ssa.Instruction) bool { return in == lk[0] })
				c.Ob("C04-D1", name+"/rooms-side-always", lk[0].Pos(), !skip, "a path through Delete skips the rooms index: "+trailString(p, trail))
			}
		}
		bad := findInstrs(fn, func(in ssa.Instruction) bool { return isBuiltinDelete(in, "a.sids") })
		pos := fn.Pos()
		if len(bad) > 0 {
			pos = bad[0].Pos()
		}
		c.Ob("C04-D1", name+"/keeps-sid-entry", pos, len(bad) == 0, "Delete removes the whole sids[sid] entry: a connected socket that left its last room would be unknown to broadcasts without target rooms (they iterate a.sids) and to SocketRooms")
	}
	if fn := p.FnOpt("adapter", "inMemoryAdapter.delete"); fn != nil {
		roomSideRemoval(c, "C04-D1", "adapter.inMemoryAdapter.delete", fn)
	}
	deleteAllSweepsEveryRoom(c, "C04-D1")
	// nobody else mutates the two indexes
	for _, fn := range p.SrcFuncs() {
		top := EnclosingTop(fn)
		if top.Pkg == nil || top.Pkg.Pkg.Path() != modPath+"/adapter" {
			continue
		}
		tn := FuncName(top)
		allowed := map[string]bool{"(*adapter.inMemoryAdapter).AddAll": true, "(*adapter.inMemoryAdapter).Delete": true, "(*adapter.inMemoryAdapter).delete": true, "(*adapter.inMemoryAdapter).DeleteAll": true}
		for _, in := range findInstrs(fn, func(in ssa.Instruction) bool {
			if isBuiltinDelete(in, "a.sids") || isBuiltinDelete(in, "a.rooms") {
				return true
			}
			if m, ok := in.(*ssa.MapUpdate); ok && (Term(m.Map) == "a.sids" || Term(m.Map) == "a.rooms") {
				return true
			}
			for _, meth := range []string{"Add", "Remove", "Clear", "Pop", "Append"} {
				if setCallPred(meth, `a\.(sids|rooms)\[.*`)(in) {
					return true
				}
			}
			return false
		}) {
			if !allowed[tn] {
				c.Ob("C04-D1", "index-mutation@"+FuncName(fn), in.Pos(), false, "the membership indexes are mutated in "+FuncName(fn)+" (only AddAll/Delete/delete/DeleteAll keep both sides in step)")
			}
		}
	}

	c.Rule("C04-D2", "sender exclusion: every BroadcastOperator a server socket hands out derives from newBroadcastOperator(), which excludes the socket's own id room", 6)
	{
		nb := p.Fn("sio", "serverSocket.newBroadcastOperator")
		ok := false
		for _, b := range nb.Blocks {
			if ret, isR := b.Instrs[len(b.Instrs)-1].(*ssa.Return); isR && len(ret.Results) == 1 {
				t := Term(ret.Results[0])
				ok = strings.HasPrefix(t, "adapter.NewBroadcastOperator(s.nsp.Name(), s.adapter, ") && strings.HasSuffix(t, ".Except([s.ID()])")
				if !ok {
					c.Note("newBroadcastOperator returns %s", t)
				}
			}
		}
		c.Ob("C04-D2", "sio.serverSocket.newBroadcastOperator", nb.Pos(), ok, "newBroadcastOperator must return NewBroadcastOperator(s.nsp.Name(), s.adapter, …).Except(Room(s.ID()))")
		nt := p.Named("sio", "serverSocket")
		n := 0
		for i := 0; i < nt.NumMethods(); i++ {
			m := nt.Method(i)
			fn := p.Prog.FuncValue(m)
			if fn == nil || fn.Blocks == nil || fn == nb {
				continue
			}
			res := fn.Signature.Results()
			if res.Len() != 1 {
				continue
			}
			if pt, isPtr := res.At(0).Type().(*types.Pointer); !isPtr || !strings.HasSuffix(types.Unalias(pt.Elem()).String(), "adapter.BroadcastOperator") {
				continue
			}
			n++
			for _, b := range fn.Blocks {
				if ret, isR := b.Instrs[len(b.Instrs)-1].(*ssa.Return); isR {
					t := Term(ret.Results[0])
					okd := strings.HasPrefix(t, "s.newBroadcastOperator()") || strings.HasPrefix(t, "s.To(")
					c.Ob("C04-D2", "sio.serverSocket."+m.Name(), ret.Pos(), okd, m.Name()+" returns "+t+", not derived from s.newBroadcastOperator(): a broadcast through it would come back to the sender")
				}
			}
		}
		c.Ob("C04-D2", "sio.serverSocket/operator-methods", nb.Pos(), n >= 5, fmt.Sprintf("%d operator-returning methods found (expected To, In, Except, Local, Broadcast)", n))
		// emit with recovery addresses the socket's own room only
		em := p.Fn("sio", "serverSocket.emit")
		adds := findInstrs(em, setCallPred("Add", `.*\.Rooms`))
		c.Ob("C04-D2", "sio.serverSocket.emit/own-room-only", em.Pos(), len(adds) == 1 && Term(adds[0].(*ssa.Call).Call.Args[0]) == "s.id", "a direct emit routed through the adapter must target exactly the socket's own id room")
	}

	c.Rule("C04-D3", "operator immutability: no BroadcastOperator method writes through its receiver or mutates a set reachable from it; Add only on Clone() results; options are built from the operator's own sets", 12)
	{
		nt := p.Named("adapter", "BroadcastOperator")
		for i := 0; i < nt.NumMethods(); i++ {
			m := nt.Method(i)
			fn := p.Prog.FuncValue(m)
			if fn == nil || fn.Blocks == nil {
				continue
			}
			name := "adapter.BroadcastOperator." + m.Name()
			bad := ""
			for _, f := range WithAnons(fn) {
				for _, b := range f.Blocks {
					for _, in := range b.Instrs {
						if st, ok := in.(*ssa.Store); ok {
							a := Addr(st.Addr)
							if strings.HasPrefix(a, "b.") {
								bad = "stores to " + a
							}
						}
						for _, meth := range []string{"Add", "Remove", "Clear", "Pop", "Append", "RemoveAll"} {
							if setCallPred(meth, `.*`)(in) {
								recv := Term(in.(ssa.CallInstruction).Common().Value)
								if strings.HasPrefix(recv, "b.") && !strings.Contains(recv, ".Clone()") {
									bad = meth + " on " + recv
								}
							}
						}
					}
				}
			}
			c.Ob("C04-D3", name+"/immutable", fn.Pos(), bad == "", m.Name()+" "+bad+": an operator shared between callers (or kept in the recovery log through BroadcastOptions) would change under them")
		}
		for _, a := range []struct{ fn, field string }{{"To", "rooms"}, {"Except", "exceptRooms"}} {
			fn := p.Fn("adapter", "BroadcastOperator."+a.fn)
			fv := p.Field("adapter", "BroadcastOperator", a.field)
			sts := findInstrs(fn, fieldStorePred(fv))
			okc := len(sts) == 1 && Term(sts[0].(*ssa.Store).Val) == "b."+a.field+".Clone()"
			c.Ob("C04-D3", "adapter.BroadcastOperator."+a.fn+"/clones", fn.Pos(), okc, a.fn+" must work on a Clone() of b."+a.field)
			adds := findInstrs(fn, setCallPred("Add", `.*`))
			oka := len(adds) == 1 && inLoop(adds[0].Block()) && strings.HasSuffix(Term(adds[0].(*ssa.Call).Call.Value), "."+a.field) && !strings.HasPrefix(Term(adds[0].(*ssa.Call).Call.Value), "b.") && strings.Contains(Term(adds[0].(*ssa.Call).Call.Args[0]), "room[")
			c.Ob("C04-D3", "adapter.BroadcastOperator."+a.fn+"/adds-each-to-copy", fn.Pos(), oka, a.fn+" must add every given room to the copy's "+a.field)
			// the other set is carried over unchanged (copy of *b)
			other := "exceptRooms"
			if a.field == "exceptRooms" {
				other = "rooms"
			}
			ov := p.Field("adapter", "BroadcastOperator", other)
			c.Ob("C04-D3", "adapter.BroadcastOperator."+a.fn+"/keeps-"+other, fn.Pos(), len(findInstrs(fn, fieldStorePred(ov))) == 0, a.fn+" must not touch "+other)
		}
		for _, a := range []struct {
			fn, callee string
			clone      bool
		}{
			{"Emit", `\(adapter\.Adapter\)\.Broadcast`, false}, {"FetchSockets", `\(adapter\.Adapter\)\.FetchSockets`, true},
			{"SocketsJoin", `\(adapter\.Adapter\)\.AddSockets`, true}, {"SocketsLeave", `\(adapter\.Adapter\)\.DelSockets`, true}, {"DisconnectSockets", `\(adapter\.Adapter\)\.DisconnectSockets`, true},
		} {
			fn := p.Fn("adapter", "BroadcastOperator."+a.fn)
			name := "adapter.BroadcastOperator." + a.fn
			for _, w := range []struct{ opt, src string }{{"Rooms", "b.rooms"}, {"Except", "b.exceptRooms"}} {
				fv := p.Field("adapter", "BroadcastOptions", w.opt)
				sts := findInstrs(fn, fieldStorePred(fv))
				want := w.src
				if a.clone {
					want += ".Clone()"
				}
				v := "<none>"
				if len(sts) == 1 {
					v = Term(sts[0].(*ssa.Store).Val)
				}
				c.Ob("C04-D3", name+"/opts."+w.opt, fn.Pos(), v == want, "opts."+w.opt+" = "+v+" (expected "+want+")")
			}
			cs := CallsTo(Calls(fn), a.callee)
			okc := len(cs) == 1 && stripAmp(Term(cs[0].Common().Value)) == "b.adapter"
			c.Ob("C04-D3", name+"/calls-adapter", fn.Pos(), okc, a.fn+" must call its own adapter once")
		}
	}

	c.Rule("C04-D7", "the replay filter honours the selection (shared with C08-D3): shouldIncludePacket — which decides whether a logged broadcast is replayed to a recovering session — tests the target rooms (or none "+
		"given) and tests EVERY room of the session against the exclusions; an exclusion match can never yield true. A broadcast that excluded a socket must not come back to it through recovery", 3)
	replayFilterRule(c, "C04-D7")

	c.Rule("C04-D6", "modifiers carry the whole selection over: every BroadcastOperator method that returns a new operator (To, In, Except, Compress, Local) starts from a copy of its receiver — the result is a whole-struct copy of *b, "+
		"or every field of the receiver is read to build it — so a flag modifier applied after Except keeps the excluded rooms and one applied after To keeps the target rooms", 5)
	{
		nt := p.Named("adapter", "BroadcastOperator")
		st, _ := nt.Underlying().(*types.Struct)
		n := 0
		for i := 0; i < nt.NumMethods(); i++ {
			m := nt.Method(i)
			fn := p.Prog.FuncValue(m)
			if fn == nil || fn.Blocks == nil || st == nil {
				continue
			}
			res := fn.Signature.Results()
			if res.Len() != 1 || !strings.HasSuffix(res.At(0).Type().String(), "BroadcastOperator") {
				continue
			}
			n++
			wholeCopy := false
			read := map[string]bool{}
			// an alias (`return b.To(room...)`) delegates to a modifier that is checked itself
			for _, ret := range effReturns(fn) {
				if call, ok := ret.Results[0].(*ssa.Call); ok && call.Call.StaticCallee() != nil && len(call.Call.Args) > 0 && call.Call.Args[0] == ssa.Value(fn.Params[0]) {
					if rs := call.Call.StaticCallee().Signature.Recv(); rs != nil && strings.HasSuffix(rs.Type().String(), "BroadcastOperator") {
						wholeCopy = true
					}
				}
			}
			for _, f := range WithAnons(fn) {
				for _, in := range findInstrs(f, func(ssa.Instruction) bool { return true }) {
					switch x := in.(type) {
					case *ssa.Store:
						// n := *b
						if ld, ok := x.Val.(*ssa.UnOp); ok && ld.Op == token.MUL && resolveParam(ld.X) == ssa.Value(fn.Params[0]) {
							if _, isAlloc := x.Addr.(*ssa.Alloc); isAlloc {
								wholeCopy = true
							}
						}
					case *ssa.FieldAddr:
						if resolveParam(x.X) == ssa.Value(fn.Params[0]) {
							read[fieldName(x.X.Type(), x.Field)] = true
						}
					}
				}
			}
			var missing []string
			for j := 0; j < st.NumFields(); j++ {
				if !read[fdisp(st.Field(j))] {
					missing = append(missing, fdisp(st.Field(j)))
				}
			}
			c.Ob("C04-D6", "adapter.BroadcastOperator."+m.Name()+"/carries-selection-over", fn.Pos(), wholeCopy || len(missing) == 0, fmt.Sprintf("%s builds its result neither as a copy of its receiver nor from all of its fields; never read: %v — what the caller had selected there (target rooms, excluded rooms, flags) is lost", m.Name(), missing))
		}
		if n < 5 {
			c.Undecided("C04-D6: found %d BroadcastOperator modifiers, expected at least 5", n)
		}
	}

	c.Rule("C04-D4", "selection guards: in apply() delivery is unreachable for an excluded sid (both branches) and for a sid already served (rooms branch); the served set is updated after delivery; exclusions are computed from opts.Except under mu; iteration callbacks never stop early; the rooms branch is taken exactly when target rooms were given; Broadcast hands the caller's options to apply", 16)
	{
		fn := p.Fn("adapter", "inMemoryAdapter.apply")
		li := Locks(fn)
		ce := CallsTo(Calls(fn), `\(\*adapter\.inMemoryAdapter\)\.computeExceptSids`)
		c.Ob("C04-D4", "adapter.inMemoryAdapter.apply/exclusions", fn.Pos(), len(ce) == 1 && Term(ce[0].Arg(0)) == "opts.Except" && li.HoldsW(ce[0].Instr, "a.mu"), "exclusions must be computed from opts.Except with a.mu held")
		isCB := func(in ssa.Instruction) bool {
			cl, ok := in.(*ssa.Call)
			return ok && stripAmp(Term(cl.Call.Value)) == "callback"
		}
		nCB := 0
		for _, f := range WithAnons(fn) {
			for _, cb := range findInstrs(f, isCB) {
				nCB++
				name := "adapter.inMemoryAdapter.apply/deliver@" + FuncName(f)
				r1, t1 := PrunedCanReach(f, nil, []Assume{{`exceptSids\.Contains\(\[.*\]\)`, true}}, func(in ssa.Instruction) bool { return in == cb }, nil)
				c.Ob("C04-D4", name+"/not-excluded", cb.Pos(), !r1, "delivery is reachable for a socket that is in an excluded room: "+trailString(p, t1))
				exc := findInstrs(f, setCallPred("Contains", `exceptSids`))
				c.Ob("C04-D4", name+"/tests-exclusion", cb.Pos(), len(exc) >= 1 && Dominates(exc[0], cb), "delivery is not preceded by an exceptSids.Contains(sid) test")
				// delivered socket is the one looked up for this sid, and only when found
				arg := Term(cb.(*ssa.Call).Call.Args[0])
				okArg := strings.HasPrefix(arg, "a.sockets.Get(") && strings.HasSuffix(arg, ")#0")
				c.Ob("C04-D4", name+"/delivers-looked-up-socket", cb.Pos(), okArg && HasGuard(cb, regexpQuote(strings.TrimSuffix(arg, "#0")+"#1")+"==true"), "callback receives "+arg+" (expected the socket store's entry for this sid, only when found)")
				// unlock around the callback
				var unl, rel ssa.Instruction
				for _, in := range findInstrs(f, func(in ssa.Instruction) bool { op, ok := lockOpOf(in); return ok && op.lock == "a.mu" }) {
					op, _ := lockOpOf(in)
					if !op.acq && Dominates(in, cb) {
						unl = in
					}
					if op.acq && Dominates(cb, in) {
						rel = in
					}
				}
				c.Ob("C04-D4", name+"/outside-lock", cb.Pos(), unl != nil && rel != nil, "the callback must run with a.mu released and the lock re-taken afterwards (callbacks join/leave/send)")
				if f != fn {
					// rooms branch: dedup
					r2, t2 := PrunedCanReach(f, nil, []Assume{{`ids\.Contains\(\[.*\]\)`, true}}, func(in ssa.Instruction) bool { return in == cb }, nil)
					c.Ob("C04-D4", name+"/not-served-twice", cb.Pos(), !r2, "delivery is reachable for a socket already served through another target room: "+trailString(p, t2))
					isMark := setCallPred("Add", `ids`)
					skip, t3 := CanReachExitAvoiding(f, cb, isMark)
					c.Ob("C04-D4", name+"/marks-served", cb.Pos(), !skip, "after delivery a path returns without ids.Add(sid): the socket would be served again through its next target room: "+trailString(p, t3))
				}
			}
		}
		c.Ob("C04-D4", "adapter.inMemoryAdapter.apply/delivery-sites", fn.Pos(), nCB == 2, fmt.Sprintf("%d delivery sites (expected 2: rooms branch and all-sockets branch)", nCB))
		// iteration callbacks never stop early
		for _, fnn := range []string{"inMemoryAdapter.apply", "inMemoryAdapter.computeExceptSids", "inMemoryAdapter.SocketRooms"} {
			top := p.Fn("adapter", fnn)
			for _, f := range WithAnons(top)[1:] {
				eachNeverStops(c, "C04-D4", "adapter."+fnn+"/complete-iteration", f)
			}
		}
		// branch selection
		var roomsBranch ssa.Instruction
		for _, e := range findInstrs(fn, setCallPred("Each", `opts\.Rooms`)) {
			roomsBranch = e
		}
		okBranch := roomsBranch != nil && HasGuard(roomsBranch, `\(opts\.Rooms\.Cardinality\(\) > 0\)==true`) && len(GuardTerms(roomsBranch)) == 1
		c.Ob("C04-D4", "adapter.inMemoryAdapter.apply/rooms-branch", fn.Pos(), okBranch, "target rooms must be iterated (opts.Rooms.Each) exactly when opts.Rooms is non-empty")
		rng := findInstrs(fn, func(in ssa.Instruction) bool {
			r, ok := in.(*ssa.Range)
			return ok && Term(r.X) == "a.sids"
		})
		c.Ob("C04-D4", "adapter.inMemoryAdapter.apply/all-branch", fn.Pos(), len(rng) == 1 && HasGuard(rng[0], `\(opts\.Rooms\.Cardinality\(\) > 0\)==false`), "without target rooms every known sid (a.sids) must be iterated")
		// rooms branch iterates the members of each target room
		for _, f := range WithAnons(fn)[1:] {
			if each := findInstrs(f, setCallPred("Each", `a\.rooms\[room\]#0`)); len(each) == 1 {
				c.Ob("C04-D4", "adapter.inMemoryAdapter.apply/room-members", each[0].Pos(), HasGuard(each[0], `a\.rooms\[room\]#1==true`), "members of each target room must be iterated")
			}
		}
		ces := p.Fn("adapter", "inMemoryAdapter.computeExceptSids")
		okC := false
		for _, f := range WithAnons(ces)[1:] {
			if a := findInstrs(f, setCallPred("Add", `exceptSids`)); len(a) == 1 && Term(a[0].(*ssa.Call).Call.Args[0]) == "sid" && len(GuardTerms(a[0])) == 0 {
				okC = true
			}
		}
		each := findInstrs(ces, setCallPred("Each", `exceptRooms`))
		c.Ob("C04-D4", "adapter.inMemoryAdapter.computeExceptSids", ces.Pos(), okC && len(each) == 1, "every member of every excluded room must be added to exceptSids")
		// Broadcast wiring
		br := p.Fn("adapter", "inMemoryAdapter.Broadcast")
		ap := CallsTo(Calls(br), `\(\*adapter\.inMemoryAdapter\)\.apply`)
		c.Ob("C04-D4", "adapter.inMemoryAdapter.Broadcast/opts", br.Pos(), len(ap) == 1 && Term(ap[0].Arg(0)) == "opts", "Broadcast must select with the caller's options")
		okSend := false
		for _, f := range WithAnons(br)[1:] {
			sb := CallsTo(Calls(f), `\(adapter\.SocketStore\)\.SendBuffers`)
			if len(sb) == 1 && Term(sb[0].Arg(0)) == "socket.ID()" && Term(sb[0].Arg(1)) == "buffers" {
				okSend = true
			}
		}
		c.Ob("C04-D4", "adapter.inMemoryAdapter.Broadcast/sends-to-selected", br.Pos(), okSend, "each selected socket must be sent the encoded buffers under its own id")
		sa := p.Fn("adapter", "sessionAwareAdapter.Broadcast")
		ib := CallsTo(Calls(sa), `\(\*adapter\.inMemoryAdapter\)\.Broadcast`)
		c.Ob("C04-D4", "adapter.sessionAwareAdapter.Broadcast/opts", sa.Pos(), len(ib) == 1 && Term(ib[0].Arg(2)) == "opts" && Term(ib[0].Arg(0)) == "header", "the session-aware adapter must deliver with the same header and options")
		// nspSocketStore.sendBuffers delivers to exactly that sid
		sbf := p.Fn("sio", "nspSocketStore.sendBuffers")
		g := CallsTo(Calls(sbf), `\(\*sio\.nspSocketStore\)\.get`)
		c.Ob("C04-D4", "sio.nspSocketStore.sendBuffers/target", sbf.Pos(), len(g) == 1 && Term(g[0].Arg(0)) == "sid", "sendBuffers must deliver to the socket registered under the given sid")
	}

	c.Rule("C04-D5", "a closed socket is in no room: onClose disables join before leaveAll, and leaveAll (adapter.DeleteAll) is on every path of a connected socket's close (shared with C06-D2)", 3)
	closedSocketInNoRoom(c, "C04-D5")
}

// closedSocketInNoRoom (C04-D5, C06-D6): the close path of a server socket
// disables join before leaveAll, always runs leaveAll for a connected socket,
// and Join/Leave address the adapter under the socket's own id.
// deleteAllSweepsEveryRoom: DeleteAll leaves the sid in no room. Stated over every site: each
// delete(a.sids, sid) in DeleteAll is dominated by the sweep over ALL rooms of sids[sid] (a shortcut
// that forgets the entry after removing the sid from only some rooms leaves it in rooms[r] for
// good: nothing can find it there again). Shared by C04-D1 and C06-D6.
func deleteAllSweepsEveryRoom(c *Ctx, rule string) {
	p := c.P
	fn := p.Fn("adapter", "inMemoryAdapter.DeleteAll")
	li := Locks(fn)
	name := "adapter.inMemoryAdapter.DeleteAll"
	each := findInstrs(fn, setCallPred("Each", `a\.sids\[sid\]#0`))
	okEach := false
	if len(each) == 1 {
		if mc, ok := each[0].(*ssa.Call).Call.Args[0].(*ssa.MakeClosure); ok {
			cf := mc.Fn.(*ssa.Function)
			if p.FnOpt("adapter", "inMemoryAdapter.delete") != nil {
				d := CallsTo(Calls(cf), `\(\*adapter\.inMemoryAdapter\)\.delete`)
				okEach = len(d) == 1 && Term(d[0].Arg(0)) == "sid" && Term(d[0].Arg(1)) == "room" && len(GuardTerms(d[0].Instr)) == 0
			} else {
				okEach = len(roomSideRemoval(c, rule, name+"$each", cf)) == 2
			}
			eachNeverStops(c, rule, name+"/visits-every-room", cf)
		}
	}
	// the other loop form: for _, room := range s.ToSlice() { a.delete(sid, room) } — the sweep is
	// anchored at the ToSlice() call (it dominates what follows the loop); the removal in the loop
	// body may be guarded by the loop bound only
	if len(each) == 0 && p.FnOpt("adapter", "inMemoryAdapter.delete") != nil {
		ts := findInstrs(fn, setCallPred("ToSlice", `a\.sids\[sid\]#0`))
		d := CallsTo(Calls(fn), `\(\*adapter\.inMemoryAdapter\)\.delete`)
		if len(ts) == 1 && len(d) == 1 && Term(d[0].Arg(0)) == "sid" && regexpMatch(`a\.sids\[sid\]#0\.ToSlice\(\)\[idx<.*>\]`, Term(d[0].Arg(1))) {
			only := true
			for _, g := range GuardTerms(d[0].Instr) {
				if !(strings.HasPrefix(g, "(idx<") && strings.Contains(g, "> < len(") && strings.HasSuffix(g, ")==true")) && g != "a.sids[sid]#1==true" { // the loop bound, and "the sid is known"
					only = false
				}
			}
			if only && Dominates(ts[0], d[0].Instr) {
				each, okEach = ts, true
			}
		}
	}
	c.Ob(rule, name+"/rooms-side", fn.Pos(), okEach && li.HoldsW(each[0], "a.mu"), "DeleteAll must remove sid from every room it is in (a.delete(sid, room) for each room of sids[sid]) under a.mu")
	dd := findInstrs(fn, func(in ssa.Instruction) bool { return isBuiltinDelete(in, "a.sids") })
	c.Ob(rule, name+"/sids-side", fn.Pos(), len(dd) >= 1, "DeleteAll must delete sids[sid] under a.mu")
	for _, d := range dd {
		okd := Term(d.(*ssa.Call).Call.Args[1]) == "sid" && li.HoldsW(d, "a.mu")
		c.Ob(rule, name+"/sids-side-key", d.Pos(), okd, "DeleteAll must delete sids[sid] (that key) under a.mu")
		if len(each) == 1 {
			c.Ob(rule, name+"/order", d.Pos(), Dominates(each[0], d) && SameRegion(li, each[0], d, "a.mu"), "every delete of sids[sid] must come after the sweep over all rooms of the sid, in the same critical section: an entry forgotten after a partial removal leaves the sid in a room for good")
		}
	}
}

func closedSocketInNoRoom(c *Ctx, rule string) {
	p := c.P
	{
		owner := p.Fn("sio", "serverSocket.onClose")
		body := onceBodyOf(owner, "s.closeOnce")
		if body == nil {
			c.Ob(rule, "sio.serverSocket.onClose/once", owner.Pos(), false, "close body not found")
		} else {
			jf := p.Field("sio", "serverSocket", "join")
			isDisable := func(in ssa.Instruction) bool {
				if !fieldStorePred(jf)(in) {
					return false
				}
				mc, ok := in.(*ssa.Store).Val.(*ssa.MakeClosure)
				if ok {
					return len(Calls(mc.Fn.(*ssa.Function))) == 0
				}
				f, ok := in.(*ssa.Store).Val.(*ssa.Function)
				return ok && len(Calls(f)) == 0
			}
			isLeave := callPred(`\(\*sio\.serverSocket\)\.leaveAll`)
			early, trail := CanReachAvoiding(body, nil, isLeave, isDisable)
			c.Ob(rule, "sio.serverSocket.onClose/join-disabled-before-leaveAll", body.Pos(), !early, "leaveAll is reachable before join was replaced by a no-op: a Join landing right after DeleteAll survives the disconnect: "+trailString(p, trail))
			li := Locks(body)
			for _, d := range findInstrs(body, isDisable) {
				c.Ob(rule, "sio.serverSocket.onClose/join-swap-locked", d.Pos(), li.HoldsW(d, "s.joinMu"), "join must be swapped under joinMu")
			}
			skip, trail2 := PrunedCanReach(body, nil, []Assume{{`s\.Connected\(\)`, true}}, nil, isLeave)
			c.Ob(rule, "sio.serverSocket.onClose/leaveAll", body.Pos(), !skip, "a connected socket's close skips leaveAll: "+trailString(p, trail2))
		}
		j := p.Fn("sio", "serverSocket.Join")
		lj := Locks(j)
		lds := findInstrs(j, fieldLoadPred(p.Field("sio", "serverSocket", "join")))
		c.Ob(rule, "sio.serverSocket.Join/reads-under-joinMu", j.Pos(), len(lds) == 1 && lj.HoldsAny(lds[0], "s.joinMu"), "Join must read the current join function under joinMu")
		// the join closure adds to the adapter under this socket's id
		cons := p.Fn("sio", "newServerSocket")
		okJ := false
		for _, f := range WithAnons(cons)[1:] {
			aa := CallsTo(Calls(f), `\(adapter\.Adapter\)\.AddAll`)
			if len(aa) == 1 && Term(aa[0].Arg(0)) == "s.ID()" && Term(aa[0].Arg(1)) == "room" {
				okJ = true
			}
		}
		c.Ob(rule, "sio.newServerSocket/join-closure", cons.Pos(), okJ, "the socket's join function must call adapter.AddAll(s.ID(), rooms)")
		lv := p.Fn("sio", "serverSocket.Leave")
		dl := CallsTo(Calls(lv), `\(adapter\.Adapter\)\.Delete`)
		c.Ob(rule, "sio.serverSocket.Leave", lv.Pos(), len(dl) == 1 && Term(dl[0].Arg(0)) == "s.ID()" && Term(dl[0].Arg(1)) == "room", "Leave must call adapter.Delete(s.ID(), room)")
	}
}

// eachNeverStops: a callback passed to mapset's Each must return false on
// every path (returning true stops the iteration and skips members).
func eachNeverStops(c *Ctx, rule, name string, f *ssa.Function) {
	if f.Signature.Results().Len() != 1 {
		return
	}
	for _, b := range f.Blocks {
		if ret, ok := b.Instrs[len(b.Instrs)-1].(*ssa.Return); ok && len(ret.Results) == 1 {
			t := Term(ret.Results[0])
			c.Ob(rule, name+"@"+FuncName(f), ret.Pos(), t == "false", "an Each callback returns "+t+": returning true stops the iteration, the remaining rooms/sockets are skipped")
		}
	}
}

func regexpMatch(pattern, s string) bool {
	return regexpMustCompile(pattern).MatchString(s)
}

// roomSideRemoval checks, inside fn, the rooms-side half of a removal: sid is
// removed from rooms[room] when that set exists, and the set is dropped from
// a.rooms exactly when it became empty.  Returns the two instructions.
func roomSideRemoval(c *Ctx, rule, name string, fn *ssa.Function) []ssa.Instruction {
	rem := findInstrs(fn, setCallPred("Remove", `a\.rooms\[room\]#0`))
	c.Ob(rule, name+"/removes-sid", fn.Pos(), len(rem) == 1 && Term(rem[0].(*ssa.Call).Call.Args[0]) == "sid" && HasGuard(rem[0], `a\.rooms\[room\]#1==true`), "sid must be removed from rooms[room] (when that room exists)")
	dd := findInstrs(fn, func(in ssa.Instruction) bool { return isBuiltinDelete(in, "a.rooms") })
	okd := len(dd) == 1 && Term(dd[0].(*ssa.Call).Call.Args[1]) == "room" && HasGuard(dd[0], `\(a\.rooms\[room\]#0\.Cardinality\(\) == 0\)==true`)
	c.Ob(rule, name+"/drops-empty-room", fn.Pos(), okd, "an emptied room set must be removed from a.rooms — and only an emptied one")
	var out []ssa.Instruction
	if len(rem) == 1 {
		out = append(out, rem[0])
	}
	if len(dd) == 1 {
		out = append(out, dd[0])
	}
	return out
}
