package main

// C09-D8: the value walkers of parser/json are functions of their arguments —
// package-level state that anything can write after package initialisation is
// touched only by type-level helpers, never by a function that is handed a
// value being encoded or decoded.

import (
	"fmt"
	"go/token"
	"go/types"
	"sort"
	"strings"

	"golang.org/x/tools/go/ssa"
)

func isInitFunc(f *ssa.Function) bool {
	top := EnclosingTop(f)
	return top.Name() == "init" || strings.HasPrefix(top.Name(), "init#")
}

// carriesValue: a parameter type through which an application value (or a frame) reaches the function.
func carriesValue(T types.Type, depth int) bool {
	if depth > 4 {
		return true
	}
	switch t := T.(type) {
	case *types.Named:
		s := t.String()
		switch s {
		case "reflect.Type", "reflect.Kind", "reflect.StructField", "reflect.StructTag", "error":
			return false
		case "reflect.Value":
			return true
		}
		return carriesValue(t.Underlying(), depth+1)
	case *types.Basic:
		return false
	case *types.Interface:
		return true
	case *types.Slice:
		return carriesValue(t.Elem(), depth+1) || isByte(t.Elem())
	case *types.Array:
		return carriesValue(t.Elem(), depth+1)
	case *types.Pointer:
		return carriesValue(t.Elem(), depth+1)
	case *types.Map:
		return carriesValue(t.Key(), depth+1) || carriesValue(t.Elem(), depth+1)
	case *types.Struct:
		for i := 0; i < t.NumFields(); i++ {
			if carriesValue(t.Field(i).Type(), depth+1) {
				return true
			}
		}
		return false
	case *types.Signature:
		return false
	case *types.Chan:
		return true
	}
	return true
}

func isByte(T types.Type) bool {
	b, ok := T.Underlying().(*types.Basic)
	return ok && (b.Kind() == types.Uint8 || b.Kind() == types.Byte)
}

func c09NoSharedWalkerState(c *Ctx, rule string) {
	p := c.P
	c.Rule(rule, "the encoder and decoder are functions of their arguments: a package-level variable of the module that anything writes after package initialisation (a store, a map update or element store "+
		"through it, its address handed to a call — sync.Map, mutexes, atomics; sync.Pool excepted: its contents are interchangeable by contract) is not touched by any function of parser/json or parser "+
		"that is handed a value, a frame or the reconstructor (reflect.Value, any, []byte, …) — only type-level helpers (parameters of reflect.Type, reflect.Kind and basic types) may memoise. "+
		"A verdict remembered from one value and applied to the next makes Encode announce attachments it does not extract, or none where there are some", 20)

	type use struct {
		in  ssa.Instruction
		fn  *ssa.Function
		how string
	}
	isPool := func(g *ssa.Global) bool {
		return strings.HasSuffix(deref(g.Type()).String(), "sync.Pool")
	}
	// globals written after initialisation, anywhere in the module
	written := map[*ssa.Global]string{}
	uses := map[*ssa.Global][]use{}
	var walkerPkg = func(f *ssa.Function) bool {
		top := originOf(EnclosingTop(f))
		if top.Pkg == nil {
			return false
		}
		s, _ := shortOf(top.Pkg.Pkg.Path())
		return s == "jsonparser" || s == "parser"
	}
	for _, f := range p.SrcFuncs() {
		if len(f.Blocks) == 0 {
			continue
		}
		init := isInitFunc(f)
		for _, b := range f.Blocks {
			for _, in := range b.Instrs {
				var ops []*ssa.Value
				ops = in.Operands(ops)
				for _, op := range ops {
					if *op == nil {
						continue
					}
					g, ok := (*op).(*ssa.Global)
					if !ok || g.Pkg == nil || !(strings.HasPrefix(g.Pkg.Pkg.Path(), modPath) && !strings.Contains(g.Pkg.Pkg.Path(), "/examples")) {
						continue
					}
					how := "read"
					switch x := in.(type) {
					case *ssa.Store:
						if x.Addr == ssa.Value(g) {
							how = "store"
						} else {
							how = "address stored"
						}
					case *ssa.UnOp:
						if x.Op == token.MUL {
							how = "read"
							// writes through the loaded container
							if x.Referrers() != nil {
								for _, r := range *x.Referrers() {
									switch y := r.(type) {
									case *ssa.MapUpdate:
										if y.Map == ssa.Value(x) {
											how = "map update"
										}
									case *ssa.IndexAddr:
										if y.Referrers() != nil {
											for _, rr := range *y.Referrers() {
												if st, isSt := rr.(*ssa.Store); isSt && st.Addr == ssa.Value(y) {
													how = "element store"
												}
											}
										}
									case *ssa.FieldAddr:
										if y.Referrers() != nil {
											for _, rr := range *y.Referrers() {
												if st, isSt := rr.(*ssa.Store); isSt && st.Addr == ssa.Value(y) {
													how = "field store"
												}
											}
										}
									}
								}
							}
						}
					case *ssa.FieldAddr, *ssa.IndexAddr:
						how = "read"
						if v, isV := in.(ssa.Value); isV && v.Referrers() != nil {
							for _, rr := range *v.Referrers() {
								switch y := rr.(type) {
								case *ssa.Store:
									if y.Addr == v {
										how = "field store"
									}
								case *ssa.UnOp:
								default:
									how = "address of a part handed on"
								}
							}
						}
					default:
						// its address is an operand of a call, a closure, a conversion …
						how = "address handed to " + trunc(in.String(), 60)
					}
					if strings.HasPrefix(how, "address") && !stateful(deref(g.Type()), 0) {
						how = "read" // nothing behind the address can change (no fields / only immutable parts)
					}
					uses[g] = append(uses[g], use{in, f, how})
					if how != "read" && !init && !isPool(g) {
						if _, ok := written[g]; !ok {
							written[g] = how + " in " + FuncName(f)
						}
					}
				}
			}
		}
	}
	var gs []*ssa.Global
	for g := range uses {
		gs = append(gs, g)
	}
	sort.Slice(gs, func(i, j int) bool { return gs[i].String() < gs[j].String() })
	nUses := 0
	for _, g := range gs {
		for _, u := range uses[g] {
			if !walkerPkg(u.fn) || isInitFunc(u.fn) {
				continue
			}
			nUses++
			w, isWritten := written[g]
			if !isWritten {
				c.Ob(rule, FuncName(u.fn)+"/"+g.Name(), u.in.Pos(), true, g.String()+" is never written after package initialisation")
				continue
			}
			// touched by a function that is handed a value?
			top := rawTop(u.fn) // the function as written (a private helper is judged by its own signature)
			carrier := ""
			sig := top.Signature
			if sig.Recv() != nil && carriesValue(sig.Recv().Type(), 0) {
				carrier = "its receiver " + sig.Recv().Type().String()
			}
			for i := 0; i < sig.Params().Len() && carrier == ""; i++ {
				if carriesValue(sig.Params().At(i).Type(), 0) {
					carrier = "its parameter " + sig.Params().At(i).Name() + " " + sig.Params().At(i).Type().String()
				}
			}
			c.Ob(rule, FuncName(u.fn)+"/"+g.Name(), u.in.Pos(), carrier == "",
				fmt.Sprintf("%s is mutable package-level state (%s) and %s (%s) is handed a value through %s: what it computes depends on the values seen before, not on its arguments alone", g.String(), w, FuncName(u.fn), u.how, carrier))
		}
	}
	var wl []string
	for g, w := range written {
		wl = append(wl, g.Name()+" ("+w+")")
	}
	sort.Strings(wl)
	c.Note("%s: module variables written after initialisation: %s", rule, strings.Join(wl, "; "))
	c.Note("%s: %d uses of %d package-level variables in parser and parser/json examined; written after initialisation: %d", rule, nUses, len(gs), len(written))
}

// stateful: a variable of this type has something that can change behind its address.
func stateful(T types.Type, depth int) bool {
	if depth > 4 {
		return true
	}
	switch t := T.(type) {
	case *types.Named:
		return stateful(t.Underlying(), depth+1)
	case *types.Struct:
		for i := 0; i < t.NumFields(); i++ {
			if stateful(t.Field(i).Type(), depth+1) {
				return true
			}
		}
		return false
	case *types.Array:
		return t.Len() > 0 && stateful(t.Elem(), depth+1)
	}
	return true
}
