package main

// C18 — On / Once / Off.

import (
	"fmt"
	"go/ast"
	"go/token"
	"go/types"
	"strings"

	"golang.org/x/tools/go/ssa"
)

func init() {
	register(&PropertySpec{
		ID:         "C18",
		NotDecided: "equivalence with a reference model over all sequences of On/Once/Off/OffAll calls and occurrences, and the at-most-once guarantee under every interleaving; decided are the delete-inside-range rule, the reproducibility of the identity that Off compares, OffAll exhaustiveness, and the take-and-clear / zero-argument shapes of the two stores.",
		Run:        runC18,
	})
}

// delInRangeRule applies the A8 rule to the given files of a package.
// delInRangeRule scans every file of the package that declares at least one
// function selected by pick (so the rule follows its functions when they move
// between files) and reports deletions inside the range they iterate.  One
// obligation per scanned function.
func delInRangeRule(c *Ctx, rule, short string, pick func(recv, name string) bool, min int) {
	controlDelInRange()
	pk := c.P.Pkg(short)
	nFiles, nFuncs := 0, 0
	for i, f := range pk.Syntax {
		if strings.HasSuffix(pk.CompiledGoFiles[i], "_test.go") {
			continue
		}
		selected := false
		for _, d := range f.Decls {
			if fd, ok := d.(*ast.FuncDecl); ok && fd.Body != nil {
				recv := ""
				if fd.Recv != nil && len(fd.Recv.List) == 1 {
					recv = strings.TrimPrefix(types.ExprString(fd.Recv.List[0].Type), "*")
					if j := strings.Index(recv, "["); j >= 0 {
						recv = recv[:j]
					}
				}
				if pick(recv, fd.Name.Name) {
					selected = true
				}
			}
		}
		if !selected {
			continue
		}
		nFiles++
		sites := findDeleteInRange(pk.TypesInfo, f)
		bad := map[string]bool{}
		for _, s := range sites {
			c.Ob(rule, short+"."+s.Func+"/"+s.Slice, s.Pos, s.LeavesLoop,
				fmt.Sprintf("`%s = append(%s[:i], %s[i+1:]...)` inside `for i := range %s` without leaving the loop: the element after each deletion is skipped, stale copies are revisited, and a second match slices out of range", s.Slice, s.Slice, s.Slice, s.Slice))
			bad[s.Func] = true
		}
		for _, d := range f.Decls {
			if fd, ok := d.(*ast.FuncDecl); ok && fd.Body != nil {
				name := fd.Name.Name
				if fd.Recv != nil && len(fd.Recv.List) == 1 {
					name = types.ExprString(fd.Recv.List[0].Type) + "." + name
				}
				nFuncs++
				if !bad[name] {
					c.Ob(rule, short+"."+name+"/scanned", fd.Pos(), true, "function scanned completely, no delete-inside-range site")
				}
			}
		}
	}
	if nFiles == 0 || nFuncs < min {
		anchorFail("%s: scanned %d functions in %d files of package %s, expected at least %d", rule, nFuncs, nFiles, short, min)
	}
}

func isHandlerRegistryType(T types.Type) (string, bool) {
	T = deref(T)
	nt, ok := types.Unalias(T).(*types.Named)
	if !ok {
		return "", false
	}
	n := nt.Obj().Name()
	if nt.Obj().Pkg() != nil && nt.Obj().Pkg().Path() == modPath && (n == "handlerStore" || n == "eventHandlerStore") {
		return n, true
	}
	return "", false
}

func runC18(c *Ctx) {
	p := c.P

	c.Rule("C18-D1", "no deletion from a slice inside a range over that slice unless the loop is left immediately (Off must remove exactly the named handlers and never panic)", 6)
	delInRangeRule(c, "C18-D1", "sio", func(recv, name string) bool {
		if recv == "handlerStore" || recv == "eventHandlerStore" {
			return true
		}
		return recv != "" && (strings.HasPrefix(name, "On") || strings.HasPrefix(name, "Once") || strings.HasPrefix(name, "Off"))
	}, 60)

	// ---------------------------------------------------------------- D3
	c.Rule("C18-D3", "OffAll exhaustiveness: every handler-registry field of the receiver is cleared by OffAll", 15)
	for _, tn := range []string{"serverSocket", "clientSocket", "Manager", "Namespace"} {
		fn := p.Fn("sio", tn+".OffAll")
		st := p.Struct("sio", tn)
		recv := vname(fn.Params[0])
		cleared := map[string]bool{}
		for _, cs := range CallsDeep(fn) {
			f := cs.Common().StaticCallee()
			if f == nil || originOf(f).Name() != "offAll" || len(cs.Common().Args) == 0 {
				continue
			}
			t := Term(cs.Common().Args[0])
			if strings.HasPrefix(t, recv+".") {
				cleared[strings.TrimPrefix(t, recv+".")] = true
			}
		}
		for i := 0; i < st.NumFields(); i++ {
			f := st.Field(i)
			if _, ok := isHandlerRegistryType(f.Type()); !ok {
				continue
			}
			c.Ob("C18-D3", "sio."+tn+".OffAll/"+f.Name(), fn.Pos(), cleared[f.Name()], "registry field "+f.Name()+" is not cleared by OffAll: its handlers survive `OffAll()`")
		}
	}

	// ---------------------------------------------------------------- D4
	c.Rule("C18-D4", "once-list take-and-clear: getAll reads and clears the once-list in one critical section, clears it on every path, returns it, and writes no other list", 8)
	{
		fn := p.Fn("sio", "handlerStore.getAll")
		li := Locks(fn)
		loads := findInstrs(fn, loadPred(`e\.funcsOnce`))
		clears := findInstrs(fn, storeValPred(`e\.funcsOnce`, `nil`))
		c.Ob("C18-D4", "sio.handlerStore.getAll/reads-once", fn.Pos(), len(loads) > 0, "getAll never reads funcsOnce: once-handlers are never returned")
		nonEmpty := []Assume{{`\(len\(e\.funcsOnce\) != 0\)`, true}, {`\(len\(e\.funcsOnce\) == 0\)`, false}, {`\(len\(e\.funcsOnce\) > 0\)`, true}, {`\(e\.funcsOnce != nil\)`, true}, {`\(e\.funcsOnce == nil\)`, false}}
		skip, trail := PrunedCanReach(fn, nil, nonEmpty, nil, storeValPred(`e\.funcsOnce`, `nil`))
		c.Ob("C18-D4", "sio.handlerStore.getAll/clears-once", fn.Pos(), !skip && len(clears) > 0, "with a non-empty once-list a path through getAll returns without `funcsOnce = nil` (a Once handler would fire again): "+trailString(p, trail))
		freshResult(c, "C18-D4", "sio.handlerStore.getAll", fn)
		for _, ld := range loads {
			for _, cl := range clears {
				c.Ob("C18-D4", "sio.handlerStore.getAll/same-region", cl.Pos(), SameRegion(li, ld, cl, "e.mu"), "reading and clearing funcsOnce are not in one critical section of e.mu: two concurrent occurrences could both take the same Once handler")
			}
		}
		for _, cl := range clears {
			c.Ob("C18-D4", "sio.handlerStore.getAll/exclusive", cl.Pos(), li.HoldsW(cl, "e.mu"), "funcsOnce is cleared while e.mu is held only in read mode (or not at all): concurrent occurrences run getAll in parallel and all take the same Once handlers; held="+li.Held(cl).String())
		}
		for _, fld := range []string{"funcs", "subs"} {
			st := findInstrs(fn, storePred(`e\.`+fld))
			pos := fn.Pos()
			if len(st) > 0 {
				pos = st[0].Pos()
			}
			c.Ob("C18-D4", "sio.handlerStore.getAll/keeps-"+fld, pos, len(st) == 0, "getAll writes e."+fld+": On-handlers must persist across occurrences")
		}
		for _, fld := range []string{"funcs", "subs", "funcsOnce"} {
			// every list is part of the result: append(handlers, e.<fld>...)
			found := false
			for _, cs := range CallsTo(Calls(fn), "append") {
				if len(cs.Common().Args) == 2 && Term(cs.Common().Args[1]) == "e."+fld {
					found = true
				}
			}
			c.Ob("C18-D4", "sio.handlerStore.getAll/returns-"+fld, fn.Pos(), found, "getAll does not append e."+fld+" to its result")
		}
	}
	{
		fn := p.Fn("sio", "eventHandlerStore.getAll")
		li := Locks(fn)
		isLookup := func(in ssa.Instruction) bool {
			l, ok := in.(*ssa.Lookup)
			return ok && Term(l.X) == "e.eventsOnce" && Term(l.Index) == "eventName"
		}
		isDelete := func(m string) instrPred {
			return func(in ssa.Instruction) bool {
				cl, ok := in.(*ssa.Call)
				if !ok {
					return false
				}
				b, ok := cl.Call.Value.(*ssa.Builtin)
				return ok && b.Name() == "delete" && Term(cl.Call.Args[0]) == m && Term(cl.Call.Args[1]) == "eventName"
			}
		}
		looks := findInstrs(fn, isLookup)
		dels := findInstrs(fn, isDelete("e.eventsOnce"))
		c.Ob("C18-D4", "sio.eventHandlerStore.getAll/reads-once", fn.Pos(), len(looks) > 0, "getAll never reads eventsOnce[eventName]")
		nonEmpty := []Assume{{`e\.eventsOnce\[eventName\]#1`, true}, {`\(len\(e\.eventsOnce\[eventName\](#0)?\) != 0\)`, true}, {`\(len\(e\.eventsOnce\[eventName\](#0)?\) == 0\)`, false}, {`\(len\(e\.eventsOnce\[eventName\](#0)?\) > 0\)`, true}}
		skip, trail := PrunedCanReach(fn, nil, nonEmpty, nil, isDelete("e.eventsOnce"))
		c.Ob("C18-D4", "sio.eventHandlerStore.getAll/clears-once", fn.Pos(), !skip && len(dels) > 0, "with once-handlers present a path through getAll returns without delete(e.eventsOnce, eventName): "+trailString(p, trail))
		freshResult(c, "C18-D4", "sio.eventHandlerStore.getAll", fn)
		for _, ld := range looks {
			for _, d := range dels {
				c.Ob("C18-D4", "sio.eventHandlerStore.getAll/same-region", d.Pos(), SameRegion(li, ld, d, "e.mu"), "lookup and delete of eventsOnce[eventName] are not in one critical section of e.mu")
			}
		}
		for _, d := range dels {
			c.Ob("C18-D4", "sio.eventHandlerStore.getAll/exclusive", d.Pos(), li.HoldsW(d, "e.mu"), "eventsOnce[eventName] is deleted while e.mu is held only in read mode (or not at all): concurrent occurrences all take the same Once handlers; held="+li.Held(d).String())
		}
		bad := findInstrs(fn, orPred(isDelete("e.events"), storePred(`e\.events`), func(in ssa.Instruction) bool {
			mu, ok := in.(*ssa.MapUpdate)
			return ok && Term(mu.Map) == "e.events"
		}))
		pos := fn.Pos()
		if len(bad) > 0 {
			pos = bad[0].Pos()
		}
		c.Ob("C18-D4", "sio.eventHandlerStore.getAll/keeps-events", pos, len(bad) == 0, "getAll modifies e.events: On-handlers must persist across occurrences")
		for _, m := range []string{"e.events[eventName]", "e.eventsOnce[eventName]"} {
			found := false
			for _, cs := range CallsTo(Calls(fn), "append") {
				if len(cs.Common().Args) == 2 && (Term(cs.Common().Args[1]) == m || Term(cs.Common().Args[1]) == m+"#0") {
					found = true
				}
			}
			c.Ob("C18-D4", "sio.eventHandlerStore.getAll/returns-"+m, fn.Pos(), found, "getAll does not append "+m+" to its result")
		}
	}

	// ---------------------------------------------------------------- D5
	c.Rule("C18-D5", "zero-argument off clears both lists of the event: on the branch taken when no handler is given, the On-list and the Once-list are both cleared", 4)
	{
		fn := p.Fn("sio", "handlerStore.off")
		as := []Assume{{`\(len\(handler\) == 0\)`, true}, {`\(len\(handler\) != 0\)`, false}, {`\(len\(handler\) > 0\)`, false}, {`\(handler == nil\)`, true}, {`\(handler != nil\)`, false}}
		for _, fld := range []string{"funcs", "funcsOnce"} {
			skip, trail := PrunedCanReach(fn, nil, as, nil, storeValPred(`e\.`+fld, `nil|make\(.*`))
			c.Ob("C18-D5", "sio.handlerStore.off/clears-"+fld, fn.Pos(), !skip, "with no handler given a path returns without clearing e."+fld+": "+trailString(p, trail))
		}
	}
	{
		fn := p.Fn("sio", "eventHandlerStore.off")
		as := []Assume{{`\(len\(handler\) == 0\)`, true}, {`\(len\(handler\) != 0\)`, false}, {`\(len\(handler\) > 0\)`, false}, {`\(handler == nil\)`, true}, {`\(handler != nil\)`, false}}
		for _, m := range []string{"e.events", "e.eventsOnce"} {
			isDel := func(in ssa.Instruction) bool {
				cl, ok := in.(*ssa.Call)
				if !ok {
					return false
				}
				b, ok := cl.Call.Value.(*ssa.Builtin)
				return ok && b.Name() == "delete" && Term(cl.Call.Args[0]) == m && Term(cl.Call.Args[1]) == "eventName"
			}
			skip, trail := PrunedCanReach(fn, nil, as, nil, isDel)
			c.Ob("C18-D5", "sio.eventHandlerStore.off/clears-"+m, fn.Pos(), !skip, "with no handler given a path returns without delete("+m+", eventName): "+trailString(p, trail))
		}
	}
	// the no-handler branch must be keyed on emptiness: exported Off methods forward a (non-nil) slice
	for _, fnn := range []string{"handlerStore.off", "eventHandlerStore.off"} {
		fn := p.Fn("sio", fnn)
		par := fn.Params[len(fn.Params)-1]
		nilTests := findInstrs(fn, func(in ssa.Instruction) bool {
			b, ok := in.(*ssa.BinOp)
			if !ok || (b.Op != token.EQL && b.Op != token.NEQ) {
				return false
			}
			k, isC := b.Y.(*ssa.Const)
			return Term(b.X) == vname(par) && isC && k.Value == nil
		})
		nonNilCallers := 0
		for _, caller := range p.SrcFuncs() {
			for _, cs := range Calls(caller) {
				if f := cs.Common().StaticCallee(); f != nil && originOf(f) == fn {
					if _, isMake := cs.Common().Args[len(cs.Common().Args)-1].(*ssa.MakeSlice); isMake {
						nonNilCallers++
					}
				}
			}
		}
		pos := fn.Pos()
		if len(nilTests) > 0 {
			pos = nilTests[0].Pos()
		}
		c.Ob("C18-D5", "sio."+fnn+"/emptiness-not-nilness", pos, len(nilTests) == 0 || nonNilCallers == 0, fmt.Sprintf("off() tests its variadic parameter against nil, but %d caller(s) forward a made (non-nil, possibly empty) slice: Off with no handler would remove nothing", nonNilCallers))
	}
	// offAll clears everything
	{
		fn := p.Fn("sio", "handlerStore.offAll")
		for _, fld := range []string{"funcs", "funcsOnce"} {
			skip, _ := CanReachExitAvoiding(fn, nil, storeValPred(`e\.`+fld, `nil|make\(.*`))
			c.Ob("C18-D5", "sio.handlerStore.offAll/clears-"+fld, fn.Pos(), !skip, "offAll does not clear e."+fld+" on every path")
		}
	}

	c.Rule("C18-D10", "one occurrence, one run — also after Connect was called twice (F43): the registrations of the socket's handlers on its manager in clientSocket.registerSubEvents are made under activeMu and "+
		"only while they do not exist yet (subDeregister is nil / active is false)", 3)
	subEventsRegisteredOnce(c, "C18-D10")

	c.Rule("C18-D11", "every occurrence reaches its handlers — the creation of a namespace by a client too (F47): at every call of nspStore.getOrCreate the `created` result leads to the NewNamespace handlers", 2)
	newNamespaceHandlersRun(c, "C18-D11")

	c.Rule("C18-D12", "Off removes what it names (F61, known finding): handler identity is not decided by reflect.Value.Pointer() — the code pointer, shared by every closure of one literal", 1)
	handlerIdentityNotByCodePointer(c, "C18-D12")

	// ---------------------------------------------------------------- D9
	c.Rule("C18-D9", "the handler set of an occurrence is fixed at the occurrence: every call of eventHandlerStore.getAll / handlerStore.getAll is made on the delivering goroutine, not inside a function literal that "+
		"is started with `go` — taken later, the set misses a handler that was registered at the occurrence and removed before the goroutine ran, and includes (and consumes) a Once handler registered after it", 3)
	{
		started := map[*ssa.Function]bool{} // function literals that are the target of a go statement
		for _, fn := range p.SrcFuncs() {
			for _, b := range fn.Blocks {
				for _, in := range b.Instrs {
					if g, ok := in.(*ssa.Go); ok {
						// function literals only: `go socket.onPacket(...)` IS the delivering goroutine of that packet (F21)
						if mc, isMC := g.Call.Value.(*ssa.MakeClosure); isMC {
							started[mc.Fn.(*ssa.Function)] = true
						} else if f, isF := g.Call.Value.(*ssa.Function); isF && f.Parent() != nil {
							started[f] = true
						}
					}
				}
			}
		}
		for _, fn := range p.SrcFuncs() {
			for _, cs := range Calls(fn) {
				sc := cs.Common().StaticCallee()
				if sc == nil || cs.Instr.Parent() != fn {
					continue
				}
				nm := FuncName(originOf(sc))
				if nm != "(*sio.eventHandlerStore).getAll" && nm != "(*sio.handlerStore[T]).getAll" {
					continue
				}
				inGo := false
				for f := fn; f != nil; f = f.Parent() {
					if started[f] {
						inGo = true
					}
				}
				c.Ob("C18-D9", "getAll@"+FuncName(fn), cs.Pos(), !inGo, nm+" is called inside a function literal started with `go`: the handler set is read when the goroutine is scheduled, not when the event occurred")
			}
		}
	}

	// ---------------------------------------------------------------- D8
	c.Rule("C18-D8", "Off wrappers forward one value per argument: at every call of handlerStore.off / eventHandlerStore.off made by a function with a variadic handler parameter, the length of the slice handed on "+
		"equals the length of that parameter (zone prover: len(arg) - len(param) = 0 on every abstract state reaching the call) — the store reads an EMPTY list as 'remove every handler', so a wrapper "+
		"that filters or drops arguments turns Off(name, f) into Off(name)", 15)
	{
		ip := newInterproc(p, false)
		offs := map[*ssa.Function]bool{originOf(p.Fn("sio", "handlerStore.off")): true, p.Fn("sio", "eventHandlerStore.off"): true}
		for _, caller := range p.SrcFuncs() {
			if len(caller.Blocks) == 0 || !caller.Signature.Variadic() || len(caller.Params) == 0 {
				continue
			}
			parIdx := len(caller.Params) - 1
			for _, cs := range Calls(caller) {
				f := cs.Common().StaticCallee()
				if f == nil || !offs[originOf(f)] || cs.Instr.Parent() != caller {
					continue
				}
				args := cs.Common().Args
				argIdx := len(args) - 1
				ok := args[argIdx] == ssa.Value(caller.Params[parIdx])
				detail := "the variadic parameter is forwarded as it is"
				if !ok {
					ci, _ := cs.Instr.(ssa.CallInstruction)
					r := ip.lenRelAtCall(caller, ci, argIdx, parIdx)
					ok = r.set && r.okLo && r.okHi && r.lo == 0 && r.hi == 0
					show := func(v int64, k bool) string {
						if !k {
							return "?"
						}
						return fmt.Sprint(v)
					}
					detail = fmt.Sprintf("len(%s) - len(%s) is in [%s, %s] at the call (must be exactly 0: an argument that is dropped on the way makes the list shorter, and an empty list removes every handler of the event)",
						trunc(Term(args[argIdx]), 40), vname(caller.Params[parIdx]), show(r.lo, r.okLo && r.set), show(r.hi, r.okHi && r.set))
				}
				c.Ob("C18-D8", FuncName(caller)+"→"+FuncName(originOf(f)), cs.Pos(), ok, detail)
			}
		}
	}

	// ---------------------------------------------------------------- D2
	c.Rule("C18-D2", "identity reproducibility: what Off<X>(f) hands to the store can be equal to what On<X>(f) stored — the store must compare function identity, not the address of a per-call copy", 17)
	checkOffIdentity(c)

	// ---------------------------------------------------------------- D6
	c.Rule("C18-D7", "a compacted slice is stored back: slices.DeleteFunc / Delete / Compact return a SHORTER slice and zero the tail of the old one; in the handler stores every such result is stored back into the field or map entry "+
		"the operand was read from (or that entry is deleted) on every path — otherwise the registry keeps the old length with nil handlers at the end, which the next dispatch calls", 2)
	{
		n := 0
		for _, fn := range p.SrcFuncs() {
			top := originOf(EnclosingTop(fn))
			if top.Signature.Recv() == nil {
				continue
			}
			if _, isReg := isHandlerRegistryType(top.Signature.Recv().Type()); !isReg {
				continue
			}
			for _, cs := range CallsTo(Calls(fn), `slices\.(DeleteFunc|Delete|Compact|CompactFunc)(\[.*\])?`) {
				call, ok := cs.Instr.(*ssa.Call)
				if !ok {
					continue
				}
				n++
				opnd := call.Call.Args[0]
				name := FuncName(originOf(fn)) + "/" + trunc(Term(opnd), 40)
				var stored instrPred
				switch x := opnd.(type) {
				case *ssa.Extract: // v, ok := m[k]
					lk, isLk := x.Tuple.(*ssa.Lookup)
					if isLk {
						stored = func(in ssa.Instruction) bool {
							if mu, ok := in.(*ssa.MapUpdate); ok {
								return Term(mu.Map) == Term(lk.X) && Term(mu.Key) == Term(lk.Index) && mu.Value == ssa.Value(call)
							}
							return isBuiltinDeleteKey(in, Term(lk.X), Term(lk.Index))
						}
					}
				case *ssa.Lookup:
					stored = func(in ssa.Instruction) bool {
						if mu, ok := in.(*ssa.MapUpdate); ok {
							return Term(mu.Map) == Term(x.X) && Term(mu.Key) == Term(x.Index) && mu.Value == ssa.Value(call)
						}
						return isBuiltinDeleteKey(in, Term(x.X), Term(x.Index))
					}
				case *ssa.UnOp:
					if fa, isFA := x.X.(*ssa.FieldAddr); isFA {
						fv := fieldVar(fa.X.Type(), fa.Field)
						stored = func(in ssa.Instruction) bool {
							st, ok := in.(*ssa.Store)
							return ok && fieldStorePred(fv)(in) && st.Val == ssa.Value(call)
						}
					}
				}
				if stored == nil {
					c.Ob("C18-D7", name, call.Pos(), false, "cannot tell where the operand "+Term(opnd)+" of "+cs.Name+" was read from")
					continue
				}
				skip, trail := CanReachExitAvoiding(fn, call, stored)
				c.Ob("C18-D7", name, call.Pos(), !skip, "the result of "+cs.Name+" is not stored back into "+Term(opnd)+" on every path: the registry keeps its old length, with nil entries where the removed handlers' successors were: "+trailString(p, trail))
			}
		}
		if n < 2 {
			c.Undecided("C18-D7: found %d slices.DeleteFunc-like calls in the handler stores, expected at least 2", n)
		}
	}

	c.Rule("C18-D6", "registration shape: On appends to the persistent list, Once to the once-list, each under the store's mutex", 4)
	for _, a := range []struct{ fn, field string }{{"handlerStore.on", "e.funcs"}, {"handlerStore.once", "e.funcsOnce"}} {
		fn := p.Fn("sio", a.fn)
		li := Locks(fn)
		st := findInstrs(fn, storePred(regexpQuote(a.field)))
		ok := len(st) == 1
		detail := a.fn + " must store exactly once to " + a.field
		if ok {
			s := st[0].(*ssa.Store)
			t := Term(s.Val)
			ok = strings.HasPrefix(t, "append("+a.field+", ") && li.HoldsW(st[0], "e.mu")
			detail = "stored value " + t + " held=" + li.Held(st[0]).String()
		}
		others := findInstrs(fn, func(in ssa.Instruction) bool {
			s, isSt := in.(*ssa.Store)
			return isSt && strings.HasPrefix(Addr(s.Addr), "e.") && Addr(s.Addr) != a.field
		})
		c.Ob("C18-D6", "sio."+a.fn, fn.Pos(), ok && len(others) == 0, detail)
	}
	for _, a := range []struct{ fn, m string }{{"eventHandlerStore.on", "e.events"}, {"eventHandlerStore.once", "e.eventsOnce"}} {
		fn := p.Fn("sio", a.fn)
		li := Locks(fn)
		ups := findInstrs(fn, func(in ssa.Instruction) bool { _, ok := in.(*ssa.MapUpdate); return ok })
		ok := len(ups) == 1
		detail := a.fn + " must update exactly one map entry"
		if ok {
			mu := ups[0].(*ssa.MapUpdate)
			want := "append(" + a.m + "[eventName], "
			ok = Term(mu.Map) == a.m && Term(mu.Key) == "eventName" && strings.HasPrefix(Term(mu.Value), want) && li.HoldsW(ups[0], "e.mu")
			detail = fmt.Sprintf("%s[%s] = %s held=%s", Term(mu.Map), Term(mu.Key), Term(mu.Value), li.Held(ups[0]))
		}
		c.Ob("C18-D6", "sio."+a.fn, fn.Pos(), ok, detail)
	}
}

// checkOffIdentity implements C18-D2.
func checkOffIdentity(c *Ctx) {
	p := c.P
	off := p.Fn("sio", "handlerStore.off")
	// how does off() decide equality?
	raw := 0
	identity := 0
	var scan func(fn *ssa.Function, seen map[*ssa.Function]bool)
	scan = func(fn *ssa.Function, seen map[*ssa.Function]bool) {
		if seen[fn] || fn.Blocks == nil {
			return
		}
		seen[fn] = true
		for _, f := range WithAnons(fn) {
			for _, b := range f.Blocks {
				for _, in := range b.Instrs {
					switch in := in.(type) {
					case *ssa.BinOp:
						if in.Op != token.EQL && in.Op != token.NEQ {
							continue
						}
						if _, isTP := types.Unalias(in.X.Type()).(*types.TypeParam); isTP {
							raw++
							continue
						}
						tx, ty := Term(in.X), Term(in.Y)
						if strings.Contains(tx, ".Pointer()") && strings.Contains(ty, ".Pointer()") {
							identity++
						}
					case *ssa.Call:
						if callee := in.Call.StaticCallee(); callee != nil {
							callee = originOf(callee)
							if obj := callee.Object(); obj != nil && obj.Pkg() != nil && obj.Pkg().Path() == modPath {
								scan(callee, seen)
							}
						}
					}
				}
			}
		}
	}
	scan(off, map[*ssa.Function]bool{})
	mech := fmt.Sprintf("handlerStore.off compares: raw `==` on T ×%d, func-identity (reflect Pointer) ×%d", raw, identity)

	n := 0
	for _, fn := range p.SrcFuncs() {
		if fn.Parent() != nil || fn.Signature.Recv() == nil {
			continue
		}
		name := fn.Name()
		if !strings.HasPrefix(name, "Off") || name == "OffAll" || name == "OffEvent" || !fn.Signature.Variadic() {
			continue
		}
		for _, cs := range CallsTo(Calls(fn), `\(\*sio\.handlerStore\[T\]\)\.off`) {
			n++
			arg := cs.Common().Args[len(cs.Common().Args)-1]
			// are the elements addresses of this call's own storage?
			fresh := offArgIsFreshAddresses(fn, arg)
			ok := true
			detail := mech
			switch {
			case raw > 0 && identity == 0 && fresh:
				ok = false
				detail = mech + "; " + FuncName(fn) + " passes the addresses of its own variadic slice elements while On/Once stored the address of their own parameter copy: the comparison is constantly false and the handler is never removed"
			case raw == 0 && identity == 0:
				ok = false
				detail = mech + "; cannot establish how off() decides equality"
			}
			c.Ob("C18-D2", FuncName(fn), cs.Pos(), ok, detail)
		}
	}
	if n == 0 {
		c.Ob("C18-D2", "exported-Off-methods", off.Pos(), false, "no exported Off<X>(f ...) method reaches handlerStore.off")
	}
}

// offArgIsFreshAddresses: the slice passed to off() is filled with &param[i]
// (addresses of the caller's own variadic slice) or addresses of locals.
func offArgIsFreshAddresses(fn *ssa.Function, arg ssa.Value) bool {
	// arg is typically a local slice `f` = make([]*T, len(_f)); f[i] = &_f[i]
	fresh := false
	for _, b := range fn.Blocks {
		for _, in := range b.Instrs {
			st, ok := in.(*ssa.Store)
			if !ok {
				continue
			}
			ia, ok := st.Addr.(*ssa.IndexAddr)
			if !ok {
				continue
			}
			if !sameSliceRoot(ia.X, arg) {
				continue
			}
			switch v := st.Val.(type) {
			case *ssa.IndexAddr:
				if _, isParam := v.X.(*ssa.Parameter); isParam {
					fresh = true
				}
			case *ssa.Alloc:
				fresh = true
			}
		}
	}
	return fresh
}

func sameSliceRoot(a, b ssa.Value) bool {
	root := func(v ssa.Value) ssa.Value {
		for {
			switch x := v.(type) {
			case *ssa.Slice:
				v = x.X
			case *ssa.Phi:
				if len(x.Edges) > 0 {
					v = x.Edges[0]
				} else {
					return v
				}
			default:
				return v
			}
		}
	}
	return root(a) == root(b)
}

// freshResult: the slice a store's getAll returns must be freshly allocated
// (make/append onto a make), never the store's own backing array: the caller
// iterates it outside the lock while Off may compact the internal slice.
func freshResult(c *Ctx, rule, name string, fn *ssa.Function) {
	for _, b := range fn.Blocks {
		ret, ok := b.Instrs[len(b.Instrs)-1].(*ssa.Return)
		if !ok || len(ret.Results) != 1 || (len(b.Preds) == 0 && b.Index != 0) {
			continue
		}
		bad := ""
		seen := map[ssa.Value]bool{}
		var walk func(v ssa.Value)
		walk = func(v ssa.Value) {
			if seen[v] || bad != "" {
				return
			}
			seen[v] = true
			switch x := v.(type) {
			case *ssa.MakeSlice:
			case *ssa.Const:
			case *ssa.Phi:
				for _, e := range x.Edges {
					walk(e)
				}
			case *ssa.Slice:
				walk(x.X)
			case *ssa.Call:
				if bi, isB := x.Call.Value.(*ssa.Builtin); isB && bi.Name() == "append" {
					walk(x.Call.Args[0])
					return
				}
				if cn := calleeName(&x.Call); strings.HasPrefix(cn, "slices.Clone") {
					return
				}
				bad = Term(x)
			case *ssa.UnOp:
				// load of a named result variable: follow its stores
				if al, isAl := x.X.(*ssa.Alloc); isAl {
					for _, r := range *al.Referrers() {
						if st, isSt := r.(*ssa.Store); isSt && st.Addr == al {
							walk(st.Val)
						}
					}
					return
				}
				bad = Term(x)
			default:
				bad = Term(v)
			}
		}
		walk(ret.Results[0])
		c.Ob(rule, name+"/fresh-result", ret.Pos(), bad == "", "getAll returns "+bad+", the store's own storage, instead of a fresh copy: a handler that calls Off during dispatch compacts the slice being iterated (handlers skipped, nil entries)")
	}
}

func isBuiltinDeleteKey(in ssa.Instruction, m, k string) bool {
	cl, ok := in.(*ssa.Call)
	if !ok {
		return false
	}
	b, ok := cl.Call.Value.(*ssa.Builtin)
	return ok && b.Name() == "delete" && Term(cl.Call.Args[0]) == m && Term(cl.Call.Args[1]) == k
}
