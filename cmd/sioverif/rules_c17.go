package main

// C17 — invalid Engine.IO requests get the protocol's error and create no session.

import (
	"fmt"
	"go/ast"
	"go/constant"
	"go/token"
	"strings"

	"golang.org/x/tools/go/ssa"
)

func init() {
	register(&PropertySpec{
		ID:         "C17",
		NotDecided: "the full request matrix and uniqueness of 10^5..10^6 generated ids (runtime enumerations); decided are: an error reply and a session-creating call never share a path, validation order, the error code sent for each failed check, the error table = protocol, check-and-insert atomicity of the session store, and publication after the shutdown flag re-checked.",
		Run:        runC17,
	})
}

// Engine.IO v4 protocol: error codes and messages of the reference implementation.
var eioErrorTable = map[int64]string{
	0: "Transport unknown",
	1: "Session ID unknown",
	2: "Bad handshake method",
	3: "Bad request",
	4: "Forbidden",
	5: "Unsupported protocol version",
}

func runC17(c *Ctx) {
	p := c.P
	isErrReply := callPred(`eio\.writeServerError`)
	creating := `\(\*eio\.Server\)\.newSocket|\(\*eio\.socketStore\)\.set|\(\*eio\.serverSocket\)\.upgradeTo|eio\.newServerSocket`
	isCreate := callPred(creating)

	c.Rule("C17-D1", "no side effect with an error reply: on no path do a protocol error reply and a session-creating/altering call (newSocket, store.set, upgradeTo) both occur; the closed check precedes everything, the version check precedes the sid lookup and the handshake", 12)
	for _, fnn := range []string{"Server.ServeHTTP", "Server.handleHandshake", "Server.onWebTransport", "Server.maybeUpgrade"} {
		top := p.Fn("eio", fnn)
		for _, fn := range WithAnons(top) {
			for _, e := range findInstrs(fn, isErrReply) {
				after, trail := CanReachAvoiding(fn, e, isCreate, nil)
				c.Ob("C17-D1", "eio."+fnn+"/no-create-after-error", e.Pos(), !after, "after writing a protocol error a session-creating call is still reachable: "+trailString(p, trail))
				// and also no delegation to functions that create
				after2, trail2 := CanReachAvoiding(fn, e, callPred(`\(\*eio\.Server\)\.(handleHandshake|maybeUpgrade|onWebTransport)|\(eio\.ServerTransport\)\.(ServeHTTP|Handshake|PostHandshake)`), nil)
				c.Ob("C17-D1", "eio."+fnn+"/return-after-error", e.Pos(), !after2, "after writing a protocol error the request is still processed: "+trailString(p, trail2))
			}
			for _, cr := range findInstrs(fn, orPred(isCreate, callPred(`\(\*eio\.Server\)\.(handleHandshake|maybeUpgrade|onWebTransport)|\(eio\.ServerTransport\)\.(ServeHTTP|Handshake|PostHandshake)`))) {
				after, trail := CanReachAvoiding(fn, cr, isErrReply, nil)
				c.Ob("C17-D1", "eio."+fnn+"/no-error-after-create", cr.Pos(), !after, "a protocol error reply is reachable after a session was created/altered: "+trailString(p, trail))
			}
		}
	}
	{
		fn := p.Fn("eio", "Server.ServeHTTP")
		rest := callPred(`\(\*eio\.Server\)\.(handleHandshake|maybeUpgrade)|\(\*eio\.socketStore\)\.get|\(eio\.ServerTransport\)\.ServeHTTP|eio\.writeServerError`)
		r, trail := PrunedCanReach(fn, nil, []Assume{{`s\.IsClosed\(\)`, true}}, rest, nil)
		c.Ob("C17-D1", "eio.Server.ServeHTTP/closed-first", fn.Pos(), !r, "a closed server still processes the request: "+trailString(p, trail))
		ic := CallsTo(Calls(fn), `\(\*eio\.Server\)\.IsClosed`)
		c.Ob("C17-D1", "eio.Server.ServeHTTP/checks-closed", fn.Pos(), len(ic) >= 1, "ServeHTTP never checks IsClosed()")
		// version: for non-HTTP/3 requests a parse failure or a mismatch must not reach lookup/handshake
		lookup := callPred(`\(\*eio\.Server\)\.(handleHandshake|maybeUpgrade)|\(\*eio\.socketStore\)\.get|\(eio\.ServerTransport\)\.ServeHTTP`)
		at := CallsTo(Calls(fn), `strconv\.Atoi`)
		if len(at) != 1 {
			c.Ob("C17-D1", "eio.Server.ServeHTTP/version-parse", fn.Pos(), false, fmt.Sprintf("expected one strconv.Atoi of the EIO parameter, found %d", len(at)))
		} else {
			T := Term(at[0].Instr.(*ssa.Call))
			c.Ob("C17-D1", "eio.Server.ServeHTTP/version-source", at[0].Pos(), strings.Contains(T, `Get("EIO")`), "the protocol version must be read from the EIO query parameter; parses "+T)
			base := []Assume{{`s\.IsClosed\(\)`, false}, {`\(r\.ProtoMajor != 3\)`, true}, {`\(r\.ProtoMajor == 3\)`, false}, {`.*isWebTransportRequest\(r\)`, false}}
			// the check is skipped for the WebTransport CONNECT only, not for every HTTP/3 request (F50): whatever guards the
			// parse mentions the request method next to the protocol version — inline, or in the helper it calls
			mentionsMethod := false
			var guardTerms []string
			for _, g := range Guards(at[0].Instr) {
				t := Term(g.Cond)
				guardTerms = append(guardTerms, t)
				if strings.Contains(t, ".Method") {
					mentionsMethod = true
				}
				var call *ssa.Call
				switch x := g.Cond.(type) {
				case *ssa.Call:
					call = x
				case *ssa.UnOp:
					call, _ = x.X.(*ssa.Call)
				}
				if call != nil && call.Call.StaticCallee() != nil && p.inModule(call.Call.StaticCallee()) {
					for _, bb := range call.Call.StaticCallee().Blocks {
						for _, in := range bb.Instrs {
							if bo, isB := in.(*ssa.BinOp); isB && strings.Contains(Term(bo.X), ".Method") && strings.Contains(Term(bo.Y), "CONNECT") {
								mentionsMethod = true
							}
						}
					}
				}
			}
			protoOnly := false
			for _, t := range guardTerms {
				if strings.Contains(t, "ProtoMajor") {
					protoOnly = true
				}
			}
			c.Ob("C17-D1", "eio.Server.ServeHTTP/version-check-skipped-for-webtransport-only", at[0].Pos(), mentionsMethod || !protoOnly && len(guardTerms) == 0, fmt.Sprintf("the EIO version check runs under %v: every HTTP/3 request skips it, not only the WebTransport CONNECT — GET ?EIO=3 over HTTP/3 gets a session", guardTerms))
			r1, t1 := PrunedCanReach(fn, nil, append(base, Assume{regexpQuote("(" + T + "#1 != nil)"), true}, Assume{regexpQuote("(" + T + "#1 == nil)"), false}), lookup, nil)
			c.Ob("C17-D1", "eio.Server.ServeHTTP/bad-version-no-lookup[parse]", at[0].Pos(), !r1, "an unparsable EIO version still reaches the sid lookup / handshake: "+trailString(p, t1))
			r2, t2 := PrunedCanReach(fn, nil, append(base, Assume{regexpQuote("(" + T + "#1 != nil)"), false}, Assume{regexpQuote("(" + T + "#1 == nil)"), true}, Assume{regexpQuote("(" + T + "#0 != 4)"), true}, Assume{regexpQuote("(" + T + "#0 == 4)"), false}), lookup, nil)
			c.Ob("C17-D1", "eio.Server.ServeHTTP/bad-version-no-lookup[mismatch]", at[0].Pos(), !r2, "an unsupported EIO version still reaches the sid lookup / handshake: "+trailString(p, t2))
			// the compared constant is the protocol version
			cmp := findInstrs(fn, func(in ssa.Instruction) bool {
				b, ok := in.(*ssa.BinOp)
				return ok && (b.Op == token.NEQ || b.Op == token.EQL) && Term(b.X) == T+"#0"
			})
			okc := len(cmp) == 1 && Term(cmp[0].(*ssa.BinOp).Y) == p.ConstVal("eioparser", "ProtocolVersion")
			c.Ob("C17-D1", "eio.Server.ServeHTTP/version-constant", at[0].Pos(), okc, "the version must be compared with ProtocolVersion ("+p.ConstVal("eioparser", "ProtocolVersion")+")")
		}
	}

	c.Rule("C17-D2", "right code: unknown sid ⇒ 1, unparsable/unsupported version ⇒ 5, unknown transport ⇒ 0 (and only then), non-GET handshake ⇒ 2; the error table equals the protocol's (codes 0–5, messages), keys = codes; the reply is HTTP 400 with the table entry", 12)
	{
		type want struct {
			fn    string
			code  string
			under []Assume // conditions under which this reply must be the one reached
			desc  string
		}
		fn := p.Fn("eio", "Server.ServeHTTP")
		gets := CallsTo(Calls(fn), `\(\*eio\.socketStore\)\.get`)
		if len(gets) == 1 {
			T := Term(gets[0].Instr.(*ssa.Call))
			okKey := Term(gets[0].Arg(0)) == `r.URL.Query().Get("sid")`
			c.Ob("C17-D2", "eio.Server.ServeHTTP/lookup-by-sid", gets[0].Pos(), okKey, "the session is looked up by "+Term(gets[0].Arg(0))+" (expected the sid query parameter)")
			for _, e := range findInstrs(fn, isErrReply) {
				if HasGuard(e, regexpQuote(T+"#1")+"==false") {
					c.Ob("C17-D2", "eio.Server.ServeHTTP/unknown-sid-code", e.Pos(), Term(e.(*ssa.Call).Call.Args[1]) == "1", "unknown sid answered with code "+Term(e.(*ssa.Call).Call.Args[1])+" (expected 1)")
				}
			}
			// unknown sid ⇒ an error reply is reached, nothing else
			sk, tr := PrunedCanReach(fn, gets[0].Instr, []Assume{{regexpQuote(T + "#1"), false}}, nil, isErrReply)
			c.Ob("C17-D2", "eio.Server.ServeHTTP/unknown-sid-replied", gets[0].Pos(), !sk, "an unknown sid is not answered with a protocol error: "+trailString(p, tr))
			use, tr2 := PrunedCanReach(fn, gets[0].Instr, []Assume{{regexpQuote(T + "#1"), false}}, callPred(`\(\*eio\.Server\)\.maybeUpgrade|\(eio\.ServerTransport\)\.ServeHTTP|\(\*eio\.serverSocket\)\..*`), nil)
			c.Ob("C17-D2", "eio.Server.ServeHTTP/unknown-sid-not-used", gets[0].Pos(), !use, "with an unknown sid the (nil) session is still used: "+trailString(p, tr2))
		} else {
			c.Ob("C17-D2", "eio.Server.ServeHTTP/lookup", fn.Pos(), false, "expected one store.get in ServeHTTP")
		}
		for _, e := range findInstrs(fn, isErrReply) {
			gs := strings.Join(GuardTerms(e), " ")
			if strings.Contains(gs, "strconv.Atoi") && !strings.Contains(gs, "store.get") {
				c.Ob("C17-D2", "eio.Server.ServeHTTP/version-code", e.Pos(), Term(e.(*ssa.Call).Call.Args[1]) == "5", "version failure answered with code "+Term(e.(*ssa.Call).Call.Args[1])+" (expected 5)")
			}
		}
		hh := p.Fn("eio", "Server.handleHandshake")
		for _, e := range findInstrs(hh, isErrReply) {
			code := Term(e.(*ssa.Call).Call.Args[1])
			// the bad-method reply: not reachable for a GET (decided by path pruning, so `if a && b` and `switch { case a && b: }` are alike)
			viaGet, _ := PrunedCanReach(hh, nil, []Assume{{`\(r\.Method != "GET"\)`, false}, {`\(r\.Method == "GET"\)`, true}}, func(in ssa.Instruction) bool { return in == e }, nil)
			switch {
			case !viaGet:
				c.Ob("C17-D2", "eio.Server.handleHandshake/bad-method-code", e.Pos(), code == "2", "non-GET handshake answered with code "+code+" (expected 2)")
			default:
				// transport switch default: unreachable for polling / websocket
				r1, _ := PrunedCanReach(hh, nil, []Assume{{`\(r\.URL\.Query\(\)\.Get\("transport"\) == "polling"\)`, true}}, func(in ssa.Instruction) bool { return in == e }, nil)
				r2, _ := PrunedCanReach(hh, nil, []Assume{{`\(r\.URL\.Query\(\)\.Get\("transport"\) == "polling"\)`, false}, {`\(r\.URL\.Query\(\)\.Get\("transport"\) == "websocket"\)`, true}}, func(in ssa.Instruction) bool { return in == e }, nil)
				c.Ob("C17-D2", "eio.Server.handleHandshake/unknown-transport-code", e.Pos(), code == "0" && !r1 && !r2, "reply with code "+code+" in the transport switch (expected 0, reachable only for a transport that is neither polling nor websocket)")
			}
		}
		// a handshake with an unknown transport creates nothing: newSocket unreachable
		nr, tr := PrunedCanReach(hh, nil, []Assume{{`\(r\.URL\.Query\(\)\.Get\("transport"\) == "polling"\)`, false}, {`\(r\.URL\.Query\(\)\.Get\("transport"\) == "websocket"\)`, false}, {`\(r\.Method == "CONNECT"\)`, false}}, isCreate, nil)
		c.Ob("C17-D2", "eio.Server.handleHandshake/unknown-transport-no-session", hh.Pos(), !nr, "a handshake naming an unknown transport still creates a session: "+trailString(p, tr))
		nm, tr3 := PrunedCanReach(hh, nil, []Assume{{`\(r\.Method != "GET"\)`, true}, {`\(r\.ProtoMajor != 3\)`, true}}, isCreate, nil)
		c.Ob("C17-D2", "eio.Server.handleHandshake/bad-method-no-session", hh.Pos(), !nm, "a non-GET handshake still creates a session: "+trailString(p, tr3))
		// authenticator refusal creates nothing
		na, tr4 := PrunedCanReach(hh, nil, []Assume{{`dyn:s\.authenticator\(w, r\)`, false}}, isCreate, nil)
		c.Ob("C17-D2", "eio.Server.handleHandshake/forbidden-no-session", hh.Pos(), !na, "a handshake the authenticator refused still creates a session: "+trailString(p, tr4))
		errorTable(c, "C17-D2")
		we := p.Fn("eio", "writeServerError")
		wh := CallsTo(Calls(we), `\(net/http\.ResponseWriter\)\.WriteHeader`)
		c.Ob("C17-D2", "eio.writeServerError/status", we.Pos(), len(wh) == 1 && Term(wh[0].Arg(0)) == "400", "protocol errors are answered with HTTP 400")
		lk := findInstrs(we, func(in ssa.Instruction) bool {
			l, ok := in.(*ssa.Lookup)
			return ok && Term(l.X) == "eio.serverErrors" && Term(l.Index) == "code"
		})
		c.Ob("C17-D2", "eio.writeServerError/entry", we.Pos(), len(lk) == 1 && len(CallsTo(Calls(we), `\(net/http\.ResponseWriter\)\.Write`)) == 1, "the body must be the table entry of the given code")
	}

	c.Rule("C17-D3", "unique ids: the session store tests and inserts in one write-locked region and never overwrites; newSocket closes the socket and returns nil on a clash; generateSID retries against the store; the sequence counter is read and incremented under its mutex", 8)
	{
		fn := p.Fn("eio", "socketStore.set")
		li := Locks(fn)
		lks := findInstrs(fn, func(in ssa.Instruction) bool {
			l, ok := in.(*ssa.Lookup)
			return ok && Term(l.X) == "s.sockets" && Term(l.Index) == "sid" && l.CommaOk
		})
		ups := findInstrs(fn, func(in ssa.Instruction) bool {
			m, ok := in.(*ssa.MapUpdate)
			return ok && Term(m.Map) == "s.sockets"
		})
		if len(lks) != 1 || len(ups) != 1 {
			c.Ob("C17-D3", "eio.socketStore.set/shape", fn.Pos(), false, fmt.Sprintf("expected one existence test and one insert; found %d and %d", len(lks), len(ups)))
		} else {
			T := Term(lks[0].(*ssa.Lookup))
			c.Ob("C17-D3", "eio.socketStore.set/one-critical-section", ups[0].Pos(), li.HoldsW(ups[0], "s.mu") && SameRegion(li, lks[0], ups[0], "s.mu"), "existence test and insert must share one write-locked region; held="+li.Held(ups[0]).String())
			ow, trail := PrunedCanReach(fn, lks[0], []Assume{{regexpQuote(T + "#1"), true}}, func(in ssa.Instruction) bool { return in == ups[0] }, nil)
			c.Ob("C17-D3", "eio.socketStore.set/never-overwrites", ups[0].Pos(), !ow, "an existing session id is overwritten: "+trailString(p, trail))
			m := ups[0].(*ssa.MapUpdate)
			c.Ob("C17-D3", "eio.socketStore.set/inserts-given", ups[0].Pos(), Term(m.Key) == "sid" && Term(m.Value) == "socket", "set must insert sockets[sid] = socket")
			// reports the clash
			for _, b := range fn.Blocks {
				if ret, ok := b.Instrs[len(b.Instrs)-1].(*ssa.Return); ok && len(ret.Results) == 1 {
					if r, _ := PrunedCanReach(fn, lks[0], []Assume{{regexpQuote(T + "#1"), true}}, func(in ssa.Instruction) bool { return in == ret }, nil); r {
						c.Ob("C17-D3", "eio.socketStore.set/reports-clash", ret.Pos(), retTerm(ret, 0) == "false", "on a clash set returns "+retTerm(ret, 0)+" (expected false)")
					}
				}
			}
		}
		ns := p.Fn("eio", "Server.newSocket")
		sets := CallsTo(Calls(ns), `\(\*eio\.socketStore\)\.set`)
		if len(sets) == 1 {
			T := Term(sets[0].Instr.(*ssa.Call))
			c.Ob("C17-D3", "eio.Server.newSocket/registers-under-sid", sets[0].Pos(), Term(sets[0].Arg(0)) == "sid" && strings.HasPrefix(Term(sets[0].Arg(1)), "eio.newServerSocket(sid,"), "store.set("+Term(sets[0].Arg(0))+", …) must register the new socket under the generated sid it was created with")
			retSock := func(in ssa.Instruction) bool {
				r, ok := in.(*ssa.Return)
				return ok && len(r.Results) == 1 && Term(r.Results[0]) != "nil"
			}
			live, trail := PrunedCanReach(ns, sets[0].Instr, []Assume{{regexpQuote(T), false}}, retSock, nil)
			c.Ob("C17-D3", "eio.Server.newSocket/clash-not-admitted", sets[0].Pos(), !live, "after a sid clash the socket is still returned: "+trailString(p, trail))
			nc, trail2 := PrunedCanReach(ns, sets[0].Instr, []Assume{{regexpQuote(T), false}}, nil, callPred(`\(\*eio\.serverSocket\)\.(close|Close)`))
			c.Ob("C17-D3", "eio.Server.newSocket/clash-closes", sets[0].Pos(), !nc, "after a sid clash the orphan socket is not closed: "+trailString(p, trail2))
		} else {
			c.Ob("C17-D3", "eio.Server.newSocket/set", ns.Pos(), false, "expected one store.set in newSocket")
		}
		gs := p.Fn("eio", "Server.generateSID")
		ex := CallsTo(Calls(gs), `\(\*eio\.socketStore\)\.exists`)
		if len(ex) == 1 {
			T := Term(ex[0].Instr.(*ssa.Call))
			okg := true
			for _, b := range gs.Blocks {
				if ret, ok := b.Instrs[len(b.Instrs)-1].(*ssa.Return); ok && len(ret.Results) == 2 && Term(ret.Results[0]) != `""` {
					// a successful return requires exists == false
					if r, _ := PrunedCanReach(gs, ex[0].Instr, []Assume{{regexpQuote(T), true}}, func(in ssa.Instruction) bool { return in == ret }, callPred(`eio\.GenerateBase64ID`)); r {
						okg = false
					}
				}
			}
			c.Ob("C17-D3", "eio.Server.generateSID/retries-on-clash", ex[0].Pos(), okg && inLoop(ex[0].Instr.Block()) && strings.HasPrefix(Term(ex[0].Arg(0)), "eio.GenerateBase64ID("), "a generated id that already exists must not be returned; the check must be against the id just generated, in a retry loop")
		} else {
			c.Ob("C17-D3", "eio.Server.generateSID/exists", gs.Pos(), false, "generateSID never checks the store")
		}
		gb := p.Fn("eio", "GenerateBase64ID")
		lig := Locks(gb)
		seq := p.Global("eio", "base64IDSeq")
		for _, b := range gb.Blocks {
			for _, in := range b.Instrs {
				switch x := in.(type) {
				case *ssa.UnOp:
					if x.Op == token.MUL && x.X == ssa.Value(seq) {
						c.Ob("C17-D3", "eio.GenerateBase64ID/seq-read", x.Pos(), lig.HoldsW(x, "eio.base64IDMu"), "sequence counter read without base64IDMu")
					}
				case *ssa.Store:
					if x.Addr == ssa.Value(seq) {
						c.Ob("C17-D3", "eio.GenerateBase64ID/seq-write", x.Pos(), lig.HoldsW(x, "eio.base64IDMu") && strings.Contains(Term(x.Val), "+ 1"), "sequence counter must be incremented under base64IDMu")
					}
				}
			}
		}
		// the sequence is mixed into the id
		pu := CallsTo(Calls(gb), `\(encoding/binary\.bigEndian\)\.PutUint32`)
		c.Ob("C17-D3", "eio.GenerateBase64ID/seq-in-id", gb.Pos(), len(pu) == 1 && Term(pu[0].Arg(1)) == "eio.base64IDSeq", "the sequence number must be written into the id bytes")
	}

	c.Rule("C17-D6", "a session is found only in its own server's table: every value socketStore.get can return is nil or a lookup in the store's map made under its mutex — a remembered 'last session' "+
		"(worse: one shared by all servers of the process) answers for a sid the table does not hold: a closed session is served again, or server B serves server A's session", 1)
	lookupsFromGuardedMaps(c, "C17-D6", []storeGetter{{"eio", "socketStore", "get"}})

	c.Rule("C17-D7", "a closed session is not altered — not by a late UPGRADE either (F57, shared with C06-D12)", 3)
	closedSocketAdoptsNoTransport(c, "C17-D7")

	c.Rule("C17-D8", "a request that reaches a live session's polling transport is answered explicitly (F70, known finding): every path through polling.ServerTransport.ServeHTTP hands the ResponseWriter to a handler or writes a reply — "+
		"a path that writes nothing is `200 OK` with an empty body, not the protocol's error", 1)
	transportAnswersEveryRequest(c, "C17-D8")

	c.Rule("C17-D5", "a closed session is unknown afterwards: whatever the close reason, the Engine.IO close body calls or defers onClose(s.id) on every path, and newSocket wires that callback to the store's delete "+
		"— a session that ended by CLOSE packet, transport drop or buffer overflow and stays in the table keeps answering its sid with 200 instead of error 1 (shared with C06-D2)", 2)
	{
		owner := p.Fn("eio", "serverSocket.close")
		body := onceBodyOf(owner, "s.closeOnce")
		if body == nil {
			anchorFail("C17-D5: once body of eio.serverSocket.close not found")
		}
		isOnClose := func(in ssa.Instruction) bool {
			ci, ok := in.(ssa.CallInstruction)
			if !ok {
				return false
			}
			return stripAmp(Term(ci.Common().Value)) == "s.onClose" && len(ci.Common().Args) == 1 && Term(ci.Common().Args[0]) == "s.id"
		}
		skip, trail := CanReachExitAvoiding(body, nil, isOnClose)
		c.Ob("C17-D5", "eio.serverSocket.close/removes-session", body.Pos(), !skip, "a path through the close body neither calls nor defers s.onClose(s.id): the session id stays known: "+trailString(p, trail))
		ns := p.Fn("eio", "Server.newSocket")
		nss := CallsTo(Calls(ns), `eio\.newServerSocket`)
		okW := false
		for _, cs := range nss {
			for _, a := range cs.Common().Args {
				if strings.Contains(Term(a), "socketStore).delete") || strings.Contains(Term(a), "store.delete") {
					okW = true
				}
			}
		}
		c.Ob("C17-D5", "eio.Server.newSocket/onClose=store.delete", ns.Pos(), okW, "newServerSocket's onClose argument is not the store's delete: closed sessions are never forgotten")
	}

	c.Rule("C17-D4", "shutdown: Close sets the closed flag before sweeping the store; a session inserted after the entry check re-reads the flag and is closed instead of admitted (ADMIT-RECHECK)", 4)
	admitRecheck(c, "C17-D4", false, true)
	{
		ca := p.Fn("eio", "socketStore.closeAll")
		cl := CallsTo(Calls(ca), `\(\*eio\.serverSocket\)\.Close`)
		c.Ob("C17-D4", "eio.socketStore.closeAll", ca.Pos(), len(cl) == 1 && inLoop(cl[0].Instr.Block()) && strings.HasPrefix(stripAmp(Term(cl[0].Common().Args[0])), "s.getAll()["), "closeAll must close every live session")
		ic := p.Fn("eio", "Server.IsClosed")
		rd := false
		for _, st := range SelectStates(ic) {
			if !st.Send && st.Chan == "s.closed" {
				rd = true
			}
		}
		c.Ob("C17-D4", "eio.Server.IsClosed", ic.Pos(), rd, "IsClosed must test the closed channel")
	}
}

// errorTable compares the serverErrors literal with the protocol table.
func errorTable(c *Ctx, rule string) {
	p := c.P
	pk := p.Pkg("eio")
	found := false
	for _, f := range pk.Syntax {
		for _, d := range f.Decls {
			gd, ok := d.(*ast.GenDecl)
			if !ok || gd.Tok != token.VAR {
				continue
			}
			for _, sp := range gd.Specs {
				vs := sp.(*ast.ValueSpec)
				for i, nm := range vs.Names {
					if nm.Name != "serverErrors" || i >= len(vs.Values) {
						continue
					}
					lit, ok := vs.Values[i].(*ast.CompositeLit)
					if !ok {
						c.Ob(rule, "eio.serverErrors/literal", nm.Pos(), false, "serverErrors is not a composite literal")
						continue
					}
					found = true
					seen := map[int64]bool{}
					for _, el := range lit.Elts {
						kv, ok := el.(*ast.KeyValueExpr)
						if !ok {
							continue
						}
						tv := pk.TypesInfo.Types[kv.Key]
						key, exact := constant.Int64Val(tv.Value)
						if tv.Value == nil || !exact {
							c.Ob(rule, "eio.serverErrors/key", kv.Pos(), false, "non-constant key")
							continue
						}
						seen[key] = true
						var code int64 = -1
						msg := ""
						if v, ok := kv.Value.(*ast.CompositeLit); ok {
							for _, fe := range v.Elts {
								fkv, ok := fe.(*ast.KeyValueExpr)
								if !ok {
									continue
								}
								fn := fkv.Key.(*ast.Ident).Name
								ftv := pk.TypesInfo.Types[fkv.Value]
								if ftv.Value == nil {
									continue
								}
								if fn == "Code" {
									code, _ = constant.Int64Val(ftv.Value)
								}
								if fn == "Message" {
									msg = constant.StringVal(ftv.Value)
								}
							}
						}
						want, known := eioErrorTable[key]
						c.Ob(rule, fmt.Sprintf("eio.serverErrors[%d]", key), kv.Pos(), known && code == key && msg == want, fmt.Sprintf("entry %d = {Code: %d, Message: %q}; protocol: {Code: %d, Message: %q}", key, code, msg, key, want))
					}
					for k := range eioErrorTable {
						if !seen[k] {
							c.Ob(rule, fmt.Sprintf("eio.serverErrors[%d]", k), lit.Pos(), false, "protocol error code missing from the table")
						}
					}
				}
			}
		}
	}
	if !found {
		anchorFail("eio.serverErrors literal not found")
	}
	// the named constants have the protocol's values
	for name, want := range map[string]string{"ErrorUnknownTransport": "0", "ErrorUnknownSID": "1", "ErrorBadHandshakeMethod": "2", "ErrorBadRequest": "3", "ErrorForbidden": "4", "ErrorUnsupportedProtocolVersion": "5"} {
		v := p.ConstVal("eio", name)
		c.Ob(rule, "eio."+name, p.Pkg("eio").Types.Scope().Lookup(name).Pos(), v == want, "constant "+name+" = "+v+" (protocol: "+want+")")
	}
}
