package main

// C10-D10: optional pointer fields of the decoded packet header (PacketHeader.ID)
// are dereferenced on the receive path only where they are known to be set.

import (
	"fmt"
	"go/constant"
	"go/token"
	"go/types"
	"sort"
	"strings"

	"golang.org/x/tools/go/ssa"
)

// headerPtrLoad: v is a load of a pointer-typed field of parser.PacketHeader.
func headerPtrLoad(v ssa.Value) (*ssa.FieldAddr, *types.Var, bool) {
	ld, ok := v.(*ssa.UnOp)
	if !ok || ld.Op != token.MUL {
		return nil, nil, false
	}
	fa, ok := ld.X.(*ssa.FieldAddr)
	if !ok {
		return nil, nil, false
	}
	nt, ok := deref(fa.X.Type()).(*types.Named)
	if !ok || nt.Obj().Name() != "PacketHeader" || nt.Obj().Pkg() == nil || !strings.HasSuffix(nt.Obj().Pkg().Path(), "/parser") {
		return nil, nil, false
	}
	fv := fieldVar(fa.X.Type(), fa.Field)
	if fv == nil {
		return nil, nil, false
	}
	if _, isPtr := fv.Type().Underlying().(*types.Pointer); !isPtr {
		return nil, nil, false
	}
	return fa, fv, true
}

// foldHeaderMethod: the value of a bool method of *PacketHeader when the header's Type is T.
func foldHeaderMethod(m *ssa.Function, T int64) (val, known bool) {
	if m == nil || len(m.Blocks) == 0 || len(m.Params) == 0 {
		return false, false
	}
	env := &constEnv{byTerm: map[string]int64{Term(m.Params[0]) + ".Type": T}}
	paths, complete := prunedPaths(m, env, nil, 64)
	if !complete || len(paths) == 0 {
		return false, false
	}
	first := true
	for _, pa := range paths {
		ret, ok := pa.End.(*ssa.Return)
		if !ok || pa.Loops || len(ret.Results) != 1 {
			return false, false
		}
		v, k := env.evalBool(ret.Results[0], pa.PhiSrc, 0)
		if !k {
			return false, false
		}
		if first {
			val, first = v, false
		} else if v != val {
			return false, false
		}
	}
	return val, true
}

// packetTypeAssumes: the outcome of every test of a PacketHeader's Type in fn (comparisons with constants and
// the header's bool methods) for packet type T.
func packetTypeAssumes(fn *ssa.Function, T int64) []Assume {
	var as []Assume
	for _, f := range append([]*ssa.Function{fn}, transparentCalleesOf(fn)...) {
		for _, b := range f.Blocks {
			for _, in := range b.Instrs {
				switch x := in.(type) {
				case *ssa.BinOp:
					nt, isN := x.X.Type().(*types.Named)
					if !isN || nt.Obj().Name() != "PacketType" {
						continue
					}
					k, isK := x.Y.(*ssa.Const)
					if !isK || k.Value == nil || k.Value.Kind() != constant.Int {
						continue
					}
					kv := k.Int64()
					switch x.Op {
					case token.EQL:
						as = append(as, assumeCond(x, T == kv))
					case token.NEQ:
						as = append(as, assumeCond(x, T != kv))
					case token.LSS:
						as = append(as, assumeCond(x, T < kv))
					case token.LEQ:
						as = append(as, assumeCond(x, T <= kv))
					case token.GTR:
						as = append(as, assumeCond(x, T > kv))
					case token.GEQ:
						as = append(as, assumeCond(x, T >= kv))
					}
				case *ssa.Call:
					sc := x.Call.StaticCallee()
					if sc == nil || sc.Signature.Recv() == nil || !strings.HasSuffix(sc.Signature.Recv().Type().String(), "/parser.PacketHeader") {
						continue
					}
					if bt, isB := x.Type().Underlying().(*types.Basic); !isB || bt.Kind() != types.Bool {
						continue
					}
					if v, known := foldHeaderMethod(sc, T); known {
						as = append(as, assumeCond(x, v))
					}
				}
			}
		}
	}
	return as
}

func c10HeaderOptionalFields(c *Ctx, scope map[*ssa.Function][]string) {
	rule := "C10-D10"
	p := c.P
	c.Rule(rule, "optional header fields: every dereference of a pointer field of the decoded parser.PacketHeader (ID) in the functions of the receive path is dominated by a non-nil test of that "+
		"field (in the function, at the creation of the closure it sits in, or at the call site of a private helper), or else the packet parser refuses a header without the field for every packet "+
		"type under which the dereferencing function is dispatched (folded per packet type over parseHeader and the dispatching switch) — an ACK or BINARY_ACK without an id is a peer's packet, "+
		"not a reason to panic", 8)
	var fns []*ssa.Function
	inFns := map[*ssa.Function]bool{}
	reached := scope
	scope = map[*ssa.Function][]string{}
	for fn, path := range reached {
		scope[fn] = path
	}
	for fn := range reached {
		// with its closures: one handed to reflect.MakeFunc or started as a goroutine has no call edge
		for _, f := range WithAnons(fn) {
			if !inFns[f] {
				inFns[f] = true
				fns = append(fns, f)
				if _, ok := scope[f]; !ok {
					scope[f] = append(append([]string{}, reached[fn]...), FuncName(f))
				}
			}
		}
	}
	sort.Slice(fns, func(i, j int) bool { return FuncName(fns[i]) < FuncName(fns[j]) })

	// (b) what the parser establishes, per packet type
	parserRejects := map[int64]*bool{}
	rejects := func(fv *types.Var, T int64) bool {
		if r := parserRejects[T]; r != nil {
			return *r
		}
		res := false
		defer func() { parserRejects[T] = &res }()
		ph := p.FnOpt("jsonparser", "Parser.parseHeader")
		if ph == nil {
			return false
		}
		as := packetTypeAssumes(ph, T)
		for _, f := range append([]*ssa.Function{ph}, transparentCalleesOf(ph)...) {
			for _, b := range f.Blocks {
				for _, in := range b.Instrs {
					bo, ok := in.(*ssa.BinOp)
					if !ok || (bo.Op != token.EQL && bo.Op != token.NEQ) {
						continue
					}
					if _, v, isH := headerPtrLoad(bo.X); isH && v == fv {
						if k, isK := bo.Y.(*ssa.Const); isK && k.Value == nil {
							as = append(as, assumeCond(bo, bo.Op == token.EQL))
						}
					}
				}
			}
		}
		setsField := func(in ssa.Instruction) bool {
			st, ok := in.(*ssa.Store)
			if !ok {
				return false
			}
			fa, ok := st.Addr.(*ssa.FieldAddr)
			return ok && fieldVar(fa.X.Type(), fa.Field) == fv
		}
		errIdx := -1
		rs := ph.Signature.Results()
		for i := 0; i < rs.Len(); i++ {
			if rs.At(i).Type().String() == "error" {
				errIdx = i
			}
		}
		if errIdx < 0 {
			return false
		}
		successReturn := func(in ssa.Instruction) bool {
			ret, ok := in.(*ssa.Return)
			if !ok || errIdx >= len(ret.Results) {
				return false
			}
			ev := ret.Results[errIdx]
			if k, isK := ev.(*ssa.Const); isK && k.Value == nil {
				return true
			}
			// an error value: a package-level error, a freshly built one, or one tested non-nil on the way here
			if ld, isLd := ev.(*ssa.UnOp); isLd && ld.Op == token.MUL {
				if _, isG := ld.X.(*ssa.Global); isG {
					return false
				}
			}
			if call, isCall := ev.(*ssa.Call); isCall && call.Call.StaticCallee() != nil {
				switch call.Call.StaticCallee().String() {
				case "fmt.Errorf", "errors.New":
					return false
				}
			}
			t := regexpQuote(Term(ev))
			if HasGuard(in, `^\(`+t+` != nil(:[^)]*)?\)==true$`) || HasGuard(in, `^\(`+t+` == nil(:[^)]*)?\)==false$`) {
				return false
			}
			return true
		}
		reach, _ := PrunedCanReach(ph, nil, as, successReturn, setsField)
		res = !reach
		return res
	}

	typeName := map[int64]string{0: "CONNECT", 1: "DISCONNECT", 2: "EVENT", 3: "ACK", 4: "CONNECT_ERROR", 5: "BINARY_EVENT", 6: "BINARY_ACK"}
	// the packet types under which fn is invoked: folded over the Type tests in its module callers
	cg := p.CallGraph()
	dispatchedFor := func(fn *ssa.Function) []int64 {
		top := EnclosingTop(fn)
		node := cg.Nodes[top]
		types_ := map[int64]bool{}
		if node == nil || len(node.In) == 0 {
			for T := int64(0); T <= 6; T++ {
				types_[T] = true
			}
		} else {
			for _, e := range node.In {
				caller := e.Caller.Func
				if !p.inModule(caller) || len(caller.Blocks) == 0 || e.Site == nil {
					for T := int64(0); T <= 6; T++ {
						types_[T] = true
					}
					continue
				}
				site := e.Site.(ssa.Instruction)
				for T := int64(0); T <= 6; T++ {
					if reach, _ := PrunedCanReach(caller, nil, packetTypeAssumes(caller, T), func(in ssa.Instruction) bool { return in == site }, nil); reach {
						types_[T] = true
					}
				}
			}
		}
		var out []int64
		for T := range types_ {
			out = append(out, T)
		}
		sort.Slice(out, func(i, j int) bool { return out[i] < out[j] })
		return out
	}

	for _, fn := range fns {
		n := 0
		for _, b := range fn.Blocks {
			for _, in := range b.Instrs {
				u, ok := in.(*ssa.UnOp)
				if !ok || u.Op != token.MUL {
					continue
				}
				_, fv, isH := headerPtrLoad(u.X)
				if !isH {
					continue
				}
				n++
				pt := regexpQuote(Term(u.X))
				pat1 := `^\(` + pt + ` != nil(:[^)]*)?\)==true$`
				pat2 := `^\(` + pt + ` == nil(:[^)]*)?\)==false$`
				guarded := HasGuard(in, pat1) || HasGuard(in, pat2)
				how := "tested in the function"
				if !guarded && fn.Parent() != nil {
					// a closure: the test made where the closure was created (the field is not reassigned in between)
					written := false
					for _, f := range WithAnons(EnclosingTop(fn)) {
						for _, fa := range FieldAccesses(f) {
							if fa.Field == fv && fa.Write {
								written = true
							}
						}
					}
					if !written {
						for _, pb := range fn.Parent().Blocks {
							for _, pin := range pb.Instrs {
								if mc, isMC := pin.(*ssa.MakeClosure); isMC && mc.Fn == ssa.Value(fn) {
									if HasGuard(pin, pat1) || HasGuard(pin, pat2) {
										guarded, how = true, "tested where the closure is created"
									}
								}
							}
						}
					}
				}
				detail := how
				if !guarded {
					var missing []string
					ts := dispatchedFor(fn)
					for _, T := range ts {
						if !rejects(fv, T) {
							missing = append(missing, fmt.Sprintf("%s(%d)", typeName[T], T))
						}
					}
					if len(missing) == 0 && len(ts) > 0 {
						guarded = true
						detail = fmt.Sprintf("the parser refuses a header without %s for every packet type this function is dispatched for %v", fv.Name(), ts)
					} else {
						detail = fmt.Sprintf("*%s is not dominated by a nil test (guards: %s) and parseHeader accepts a %s packet without %s: a peer's packet makes the receive path dereference nil (reached via %s)",
							Term(u.X), strings.Join(GuardTerms(in), ","), strings.Join(missing, "/"), fv.Name(), strings.Join(scope[fn], " → "))
					}
				}
				c.Ob(rule, fmt.Sprintf("%s/deref/%s#%d", FuncName(fn), Term(u.X), n), in.Pos(), guarded, detail)
			}
		}
	}
}
