package main

// Rules for genuine defects found by the defect hunt that are recorded, not repaired
// (KNOWN_FINDINGS.txt F61–F66): each rule names the construct; the repair is not small and safe.

import (
	"fmt"
	"strings"

	"golang.org/x/tools/go/ssa"
)

// F61 (C18-D12): handler identity is the identity of the function VALUE, not of its code.
func handlerIdentityNotByCodePointer(c *Ctx, rule string) {
	p := c.P
	n := 0
	for _, nm := range []string{"sameHandler", "eventHandlerStore.off"} {
		fn := p.FnOpt("sio", nm)
		if fn == nil {
			continue
		}
		for _, f := range WithAnons(fn) {
			for _, b := range f.Blocks {
				for _, in := range b.Instrs {
					bo, ok := in.(*ssa.BinOp)
					if !ok {
						continue
					}
					isPtr := func(v ssa.Value) bool {
						call, ok := v.(*ssa.Call)
						return ok && call.Call.StaticCallee() != nil && call.Call.StaticCallee().String() == "(reflect.Value).Pointer"
					}
					if isPtr(bo.X) && isPtr(bo.Y) {
						n++
						c.Ob(rule, "sio."+nm+"/compares-code-pointers", in.Pos(), false, "two handlers are taken for the same when reflect.Value.Pointer() agrees — the CODE pointer: every closure made from one function literal (handlers created in a loop or by a factory) compares equal, so Off(name, h) removes them all")
					}
				}
			}
		}
	}
	if n == 0 {
		c.Ob(rule, "sio.handlers/identity", p.Fn("sio", "eventHandlerStore.off").Pos(), true, "handlers are not compared by code pointer")
	}
}

// F62 (C09-D16): Encode can place a placeholder wherever it finds a Binary.
func encodeHandlesNonSettablePositions(c *Ctx, rule string) {
	p := c.P
	g := p.Global("jsonparser", "errNonSettableValue")
	n := 0
	for _, fn := range jsonparserTopFuncs(p) {
		if !strings.Contains(FuncName(fn), "deconstruct") {
			continue
		}
		for _, f := range WithAnons(fn) {
			for _, b := range f.Blocks {
				for _, in := range b.Instrs {
					ld, ok := in.(*ssa.UnOp)
					if !ok || ld.X != ssa.Value(g) {
						continue
					}
					n++
					c.Ob(rule, fmt.Sprintf("%s/gives-up-on-non-settable#%d", FuncName(f), n), in.Pos(), false, "the encoder walks the caller's values in place and gives up with errNonSettableValue where a Binary (or a struct holding one) sits in a position reflect cannot set: a struct that is a map value, a value behind an `any` field of a struct — Emit fails (and panics in namespace and broadcast emits) for these argument trees")
				}
			}
		}
	}
	if n == 0 {
		c.Ob(rule, "jsonparser.deconstruct/non-settable", p.Fn("jsonparser", "Parser.deconstructValue").Pos(), true, "no deconstruct function gives up on a non-settable position")
	}
}

// F63 (C12-D8): the event middlewares see each packet once.
func eventMiddlewaresOncePerPacket(c *Ctx, rule string) {
	p := c.P
	fn := p.Fn("sio", "serverSocket.onEvent")
	calls := CallsTo(Calls(fn), `\(\*sio\.serverSocket\)\.callMiddlewares`)
	// onEvent is invoked once per registered handler (the dispatch loop of onPacket): a chain run inside it runs per handler
	perHandler := false
	op := p.Fn("sio", "serverSocket.onPacket")
	for _, f := range WithAnons(op) {
		for _, cs := range CallsTo(Calls(f), `\(\*sio\.serverSocket\)\.onEvent`) {
			if inLoop(cs.Instr.Block()) {
				perHandler = true
			}
		}
	}
	pos := fn.Pos()
	if len(calls) > 0 {
		pos = calls[0].Pos()
	}
	c.Ob(rule, "sio.serverSocket.onEvent/chain-once-per-packet", pos, !(perHandler && len(calls) > 0), "the ServerSocket.Use chain is run inside onEvent, which the dispatch loop calls once per registered handler: an event without a handler is never shown to the middlewares, an event with two handlers is shown twice (a stateful middleware can admit it for one handler and refuse it for the other)")
}

// F64 (C03-D11): the retry queue keeps the emit's timeout.
func retryQueueKeepsTimeout(c *Ctx, rule string) {
	p := c.P
	fn := p.Fn("sio", "clientPacketQueue.addToQueue")
	has := false
	for _, par := range fn.Params {
		if strings.HasSuffix(par.Type().String(), "time.Duration") {
			has = true
		}
	}
	c.Ob(rule, "sio.clientPacketQueue.addToQueue/carries-the-timeout", fn.Pos(), has, "addToQueue takes the header and the arguments but not the emit's timeout, and the queue re-emits with timeout 0: on a socket with Retries > 0, Timeout(d).Emit(ev, ack) has no timer — with AckTimeout 0 the ack is registered without an error parameter, the reply cannot be decoded into the callback's `error`, the callback never runs and the packet blocks the head of the retry queue (every later emit with it)")
}

// F65 (C19-D9): what was queued before a forced disconnect is sent before the connection is closed.
func forcedCloseFlushesFirst(c *Ctx, rule string) {
	p := c.P
	fn := p.Fn("sio", "serverConn.close")
	eioClose := findInstrs(fn, func(in ssa.Instruction) bool {
		ci, ok := in.(ssa.CallInstruction)
		return ok && ci.Common().IsInvoke() && ci.Common().Method.Name() == "Close" && strings.HasSuffix(Term(ci.Common().Value), ".eio")
	})
	drain := CallsTo(Calls(fn), `\(\*sio\.serverConn\)\.closePacketQueue|\(\*sio\.packetQueue\)\.(waitForDrain|afterFlush)`)
	bad := false
	for _, e := range eioClose {
		for _, d := range drain {
			if Dominates(e, d.Instr) {
				bad = true
			}
		}
	}
	pos := fn.Pos()
	if len(eioClose) > 0 {
		pos = eioClose[0].Pos()
	}
	c.Ob(rule, "sio.serverConn.close/flush-before-close", pos, !bad && len(eioClose) > 0 && len(drain) > 0, "serverConn.close closes the Engine.IO socket first and waits for the packet queue to drain afterwards: the sender goroutine then writes to a closed transport — Emit(\"bye\"); Disconnect(true) never sends the DISCONNECT packet and loses the event; the client sees `transport close` instead of `io server disconnect` and reconnects")
}

// F66 (C14-D6): the heartbeat cannot be held up by the write it is meant to watch.
func heartbeatIndependentOfWrites(c *Ctx, rule string) {
	p := c.P
	fn := p.Fn("eio", "serverSocket.pingPong")
	sends := CallsTo(Calls(fn), `\(\*eio\.serverSocket\)\.Send`)
	var timers []ssa.Instruction
	for _, b := range fn.Blocks {
		for _, in := range b.Instrs {
			if call, ok := in.(*ssa.Call); ok && call.Call.StaticCallee() != nil && call.Call.StaticCallee().String() == "time.After" && strings.Contains(Term(call.Call.Args[0]), "pingTimeout") {
				timers = append(timers, in)
			}
		}
	}
	bad := false
	for _, s := range sends {
		if s.IsGo() {
			continue
		}
		for _, t := range timers {
			if Dominates(s.Instr, t) {
				bad = true
			}
		}
	}
	pos := fn.Pos()
	if len(sends) > 0 {
		pos = sends[0].Pos()
	}
	c.Ob(rule, "eio.serverSocket.pingPong/timer-armed-before-a-blocking-send", pos, !bad, "pingPong sends the PING synchronously and only then arms time.After(pingTimeout): over websocket the write waits for the write lock of the application's stalled write (a peer that stopped reading in the middle of a burst), so the timer is never armed — no ping timeout, no OnClose, the session stays for ever; and transport.Close(), called before OnClose, runs the websocket close handshake that waits 5 s for a silent peer, so a dead peer is reported after pingInterval + pingTimeout + 5 s")
}

// F67 (C15-D9): a reconnection cycle that is given up leaves the 'reconnecting' state.
func abandonedReconnectLeavesState(c *Ctx, rule string) {
	p := c.P
	fn := p.Fn("sio", "Manager.reconnect")
	recon := p.ConstVal("sio", "clientConnStateReconnecting")
	disc := p.ConstVal("sio", "clientConnStateDisconnected")
	is := func(v ssa.Value, k string) bool { t := Term(v); return t == k || strings.HasPrefix(t, k+":") }
	sv := p.Field("sio", "Manager", "state")
	var set ssa.Instruction
	for _, st := range findInstrs(fn, fieldStorePred(sv)) {
		if is(st.(*ssa.Store).Val, recon) {
			set = st
		}
	}
	if set == nil {
		c.Undecided("%s: Manager.reconnect never stores the reconnecting state", rule)
		return
	}
	leaves := func(in ssa.Instruction) bool {
		if st, ok := in.(*ssa.Store); ok && fieldStorePred(sv)(in) && is(st.Val, disc) {
			return true
		}
		return callPred(`\(\*sio\.Manager\)\.(connect|onReconnect|abortReconnect)`)(in)
	}
	skip, trail := CanReachExitAvoiding(fn, set, leaves)
	c.Ob(rule, "sio.Manager.reconnect/abandoned-cycle-leaves-reconnecting", set.Pos(), !skip, "after `state = reconnecting` a path returns without setting the state back and without attempting to connect (the `skipReconnect` exits): a manager closed while a reconnection attempt is in flight stays 'reconnecting' for ever, and clientSocket.Connect does not open a manager that claims to be reconnecting — the socket can never be connected again: "+trailString(p, trail))
}

// F68 (C15-D10): overlapping opens share one reconnection round.  The test that licenses a round after a failed
// open — "no attempt has been counted yet" (backoff.attempts() == 0) — is answered by the back-off counter, which a
// round that has just given up resets.  Unless the failed dial, the test and the round lie in one critical section
// of connectMu (the mutex a round holds from start to end), a second open that waited for connectMu behind a whole
// round finds the counter at 0 again and starts a second round: 2×ReconnectionAttempts attempts, reconnect_failed twice.
func overlappingOpensShareOneRound(c *Ctx, rule string) {
	p := c.P
	n := 0
	// the open path: Manager.open and the helpers it calls (not the dial, not the round itself)
	open := p.Fn("sio", "Manager.open")
	seen := map[*ssa.Function]bool{}
	var fns []*ssa.Function
	var walk func(fn *ssa.Function, depth int)
	walk = func(fn *ssa.Function, depth int) {
		if seen[fn] || depth > 3 {
			return
		}
		seen[fn] = true
		fns = append(fns, fn)
		for _, cs := range Calls(fn) {
			sc := cs.Common().StaticCallee()
			if sc == nil || !p.inModule(sc) || sc.Pkg == nil || sc.Pkg.Pkg.Name() != "sio" || cs.IsGo() {
				continue
			}
			if regexpMustCompile(`\(\*sio\.Manager\)\.(connect|reconnect|cleanup|onError|onClose)`).MatchString(FuncName(sc)) {
				continue
			}
			walk(sc, depth+1)
		}
	}
	walk(open, 0)
	for _, fn := range fns {
		rounds := CallsTo(Calls(fn), `\(\*sio\.Manager\)\.reconnect`)
		tests := CallsTo(Calls(fn), `\(\*sio\.backoff\)\.attempts`)
		if len(rounds) == 0 || len(tests) == 0 {
			continue
		}
		li := LocksInherit(fn)
		for _, t := range tests {
			// only a test that decides about the round
			decides := false
			for _, r := range rounds {
				if Dominates(t.Instr, r.Instr) && !r.IsGo() {
					decides = true
				}
			}
			if !decides {
				continue
			}
			n++
			suffix := ""
			if n > 1 {
				suffix = fmt.Sprintf("#%d", n)
			}
			c.Ob(rule, "sio.Manager.open/round-licensed-outside-connectMu"+suffix, t.Pos(), li.HoldsAny(t.Instr, "m.connectMu"),
				"the back-off counter is asked ("+FuncName(fn)+") whether a reconnection round may start after the failed open, outside connectMu: an open that waited behind another open's whole round (which resets the counter when it gives up) starts a second round; held="+li.Held(t.Instr).String())
		}
	}
	if n == 0 {
		c.Undecided("%s: no test of backoff.attempts() on the open path decides about a reconnection round any more", rule)
	}
}

// F69 (C01-D13): the application's connection handlers have run before the first event of the socket can be
// dispatched.  doConnect queues the CONNECT reply and only then starts a goroutine for OnAnyConnection/OnConnection;
// the client flushes its offline buffer the moment the reply arrives and the server dispatches every packet on its
// own goroutine with the handler set of that moment — an event that wins the race finds no handler and is dropped
// without an error.
func connectionHandlersBeforeFirstEvent(c *Ctx, rule string) {
	p := c.P
	fn := p.Fn("sio", "Namespace.doConnect")
	replies := CallsTo(Calls(fn), `\(\*sio\.serverSocket\)\.onConnect`)
	var fan []CallSite
	for _, cs := range CallsDeep(fn) {
		ci := cs.Common()
		if strings.Contains(calleeName(ci), "forEach") && len(ci.Args) > 0 && strings.Contains(Term(ci.Args[0]), "onnectionHandlers") {
			fan = append(fan, cs)
		}
	}
	if len(replies) == 0 || len(fan) == 0 {
		c.Undecided("%s: Namespace.doConnect: %d CONNECT replies, %d connection-handler fan-outs found", rule, len(replies), len(fan))
		return
	}
	// where a fan-out written in a function literal takes place in doConnect: the instruction that runs the literal
	runsAt := func(lit *ssa.Function) (ssa.Instruction, bool) {
		for _, b := range fn.Blocks {
			for _, in := range b.Instrs {
				ci, isCall := in.(ssa.CallInstruction)
				if !isCall {
					continue
				}
				v := ci.Common().Value
				if mc, isMC := v.(*ssa.MakeClosure); isMC {
					v = mc.Fn
				}
				if f, isF := v.(*ssa.Function); isF && f == lit {
					_, isGo := in.(*ssa.Go)
					_, isDefer := in.(*ssa.Defer)
					return in, !isGo && !isDefer
				}
			}
		}
		return nil, false
	}
	ok := true
	detail := ""
	for _, f := range fan {
		at := ssa.Instruction(f.Instr)
		if f.IsGo() {
			ok = false
			detail = "the fan-out over " + Term(f.Common().Args[0]) + " is started with `go`"
			continue
		}
		if f.Instr.Parent() != fn && ownerOf(f.Instr.Parent()) != fn {
			in, sync := runsAt(f.Instr.Parent())
			if in == nil || !sync {
				ok = false
				detail = "the fan-out over " + Term(f.Common().Args[0]) + " runs on a goroutine of its own (or deferred)"
				continue
			}
			at = in
		}
		for _, r := range replies {
			if !Dominates(at, r.Instr) {
				ok = false
				detail = "the fan-out over " + Term(f.Common().Args[0]) + " does not precede the CONNECT reply"
			}
		}
	}
	c.Ob(rule, "sio.Namespace.doConnect/handlers-before-first-event", replies[0].Pos(), ok,
		"the connection handlers (where the application registers its event handlers) are not run before the CONNECT reply is queued: "+detail+" — the client's first events (its offline buffer is flushed when the reply arrives) are dispatched with the handler set of that moment and dropped silently when the registration has not happened yet")
}

// F70 (C17-D8): a request that reaches a live session's polling transport is answered explicitly on every path.
// polling.ServerTransport.ServeHTTP switches over the method with cases GET and POST and no default: PUT, DELETE,
// PATCH, OPTIONS … on a live sid write nothing, which net/http turns into `200 OK` with an empty body — not the
// protocol's error reply.
func transportAnswersEveryRequest(c *Ctx, rule string) {
	p := c.P
	fn := p.Fn("polling", "ServerTransport.ServeHTTP")
	if len(fn.Params) < 2 {
		c.Undecided("%s: polling.ServerTransport.ServeHTTP has no ResponseWriter parameter", rule)
		return
	}
	w := fn.Params[1]
	answers := func(in ssa.Instruction) bool {
		ci, ok := in.(ssa.CallInstruction)
		if !ok {
			return false
		}
		cc := ci.Common()
		if cc.IsInvoke() && cc.Value == w {
			return true // w.WriteHeader / w.Write / …
		}
		for _, a := range cc.Args {
			if a == w {
				return true // handed to a handler or to a reply helper
			}
			if mi, isMI := a.(*ssa.MakeInterface); isMI && mi.X == w {
				return true
			}
		}
		return false
	}
	skip, trail := CanReachExitAvoiding(fn, nil, answers)
	c.Ob(rule, "polling.ServerTransport.ServeHTTP/every-path-answers", fn.Pos(), !skip,
		"a path through the polling transport's ServeHTTP returns without touching the ResponseWriter (a method other than GET/POST on a live session): the request is answered `200 OK` with an empty body instead of the protocol's error: "+trailString(p, trail))
}
