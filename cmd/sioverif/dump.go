package main

import (
	"fmt"
	"os"

	"golang.org/x/tools/go/ssa"
)

// dump <pkg> <Type.method|func> : debugging aid, prints blocks with terms,
// guards and locksets.
func cmdDump(args []string) int {
	o := parseOpts(args)
	if len(o.rest) != 2 {
		usage()
	}
	p := Load(o.repo, "", nil)
	fn := p.Fn(o.rest[0], o.rest[1])
	for _, f := range WithAnons(fn) {
		li := Locks(f)
		fmt.Printf("=== %s\n", FuncName(f))
		for _, b := range f.Blocks {
			fmt.Printf(" block %d (%s) preds=%v succs=%v\n", b.Index, b.Comment, idxs(b.Preds), idxs(b.Succs))
			for _, in := range b.Instrs {
				s := ""
				if v, ok := in.(ssa.Value); ok {
					s = v.Name() + " = " + Term(v)
				} else {
					s = in.String()
				}
				extra := ""
				if _, ok := in.(ssa.CallInstruction); ok {
					extra = fmt.Sprintf("  guards=%v held=%s", GuardTerms(in), li.Held(in))
				}
				if st, ok := in.(*ssa.Store); ok {
					s = "store " + Addr(st.Addr) + " <- " + Term(st.Val)
					extra = fmt.Sprintf("  held=%s", li.Held(in))
				}
				fmt.Printf("   %-20s %s%s\n", p.Pos(in.Pos()), s, extra)
			}
		}
		fmt.Fprintf(os.Stdout, "  leaks=%v badUnlock=%d\n", li.LeakAtReturn, len(li.BadUnlock))
	}
	return 0
}

func idxs(bs []*ssa.BasicBlock) []int {
	var out []int
	for _, b := range bs {
		out = append(out, b.Index)
	}
	return out
}
