package main

// A pointer made by reflect.New and stored into a map with SetMapIndex must have
// passed an assignability decision against the map's element type (F32).

import (
	"fmt"
	"strings"

	"golang.org/x/tools/go/ssa"
)

func isReflectCall(v ssa.Value, name string) (*ssa.Call, bool) {
	call, ok := v.(*ssa.Call)
	if !ok {
		return nil, false
	}
	if sc := call.Call.StaticCallee(); sc != nil {
		return call, sc.String() == name
	}
	if call.Call.IsInvoke() && call.Call.Method != nil {
		return call, call.Call.Method.FullName() == name
	}
	return call, false
}

// reflectMapStores emits, for every (reflect.Value).SetMapIndex in the given functions, the obligation that a
// reflect.New pointer among the possible stored values is covered by an assignability decision.
func reflectMapStores(c *Ctx, rule string, fns []*ssa.Function) int {
	n := 0
	for _, fn := range fns {
		for _, f := range WithAnons(fn) {
			k := 0
			for _, b := range f.Blocks {
				for _, in := range b.Instrs {
					call, ok := isReflectCall(valueOf(in), "(reflect.Value).SetMapIndex")
					if !ok || len(call.Call.Args) != 3 {
						continue
					}
					n++
					k++
					// possible stored values, through phis
					var news []ssa.Value
					seen := map[ssa.Value]bool{}
					var walk func(v ssa.Value)
					walk = func(v ssa.Value) {
						if seen[v] {
							return
						}
						seen[v] = true
						if ph, isPhi := v.(*ssa.Phi); isPhi {
							for _, e := range ph.Edges {
								walk(e)
							}
							return
						}
						if _, isNew := isReflectCall(v, "reflect.New"); isNew {
							news = append(news, v)
						}
					}
					walk(call.Call.Args[2])
					construct := fmt.Sprintf("%s/SetMapIndex#%d", FuncName(f), k)
					if len(news) == 0 {
						c.Ob(rule, construct, in.Pos(), true, "stores "+trunc(Term(call.Call.Args[2]), 80)+" (no fresh reflect.New pointer among the stored values)")
						continue
					}
					// an assignability decision in the same function: AssignableTo/ConvertibleTo on the pointer's type, or a
					// comparison of the element kind of the map's type
					decided := ""
					for _, bb := range f.Blocks {
						for _, in2 := range bb.Instrs {
							c2, ok := valueOf(in2).(*ssa.Call)
							if !ok {
								continue
							}
							name := ""
							if c2.Call.IsInvoke() && c2.Call.Method != nil {
								name = c2.Call.Method.FullName()
							}
							if name != "(reflect.Type).AssignableTo" && name != "(reflect.Type).ConvertibleTo" {
								continue
							}
							// receiver: <new>.Type() ; argument: <map>.Type().Elem()
							recvOK := false
							if tc, isT := isReflectCall(c2.Call.Value, "(reflect.Value).Type"); isT {
								for _, nv := range news {
									if tc.Call.Args[0] == nv {
										recvOK = true
									}
								}
							}
							argOK := strings.HasPrefix(Term(c2.Call.Args[0]), Term(call.Call.Args[0])+".Type().Elem()")
							if recvOK && argOK && bb.Dominates(b) {
								decided = "tested with " + Term(c2)
							}
						}
					}
					if decided == "" {
						mapT := regexpQuote(Term(call.Call.Args[0]))
						for _, g := range GuardTerms(in) {
							if regexpMustCompile(`^\(` + mapT + `\.Type\(\)\.Elem\(\)\.Kind\(\) (==|!=) (20|22)(:[^)]*)?\)==(true|false)$`).MatchString(g) {
								decided = "under " + g
							}
						}
					}
					c.Ob(rule, construct, in.Pos(), decided != "", fmt.Sprintf("a pointer made by reflect.New is stored into %s with SetMapIndex: it is assignable only when the map's element type is an interface or that pointer type — for map[K]Binary reflect panics; %s",
						Term(call.Call.Args[0]), map[bool]string{true: decided, false: "no AssignableTo test of the pointer against the map's element type (nor a test of the element kind) decides what is stored"}[decided != ""]))
				}
			}
		}
	}
	return n
}

func valueOf(in ssa.Instruction) ssa.Value {
	v, _ := in.(ssa.Value)
	return v
}

func jsonparserTopFuncs(p *Program) []*ssa.Function {
	var out []*ssa.Function
	for _, f := range p.SrcFuncs() {
		if f.Parent() != nil || len(f.Blocks) == 0 || f.Pkg == nil {
			continue
		}
		if s, _ := shortOf(f.Pkg.Pkg.Path()); s == "jsonparser" {
			out = append(out, f)
		}
	}
	return out
}

func reflectMapStoreRule(c *Ctx, rule string) {
	c.Rule(rule, "reflect stores into maps are assignable: wherever the walkers of parser/json hand (reflect.Value).SetMapIndex a pointer made by reflect.New (the replacement for a Binary leaf), an "+
		"AssignableTo/ConvertibleTo test of that pointer's type against the map's element type — or a test of the element kind — dominates the store, so that map[K]Binary gets the slice itself; "+
		"without it reflect panics inside Encode (sender) and inside decode (a peer's valid binary event kills the receiving process)", 4)
	reflectMapStores(c, rule, jsonparserTopFuncs(c.P))
}
