package main

// Round-4 rules of C01.

import (
	"fmt"
	"strings"
)

func c01Round4(c *Ctx) {
	p := c.P
	c.Rule("C01-D10", "a payload is posted once: ClientTransport.Send of the polling transport contains exactly one HTTP round trip (httpClient.Do), outside any loop — a request whose response was lost has "+
		"reached the server, so posting the same payload again delivers its events twice; a failed round trip closes the transport instead", 2)
	{
		fn := p.Fn("polling", "ClientTransport.Send")
		dos := CallsTo(CallsDeep(fn), `\(\*net/http\.Client\)\.Do|.*\.Do`)
		var posts []CallSite
		for _, d := range dos {
			if strings.Contains(d.Name, "http") || strings.Contains(Term(d.Common().Value), "httpClient") || (len(d.Common().Args) > 0 && strings.Contains(Term(d.Common().Args[0]), "httpClient")) {
				posts = append(posts, d)
			}
		}
		c.Ob("C01-D10", "polling.ClientTransport.Send/one-round-trip", fn.Pos(), len(posts) == 1, fmt.Sprintf("%d HTTP round trips in Send (expected exactly one)", len(posts)))
		for _, d := range posts {
			c.Ob("C01-D10", "polling.ClientTransport.Send/round-trip-not-in-loop", d.Pos(), !inLoop(d.Instr.Block()), "the HTTP round trip lies in a loop: the same payload can be posted more than once")
		}
	}

	c.Rule("C01-D11", "the client's parser is reset only while no connection is live: every resetParser call in Manager.connect lies behind the 'already connected → return' test (guard state != connected) — "+
		"resetting it while the connection is delivering frames discards the header of a binary event whose attachments are still to come: the event is lost and the next frame is a parse error", 2)
	{
		fn := p.Fn("sio", "Manager.connect")
		rs := CallsTo(Calls(fn), `\(\*sio\.Manager\)\.resetParser`)
		if len(rs) == 0 {
			c.Undecided("C01-D11: no resetParser call in Manager.connect")
		}
		for _, r := range rs {
			ok := HasGuard(r.Instr, `^\(m\.state == 1(:[^)]*)?\)==false$`) || HasGuard(r.Instr, `^\(m\.state != 1(:[^)]*)?\)==true$`)
			c.Ob("C01-D11", "sio.Manager.connect/resetParser-only-when-down", r.Pos(), ok, fmt.Sprintf("resetParser is called under %v: not behind the test that the manager is not connected", GuardTerms(r.Instr)))
		}
	}

	c.Rule("C01-D12", "an event that arrives around CONNECT is not stranded (F37): in clientSocket.onEvent the append to receiveBuffer is decided by a read of the socket state made inside the critical section of "+
		"receiveBufferMu that contains the append; onConnect sets the connected state before it calls emitBuffered; emitBuffered clears the buffer under the same mutex", 3)
	bufferDecisionAtomic(c, "C01-D12")
}
