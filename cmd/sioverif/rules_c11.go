package main

// C11 — Engine.IO framing: safe decoding, form tables of the WebTransport
// framer, advertised length = bytes written, protocol v4 constants.

import (
	"fmt"
	"go/constant"
	"go/token"
	"go/types"
	"sort"
	"strings"

	"golang.org/x/tools/go/ssa"
)

func init() {
	register(&PropertySpec{
		ID: "C11",
		NotDecided: "round-trip equality of payload bytes for all contents (base64 and copy loops are library code), the byte-exact output of base64 encoding, behaviour of io.Reader/io.Writer implementations; " +
			"decided instead: no Go run-time panic site in engine.io/parser and the WebTransport framer is left unproven (64- and 32-bit int), the framer's writer and reader select the same length form for " +
			"every length class and every possible first byte, integer widths agree with the bytes read/written, the size EncodedLen/EncodedPayloadsLen announce equals the bytes Encode/EncodePayloads write " +
			"on every branch, the packet-type/separator/prefix constants are those of Engine.IO v4, and the announced frame length is checked against the limit before allocation.",
		Run:     runC11,
		Arch386: func(c *Ctx) { c11Bounds(c) },
	})
}

func pkgFuncs(p *Program, shorts map[string]bool) []*ssa.Function {
	var fns []*ssa.Function
	for _, f := range p.SrcFuncs() {
		top := originOf(EnclosingTop(f))
		var path string
		if top.Pkg != nil {
			path = top.Pkg.Pkg.Path()
		} else if obj := top.Object(); obj != nil && obj.Pkg() != nil {
			path = obj.Pkg().Path()
		}
		if s, ok := shortOf(path); ok && shorts[s] && len(f.Blocks) > 0 {
			fns = append(fns, f)
		}
	}
	sort.Slice(fns, func(i, j int) bool { return FuncName(fns[i]) < FuncName(fns[j]) })
	return fns
}

func c11Bounds(c *Ctx) {
	p := c.P
	c.Rule("C11-D1", "decoding arbitrary bytes never panics: every index, slice, make, lossy integer conversion, division and single-result type assertion in engine.io/parser and "+
		"engine.io/transport/webtransport is proven safe by the zone prover (no exceptions); parameters of exported functions are bounded by what the module's own callers establish", 30)
	ip := newInterproc(p, c.Arch32)
	n := 0
	for _, fn := range pkgFuncs(p, map[string]bool{"eioparser": true, "webtransport": true}) {
		for _, ob := range ip.proveFunc(fn) {
			n++
			construct := FuncName(fn) + "/" + ob.Kind + "/" + trunc(ob.Expr, 90)
			c.Ob("C11-D1", construct, ob.Instr.Pos(), ob.Proved, fmt.Sprintf("%s %s can fail at run time: %s", ob.Kind, trunc(ob.Expr, 120), ob.Detail))
		}
	}
	c.Note("C11-D1: %d obligations in engine.io/parser and the WebTransport transport", n)
}

// resolvePhi follows phi sources recorded along a path.
func resolvePhi(v ssa.Value, phiSrc map[*ssa.Phi]ssa.Value) ssa.Value {
	for i := 0; i < 8; i++ {
		ph, ok := v.(*ssa.Phi)
		if !ok {
			return v
		}
		src, ok := phiSrc[ph]
		if !ok || src == v {
			return v
		}
		v = src
	}
	return v
}

func stripConv(v ssa.Value) ssa.Value {
	for {
		switch x := v.(type) {
		case *ssa.Convert:
			v = x.X
		case *ssa.ChangeType:
			v = x.X
		default:
			return v
		}
	}
}

// arrayBehind: v is a slice of a local array (`a[:]`, `a[lo:]`): returns the Alloc, its length and the low offset.
func arrayBehind(v ssa.Value) (*ssa.Alloc, int64, int64, bool) {
	off := int64(0)
	// the array itself (element addresses of a slice literal are taken on the array, before it is sliced)
	if al, ok := v.(*ssa.Alloc); ok {
		if at, ok := deref(al.Type()).Underlying().(*types.Array); ok {
			return al, at.Len(), 0, true
		}
		return nil, 0, 0, false
	}
	for i := 0; i < 4; i++ {
		sl, ok := v.(*ssa.Slice)
		if !ok {
			return nil, 0, 0, false
		}
		if sl.Low != nil {
			k, isK := sl.Low.(*ssa.Const)
			if !isK {
				return nil, 0, 0, false
			}
			off += k.Int64()
		}
		if al, ok := sl.X.(*ssa.Alloc); ok {
			if at, ok := deref(al.Type()).Underlying().(*types.Array); ok {
				return al, at.Len(), off, true
			}
			return nil, 0, 0, false
		}
		v = sl.X
	}
	return nil, 0, 0, false
}

func bigEndianCall(in ssa.Instruction) (name string, call *ssa.Call, ok bool) {
	call, isCall := in.(*ssa.Call)
	if !isCall {
		return "", nil, false
	}
	sc := call.Call.StaticCallee()
	if sc == nil {
		return "", nil, false
	}
	s := sc.String()
	if strings.HasPrefix(s, "(encoding/binary.bigEndian).") || strings.HasPrefix(s, "(encoding/binary.littleEndian).") {
		return strings.TrimPrefix(strings.TrimPrefix(s, "(encoding/binary.bigEndian)."), "(encoding/binary.littleEndian)."), call, true
	}
	return "", nil, false
}

func runC11(c *Ctx) {
	p := c.P
	c11Bounds(c)

	// ------------------------------------------------------------- D2 widths + form tables
	c.Rule("C11-D2", "WebTransport framer: every binary.BigEndian.UintN/PutUintN works on exactly N/8 bytes and is big-endian; for each of the 256 possible first bytes the reader takes the form the "+
		"protocol prescribes (low 7 bits < 126: that length; 126: 16-bit length; 127: 64-bit length; top bit = binary flag) and passes that length and flag on; for every length class (boundaries "+
		"125/126/65535/65536) the writer emits the same form with the length value and the flag; no path of either state machine loops", 290)
	{
		// width agreement, everywhere in the transport packages
		n := 0
		for _, fn := range pkgFuncs(p, map[string]bool{"webtransport": true, "eioparser": true, "polling": true, "websocket": true}) {
			for _, b := range fn.Blocks {
				for _, in := range b.Instrs {
					name, call, ok := bigEndianCall(in)
					if !ok {
						continue
					}
					var bits int64
					put := strings.HasPrefix(name, "Put")
					switch strings.TrimPrefix(name, "Put") {
					case "Uint16":
						bits = 16
					case "Uint32":
						bits = 32
					case "Uint64":
						bits = 64
					default:
						continue
					}
					n++
					construct := FuncName(fn) + "/" + name
					isBig := strings.Contains(call.Call.StaticCallee().String(), "bigEndian")
					c.Ob("C11-D2", construct+"/big-endian", call.Pos(), isBig, "the Engine.IO WebTransport frame length is big-endian")
					_, alen, off, okA := arrayBehind(call.Call.Args[1])
					if !okA {
						c.Ob("C11-D2", construct+"/width", call.Pos(), false, "cannot determine the size of the buffer "+Term(call.Call.Args[1])+" statically")
						continue
					}
					c.Ob("C11-D2", construct+"/width", call.Pos(), alen-off == bits/8, fmt.Sprintf("%s works on %d bytes but the buffer %s has %d: the other bytes of the length field are %s", name, bits/8, Term(call.Call.Args[1]), alen-off, map[bool]string{true: "never written", false: "ignored"}[put]))
				}
			}
		}
		if n < 4 {
			c.Undecided("C11-D2: found %d BigEndian calls in the transports, expected at least 4", n)
		}
	}
	c11Reader(c)
	c11Writer(c)

	// ------------------------------------------------------------- D3 advertised length
	c.Rule("C11-D3", "advertised length: on every (IsBinary, supportsBinary) branch the bytes (*Packet).Encode writes on its error-free paths sum to the expression EncodedLen returns; "+
		"EncodePayloads and EncodedPayloadsLen add one separator under the same condition (strictly between packets) with the same supportsBinary; the frame writers pass the same "+
		"supportsBinary to EncodedLen and Encode", 10)
	c11EncodedLen(c)

	// ------------------------------------------------------------- D4 tables
	c.Rule("C11-D4", "constants of Engine.IO protocol v4: packet types open=0 close=1 ping=2 pong=3 message=4 upgrade=5 noop=6 written as ASCII digit (type+48) and accepted in exactly that range; "+
		"record separator 0x1e; base64 prefix 'b'; binary flag 0x80 / length mask 0x7f in the WebTransport header", 14)
	{
		want := map[string]string{"PacketTypeOpen": "0", "PacketTypeClose": "1", "PacketTypePing": "2", "PacketTypePong": "3", "PacketTypeMessage": "4", "PacketTypeUpgrade": "5", "PacketTypeNoop": "6",
			"payloadDelimiter": "30", "base64Prefix": "98", "packetTypeMin": "0", "packetTypeMax": "6"}
		var names []string
		for k := range want {
			names = append(names, k)
		}
		sort.Strings(names)
		pos := p.Fn("eioparser", "decode").Pos()
		for _, k := range names {
			got := p.ConstVal("eioparser", k)
			c.Ob("C11-D4", "eioparser."+k, pos, got == want[k], fmt.Sprintf("%s = %s, Engine.IO v4 says %s", k, got, want[k]))
		}
		// ToChar / FromChar: fold them for every byte
		toChar := p.Fn("eioparser", "PacketType.ToChar")
		okTo := true
		detail := ""
		for t := int64(0); t <= 6; t++ {
			env := &constEnv{byValue: map[ssa.Value]int64{toChar.Params[0]: t}}
			paths, _ := prunedPaths(toChar, env, nil, 8)
			for _, pa := range paths {
				ret, isRet := pa.End.(*ssa.Return)
				if !isRet {
					continue
				}
				v, known := env.evalInt(ret.Results[0], pa.PhiSrc, 0)
				if !known || v != 48+t {
					okTo = false
					detail = fmt.Sprintf("ToChar(%d) = %d (known=%v), expected %d", t, v, known, 48+t)
				}
			}
		}
		c.Ob("C11-D4", "eioparser.PacketType.ToChar", toChar.Pos(), okTo, detail)
		fromChar := p.Fn("eioparser", "PacketType.FromChar")
		okFrom := true
		detail = ""
		for b := int64(0); b < 256; b++ {
			env := &constEnv{byValue: map[ssa.Value]int64{fromChar.Params[1]: b}}
			paths, complete := prunedPaths(fromChar, env, nil, 8)
			if !complete || len(paths) != 1 {
				okFrom, detail = false, fmt.Sprintf("FromChar(%d): %d paths remain after folding the range check", b, len(paths))
				break
			}
			ret, isRet := paths[0].End.(*ssa.Return)
			if !isRet {
				okFrom, detail = false, "FromChar: path without return"
				break
			}
			k, isK := ret.Results[0].(*ssa.Const)
			accepted := isK && k.Value == nil
			valid := b >= 48 && b <= 54
			if accepted != valid {
				okFrom, detail = false, fmt.Sprintf("FromChar(%d) accepted=%v, protocol says valid=%v", b, accepted, valid)
				break
			}
			if accepted {
				// the stored value is b-48
				stored := false
				for _, in := range paths[0].Instrs {
					if st, ok := in.(*ssa.Store); ok {
						if v, known := env.evalInt(st.Val, paths[0].PhiSrc, 0); known && v == b-48 {
							stored = true
						}
					}
				}
				if !stored {
					okFrom, detail = false, fmt.Sprintf("FromChar(%d) does not store packet type %d", b, b-48)
					break
				}
			}
		}
		c.Ob("C11-D4", "eioparser.PacketType.FromChar", fromChar.Pos(), okFrom, detail)
		// Encode writes the type digit on the text path and the base64 prefix on the base64 path; decode tests the same prefix
		enc := p.Fn("eioparser", "Packet.Encode")
		for _, cs := range Calls(enc) {
			if !cs.Common().IsInvoke() || cs.Common().Method.Name() != "WriteByte" {
				continue
			}
			a := Term(cs.Common().Args[0])
			guardB64 := HasGuard(cs.Instr, `p\.IsBinary==true`)
			if guardB64 {
				c.Ob("C11-D4", "eioparser.Packet.Encode/base64-prefix", cs.Pos(), a == "98", "the base64 form starts with "+a+", not 'b'")
			} else {
				c.Ob("C11-D4", "eioparser.Packet.Encode/type-digit", cs.Pos(), a == "p.Type.ToChar()", "the text form starts with "+a+", not the packet type digit")
			}
		}
		dec := p.Fn("eioparser", "decode")
		nPref := 0
		for _, b := range dec.Blocks {
			for _, in := range b.Instrs {
				if bo, ok := in.(*ssa.BinOp); ok && (bo.Op == token.EQL || bo.Op == token.NEQ) && Term(bo.Y) == "98" {
					nPref++
					c.Ob("C11-D4", "eioparser.decode/base64-prefix", bo.Pos(), Term(bo.X) == "data[0]", "the base64 prefix is tested on "+Term(bo.X)+", not the first byte")
				}
			}
		}
		if nPref == 0 {
			c.Ob("C11-D4", "eioparser.decode/base64-prefix", dec.Pos(), false, "decode no longer tests the first byte for the base64 prefix 'b'")
		}
		// payload separator used by both directions
		for _, fnn := range []string{"EncodePayloads", "DecodePayloads"} {
			fn := p.Fn("eioparser", fnn)
			found := false
			for _, cs := range Calls(fn) {
				for _, a := range cs.Common().Args {
					if k, ok := a.(*ssa.Const); ok && k.Value != nil && k.Value.Kind() == constant.Int && k.Int64() == 30 && types.Identical(k.Type().Underlying(), types.Typ[types.Byte]) {
						found = true
					}
				}
			}
			c.Ob("C11-D4", "eioparser."+fnn+"/separator", fn.Pos(), found, fnn+" does not use the record separator 0x1e")
		}
	}

	// ------------------------------------------------------------- D7 pointers a JSON decoder may reset
	c.Rule("C11-D8", "the OPEN packet is the protocol's (F49): newHandshakePacket replaces a nil upgrades list before marshalling — \"upgrades\" is an array in Engine.IO v4, never null", 1)
	handshakeUpgradesNeverNull(c, "C11-D8")

	c.Rule("C11-D7", "a pointer handed to a JSON decoder BY ADDRESS (`json.Unmarshal(b, &p)` with p itself a pointer) can come back nil — the JSON literal `null` resets it without an error — so every dereference of p after the call "+
		"lies under a nil test of p; in the Engine.IO layer and its transports these decoders read what the peer sent (handshake and OPEN payloads); every decoder call of these packages is an instance (today none receives a pointer by address)", 3)
	nilAfterUnmarshal(c, "C11-D7", map[string]bool{"eio": true, "eioparser": true, "polling": true, "websocket": true, "webtransport": true, "transport": true})

	// ------------------------------------------------------------- D6 complete reads
	c.Rule("C11-D6", "frames are read completely: the payload buffer of DecodeWithLen and every header buffer of the WebTransport reader are filled with io.ReadFull (whose error is tested), never with a single Read "+
		"— a stream that delivers a frame in several chunks would otherwise yield a zero-padded packet and lose frame synchronisation", 4)
	for _, a := range []struct{ short, fn string }{{"eioparser", "DecodeWithLen"}, {"webtransport", "nextPacketWithLimit"}} {
		fn := p.Fn(a.short, a.fn)
		var rdr *ssa.Parameter
		for _, par := range fn.Params {
			if strings.HasSuffix(par.Type().String(), "io.Reader") {
				rdr = par
			}
		}
		if rdr == nil {
			anchorFail("C11-D6: %s has no io.Reader parameter", a.fn)
		}
		nFull := 0
		for _, cs := range Calls(fn) {
			cc := cs.Common()
			if cc.IsInvoke() && cc.Value == ssa.Value(rdr) {
				c.Ob("C11-D6", a.short+"."+a.fn+"/no-partial-read", cs.Pos(), false, "the reader's "+cc.Method.Name()+" is called directly: a short read leaves the rest of the buffer zero and the rest of the frame in the stream")
			}
			if sc := cc.StaticCallee(); sc != nil && sc.String() == "io.ReadFull" && len(cc.Args) == 2 && cc.Args[0] == ssa.Value(rdr) {
				nFull++
				call := cs.Instr.(*ssa.Call)
				errv := extractOf(call, 1)
				tested := errv != nil && len(nonNilAssumes(fn, errv)) > 0
				c.Ob("C11-D6", a.short+"."+a.fn+"/ReadFull-error-tested", cs.Pos(), tested, "the error of io.ReadFull is not tested: a truncated frame would be decoded from a partly filled buffer")
			}
		}
		c.Ob("C11-D6", a.short+"."+a.fn+"/reads-with-ReadFull", fn.Pos(), nFull >= 1, "no io.ReadFull on the reader: the frame is not read completely")
	}

	// ------------------------------------------------------------- D5 bounded allocation
	c.Rule("C11-D5", "bounded allocation: the frame length announced in a WebTransport header is compared with the configured limit before DecodeWithLen allocates it, the compared value is the "+
		"allocated one, and the server reads every frame through the limited reader", 3)
	webtransportLimit(c, "C11-D5")
}

// ---------------------------------------------------------------- reader table

func c11Reader(c *Ctx) {
	p := c.P
	fn := p.Fn("webtransport", "nextPacketWithLimit")
	// the first byte: loads from the [1]byte local
	var first *ssa.Alloc
	for _, b := range fn.Blocks {
		for _, in := range b.Instrs {
			if al, ok := in.(*ssa.Alloc); ok {
				if at, ok := deref(al.Type()).Underlying().(*types.Array); ok && at.Len() == 1 {
					if first != nil {
						c.Undecided("C11-D2: two [1]byte locals in nextPacketWithLimit")
					}
					first = al
				}
			}
		}
	}
	if first == nil {
		anchorFail("C11-D2: the [1]byte first-byte buffer of nextPacketWithLimit was not found")
	}
	loadTerms := map[string]bool{}
	for _, b := range fn.Blocks {
		for _, in := range b.Instrs {
			if u, ok := in.(*ssa.UnOp); ok && u.Op == token.MUL {
				if ia, ok := u.X.(*ssa.IndexAddr); ok && ia.X == ssa.Value(first) {
					loadTerms[Term(u)] = true
				}
			}
		}
	}
	if len(loadTerms) == 0 {
		anchorFail("C11-D2: nextPacketWithLimit never reads its first byte")
	}
	isDecode := callPred(`eioparser\.DecodeWithLen`)
	for b := int64(0); b < 256; b++ {
		env := &constEnv{byTerm: map[string]int64{}}
		for t := range loadTerms {
			env.byTerm[t] = b
		}
		L, bin := b&0x7f, b >= 0x80
		form := "7-bit"
		if L == 126 {
			form = "16-bit"
		} else if L == 127 {
			form = "64-bit"
		}
		construct := fmt.Sprintf("webtransport.nextPacketWithLimit/first-byte=0x%02x(%s)", b, form)
		paths, complete := prunedPaths(fn, env, isDecode, 200)
		if !complete {
			c.Ob("C11-D2", construct, fn.Pos(), false, "more than 200 paths remain: the reader's state machine is not decided by its first byte")
			continue
		}
		ok, detail := true, ""
		nDec := 0
		for _, pa := range paths {
			if pa.Loops {
				ok, detail = false, "a path of the state machine returns to a state it was already in: the reader would spin forever on this header"
				break
			}
			call, isCall := pa.End.(*ssa.Call)
			if !isCall || !isDecode(pa.End) {
				continue
			}
			nDec++
			var u16, u64, other []*ssa.Call
			for _, in := range pa.Instrs {
				if name, cl, isBE := bigEndianCall(in); isBE {
					switch name {
					case "Uint16":
						u16 = append(u16, cl)
					case "Uint64":
						u64 = append(u64, cl)
					default:
						other = append(other, cl)
					}
				}
			}
			lenSrc := stripConv(resolvePhi(call.Call.Args[2], pa.PhiSrc))
			binV, binKnown := env.evalBool(call.Call.Args[1], pa.PhiSrc, 0)
			if !binKnown || binV != bin {
				ok, detail = false, fmt.Sprintf("binary flag passed to DecodeWithLen is %v (known=%v), the top bit says %v", binV, binKnown, bin)
				break
			}
			switch form {
			case "7-bit":
				v, known := env.evalInt(call.Call.Args[2], pa.PhiSrc, 0)
				if len(u16)+len(u64)+len(other) != 0 || !known || v != L {
					ok, detail = false, fmt.Sprintf("a 7-bit length %d must be used directly; the reader reads %d extended fields and passes length %d (known=%v)", L, len(u16)+len(u64)+len(other), v, known)
				}
			case "16-bit":
				if len(u16) != 1 || len(u64)+len(other) != 0 || lenSrc != ssa.Value(u16[0]) {
					ok, detail = false, fmt.Sprintf("marker 126 must be followed by one 16-bit length that is passed on; found Uint16×%d Uint64×%d other×%d, length comes from %s", len(u16), len(u64), len(other), Term(lenSrc))
				}
			case "64-bit":
				if len(u64) != 1 || len(u16)+len(other) != 0 || lenSrc != ssa.Value(u64[0]) {
					ok, detail = false, fmt.Sprintf("marker 127 must be followed by one 64-bit length that is passed on; found Uint16×%d Uint64×%d other×%d, length comes from %s", len(u16), len(u64), len(other), Term(lenSrc))
				}
			}
			if !ok {
				break
			}
			// an extended length is read from the reader into the buffer that is then decoded
			for _, cl := range append(append([]*ssa.Call{}, u16...), u64...) {
				al, _, _, okA := arrayBehind(cl.Call.Args[1])
				filled := false
				for _, in := range pa.Instrs {
					if in == ssa.Instruction(cl) {
						break
					}
					if rc, isC := in.(*ssa.Call); isC && rc.Call.StaticCallee() != nil && rc.Call.StaticCallee().String() == "io.ReadFull" {
						if al2, _, off2, ok2 := arrayBehind(rc.Call.Args[1]); ok2 && okA && al2 == al && off2 == 0 {
							filled = true
						}
					}
				}
				if !filled {
					ok, detail = false, "the extended length is decoded from a buffer that io.ReadFull did not fill completely before"
				}
			}
		}
		if ok && nDec == 0 {
			ok, detail = false, "no path reaches DecodeWithLen: frames with this header can never be received"
		}
		c.Ob("C11-D2", construct, fn.Pos(), ok, detail)
	}
}

// ---------------------------------------------------------------- writer table

func c11Writer(c *Ctx) {
	p := c.P
	fn := p.Fn("webtransport", "send")
	els := CallsTo(Calls(fn), `\(\*eioparser\.Packet\)\.EncodedLen`)
	if len(els) != 1 {
		anchorFail("C11-D2: send must call EncodedLen once (found %d)", len(els))
	}
	elCall := els[0].Instr.(*ssa.Call)
	// the IsBinary test
	var binTerms []string
	for _, fa := range FieldAccesses(fn) {
		if fa.Field.Name() == "IsBinary" && !fa.Write {
			if u, ok := fa.Instr.(*ssa.UnOp); ok {
				binTerms = append(binTerms, Term(u))
			}
		}
	}
	// (a writer that never reads IsBinary cannot set the flag: reported by the table below)
	isHdrWrite := func(in ssa.Instruction) bool {
		call, ok := in.(*ssa.Call)
		return ok && call.Call.IsInvoke() && call.Call.Method.Name() == "Write"
	}
	check := func(E int64, bin bool) (bool, string, token.Pos) {
		env := &constEnv{byValue: map[ssa.Value]int64{elCall: E}, boolT: map[string]bool{}, byTerm: map[string]int64{}}
		for _, t := range binTerms {
			env.boolT[t] = bin
		}
		paths, complete := prunedPaths(fn, env, isHdrWrite, 16)
		if !complete || len(paths) != 1 || paths[0].Loops {
			return false, fmt.Sprintf("expected one header-building path for this length class, found %d", len(paths)), fn.Pos()
		}
		pa := paths[0]
		wcall := pa.End.(*ssa.Call)
		hdr := resolvePhi(wcall.Call.Args[0], pa.PhiSrc)
		al, K, off, okA := arrayBehind(hdr)
		if !okA || off != 0 {
			return false, "the header written is " + Term(hdr) + ": not a locally built buffer", wcall.Pos()
		}
		// fold the stores into the header along the path
		bytes := map[int64]int64{}
		var puts []string
		ok, detail := true, ""
		for _, in := range pa.Instrs {
			switch x := in.(type) {
			case *ssa.Store:
				ia, isIA := x.Addr.(*ssa.IndexAddr)
				if !isIA {
					continue
				}
				base := resolvePhi(ia.X, pa.PhiSrc)
				al2, _, off2, ok2 := arrayBehind(base)
				if !ok2 || al2 != al {
					continue
				}
				idx, known := env.evalInt(ia.Index, pa.PhiSrc, 0)
				if !known {
					ok, detail = false, "store to the header at a non-constant index"
					continue
				}
				// loads of the header byte being updated (header[0] |= 0x80)
				for i, bv := range bytes {
					_ = i
					_ = bv
				}
				env2 := &constEnv{byValue: env.byValue, boolT: env.boolT, byTerm: map[string]int64{}}
				if bo, isBO := x.Val.(*ssa.BinOp); isBO {
					for _, opnd := range []ssa.Value{bo.X, bo.Y} {
						if u, isU := opnd.(*ssa.UnOp); isU && u.Op == token.MUL {
							if ia2, isIA2 := u.X.(*ssa.IndexAddr); isIA2 {
								if j, kn := env.evalInt(ia2.Index, pa.PhiSrc, 0); kn {
									env2.byTerm[Term(u)] = bytes[j+off2]
								}
							}
						}
					}
				}
				v, known := env2.evalInt(x.Val, pa.PhiSrc, 0)
				if !known {
					ok, detail = false, "header byte stored with a value that does not fold: "+Term(x.Val)
					continue
				}
				bytes[idx+off2] = v & 0xff
			case *ssa.Call:
				name, cl, isBE := bigEndianCall(in)
				if !isBE {
					continue
				}
				al2, _, off2, ok2 := arrayBehind(resolvePhi(cl.Call.Args[1], pa.PhiSrc))
				if !ok2 || al2 != al {
					continue
				}
				v, known := env.evalInt(cl.Call.Args[2], pa.PhiSrc, 0)
				if !known {
					ok, detail = false, name+" of a value that does not fold: "+Term(cl.Call.Args[2])
					continue
				}
				width := map[string]int64{"PutUint16": 2, "PutUint32": 4, "PutUint64": 8}[name]
				for i := int64(0); i < width; i++ {
					bytes[off2+i] = (v >> uint(8*(width-1-i))) & 0xff
				}
				puts = append(puts, name)
			}
		}
		// expected header
		flag := int64(0)
		if bin {
			flag = 0x80
		}
		var want []int64
		switch {
		case E < 126:
			want = []int64{E | flag}
		case E < 65536:
			want = []int64{126 | flag, E >> 8, E & 0xff}
		default:
			want = []int64{127 | flag}
			for i := 7; i >= 0; i-- {
				want = append(want, (E>>uint(8*i))&0xff)
			}
		}
		if ok && K != int64(len(want)) {
			ok, detail = false, fmt.Sprintf("header has %d bytes, the protocol form for length %d has %d", K, E, len(want))
		}
		if ok {
			for i, w := range want {
				if bytes[int64(i)] != w {
					ok, detail = false, fmt.Sprintf("header byte %d is 0x%02x, expected 0x%02x (header built: %v, expected %v)", i, bytes[int64(i)], w, headerBytes(bytes, K), want)
					break
				}
			}
		}
		return ok, detail, wcall.Pos()
	}
	reps := []int64{0, 1, 125, 126, 127, 128, 255, 256, 65535, 65536, 65537, 1 << 24, 1<<31 - 1}
	for _, E := range reps {
		for _, bin := range []bool{false, true} {
			ok, detail, pos := check(E, bin)
			c.Ob("C11-D2", fmt.Sprintf("webtransport.send/len=%d,binary=%v", E, bin), pos, ok, detail)
		}
	}
	if c.Tier == "thorough" {
		// every frame length 0..70000 (the property's quantifier), aggregated per form class
		type cls struct {
			name   string
			lo, hi int64
		}
		for _, cl := range []cls{{"7-bit form, lengths 0..125", 0, 125}, {"16-bit form, lengths 126..65535", 126, 65535}, {"64-bit form, lengths 65536..70000", 65536, 70000}} {
			for _, bin := range []bool{false, true} {
				ok, detail, pos := true, "", fn.Pos()
				n := 0
				for E := cl.lo; E <= cl.hi; E++ {
					n++
					if o, d, ps := check(E, bin); !o {
						ok, detail, pos = false, fmt.Sprintf("length %d: %s", E, d), ps
						break
					}
				}
				c.Ob("C11-D2", fmt.Sprintf("webtransport.send/every length: %s,binary=%v", cl.name, bin), pos, ok, detail)
				c.Note("C11-D2 thorough: writer header folded for %d lengths of the %s (binary=%v)", n, cl.name, bin)
			}
		}
	}
	// after the header, the packet itself, with the supportsBinary EncodedLen was asked for
	encs := CallsTo(Calls(fn), `\(\*eioparser\.Packet\)\.Encode`)
	if len(encs) != 1 {
		c.Ob("C11-D3", "webtransport.send/encode-after-header", fn.Pos(), false, fmt.Sprintf("send must encode the packet once after the header (found %d Encode calls)", len(encs)))
	}
}

func headerBytes(m map[int64]int64, k int64) []int64 {
	out := make([]int64, k)
	for i := int64(0); i < k; i++ {
		out[i] = m[i]
	}
	return out
}

// ---------------------------------------------------------------- advertised length

type linForm struct {
	k     int64
	atoms map[string]int64
	bad   string
}

func (l linForm) String() string {
	var ks []string
	for a := range l.atoms {
		ks = append(ks, a)
	}
	sort.Strings(ks)
	s := fmt.Sprint(l.k)
	for _, a := range ks {
		if l.atoms[a] != 0 {
			s += fmt.Sprintf(" + %d·%s", l.atoms[a], a)
		}
	}
	if l.bad != "" {
		s += " + ?" + l.bad
	}
	return s
}

func (l *linForm) add(o linForm) {
	l.k += o.k
	for a, n := range o.atoms {
		l.atoms[a] += n
	}
	if o.bad != "" {
		l.bad = o.bad
	}
}

// sizeAtom names the size of a byte slice value in terms of the receiver's fields.
func sizeAtom(v ssa.Value) string {
	if u, ok := v.(*ssa.UnOp); ok && u.Op == token.MUL {
		if fa, ok := u.X.(*ssa.FieldAddr); ok {
			if _, isPar := fa.X.(*ssa.Parameter); isPar {
				return "len(recv." + fieldName(fa.X.Type(), fa.Field) + ")"
			}
		}
	}
	return "len(" + Term(v) + ")"
}

func linOf(v ssa.Value) linForm {
	out := linForm{atoms: map[string]int64{}}
	switch x := v.(type) {
	case *ssa.Const:
		if x.Value != nil && x.Value.Kind() == constant.Int {
			out.k = x.Int64()
			return out
		}
	case *ssa.BinOp:
		if x.Op == token.ADD {
			a, b := linOf(x.X), linOf(x.Y)
			a.add(b)
			return a
		}
	case *ssa.Call:
		if bi, ok := x.Call.Value.(*ssa.Builtin); ok && bi.Name() == "len" {
			out.atoms[sizeAtom(x.Call.Args[0])] = 1
			return out
		}
		if sc := x.Call.StaticCallee(); sc != nil && sc.String() == "(*encoding/base64.Encoding).EncodedLen" {
			if strings.HasSuffix(Term(x.Call.Args[0]), "base64.StdEncoding") {
				inner := linOf(x.Call.Args[1])
				if inner.k == 0 && len(inner.atoms) == 1 && inner.bad == "" {
					for a := range inner.atoms {
						out.atoms["b64std("+a+")"] = 1
					}
					return out
				}
			}
		}
	}
	out.bad = Term(v)
	return out
}

func c11EncodedLen(c *Ctx) {
	p := c.P
	enc := p.Fn("eioparser", "Packet.Encode")
	el := p.Fn("eioparser", "Packet.EncodedLen")
	isBinTerm := func(fn *ssa.Function) []string {
		var out []string
		for _, fa := range FieldAccesses(fn) {
			if fa.Field.Name() == "IsBinary" && !fa.Write {
				if u, ok := fa.Instr.(*ssa.UnOp); ok {
					out = append(out, Term(u))
				}
			}
		}
		return out
	}
	noErr := func(fn *ssa.Function, env *constEnv) {
		for _, b := range fn.Blocks {
			for _, in := range b.Instrs {
				bo, ok := in.(*ssa.BinOp)
				if !ok || (bo.Op != token.NEQ && bo.Op != token.EQL) {
					continue
				}
				if k, isK := bo.Y.(*ssa.Const); isK && k.Value == nil && types.Identical(bo.X.Type(), types.Universe.Lookup("error").Type()) {
					env.boolT[Term(bo)] = bo.Op == token.EQL
				}
			}
		}
	}
	for _, cfg := range []struct{ bin, sup bool }{{true, true}, {true, false}, {false, true}, {false, false}} {
		construct := fmt.Sprintf("eioparser.Packet/IsBinary=%v,supportsBinary=%v", cfg.bin, cfg.sup)
		// EncodedLen
		envL := &constEnv{boolT: map[string]bool{vname(el.Params[1]): cfg.sup}}
		for _, t := range isBinTerm(el) {
			envL.boolT[t] = cfg.bin
		}
		lpaths, lcomplete := prunedPaths(el, envL, nil, 8)
		if !lcomplete || len(lpaths) != 1 {
			c.Ob("C11-D3", construct, el.Pos(), false, fmt.Sprintf("EncodedLen: %d paths remain for this configuration (expected 1)", len(lpaths)))
			continue
		}
		ret, isRet := lpaths[0].End.(*ssa.Return)
		if !isRet {
			c.Ob("C11-D3", construct, el.Pos(), false, "EncodedLen: path without return")
			continue
		}
		announced := linOf(resolvePhi(ret.Results[0], lpaths[0].PhiSrc))
		// Encode
		envE := &constEnv{boolT: map[string]bool{vname(enc.Params[2]): cfg.sup}}
		for _, t := range isBinTerm(enc) {
			envE.boolT[t] = cfg.bin
		}
		noErr(enc, envE)
		epaths, ecomplete := prunedPaths(enc, envE, nil, 32)
		ok, detail := ecomplete && len(epaths) > 0, ""
		if !ok {
			detail = fmt.Sprintf("Encode: %d paths (complete=%v)", len(epaths), ecomplete)
		}
		for _, pa := range epaths {
			written := linForm{atoms: map[string]int64{}}
			closed := map[ssa.Value]bool{}
			var b64 []ssa.Value
			for _, in := range pa.Instrs {
				ci, isCI := in.(ssa.CallInstruction)
				if !isCI {
					continue
				}
				cc := ci.Common()
				if _, isB := cc.Value.(*ssa.Builtin); isB {
					continue
				}
				if cc.IsInvoke() {
					switch cc.Method.Name() {
					case "WriteByte":
						written.k++
						continue
					case "Write":
						recv := resolvePhi(cc.Value, pa.PhiSrc)
						if par, isPar := recv.(*ssa.Parameter); isPar && par == enc.Params[1] {
							written.atoms[sizeAtom(cc.Args[0])]++
							continue
						}
						if nc, isCall := recv.(*ssa.Call); isCall && nc.Call.StaticCallee() != nil && nc.Call.StaticCallee().String() == "encoding/base64.NewEncoder" {
							if strings.HasSuffix(Term(nc.Call.Args[0]), "base64.StdEncoding") && nc.Call.Args[1] == ssa.Value(enc.Params[1]) {
								written.atoms["b64std("+sizeAtom(cc.Args[0])+")"]++
								b64 = append(b64, recv)
								continue
							}
						}
						written.bad = "Write on " + Term(recv)
						continue
					case "Close":
						closed[resolvePhi(cc.Value, pa.PhiSrc)] = true
						continue
					}
				}
				if sc := cc.StaticCallee(); sc != nil {
					switch sc.String() {
					case "encoding/base64.NewEncoder":
						continue
					}
					if p.inModule(sc) && sc.Signature.Recv() != nil && sc.Name() == "ToChar" {
						continue
					}
				}
				// any other call that receives the writer is an unmodelled write
				for _, a := range cc.Args {
					if a == ssa.Value(enc.Params[1]) {
						written.bad = "call " + calleeName(cc) + " receives the writer"
					}
				}
			}
			for _, e := range b64 {
				if !closed[e] {
					written.bad = "base64 encoder never closed: the final partial block is not written"
				}
			}
			if written.String() != announced.String() || written.bad != "" || announced.bad != "" {
				ok = false
				detail = fmt.Sprintf("Encode writes %s bytes but EncodedLen announces %s", written.String(), announced.String())
			}
		}
		c.Ob("C11-D3", construct, enc.Pos(), ok, detail)
	}

	// payloads: separator condition and supportsBinary agree
	type loopShape struct {
		cond      string
		condVal   *ssa.BinOp
		sup       string
		sepOK     bool
		sepDetail string
		fn        *ssa.Function
	}
	shapeOf := func(fn *ssa.Function, callee string, sepPred func(thenBlock *ssa.BasicBlock) (bool, string)) loopShape {
		sh := loopShape{fn: fn}
		pname := vname(fn.Params[len(fn.Params)-1])
		for _, cs := range CallsTo(Calls(fn), callee) {
			args := cs.Common().Args
			sh.sup = Term(args[len(args)-1])
		}
		for _, b := range fn.Blocks {
			ifi, ok := b.Instrs[len(b.Instrs)-1].(*ssa.If)
			if !ok || !inLoop(b) {
				continue
			}
			bo, ok := ifi.Cond.(*ssa.BinOp)
			if !ok || !strings.Contains(Term(bo), "len("+pname+")") || !strings.Contains(Term(bo), " - 1)") {
				continue
			}
			sh.cond = strings.ReplaceAll(Term(bo), pname, "$P")
			sh.condVal = bo
			sh.sepOK, sh.sepDetail = sepPred(b.Succs[0])
		}
		return sh
	}
	epl := p.Fn("eioparser", "EncodedPayloadsLen")
	ep := p.Fn("eioparser", "EncodePayloads")
	shL := shapeOf(epl, `\(\*eioparser\.Packet\)\.EncodedLen`, func(then *ssa.BasicBlock) (bool, string) {
		for _, in := range then.Instrs {
			if bo, ok := in.(*ssa.BinOp); ok && bo.Op == token.ADD && Term(bo.Y) == "1" {
				return true, ""
			}
		}
		return false, "the separator branch of EncodedPayloadsLen does not add exactly 1"
	})
	shE := shapeOf(ep, `\(\*eioparser\.Packet\)\.Encode`, func(then *ssa.BasicBlock) (bool, string) {
		n := 0
		for _, in := range then.Instrs {
			if call, ok := in.(*ssa.Call); ok && call.Call.IsInvoke() && call.Call.Method.Name() == "WriteByte" {
				n++
				if Term(call.Call.Args[0]) != "30" {
					return false, "the separator written is " + Term(call.Call.Args[0]) + ", not 0x1e"
				}
			} else if ok && call.Call.IsInvoke() && call.Call.Method.Name() == "Write" {
				return false, "the separator branch writes more than one byte"
			}
		}
		return n == 1, fmt.Sprintf("the separator branch of EncodePayloads writes %d bytes", n)
	})
	c.Ob("C11-D3", "eioparser.payloads/separator-condition", ep.Pos(), shL.cond != "" && shL.cond == shE.cond, fmt.Sprintf("EncodedPayloadsLen counts a separator when %q but EncodePayloads writes one when %q", shL.cond, shE.cond))
	c.Ob("C11-D3", "eioparser.payloads/separator-size", ep.Pos(), shL.sepOK && shE.sepOK, shL.sepDetail+" "+shE.sepDetail)
	c.Ob("C11-D3", "eioparser.payloads/supportsBinary", ep.Pos(), shL.sup == "false" && shE.sup == "false", fmt.Sprintf("long-polling payloads are text: EncodedLen(%s) vs Encode(w, %s), both must be false", shL.sup, shE.sup))
	// the condition means "not the last packet": fold it for small sizes
	for _, sh := range []loopShape{shL, shE} {
		if sh.condVal == nil {
			continue
		}
		ok, detail := true, ""
		var lenCalls, idxVals []ssa.Value
		var walk func(v ssa.Value, d int)
		walk = func(v ssa.Value, d int) {
			if d > 6 {
				return
			}
			switch x := v.(type) {
			case *ssa.Call:
				if bi, isB := x.Call.Value.(*ssa.Builtin); isB && bi.Name() == "len" {
					lenCalls = append(lenCalls, x)
				}
			case *ssa.BinOp:
				// the range index value: φ+1
				if _, isPhi := x.X.(*ssa.Phi); isPhi && x.Op == token.ADD {
					idxVals = append(idxVals, x)
					return
				}
				walk(x.X, d+1)
				walk(x.Y, d+1)
			case *ssa.Phi:
				idxVals = append(idxVals, x)
			}
		}
		walk(sh.condVal, 0)
		if len(lenCalls) == 0 || len(idxVals) == 0 {
			ok, detail = false, "cannot identify index and length in the separator condition "+Term(sh.condVal)
		} else {
			for n := int64(1); n <= 4 && ok; n++ {
				for i := int64(0); i < n; i++ {
					env := &constEnv{byValue: map[ssa.Value]int64{}}
					for _, lc := range lenCalls {
						env.byValue[lc] = n
					}
					for _, iv := range idxVals {
						env.byValue[iv] = i
					}
					v, known := env.evalBool(sh.condVal, nil, 0)
					if !known || v != (i != n-1) {
						ok, detail = false, fmt.Sprintf("with %d packets, after packet %d the separator condition is %v (known=%v); the protocol puts a separator strictly between packets", n, i, v, known)
						break
					}
				}
			}
		}
		c.Ob("C11-D3", FuncName(sh.fn)+"/separator-between-packets", sh.condVal.Pos(), ok, detail)
	}

	// frame writers: EncodedLen(x) and Encode(w, x) with the same x
	for _, fn := range pkgFuncs(p, map[string]bool{"webtransport": true, "websocket": true, "polling": true}) {
		lens := CallsTo(Calls(fn), `\(\*eioparser\.Packet\)\.EncodedLen`)
		encs := CallsTo(Calls(fn), `\(\*eioparser\.Packet\)\.Encode`)
		if len(lens) == 0 || len(encs) == 0 {
			continue
		}
		for _, l := range lens {
			for _, e := range encs {
				la, ea := Term(l.Common().Args[1]), Term(e.Common().Args[2])
				c.Ob("C11-D3", FuncName(fn)+"/same-supportsBinary", e.Pos(), la == ea, fmt.Sprintf("the frame header announces EncodedLen(%s) but the packet is written with Encode(w, %s)", la, ea))
			}
		}
	}
}

// nilAfterUnmarshal: see rule C11-D7.
func nilAfterUnmarshal(c *Ctx, rule string, shorts map[string]bool) {
	p := c.P
	nCalls := 0
	for _, fn := range pkgFuncs(p, shorts) {
		for _, cs := range Calls(fn) {
			name := cs.Name
			if !(strings.HasSuffix(name, ".Unmarshal") || strings.HasSuffix(name, ".Decode") || strings.HasSuffix(name, "Unmarshal")) {
				continue
			}
			c.Ob(rule, FuncName(fn)+"/"+shortCallee(name)+"/examined", cs.Pos(), true, "decoder call examined")
			for _, a := range cs.Common().Args {
				v := a
				if mi, ok := v.(*ssa.MakeInterface); ok {
					v = mi.X
				}
				al, ok := v.(*ssa.Alloc)
				if !ok {
					continue
				}
				if _, isPtr := deref(al.Type()).Underlying().(*types.Pointer); !isPtr {
					continue // &structValue, &slice, …: cannot be reset to a nil pointer
				}
				nCalls++
				// every dereference of *al that the call can reach needs a nil test
				if al.Referrers() == nil {
					continue
				}
				for _, r := range *al.Referrers() {
					ld, isLd := r.(*ssa.UnOp)
					if !isLd || ld.Op != token.MUL || ld.Referrers() == nil {
						continue
					}
					if reach, _ := CanReachAvoiding(fn, cs.Instr, func(in ssa.Instruction) bool { return in == ssa.Instruction(ld) }, nil); !reach {
						continue
					}
					for _, use := range *ld.Referrers() {
						isDeref := false
						switch u := use.(type) {
						case *ssa.FieldAddr:
							isDeref = u.X == ssa.Value(ld)
						case *ssa.UnOp:
							isDeref = u.Op == token.MUL && u.X == ssa.Value(ld)
						case *ssa.IndexAddr:
							isDeref = u.X == ssa.Value(ld)
						}
						if !isDeref {
							continue
						}
						guarded := false
						for _, g := range Guards(use) {
							bo, isB := g.Cond.(*ssa.BinOp)
							if !isB {
								continue
							}
							k, isK := bo.Y.(*ssa.Const)
							if !isK || k.Value != nil {
								continue
							}
							if l2, isL := bo.X.(*ssa.UnOp); isL && l2.X == ssa.Value(al) {
								if (bo.Op == token.NEQ && g.Val) || (bo.Op == token.EQL && !g.Val) {
									guarded = true
								}
							}
						}
						c.Ob(rule, FuncName(fn)+"/"+vname(al)+"-dereferenced-after-"+shortCallee(name), use.Pos(), guarded,
							"`"+vname(al)+"` is passed to "+name+" by address (a pointer to a pointer): the JSON literal null sets it to nil without an error, and it is dereferenced here without a nil test — a few bytes from the peer panic this goroutine")
					}
				}
			}
		}
	}
	c.Note("%s: %d decoder calls receive the address of a pointer variable", rule, nCalls)
}
