package main

// Attachment completion (C09-D7, shared with C10-D5): a binary packet is handed
// to finish exactly when the number of attachment frames received equals the
// number its header announced — decided by propagating affine forms over
// (N = frames received so far, A = header.Attachments) through the retained
// path of (*Parser).Add, independent of how the count is kept (count-down
// field, count-up field, length of the buffer slice).

import (
	"fmt"
	"go/constant"
	"go/token"
	"go/types"
	"sort"
	"strings"

	"golang.org/x/tools/go/ssa"
)

// aff: k + Σ coef·sym ; symbols are "A", "N" and "P:<field>" (value of a reconstructor field before this frame).
type aff struct {
	k   int64
	c   map[string]int64
	bad string // why the value is not affine (empty: it is)
}

func affK(k int64) aff         { return aff{k: k, c: map[string]int64{}} }
func affSym(s string) aff      { return aff{c: map[string]int64{s: 1}} }
func affBad(why string) aff    { return aff{c: map[string]int64{}, bad: why} }
func (a aff) plus(b aff) aff   { return a.lin(b, 1) }
func (a aff) minus(b aff) aff  { return a.lin(b, -1) }
func (a aff) scaled(m int64) aff {
	o := aff{k: a.k * m, c: map[string]int64{}, bad: a.bad}
	for s, n := range a.c {
		o.c[s] = n * m
	}
	return o
}
func (a aff) lin(b aff, m int64) aff {
	o := aff{k: a.k + m*b.k, c: map[string]int64{}, bad: a.bad}
	if o.bad == "" {
		o.bad = b.bad
	}
	for s, n := range a.c {
		o.c[s] += n
	}
	for s, n := range b.c {
		o.c[s] += m * n
	}
	for s, n := range o.c {
		if n == 0 {
			delete(o.c, s)
		}
	}
	return o
}
func (a aff) String() string {
	if a.bad != "" {
		return "?(" + a.bad + ")"
	}
	var ks []string
	for s := range a.c {
		ks = append(ks, s)
	}
	sort.Strings(ks)
	var parts []string
	for _, s := range ks {
		switch a.c[s] {
		case 1:
			parts = append(parts, s)
		case -1:
			parts = append(parts, "-"+s)
		default:
			parts = append(parts, fmt.Sprintf("%d·%s", a.c[s], s))
		}
	}
	if a.k != 0 || len(parts) == 0 {
		parts = append(parts, fmt.Sprint(a.k))
	}
	return strings.Join(parts, " + ")
}

type affCmp struct {
	op   token.Token
	l, r aff
	neg  bool
}

type affExec struct {
	p       *Program
	recT    *types.Named // the reconstructor type
	attach  *types.Var   // parser.PacketHeader.Attachments
	mem     map[*types.Var]aff
	params  map[*ssa.Parameter]ssa.Value
	phiFrom map[*ssa.Phi]ssa.Value
	fail    string
	depth   int
	done    map[*ssa.Call][]any // a call is executed once, however often its result is used
}

func (e *affExec) recField(fa *ssa.FieldAddr) (*types.Var, bool) {
	nt, ok := deref(fa.X.Type()).(*types.Named)
	if !ok || nt.Obj() != e.recT.Obj() {
		return nil, false
	}
	return fieldVar(fa.X.Type(), fa.Field), true
}

// sliceLitLen: v is a slice of a freshly allocated array (a slice literal / the varargs of a call): its length.
func sliceLitLen(v ssa.Value) (int64, bool) {
	switch x := v.(type) {
	case *ssa.Slice:
		if x.Low != nil || x.High != nil {
			return 0, false
		}
		if al, ok := x.X.(*ssa.Alloc); ok {
			if at, ok := deref(al.Type()).Underlying().(*types.Array); ok {
				return at.Len(), true
			}
		}
	case *ssa.Const:
		if x.Value == nil {
			return 0, true
		}
	case *ssa.MakeSlice:
		if k, ok := x.Len.(*ssa.Const); ok && k.Value != nil && k.Value.Kind() == constant.Int {
			return k.Int64(), true
		}
	}
	return 0, false
}

// eval: the affine form of an integer value, or of the length of a slice value.
func (e *affExec) eval(v ssa.Value) aff {
	switch x := v.(type) {
	case *ssa.Const:
		if x.Value != nil && x.Value.Kind() == constant.Int {
			return affK(x.Int64())
		}
		if x.Value == nil {
			return affK(0) // nil slice
		}
	case *ssa.Parameter:
		if a, ok := e.params[x]; ok {
			return e.eval(a)
		}
	case *ssa.Phi:
		if src, ok := e.phiFrom[x]; ok {
			return e.eval(src)
		}
	case *ssa.ChangeType:
		return e.eval(x.X)
	case *ssa.Convert:
		if isIntType(x.Type()) && isIntType(x.X.Type()) {
			return e.eval(x.X)
		}
	case *ssa.UnOp:
		if x.Op == token.MUL {
			if fa, ok := x.X.(*ssa.FieldAddr); ok {
				if fv, isRec := e.recField(fa); isRec {
					if a, ok := e.mem[fv]; ok {
						return a
					}
					return affSym("P:" + fdisp(fv))
				}
				if fieldVar(fa.X.Type(), fa.Field) == e.attach {
					return affSym("A")
				}
			}
		}
		if x.Op == token.SUB {
			return e.eval(x.X).scaled(-1)
		}
	case *ssa.BinOp:
		switch x.Op {
		case token.ADD:
			return e.eval(x.X).plus(e.eval(x.Y))
		case token.SUB:
			return e.eval(x.X).minus(e.eval(x.Y))
		case token.MUL:
			if k, ok := x.Y.(*ssa.Const); ok && k.Value != nil && k.Value.Kind() == constant.Int {
				return e.eval(x.X).scaled(k.Int64())
			}
			if k, ok := x.X.(*ssa.Const); ok && k.Value != nil && k.Value.Kind() == constant.Int {
				return e.eval(x.Y).scaled(k.Int64())
			}
		}
	case *ssa.Slice:
		if n, ok := sliceLitLen(x); ok {
			return affK(n)
		}
	case *ssa.MakeSlice:
		return e.eval(x.Len)
	case *ssa.Call:
		if b, ok := x.Call.Value.(*ssa.Builtin); ok {
			switch b.Name() {
			case "len":
				return e.eval(x.Call.Args[0])
			case "append":
				if len(x.Call.Args) == 2 {
					if n, ok := sliceLitLen(x.Call.Args[1]); ok {
						return e.eval(x.Call.Args[0]).plus(affK(n))
					}
				}
			}
		}
		if sc := x.Call.StaticCallee(); sc != nil && e.p.inModule(sc) && len(sc.Blocks) > 0 {
			if r, ok := e.call(x); ok && len(r) == 1 {
				if a, isA := r[0].(aff); isA {
					return a
				}
			}
		}
	}
	return affBad(trunc(Term(v), 60))
}

// evalCond: a comparison of two affine forms.
func (e *affExec) evalCond(v ssa.Value) (affCmp, bool) {
	switch x := v.(type) {
	case *ssa.UnOp:
		if x.Op == token.NOT {
			c, ok := e.evalCond(x.X)
			c.neg = !c.neg
			return c, ok
		}
	case *ssa.Parameter:
		if a, ok := e.params[x]; ok {
			return e.evalCond(a)
		}
	case *ssa.Phi:
		if src, ok := e.phiFrom[x]; ok {
			return e.evalCond(src)
		}
	case *ssa.BinOp:
		switch x.Op {
		case token.EQL, token.NEQ, token.LSS, token.LEQ, token.GTR, token.GEQ:
			if !isIntType(x.X.Type()) {
				return affCmp{}, false
			}
			l, r := e.eval(x.X), e.eval(x.Y)
			if l.bad != "" || r.bad != "" {
				return affCmp{}, false
			}
			return affCmp{op: x.Op, l: l, r: r}, true
		}
	case *ssa.Call:
		if sc := x.Call.StaticCallee(); sc != nil && e.p.inModule(sc) && len(sc.Blocks) > 0 {
			if r, ok := e.call(x); ok && len(r) == 1 {
				if c, isC := r[0].(affCmp); isC {
					return c, true
				}
			}
		}
	}
	return affCmp{}, false
}

// store: the effect of a Store on the reconstructor's fields.
func (e *affExec) store(st *ssa.Store) {
	fa, ok := st.Addr.(*ssa.FieldAddr)
	if !ok {
		return
	}
	fv, isRec := e.recField(fa)
	if !isRec {
		return
	}
	T := fv.Type().Underlying()
	if _, isSl := T.(*types.Slice); isSl || isIntType(fv.Type()) {
		e.mem[fv] = e.eval(st.Val)
	}
}

// call executes a module callee along its single feasible path and returns the forms of its results.
func (e *affExec) call(call *ssa.Call) ([]any, bool) {
	sc := call.Call.StaticCallee()
	if r, ok := e.done[call]; ok {
		return r, r != nil
	}
	if e.depth > 3 {
		return nil, false
	}
	if e.done == nil {
		e.done = map[*ssa.Call][]any{}
	}
	e.done[call] = nil
	e.depth++
	defer func() { e.depth-- }()
	saved := e.params
	np := map[*ssa.Parameter]ssa.Value{}
	for k, v := range saved {
		np[k] = v
	}
	for i, par := range sc.Params {
		if i < len(call.Call.Args) {
			np[par] = call.Call.Args[i]
		}
	}
	e.params = np
	defer func() { e.params = saved }()
	b := sc.Blocks[0]
	var pred *ssa.BasicBlock
	for steps := 0; steps < 64; steps++ {
		for _, in := range b.Instrs {
			switch x := in.(type) {
			case *ssa.Phi:
				for i, p := range b.Preds {
					if p == pred {
						e.phiFrom[x] = x.Edges[i]
					}
				}
			case *ssa.Store:
				e.store(x)
			case *ssa.Return:
				var out []any
				for _, r := range x.Results {
					if c, ok := e.evalCond(r); ok {
						out = append(out, c)
					} else {
						out = append(out, e.eval(r))
					}
				}
				e.done[call] = out
				return out, true
			case *ssa.If:
				// a branch inside the helper: only on a condition that is decided by constants
				c, ok := e.evalCond(x.Cond)
				if !ok {
					return nil, false
				}
				d := c.l.minus(c.r)
				if len(d.c) != 0 {
					return nil, false
				}
				val := cmpConst(c.op, d.k) != c.neg
				pred = b
				if val {
					b = b.Succs[0]
				} else {
					b = b.Succs[1]
				}
				goto next
			case *ssa.Jump:
				pred = b
				b = b.Succs[0]
				goto next
			}
		}
		return nil, false
	next:
	}
	return nil, false
}

func cmpConst(op token.Token, d int64) bool {
	switch op {
	case token.EQL:
		return d == 0
	case token.NEQ:
		return d != 0
	case token.LSS:
		return d < 0
	case token.LEQ:
		return d <= 0
	case token.GTR:
		return d > 0
	case token.GEQ:
		return d >= 0
	}
	return false
}

// attachmentCompletion emits the obligations of the completion rule under `rule`.
func attachmentCompletion(c *Ctx, rule string) {
	p := c.P
	add := p.Fn("jsonparser", "Parser.Add")
	recT := p.Named("jsonparser", "reconstructor")
	attach := p.Field("parser", "PacketHeader", "Attachments")
	name := "jsonparser.Parser.Add"
	finish := func(in ssa.Instruction) bool {
		call, ok := in.(*ssa.Call)
		if !ok || call.Call.IsInvoke() || call.Call.StaticCallee() != nil {
			return false
		}
		nt, ok := call.Call.Value.Type().(*types.Named)
		return ok && nt.Obj().Name() == "Finish"
	}

	// ---- the state a new packet starts with: the stores that build the reconstructor in Add
	ex := &affExec{p: p, recT: recT, attach: attach, mem: map[*types.Var]aff{}, params: map[*ssa.Parameter]ssa.Value{}, phiFrom: map[*ssa.Phi]ssa.Value{}}
	init := map[*types.Var]aff{}
	nInit := map[*types.Var]int{}
	for _, f := range append([]*ssa.Function{add}, transparentCalleesOf(add)...) {
		for _, b := range f.Blocks {
			for _, in := range b.Instrs {
				st, ok := in.(*ssa.Store)
				if !ok {
					continue
				}
				fa, ok := st.Addr.(*ssa.FieldAddr)
				if !ok {
					continue
				}
				if _, isAlloc := fa.X.(*ssa.Alloc); !isAlloc {
					continue
				}
				fv, isRec := ex.recField(fa)
				if !isRec {
					continue
				}
				if _, isSl := fv.Type().Underlying().(*types.Slice); isSl || isIntType(fv.Type()) {
					val := st.Val
					val = resolveParam(val)
					init[fv] = ex.eval(val)
					nInit[fv]++
				}
			}
		}
	}

	// ---- the retained path: p.r != nil
	retained := func(cond ssa.Value) (val, known bool) {
		neg := false
		for {
			u, ok := cond.(*ssa.UnOp)
			if !ok || u.Op != token.NOT {
				break
			}
			neg = !neg
			cond = u.X
		}
		bo, ok := cond.(*ssa.BinOp)
		if !ok || (bo.Op != token.EQL && bo.Op != token.NEQ) {
			return false, false
		}
		if k, isK := bo.Y.(*ssa.Const); !isK || k.Value != nil {
			return false, false
		}
		pt, isPtr := bo.X.Type().Underlying().(*types.Pointer)
		if !isPtr {
			return false, false
		}
		if nt, isN := pt.Elem().(*types.Named); !isN || nt.Obj() != recT.Obj() {
			return false, false
		}
		return (bo.Op == token.NEQ) != neg, true
	}
	ex = &affExec{p: p, recT: recT, attach: attach, mem: map[*types.Var]aff{}, params: map[*ssa.Parameter]ssa.Value{}, phiFrom: map[*ssa.Phi]ssa.Value{}}
	b := add.Blocks[0]
	var pred *ssa.BasicBlock
	var decision *ssa.If
	var cmp affCmp
	why := ""
walk:
	for steps := 0; steps < 200; steps++ {
		for _, in := range b.Instrs {
			switch x := in.(type) {
			case *ssa.Phi:
				for i, pb := range b.Preds {
					if pb == pred {
						ex.phiFrom[x] = x.Edges[i]
					}
				}
			case *ssa.Store:
				ex.store(x)
			case *ssa.Call:
				if finish(x) {
					why = "finish(...) is reached on the retained path before any test of the attachment count"
					break walk
				}
				if sc := x.Call.StaticCallee(); sc != nil && p.inModule(sc) && len(sc.Blocks) > 0 && x.Referrers() != nil && len(*x.Referrers()) == 0 {
					// a helper called for its effect
					if _, ok := ex.call(x); !ok {
						why = "the effect of " + FuncName(sc) + " on the reconstructor is not a single path"
						break walk
					}
				}
			case *ssa.Return:
				why = "the retained path returns without a test of the attachment count"
				break walk
			case *ssa.If:
				if v, known := retained(x.Cond); known {
					pred = b
					if v {
						b = b.Succs[0]
					} else {
						b = b.Succs[1]
					}
					continue walk
				}
				cc, ok := ex.evalCond(x.Cond)
				if !ok {
					why = "the condition " + trunc(Term(x.Cond), 80) + " on the retained path is not a comparison of affine forms of the reconstructor's state"
					break walk
				}
				decision, cmp = x, cc
				break walk
			case *ssa.Jump:
				pred = b
				b = b.Succs[0]
				continue walk
			}
		}
		break
	}
	if decision == nil {
		c.Undecided("%s: the completion test of (*Parser).Add was not recognised: %s", rule, why)
		return
	}
	// which edge of the decision calls finish
	reachFinish := func(s *ssa.BasicBlock) bool {
		if len(s.Instrs) == 0 {
			return false
		}
		if finish(s.Instrs[0]) {
			return true
		}
		r, _ := CanReachAvoiding(add, s.Instrs[0], finish, nil)
		return r
	}
	onTrue, onFalse := reachFinish(decision.Block().Succs[0]), reachFinish(decision.Block().Succs[1])
	if onTrue == onFalse {
		c.Ob(rule, name+"/completion-decides-finish", decision.Cond.Pos(), false, fmt.Sprintf("finish(...) is reachable on the true edge: %v, on the false edge: %v of the completion test — the test must decide it", onTrue, onFalse))
		return
	}
	c.Ob(rule, name+"/completion-decides-finish", decision.Cond.Pos(), true, "finish(...) is called on exactly one edge of the completion test")

	// ---- per-frame effect δ and the test as a form over N and A
	delta := map[string]aff{}
	initOf := map[string]aff{}
	for fv, post := range ex.mem {
		sym := "P:" + fdisp(fv)
		d := post.minus(affSym(sym))
		delta[sym] = d
		okD := d.bad == "" && len(d.c) == 0
		c.Ob(rule, name+"/per-frame-effect/"+fdisp(fv), decision.Cond.Pos(), okD, fmt.Sprintf("each attachment frame changes reconstructor.%s by %s (must be a constant step)", fdisp(fv), d))
		if !okD {
			return
		}
	}
	for fv, a := range init {
		initOf["P:"+fdisp(fv)] = a
		if nInit[fv] > 1 {
			initOf["P:"+fdisp(fv)] = affBad("stored more than once when the reconstructor is built")
		}
	}
	subst := func(a aff) aff {
		out := affK(a.k)
		for s, n := range a.c {
			if !strings.HasPrefix(s, "P:") {
				out = out.plus(affSym(s).scaled(n))
				continue
			}
			i0, ok := initOf[s]
			if !ok {
				i0 = affK(0) // a field the constructor does not set starts at its zero value
			}
			d, ok := delta[s]
			if !ok {
				d = affK(0)
			}
			// before the N-th frame: init + (N-1)·δ
			pre := i0.plus(affSym("N").scaled(d.k)).minus(affK(d.k))
			out = out.plus(pre.scaled(n))
		}
		return out
	}
	D := subst(cmp.l).minus(subst(cmp.r)) // the test is  D op 0
	op := cmp.op
	if cmp.neg != onFalse { // finish when the test is false (or the test is negated): use the complement
		op = map[token.Token]token.Token{token.EQL: token.NEQ, token.NEQ: token.EQL, token.LSS: token.GEQ, token.GEQ: token.LSS, token.GTR: token.LEQ, token.LEQ: token.GTR}[op]
	}
	desc := fmt.Sprintf("finish is called when %s %s 0 (N = attachment frames received including this one, A = header.Attachments)", D, op)
	if D.bad != "" {
		c.Undecided("%s: the completion test is not affine in the frames received and the announced count: %s", rule, D)
		return
	}
	for s := range D.c {
		if s != "N" && s != "A" {
			c.Undecided("%s: the completion test depends on %s", rule, s)
			return
		}
	}
	// normalise to  α·N + β·A + γ  ≥ 0   or  == 0
	alpha, beta, gamma := D.c["N"], D.c["A"], D.k
	switch op {
	case token.LSS: // D < 0  ⇔  -D - 1 ≥ 0
		alpha, beta, gamma, op = -alpha, -beta, -gamma-1, token.GEQ
	case token.LEQ:
		alpha, beta, gamma, op = -alpha, -beta, -gamma, token.GEQ
	case token.GTR:
		gamma, op = gamma-1, token.GEQ
	}
	exact := false
	switch op {
	case token.EQL:
		exact = alpha != 0 && beta == -alpha && gamma == 0
	case token.GEQ:
		exact = alpha > 0 && beta == -alpha && gamma == 0
	}
	c.Ob(rule, name+"/complete-exactly-at-announced-count", decision.Cond.Pos(), exact,
		desc+": a packet must be complete exactly when N = A — earlier and the last attachment(s) are missing from the decoded values and are then read as the next packet's header, later and the packet is never delivered (or swallows the next one)")
}
