package main

// C13 — size limits on every transport.

import (
	"fmt"
	"go/token"
	"strings"

	"golang.org/x/tools/go/ssa"
)

func init() {
	register(&PropertySpec{
		ID:         "C13",
		NotDecided: "acceptance/rejection at each concrete size, and that batching neither drops, duplicates nor reorders for every size vector; decided are presence and wiring of a limiter on every inbound byte source of the server, SetReadLimit on every websocket connection on all paths, announced = enforced (same field), and the induction-variable / partition shape of the client batcher.",
		Run:        runC13,
	})
}

func runC13(c *Ctx) {
	c.Rule("C13-D1", "limiter on every inbound source: the polling body is read only through a MaxBytesReader built from maxHTTPBufferSize (and not at all when Content-Length already exceeds it); the WebTransport server reads frames through nextPacketWithLimit(readLimit), which refuses an announced length above the limit before allocating", 8)
	pollingBodyLimit(c, "C13-D1")
	webtransportLimit(c, "C13-D1")

	c.Rule("C13-D2", "every *websocket.Conn obtained from Accept/Dial gets SetReadLimit on every path before it is read (the library default is 32768 bytes): the configured limit when positive, -1 (unlimited) otherwise", 4)
	websocketReadLimit(c, "C13-D2")

	c.Rule("C13-D4", "a failed read of the POST body is fatal: in DecodePayloads, once io.ReadAll returned an error nothing is split or decoded — the limit of http.MaxBytesReader (the only guard for a chunked body "+
		"without Content-Length) surfaces as exactly that error, so 'decode what arrived' accepts a truncated over-limit body", 1)
	payloadReadErrorFatal(c, "C13-D4")

	c.Rule("C13-D3", "batcher shape: after a split the scan restarts at index 0 of the remaining slice (induction variable reset to -1 before the post-increment), the prefix sent and the suffix kept are cut at the same index, the remainder is sent, and sizes are compared with the announced maxPayload", 5)
	batcherShape(c, "C13-D3")

	c.Rule("C13-D4", "announced = enforced: the OPEN packet's maxPayload and the limit handed to all server transports are the same Server field; transports store it in the field their limiter reads; the client stores the announced value in the field the batcher compares with", 9)
	announcedEqualsEnforced(c, "C13-D4")
}

func pollingBodyLimit(c *Ctx, rule string) {
	p := c.P
	fn := p.Fn("polling", "ServerTransport.handleDataRequest")
	name := "polling.ServerTransport.handleDataRequest"
	isRead := anyCallPred(`eioparser\.DecodePayloads|\(\*net/http\.Request\)\.ParseForm|io\.ReadAll|\(\*net/http\.Request\)\.(FormValue|PostFormValue|ParseMultipartForm)`)
	reads := findInstrs(fn, isRead)
	c.Ob(rule, name+"/reads-body", fn.Pos(), len(reads) >= 2, fmt.Sprintf("%d body-reading calls found (expected the plain and the JSONP branch)", len(reads)))
	isLimiter := func(in ssa.Instruction) bool {
		st, ok := in.(*ssa.Store)
		if !ok || Addr(st.Addr) != "r.Body" {
			return false
		}
		t := Term(st.Val)
		return strings.HasPrefix(t, "net/http.MaxBytesReader(") && strings.HasSuffix(t, ", t.maxHTTPBufferSize)") && strings.Contains(t, "r.Body")
	}
	lim := findInstrs(fn, isLimiter)
	c.Ob(rule, name+"/limiter-built", fn.Pos(), len(lim) >= 1, "no `r.Body = http.MaxBytesReader(w, r.Body, t.maxHTTPBufferSize)` found")
	for _, rd := range reads {
		un, trail := PrunedCanReach(fn, nil, []Assume{{`\(t\.maxHTTPBufferSize > 0\)`, true}, {`\(t\.maxHTTPBufferSize <= 0\)`, false}, {`\(t\.maxHTTPBufferSize != 0\)`, true}, {`\(t\.maxHTTPBufferSize == 0\)`, false}},
			func(in ssa.Instruction) bool { return in == rd }, isLimiter)
		c.Ob(rule, name+"/read-behind-limiter", rd.Pos(), !un, "with a positive limit the body is read on a path that did not install the MaxBytesReader (a chunked body of any size would be accepted): "+trailString(p, trail))
		// the reader consumed is r.Body (not a copy taken before the limiter)
		if cl, ok := rd.(*ssa.Call); ok && strings.Contains(calleeName(&cl.Call), "DecodePayloads") {
			a := Term(cl.Call.Args[0])
			if !strings.Contains(a, "bytes.NewBuffer") {
				okBody := a == "r.Body"
				detail := "DecodePayloads reads " + a + " (expected r.Body as replaced by the limiter)"
				if ld, isLoad := unwrapConv(cl.Call.Args[0]).(ssa.Instruction); okBody && isLoad {
					// the value read must have been loaded after the limiter was installed
					stale, tr := PrunedCanReach(fn, nil, []Assume{{`\(t\.maxHTTPBufferSize > 0\)`, true}}, func(in ssa.Instruction) bool { return in == ld }, isLimiter)
					if stale {
						okBody = false
						detail = "the reader handed to DecodePayloads was taken from r.Body before the limiter was installed: " + trailString(p, tr)
					}
				}
				c.Ob(rule, name+"/reads-r.Body", rd.Pos(), okBody, detail)
			}
		}
		// declared oversize → never read
		over, trail := PrunedCanReach(fn, nil, []Assume{{`\(t\.maxHTTPBufferSize > 0\)`, true}, {`\(r\.ContentLength > t\.maxHTTPBufferSize\)`, true}},
			func(in ssa.Instruction) bool { return in == rd }, nil)
		c.Ob(rule, name+"/declared-oversize-not-read", rd.Pos(), !over, "a request whose Content-Length exceeds the limit still reaches the body read: "+trailString(p, trail))
	}
	// oversize closes the transport
	closes := findInstrs(fn, anyCallPred(`\(\*polling\.ServerTransport\)\.(close|handleDataError)`))
	c.Ob(rule, name+"/oversize-closes", fn.Pos(), len(closes) >= 2, "error/oversize paths must close the transport")
	// the over-limit read error takes the close path
	if p.HasMethod("polling", "ServerTransport", "handleDataError") {
		h := p.Fn("polling", "ServerTransport.handleDataError")
		skip, trail := CanReachExitAvoiding(h, nil, callPred(`\(\*polling\.ServerTransport\)\.close`))
		c.Ob(rule, "polling.ServerTransport.handleDataError/closes", h.Pos(), !skip, "a path through handleDataError does not close the transport: "+trailString(p, trail))
	}
}

func webtransportLimit(c *Ctx, rule string) {
	p := c.P
	fn := p.Fn("webtransport", "ServerTransport.nextPacket")
	cs := CallsTo(Calls(fn), `webtransport\.nextPacketWithLimit`)
	if len(cs) != 1 {
		c.Ob(rule, "webtransport.ServerTransport.nextPacket/limited", fn.Pos(), false, fmt.Sprintf("the server transport must read frames through nextPacketWithLimit (found %d calls)", len(cs)))
	} else {
		a := Term(cs[0].Arg(1))
		c.Ob(rule, "webtransport.ServerTransport.nextPacket/limited", cs[0].Pos(), a == "t.readLimit", "nextPacketWithLimit receives limit "+a+" (expected t.readLimit)")
	}
	lf := p.Fn("webtransport", "nextPacketWithLimit")
	decs := findInstrs(lf, anyCallPred(`eioparser\.DecodeWithLen`))
	if len(decs) == 0 {
		c.Ob(rule, "webtransport.nextPacketWithLimit/decodes", lf.Pos(), false, "no DecodeWithLen call found")
	}
	for _, d := range decs {
		lenArg := Term(d.(*ssa.Call).Call.Args[2])
		over, trail := PrunedCanReach(lf, nil, []Assume{{`\(limit > 0\)`, true}, {`\(conv:int64\(.*\) > limit\)`, true}, {`\(limit < conv:int64\(.*\)\)`, true}}, func(in ssa.Instruction) bool { return in == d }, nil)
		c.Ob(rule, "webtransport.nextPacketWithLimit/limit-before-alloc", d.Pos(), !over, "with a positive limit and an announced length above it, DecodeWithLen (which allocates "+lenArg+" bytes) is still reachable: "+trailString(p, trail))
		// the compared quantity is the length passed on
		cmp := false
		for _, g := range GuardTerms(d) {
			if strings.Contains(g, "conv:int64("+lenArg+") > limit)==false") || strings.Contains(g, "(limit > 0)==false") {
				cmp = true
			}
		}
		_ = cmp
	}
	// the limit test compares the same value that is passed to DecodeWithLen
	for _, b := range lf.Blocks {
		for _, in := range b.Instrs {
			bo, ok := in.(*ssa.BinOp)
			if !ok || bo.Op != token.GTR || Term(bo.Y) != "limit" {
				continue
			}
			for _, d := range decs {
				lenArg := Term(d.(*ssa.Call).Call.Args[2])
				c.Ob(rule, "webtransport.nextPacketWithLimit/compares-announced-length", bo.Pos(), Term(bo.X) == "conv:int64("+lenArg+")", "the limit is compared with "+Term(bo.X)+" but "+lenArg+" bytes are allocated")
			}
		}
	}
	// the client path (no configured limit) and Handshake go through the same reader
	hs := p.Fn("webtransport", "ServerTransport.Handshake")
	for _, cs := range CallsTo(Calls(hs), `webtransport\.nextPacket`) {
		c.Ob(rule, "webtransport.ServerTransport.Handshake/unlimited-read", cs.Pos(), false, "the server handshake reads a frame through the unlimited nextPacket")
	}
}

// websocketReadLimit implements C13-D2 (also C01-D5).
func websocketReadLimit(c *Ctx, rule string) {
	p := c.P
	isSRL := anyCallPred(`\(\*nws\.Conn\)\.SetReadLimit`)
	{
		fn := p.Fn("websocket", "ServerTransport.Handshake")
		acc := CallsTo(Calls(fn), `nws\.Accept`)
		name := "websocket.ServerTransport.Handshake"
		if len(acc) != 1 {
			c.Ob(rule, name+"/accept", fn.Pos(), false, fmt.Sprintf("expected one websocket.Accept, found %d", len(acc)))
		} else {
			T := Term(acc[0].Instr.(*ssa.Call))
			skip, trail := PrunedCanReach(fn, acc[0].Instr, []Assume{{regexpQuote("(" + T + "#1 != nil)"), false}, {`\(t\.conn.* != nil.*\)`, true}}, nil, isSRL)
			c.Ob(rule, name+"/limit-on-all-paths", acc[0].Pos(), !skip, "after a successful Accept a path returns without SetReadLimit (the library's 32768-byte default stays): "+trailString(p, trail))
		}
		for _, s := range findInstrs(fn, isSRL) {
			a := Term(s.(*ssa.Call).Call.Args[1])
			switch a {
			case "t.readLimit":
				ok := HasGuard(s, `\(t\.readLimit > 0\)==true`) || HasGuard(s, `\(t\.readLimit != 0\)==true`) || HasGuard(s, `\(t\.readLimit <= 0\)==false`)
				c.Ob(rule, name+"/configured-limit", s.Pos(), ok, "SetReadLimit(t.readLimit) must be under `readLimit > 0` (0 means disabled, and would reject everything)")
			case "-1":
				ok := HasGuard(s, `\(t\.readLimit > 0\)==false`) || HasGuard(s, `\(t\.readLimit != 0\)==false`) || HasGuard(s, `\(t\.readLimit <= 0\)==true`) || HasGuard(s, `\(t\.readLimit == 0\)==true`)
				c.Ob(rule, name+"/unlimited-only-when-disabled", s.Pos(), ok, "SetReadLimit(-1) on the server must be reached only when the configured limit is disabled")
			default:
				c.Ob(rule, name+"/limit-arg", s.Pos(), false, "SetReadLimit("+a+"): expected the configured t.readLimit or -1")
			}
		}
	}
	{
		fn := p.Fn("websocket", "ClientTransport.Handshake")
		dial := CallsTo(Calls(fn), `nws\.Dial`)
		name := "websocket.ClientTransport.Handshake"
		if len(dial) != 1 {
			c.Ob(rule, name+"/dial", fn.Pos(), false, fmt.Sprintf("expected one websocket.Dial, found %d", len(dial)))
		} else {
			T := Term(dial[0].Instr.(*ssa.Call))
			// before any read of the connection
			isRead := anyCallPred(`\(\*websocket\.ClientTransport\)\.nextPacket|\(\*nws\.Conn\)\.Reader`)
			early, trail := PrunedCanReach(fn, dial[0].Instr, []Assume{{regexpQuote("(" + T + "#2 != nil)"), false}}, isRead, isSRL)
			c.Ob(rule, name+"/limit-before-first-read", dial[0].Pos(), !early, "the connection is read before SetReadLimit: "+trailString(p, trail))
			skip, trail := PrunedCanReach(fn, dial[0].Instr, []Assume{{regexpQuote("(" + T + "#2 != nil)"), false}}, nil, isSRL)
			c.Ob(rule, name+"/limit-on-all-paths", dial[0].Pos(), !skip, "after a successful Dial a path returns without SetReadLimit (messages above 32768 bytes, though within the announced maxPayload, would kill the connection): "+trailString(p, trail))
		}
		for _, s := range findInstrs(fn, isSRL) {
			a := Term(s.(*ssa.Call).Call.Args[1])
			c.Ob(rule, name+"/limit-arg", s.Pos(), a == "-1" || strings.Contains(a, "axPayload"), "client SetReadLimit("+a+"): expected -1 (no client-side limit) or the announced maxPayload")
		}
	}
	// nobody else obtains a websocket.Conn
	for _, fn := range p.SrcFuncs() {
		for _, cs := range CallsTo(Calls(fn), `nws\.(Accept|Dial)`) {
			top := FuncName(EnclosingTop(fn))
			c.Ob(rule, "conn-source@"+FuncName(fn), cs.Pos(), top == "(*websocket.ServerTransport).Handshake" || top == "(*websocket.ClientTransport).Handshake", "a websocket connection is created in "+FuncName(fn)+", outside the two checked handshakes")
		}
	}
}

// payloadReadErrorFatal (C13-D4): an error of reading the POST body is never ignored.
func payloadReadErrorFatal(c *Ctx, rule string) {
	p := c.P
	fn := p.Fn("eioparser", "DecodePayloads")
	reads := CallsTo(Calls(fn), `io\.ReadAll|\(io\.Reader\)\.Read|io\.ReadFull`)
	if len(reads) == 0 {
		c.Undecided("%s: no read of the body found in DecodePayloads", rule)
		return
	}
	for _, rd := range reads {
		call, ok := rd.Instr.(*ssa.Call)
		if !ok {
			continue
		}
		errV := extractOf(call, 1)
		if errV == nil {
			c.Ob(rule, "eioparser.DecodePayloads/read-error-fatal", rd.Pos(), false, "the error of "+rd.Name+" is not looked at")
			continue
		}
		as := nonNilAssumes(fn, errV)
		// with the read having failed, nothing is decoded and no packets are returned
		r, trail := PrunedCanReach(fn, rd.Instr, as, callPred(`eioparser\.decode|eioparser\.splitByte`), nil)
		c.Ob(rule, "eioparser.DecodePayloads/read-error-fatal", rd.Pos(), !r && len(as) > 0, "after a failed read of the body (http.MaxBytesReader reports the exceeded limit exactly there) the bytes read so far are still decoded: the over-limit body is truncated and accepted instead of being refused with 413: "+trailString(p, trail))
	}
}

func batcherShape(c *Ctx, rule string) {
	p := c.P
	fn := p.Fn("eio", "clientSocket.writeWritablePackets")
	name := "eio.clientSocket.writeWritablePackets"
	// induction reset: a phi merging a constant with the loop variable, feeding +1 into the header phi
	resets := 0
	for _, b := range fn.Blocks {
		for _, in := range b.Instrs {
			ph, ok := in.(*ssa.Phi)
			if !ok {
				continue
			}
			var k *ssa.Const
			for _, e := range ph.Edges {
				if cst, ok := e.(*ssa.Const); ok && cst.Value != nil && cst.Value.Kind().String() == "Int" {
					k = cst
				}
			}
			if k == nil || ph.Referrers() == nil {
				continue
			}
			// feeds (ph + 1)
			for _, r := range *ph.Referrers() {
				bo, ok := r.(*ssa.BinOp)
				if !ok || bo.Op != token.ADD || Term(bo.Y) != "1" || bo.X != ssa.Value(ph) {
					continue
				}
				// is the constant edge the split path (the one that re-slices packets)?
				if vname(ph) != "i" {
					continue
				}
				resets++
				c.Ob(rule, name+"/restart-at-zero", ph.Pos(), k.Int64() == -1, fmt.Sprintf("after a split the scan variable is reset to %d and then incremented: the next packet examined is index %d of the remaining slice, not 0 — its size is never counted and a batch can exceed maxPayload", k.Int64(), k.Int64()+1))
			}
		}
	}
	if resets == 0 {
		c.Ob(rule, name+"/restart-at-zero", fn.Pos(), true, "no constant reset of the scan variable inside the loop (nothing to check for this shape)")
	}
	// partition: Send(packets[:a]) and packets = packets[b:] must cut at the same index
	{
		var pre, suf []*ssa.Slice
		for _, b := range fn.Blocks {
			for _, in := range b.Instrs {
				sl, ok := in.(*ssa.Slice)
				if !ok || sliceRootParam(sl.X) == nil {
					continue
				}
				if sl.Low == nil && sl.High != nil {
					pre = append(pre, sl)
				}
				if sl.Low != nil && sl.High == nil {
					suf = append(suf, sl)
				}
			}
		}
		for _, s := range suf {
			match := false
			for _, pr := range pre {
				if Term(pr.High) == Term(s.Low) && Term(pr.X) == Term(s.X) {
					match = true
				}
			}
			c.Ob(rule, name+"/partition", s.Pos(), match, "the slice kept after a split is "+Term(s)+" but no prefix cut at the same index is sent: a packet is dropped or duplicated at the cut")
		}
		for _, pr := range pre {
			match := false
			for _, s := range suf {
				if Term(pr.High) == Term(s.Low) && Term(pr.X) == Term(s.X) {
					match = true
				}
			}
			c.Ob(rule, name+"/partition", pr.Pos(), match, "the prefix sent is "+Term(pr)+" but the remaining slice is not cut at the same index")
		}
	}
	// the comparison is against the announced maxPayload
	cmp := 0
	for _, b := range fn.Blocks {
		for _, in := range b.Instrs {
			bo, ok := in.(*ssa.BinOp)
			if !ok || (bo.Op != token.GTR && bo.Op != token.GEQ && bo.Op != token.LSS && bo.Op != token.LEQ) {
				continue
			}
			tx, ty := Term(bo.X), Term(bo.Y)
			if ty == "s.maxPayload" && strings.Contains(tx, "payloadSize") || tx == "s.maxPayload" && strings.Contains(ty, "payloadSize") {
				cmp++
				c.Ob(rule, name+"/compares-maxPayload", bo.Pos(), bo.Op == token.GTR && ty == "s.maxPayload", "size test is `"+Term(bo)+"` (expected payloadSize > s.maxPayload)")
			}
		}
	}
	c.Ob(rule, name+"/size-test", fn.Pos(), cmp >= 1, "the batcher never compares the accumulated size with s.maxPayload")
	// every other comparison with maxPayload (in the batcher, its closures and private helpers) measures encoded sizes
	// too, or only tests whether a limit is configured — a cheaper estimate (len(Data)) ignores the base64 growth of
	// binary packets on polling and lets an over-limit batch through
	for _, f := range append(WithAnons(fn), transparentCalleesOf(fn)...) {
		for _, b := range f.Blocks {
			for _, in := range b.Instrs {
				bo, ok := in.(*ssa.BinOp)
				if !ok {
					continue
				}
				switch bo.Op {
				case token.GTR, token.GEQ, token.LSS, token.LEQ, token.EQL, token.NEQ:
				default:
					continue
				}
				tx, ty := Term(bo.X), Term(bo.Y)
				var other string
				switch {
				case strings.HasSuffix(tx, ".maxPayload"):
					other = ty
				case strings.HasSuffix(ty, ".maxPayload"):
					other = tx
				default:
					continue
				}
				if strings.Contains(other, "payloadSize") && f == fn {
					continue // the size test above
				}
				okO := other == "0" || strings.HasPrefix(other, "0:") || strings.Contains(other, "EncodedLen(false)")
				c.Ob(rule, name+"/maxPayload-compared-with-encoded-sizes", bo.Pos(), okO, "maxPayload is compared with "+trunc(other, 80)+", which is not a sum of EncodedLen(false) (nor the 'is a limit configured' test): a batch this test lets through can exceed the limit once binary packets are base64-encoded")
			}
		}
	}
	// sizes come from EncodedLen(false) (polling never supports binary) plus one separator per packet
	enc := CallsTo(Calls(fn), `\(\*eioparser\.Packet\)\.EncodedLen`)
	okEnc := len(enc) >= 1
	for _, e := range enc {
		if Term(e.Arg(0)) != "false" {
			okEnc = false
		}
	}
	c.Ob(rule, name+"/encoded-size", fn.Pos(), okEnc, "packet sizes must be taken from EncodedLen(false), the form used in polling payloads")
	// every packet is counted: a packet without data still takes its type character (F41)
	for _, e := range enc {
		bad := ""
		for _, g := range GuardTerms(e.Instr) {
			if strings.Contains(g, ".Data") {
				bad = g
			}
		}
		c.Ob(rule, name+"/every-packet-counted", e.Pos(), bad == "" && inLoop(e.Instr.Block()), "EncodedLen is added only under `"+bad+"`: a packet without data (an empty message, a zero-length binary attachment) is counted as 0 bytes although it takes 1 byte in the payload — the batch exceeds maxPayload and the server refuses it with 413")
	}
	// the remainder is always sent: from entry every path to exit passes a Send unless packets is empty
	skip, trail := PrunedCanReach(fn, nil, []Assume{{`\(len\(.*\) > 0\)`, true}, {`\(len\(.*\) == 0\)`, false}, {`\(len\(.*\) != 0\)`, true}}, nil, anyCallPred(`\(eio\.ClientTransport\)\.Send`))
	c.Ob(rule, name+"/remainder-sent", fn.Pos(), !skip, "a path returns without sending the (non-empty) remainder: "+trailString(p, trail))
}

// announcedEqualsEnforced implements C13-D4 (also C01-D5).
func announcedEqualsEnforced(c *Ctx, rule string) {
	p := c.P
	{
		fn := p.Fn("eio", "Server.newHandshakePacket")
		mp := p.Field("eioparser", "HandshakeResponse", "MaxPayload")
		sts := findInstrs(fn, fieldStorePred(mp))
		if len(sts) != 1 {
			c.Ob(rule, "eio.Server.newHandshakePacket/maxPayload", fn.Pos(), false, fmt.Sprintf("expected one store to HandshakeResponse.MaxPayload, found %d", len(sts)))
		} else {
			v := Term(sts[0].(*ssa.Store).Val)
			c.Ob(rule, "eio.Server.newHandshakePacket/maxPayload", sts[0].Pos(), v == "s.maxBufferSize" || v == "conv:int64(s.maxBufferSize)", "announced maxPayload = "+v+" (expected s.maxBufferSize, the value enforced)")
		}
	}
	n := 0
	for _, fnn := range []string{"Server.handleHandshake", "Server.maybeUpgrade", "Server.onWebTransport"} {
		fn := p.Fn("eio", fnn)
		for _, cs := range CallsTo(Calls(fn), `(polling|websocket|webtransport)\.NewServerTransport`) {
			n++
			a := Term(cs.Arg(1))
			c.Ob(rule, "eio."+fnn+"/"+strings.Split(cs.Name, ".")[0]+"-limit", cs.Pos(), a == "s.maxBufferSize", cs.Name+" receives limit "+a+" (expected s.maxBufferSize)")
		}
	}
	c.Ob(rule, "eio.Server/transport-constructions", p.Fn("eio", "Server.handleHandshake").Pos(), n == 4, fmt.Sprintf("%d NewServerTransport calls (expected 4)", n))
	for _, a := range []struct{ short, field string }{{"polling", "maxHTTPBufferSize"}, {"websocket", "readLimit"}, {"webtransport", "readLimit"}} {
		fn := p.Fn(a.short, "NewServerTransport")
		fv := p.Field(a.short, "ServerTransport", a.field)
		sts := findInstrs(fn, fieldStorePred(fv))
		ok := len(sts) == 1 && Term(sts[0].(*ssa.Store).Val) == "maxBufferSize"
		c.Ob(rule, a.short+".NewServerTransport/"+a.field, fn.Pos(), ok, a.short+".ServerTransport."+a.field+" must be initialised from the maxBufferSize parameter")
		// nobody else writes the field
		for _, f2 := range p.SrcFuncs() {
			if f2 == fn {
				continue
			}
			for _, st := range findInstrs(f2, fieldStorePred(fv)) {
				c.Ob(rule, a.short+".ServerTransport."+a.field+"/written@"+FuncName(f2), st.Pos(), false, "the limit field is overwritten outside the constructor")
			}
		}
	}
	// the Server field: disabled → 0, else default when zero; written only in newServer
	{
		fv := p.Field("eio", "Server", "maxBufferSize")
		for _, f2 := range p.SrcFuncs() {
			for _, st := range findInstrs(f2, fieldStorePred(fv)) {
				top := FuncName(EnclosingTop(f2))
				c.Ob(rule, "eio.Server.maxBufferSize/written@"+FuncName(f2), st.Pos(), top == "eio.newServer", "Server.maxBufferSize is written in "+FuncName(f2))
			}
		}
	}
	{
		fn := p.Fn("eio", "clientSocket.connect")
		fv := p.Field("eio", "clientSocket", "maxPayload")
		sts := findInstrs(fn, fieldStorePred(fv))
		ok := len(sts) == 1 && strings.HasSuffix(Term(sts[0].(*ssa.Store).Val), ".MaxPayload")
		pos := fn.Pos()
		v := "<none>"
		if len(sts) > 0 {
			pos = sts[0].Pos()
			v = Term(sts[0].(*ssa.Store).Val)
		}
		c.Ob(rule, "eio.clientSocket.connect/maxPayload", pos, ok, "client stores maxPayload = "+v+" (expected the handshake response's MaxPayload)")
	}
}
