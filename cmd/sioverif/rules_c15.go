package main

// C15 — reconnection, back-off, offline buffer.

import (
	"fmt"
	"go/token"
	"strings"

	"golang.org/x/tools/go/ssa"
)

func init() {
	register(&PropertySpec{
		ID:         "C15",
		NotDecided: "timing of reconnection, 'starts from ReconnectionDelay' under jitter, exactly-once delivery across real outages; decided are: every back-off result is max or min(ms,max) under ms>0 (so it lies in (0,max] whatever the arithmetic overflowed to), one duration() per attempt, a single guarded reconnect_failed site, the buffer / drop-volatile / flush shape of the offline buffer and that the flush post-dominates emitBuffered's entry.",
		Run:        runC15,
	})
}

func isFieldLoad(v ssa.Value, base, field string) bool {
	v = unwrapConv(v)
	if cv, ok := v.(*ssa.Convert); ok {
		v = unwrapConv(cv.X)
	}
	u, ok := v.(*ssa.UnOp)
	if !ok || u.Op != token.MUL {
		return false
	}
	fa, ok := u.X.(*ssa.FieldAddr)
	return ok && Term(fa.X) == base && fieldName(fa.X.Type(), fa.Field) == field
}

func stripConvert(v ssa.Value) ssa.Value {
	for {
		v = unwrapConv(v)
		if cv, ok := v.(*ssa.Convert); ok {
			v = cv.X
			continue
		}
		return v
	}
}

func runC15(c *Ctx) {
	p := c.P

	c.Rule("C15-D1", "back-off range: every result of duration() is b.max, or min(ms, b.max) on a path where ms > 0 — hence in (0, max] for every delay, factor, jitter and attempt number, including attempt numbers whose power overflows; the first delay is min·factor^0; attempts are counted under the mutex; the back-off is built from ReconnectionDelay / ReconnectionDelayMax", 8)
	{
		fn := p.Fn("sio", "backoff.duration")
		name := "sio.backoff.duration"
		nret := 0
		for _, b := range fn.Blocks {
			ret, ok := b.Instrs[len(b.Instrs)-1].(*ssa.Return)
			if !ok || len(ret.Results) != 1 {
				continue
			}
			nret++
			v := ret.Results[0]
			if isFieldLoad(v, "b", "max") {
				c.Ob("C15-D1", name+"/returns-max", ret.Pos(), true, "returns b.max")
				continue
			}
			ok2 := false
			detail := "returns " + Term(v) + ", which is neither b.max nor min(ms, b.max)"
			if call, isCall := stripConvert(v).(*ssa.Call); isCall && calleeName(&call.Call) == "math.Min" {
				a0, a1 := stripConvert(call.Call.Args[0]), stripConvert(call.Call.Args[1])
				var ms ssa.Value
				if isFieldLoad(call.Call.Args[1], "b", "max") {
					ms = a0
				} else if isFieldLoad(call.Call.Args[0], "b", "max") {
					ms = a1
				}
				if ms == nil {
					detail = "math.Min is not taken with b.max: the result can exceed ReconnectionDelayMax"
				} else {
					// the return must be dominated by ms > 0
					pos := false
					for _, g := range Guards(ret) {
						bo, isB := g.Cond.(*ssa.BinOp)
						if !isB {
							continue
						}
						k, isK := bo.Y.(*ssa.Const)
						if bo.X != ms || !isK || k.Int64() != 0 {
							continue
						}
						if (bo.Op == token.LEQ && !g.Val) || (bo.Op == token.GTR && g.Val) {
							pos = true
						}
					}
					ok2 = pos
					if !pos {
						detail = "min(ms, b.max) is returned on a path where ms > 0 is not established: an overflowed or jitter-reduced ms <= 0 would yield a non-positive delay (a hot reconnect loop)"
					}
				}
			}
			if !ok2 {
				// the same bound written as comparisons: `if ms > 0 && ms < int64(b.max) { return time.Duration(ms) }`
				ms := stripConvert(v)
				pos, below := false, false
				for _, g := range Guards(ret) {
					bo, isB := g.Cond.(*ssa.BinOp)
					if !isB || bo.X != ms {
						continue
					}
					if k, isK := bo.Y.(*ssa.Const); isK && k.Value != nil && k.Int64() == 0 {
						if (bo.Op == token.LEQ && !g.Val) || (bo.Op == token.GTR && g.Val) {
							pos = true
						}
					}
					if isFieldLoad(stripConvert(bo.Y), "b", "max") || isFieldLoad(bo.Y, "b", "max") {
						if ((bo.Op == token.LSS || bo.Op == token.LEQ) && g.Val) || ((bo.Op == token.GEQ || bo.Op == token.GTR) && !g.Val) {
							below = true
						}
					}
				}
				if pos && below {
					ok2, detail = true, "returns ms under 0 < ms <= b.max"
				}
			}
			c.Ob("C15-D1", name+"/bounded-result", ret.Pos(), ok2, detail)
		}
		c.Ob("C15-D1", name+"/returns", fn.Pos(), nret >= 2, fmt.Sprintf("%d return sites", nret))
		// base delay: min * factor^attempts, attempts incremented once, under the mutex
		pw := CallsTo(Calls(fn), `math\.Pow`)
		okPow := len(pw) == 1 && isFieldLoad(pw[0].Arg(0), "b", "factor") && isFieldLoad(pw[0].Arg(1), "b", "numAttempts")
		c.Ob("C15-D1", name+"/exponential", fn.Pos(), okPow, "the delay must be min · factor^numAttempts (attempt 0 yields ReconnectionDelay)")
		okMul := false
		for _, b := range fn.Blocks {
			for _, in := range b.Instrs {
				if bo, isB := in.(*ssa.BinOp); isB && bo.Op == token.MUL && (isFieldLoad(bo.X, "b", "min") || isFieldLoad(bo.Y, "b", "min")) && strings.Contains(Term(bo), "math.Pow(") {
					okMul = true
				}
			}
		}
		c.Ob("C15-D1", name+"/starts-from-min", fn.Pos(), okMul, "the power must multiply b.min")
		li := Locks(fn)
		incs := findInstrs(fn, storeValPred(`b\.numAttempts`, `\(b\.numAttempts \+ 1\)`))
		c.Ob("C15-D1", name+"/counts-attempt", fn.Pos(), len(incs) == 1 && li.HoldsW(incs[0], "b.numAttemptsMu") && !inLoop(incs[0].Block()), "each duration() call must count exactly one attempt, under numAttemptsMu")
	}
	guardedField(c, "C15-D1", "sio", "backoff", "numAttempts", "numAttemptsMu", map[string]string{"sio.newBackoff": "constructor"})
	{
		nm := p.Fn("sio", "NewManager")
		nb := CallsTo(Calls(nm), `sio\.newBackoff`)
		okW := len(nb) == 1 && strings.HasSuffix(Term(nb[0].Arg(0)), ".reconnectionDelay") && strings.HasSuffix(Term(nb[0].Arg(1)), ".reconnectionDelayMax") && strings.HasSuffix(Term(nb[0].Arg(2)), ".randomizationFactor")
		c.Ob("C15-D1", "sio.NewManager/backoff-wiring", nm.Pos(), okW, "newBackoff must receive (reconnectionDelay, reconnectionDelayMax, randomizationFactor)")
		cons := p.Fn("sio", "newBackoff")
		for fld, want := range map[string]string{"min": "min", "max": "max"} {
			sts := findInstrs(cons, fieldStorePred(p.Field("sio", "backoff", fld)))
			c.Ob("C15-D1", "sio.newBackoff/"+fld, cons.Pos(), len(sts) == 1 && Term(sts[0].(*ssa.Store).Val) == want, "backoff."+fld+" must be the constructor's "+want)
		}
		for _, a := range []struct{ field, cfg, def string }{{"reconnectionDelay", "ReconnectionDelay", "1000000000"}, {"reconnectionDelayMax", "ReconnectionDelayMax", "5000000000"}} {
			sts := findInstrs(nm, fieldStorePred(p.Field("sio", "Manager", a.field)))
			okc := len(sts) == 2
			var vs []string
			for _, st := range sts {
				v := Term(st.(*ssa.Store).Val)
				vs = append(vs, v)
				if !(strings.HasPrefix(v, "*") && strings.HasSuffix(v, "."+a.cfg)) && v != a.def {
					okc = false
				}
			}
			c.Ob("C15-D1", "sio.NewManager/"+a.field, nm.Pos(), okc, fmt.Sprintf("Manager.%s is set to %v (expected the configured %s or its default %s)", a.field, vs, a.cfg, a.def))
		}
	}

	c.Rule("C15-D2", "attempt accounting: reconnect() asks the back-off for exactly one delay per attempt (before the sleep, before connect), gives up — announcing reconnect_failed from a single site, resetting the back-off and not connecting — exactly when the attempt limit is reached, and re-enters itself after a failed attempt", 9)
	{
		fn := p.Fn("sio", "Manager.reconnect")
		name := "sio.Manager.reconnect"
		du := CallsTo(Calls(fn), `\(\*sio\.backoff\)\.duration`)
		co := CallsTo(Calls(fn), `\(\*sio\.Manager\)\.connect`)
		sl := CallsTo(Calls(fn), `time\.Sleep`)
		if len(du) != 1 || len(co) != 1 || len(sl) != 1 {
			c.Ob("C15-D2", name+"/shape", fn.Pos(), false, fmt.Sprintf("expected one duration(), one Sleep and one connect(); found %d, %d, %d", len(du), len(sl), len(co)))
		} else {
			c.Ob("C15-D2", name+"/one-delay-per-attempt", du[0].Pos(), !inLoop(du[0].Instr.Block()) && Dominates(du[0].Instr, sl[0].Instr) && Dominates(sl[0].Instr, co[0].Instr), "order must be duration() → Sleep → connect, outside any loop")
			c.Ob("C15-D2", name+"/sleeps-the-delay", sl[0].Pos(), Term(sl[0].Arg(0)) == "m.backoff.duration()", "Sleep("+Term(sl[0].Arg(0))+") (expected the delay just obtained)")
			c.Ob("C15-D2", name+"/reconnect-flag", co[0].Pos(), Term(co[0].Arg(0)) == "true", "reconnect must call connect(true)")
			// failed attempt → error handlers → retry
			T := "err"
			rec := callPred(`\(\*sio\.Manager\)\.reconnect`)
			sk, tr := PrunedCanReach(fn, co[0].Instr, []Assume{{regexpQuote("(" + T + " != nil)"), true}}, nil, rec)
			c.Ob("C15-D2", name+"/retries-after-failure", co[0].Pos(), !sk, "after a failed attempt a path returns without trying again: "+trailString(p, tr))
			ok2, tr2 := PrunedCanReach(fn, co[0].Instr, []Assume{{regexpQuote("(" + T + " != nil)"), false}}, rec, nil)
			c.Ob("C15-D2", name+"/stops-after-success", co[0].Pos(), !ok2, "after a successful attempt reconnect runs again: "+trailString(p, tr2))
			sk3, tr3 := PrunedCanReach(fn, co[0].Instr, []Assume{{regexpQuote("(" + T + " != nil)"), false}}, nil, callPred(`\(\*sio\.Manager\)\.onReconnect`))
			c.Ob("C15-D2", name+"/success-announced", co[0].Pos(), !sk3, "a successful attempt does not reach onReconnect: "+trailString(p, tr3))
		}
		isFail := func(in ssa.Instruction) bool {
			return callPred(`\(\*sio\.handlerStore\[T\]\)\.forEach`)(in) && stripAmp(Term(in.(*ssa.Call).Call.Args[0])) == "m.reconnectFailedHandlers"
		}
		n := 0
		for _, f := range p.SrcFuncs() {
			for _, in := range findInstrs(f, isFail) {
				n++
				c.Ob("C15-D2", "reconnect_failed@"+FuncName(f), in.Pos(), f == fn && !inLoop(in.Block()), "reconnect_failed is announced from "+FuncName(f))
			}
		}
		c.Ob("C15-D2", name+"/single-failed-site", fn.Pos(), n == 1, fmt.Sprintf("%d reconnect_failed sites (expected exactly 1)", n))
		limit := []Assume{{`\(m\.reconnectionAttempts > 0\)`, true}, {`\((attempts|m\.backoff\.attempts\(\)) >= m\.reconnectionAttempts\)`, true}}
		under := []Assume{{`\(m\.reconnectionAttempts > 0\)`, true}, {`\((attempts|m\.backoff\.attempts\(\)) >= m\.reconnectionAttempts\)`, false}, {`\(m\.reconnectionAttempts == 0\)`, false}}
		state := []Assume{{`\(m\.state != 3\)`, false}, {`m\.skipReconnect`, false}}
		r1, t1 := PrunedCanReach(fn, nil, append(under, state...), isFail, nil)
		c.Ob("C15-D2", name+"/failed-only-at-limit", fn.Pos(), !r1, "reconnect_failed is reachable although the attempt limit is not reached: "+trailString(p, t1))
		r2, t2 := PrunedCanReach(fn, nil, append(limit, state...), callPred(`\(\*sio\.Manager\)\.connect|\(\*sio\.backoff\)\.duration`), nil)
		c.Ob("C15-D2", name+"/no-attempt-beyond-limit", fn.Pos(), !r2, "with the attempt limit reached another attempt is still made: "+trailString(p, t2))
		r3, t3 := PrunedCanReach(fn, nil, append(limit, state...), nil, isFail)
		c.Ob("C15-D2", name+"/failed-announced-at-limit", fn.Pos(), !r3, "with the attempt limit reached a path returns without announcing reconnect_failed: "+trailString(p, t3))
		r4, t4 := PrunedCanReach(fn, nil, append(limit, state...), nil, callPred(`\(\*sio\.backoff\)\.reset`))
		c.Ob("C15-D2", name+"/reset-at-limit", fn.Pos(), !r4, "giving up does not reset the back-off (a later manual connect would start beyond the limit): "+trailString(p, t4))
		// the comparison uses the configured limit
		nm := p.Fn("sio", "NewManager")
		sts := findInstrs(nm, fieldStorePred(p.Field("sio", "Manager", "reconnectionAttempts")))
		c.Ob("C15-D2", "sio.NewManager/attempt-limit", nm.Pos(), len(sts) == 1 && strings.HasSuffix(Term(sts[0].(*ssa.Store).Val), ".ReconnectionAttempts"), fmt.Sprintf("the limit must be the configured ReconnectionAttempts (%d stores: %s)", len(sts), func() string { if len(sts) > 0 { return Term(sts[0].(*ssa.Store).Val) }; return "" }()))
		or := p.Fn("sio", "Manager.onReconnect")
		c.Ob("C15-D2", "sio.Manager.onReconnect/reset", or.Pos(), len(CallsTo(Calls(or), `\(\*sio\.backoff\)\.reset`)) == 1, "a successful reconnect must reset the back-off")
		oc := p.Fn("sio", "Manager.onClose")
		c.Ob("C15-D2", "sio.Manager.onClose/reset", oc.Pos(), len(CallsTo(Calls(oc), `\(\*sio\.backoff\)\.reset`)) == 1, "a lost connection must reset the back-off before reconnecting (each outage starts again from ReconnectionDelay and a full attempt budget)")
		rc := CallsTo(Calls(oc), `\(\*sio\.Manager\)\.reconnect`)
		okr := len(rc) == 1 && HasGuard(rc[0].Instr, `m\.noReconnection==false`) && HasGuard(rc[0].Instr, `m\.skipReconnect==false`)
		c.Ob("C15-D2", "sio.Manager.onClose/reconnects", oc.Pos(), okr, "a lost connection must start reconnecting unless reconnection is disabled or was stopped on purpose")
	}

	c.Rule("C15-D5", "the ack-timeout purge of the offline buffer removes only the frames of that emit: every non-false return of the slices.DeleteFunc predicate in registerAckHandler's timeout path is under a presence "+
		"test of the item's ack id (nil test of the pointer, or a flag) and under equality with this ack's id, and sendBufferItem can represent 'no ack' — ack ids start at 0, so a value-typed id makes every "+
		"ack-less buffered event look like the first ack's frames", 2)
	ackPurgeOnlyOwnFrames(c, "C15-D5")

	c.Rule("C15-D6", "an event that arrives while the socket connects is replayed, not stranded (shared with C01-D12, F37): the buffer-or-deliver decision of onEvent is taken under receiveBufferMu, "+
		"onConnect sets the state before emitBuffered, emitBuffered clears under the mutex", 3)
	bufferDecisionAtomic(c, "C15-D6")

	c.Rule("C15-D8", "a refused CONNECT can be retried (F51): onConnectError sets the socket's state back to disconnected", 1)
	connectErrorResetsState(c, "C15-D8")
	c.Rule("C15-D9", "a reconnection cycle that is given up leaves the 'reconnecting' state (F67, known finding): in Manager.reconnect every path from `state = reconnecting` to a return sets the state back to disconnected or goes on to connect", 1)
	abandonedReconnectLeavesState(c, "C15-D9")
	c.Rule("C15-D10", "overlapping opens share one reconnection round (F68, known finding): the test of the back-off counter that licenses a round after a failed open is made inside the connectMu critical section "+
		"a round holds from start to end — otherwise an open that waited behind a whole round finds the counter reset and starts a second one (2×ReconnectionAttempts attempts, reconnect_failed twice)", 1)
	overlappingOpensShareOneRound(c, "C15-D10")
	c15EmitterModifiers(c)

	c.Rule("C15-D4", "a new outage starts a new back-off cycle, and volatile means volatile everywhere: Manager.onClose resets the attempt counter on every path — whatever the reason and whether or not it starts a reconnect "+
		"(a counter left non-zero by an interrupted cycle makes the next failed Open look like a retry that must not be retried) —, and a volatile emit never enters the retry queue (it would be delivered after the reconnect)", 3)
	{
		oc := p.Fn("sio", "Manager.onClose")
		isReset := callPred(`\(\*sio\.backoff\)\.reset`)
		skip, trail := CanReachExitAvoiding(oc, nil, isReset)
		c.Ob("C15-D4", "sio.Manager.onClose/resets-backoff-always", oc.Pos(), !skip && len(findInstrs(oc, isReset)) >= 1, "a path through Manager.onClose does not reset the back-off: "+trailString(p, trail))
		// and before the reconnect goroutine is started
		for _, g := range findInstrs(oc, func(in ssa.Instruction) bool {
			gi, ok := in.(*ssa.Go)
			return ok && strings.Contains(calleeName(&gi.Call), "reconnect")
		}) {
			early, tr := CanReachAvoiding(oc, nil, func(in ssa.Instruction) bool { return in == g }, isReset)
			c.Ob("C15-D4", "sio.Manager.onClose/reset-before-reconnect", g.Pos(), !early, "the reconnect loop can start before the attempt counter was reset: "+trailString(p, tr))
		}
		em := p.Fn("sio", "clientSocket.emit")
		isQueue := callPred(`\(\*sio\.clientPacketQueue\)\.addToQueue`)
		if len(findInstrs(em, isQueue)) == 0 {
			c.Undecided("C15-D4: clientSocket.emit no longer hands packets to the retry queue (addToQueue not found)")
		}
		r, tr := PrunedCanReach(em, nil, []Assume{{`volatile`, true}, {`!volatile`, false}}, isQueue, nil)
		c.Ob("C15-D4", "sio.clientSocket.emit/volatile-not-queued", em.Pos(), !r, "a volatile emit can enter the retry queue: it is kept while disconnected and delivered after the reconnect: "+trailString(p, tr))
	}

	c.Rule("C15-D3", "offline buffer: frames of a non-volatile emit on a disconnected socket are appended to sendBuffer, volatile ones are neither buffered nor sent, connected ones are sent; emitBuffered always clears the receive buffer and, when frames are buffered, hands all of them in order to the manager and clears the buffer — on every path; onConnect flushes after marking the socket connected", 10)
	{
		fn := p.Fn("sio", "clientSocket._sendBuffers")
		name := "sio.clientSocket._sendBuffers"
		isSend := callPred(`\(\*sio\.Manager\)\.packet|\(\*sio\.packetQueue\)\.add`)
		isBufAny := storePred(`s\.sendBuffer`)
		// (a store of nil empties the buffer — allowed on the connected path, where C02-D1 demands that its frames are sent first)
		isBuf := func(in ssa.Instruction) bool {
			st, ok := in.(*ssa.Store)
			return ok && isBufAny(in) && Term(st.Val) != "nil"
		}
		nz := Assume{`\(len\(buffers\) > 0\)`, true}
		disc := []Assume{nz, {`\(s\.state == 0\)`, false}, {`\(s\.state == 1\)`, false}, {`forceSend`, false}}
		r1, t1 := PrunedCanReach(fn, nil, append(disc, Assume{`volatile`, true}), orPred(isSend, isBuf), nil)
		c.Ob("C15-D3", name+"/volatile-dropped", fn.Pos(), !r1, "a volatile emit on a disconnected socket is buffered or sent: "+trailString(p, t1))
		r2, t2 := PrunedCanReach(fn, nil, append(disc, Assume{`volatile`, false}, Assume{`\(.*NewPacket\(.*\)#1 != nil\)`, false}), nil, isBuf)
		c.Ob("C15-D3", name+"/non-volatile-buffered", fn.Pos(), !r2, "a non-volatile emit on a disconnected socket returns without being buffered: "+trailString(p, t2))
		r3, t3 := PrunedCanReach(fn, nil, append(disc, Assume{`volatile`, false}), isSend, nil)
		c.Ob("C15-D3", name+"/not-sent-while-disconnected", fn.Pos(), !r3, "an emit on a disconnected socket is sent right away: "+trailString(p, t3))
		r4, t4 := PrunedCanReach(fn, nil, []Assume{nz, {`\(s\.state == 0\)`, true}, {`\(.*NewPacket\(.*\)#1 != nil\)`, false}}, nil, isSend)
		c.Ob("C15-D3", name+"/connected-sent", fn.Pos(), !r4, "an emit on a connected socket returns without being sent: "+trailString(p, t4))
		r5, t5 := PrunedCanReach(fn, nil, []Assume{nz, {`\(s\.state == 0\)`, true}}, isBuf, nil)
		c.Ob("C15-D3", name+"/connected-not-buffered", fn.Pos(), !r5, "an emit on a connected socket is buffered: "+trailString(p, t5))
	}
	{
		fn := p.Fn("sio", "clientSocket.emitBuffered")
		name := "sio.clientSocket.emitBuffered"
		li := Locks(fn)
		isClrR := storeValPred(`s\.receiveBuffer`, `nil`)
		skip, trail := CanReachExitAvoiding(fn, nil, isClrR)
		c.Ob("C15-D3", name+"/receive-buffer-cleared", fn.Pos(), !skip, "a path through emitBuffered returns without clearing the receive buffer (its events would be delivered again on the next connect): "+trailString(p, trail))
		isFlush := callPred(`\(\*sio\.Manager\)\.packet|\(\*sio\.packetQueue\)\.add`)
		isClrS := storeValPred(`s\.sendBuffer`, `nil`)
		ne := []Assume{{`\(len\(s\.sendBuffer\) != 0\)`, true}, {`\(len\(s\.sendBuffer\) == 0\)`, false}, {`\(len\(s\.sendBuffer\) > 0\)`, true}}
		s2, t2 := PrunedCanReach(fn, nil, ne, nil, isFlush)
		c.Ob("C15-D3", name+"/flush-post-dominates", fn.Pos(), !s2, "with frames buffered a path through emitBuffered returns without handing them to the manager: events emitted while offline are never sent on this connect: "+trailString(p, t2))
		s3, t3 := PrunedCanReach(fn, nil, ne, nil, isClrS)
		c.Ob("C15-D3", name+"/send-buffer-cleared", fn.Pos(), !s3, "with frames buffered a path returns without clearing sendBuffer (they would be sent again on the next connect): "+trailString(p, t3))
		fl := findInstrs(fn, isFlush)
		cl := findInstrs(fn, isClrS)
		if len(fl) == 1 && len(cl) == 1 {
			c.Ob("C15-D3", name+"/flush-then-clear", cl[0].Pos(), Dominates(fl[0], cl[0]) && SameRegion(li, fl[0], cl[0], "s.sendBufferMu") && li.HoldsW(cl[0], "s.sendBufferMu"), "the buffer must be handed over and then cleared in one sendBufferMu region (an emit in between would be lost or sent twice)")
			mk, isMk := fl[0].(*ssa.Call).Call.Args[1].(*ssa.MakeSlice)
			okAll := isMk && Term(mk.Len) == "len(s.sendBuffer)"
			// filled element-wise from sendBuffer[i].packet
			fill := findInstrs(fn, func(in ssa.Instruction) bool {
				st, ok := in.(*ssa.Store)
				if !ok {
					return false
				}
				ia, ok := st.Addr.(*ssa.IndexAddr)
				return ok && isMk && ia.X == ssa.Value(mk) && strings.HasPrefix(Term(st.Val), "s.sendBuffer[") && strings.HasSuffix(Term(st.Val), "].packet") && Term(ia.Index) == strings.TrimSuffix(strings.TrimPrefix(Term(st.Val), "s.sendBuffer["), "].packet")
			})
			c.Ob("C15-D3", name+"/flushes-all-in-order", fl[0].Pos(), okAll && len(fill) == 1 && inLoop(fill[0].Block()), "the flush must hand over every buffered frame, element i from sendBuffer[i]")
		} else {
			c.Ob("C15-D3", name+"/flush-shape", fn.Pos(), false, fmt.Sprintf("expected one flush and one clear; found %d and %d", len(fl), len(cl)))
		}
		// every buffered event is replayed (loop cannot be left early)
		ce := CallsTo(Calls(fn), `\(\*sio\.clientSocket\)\.callEvent`)
		c.Ob("C15-D3", name+"/replays-each-event", fn.Pos(), len(ce) == 1 && inLoop(ce[0].Instr.Block()) && func() bool {
			for _, g := range GuardTerms(ce[0].Instr) {
				if !strings.Contains(g, "idx<") {
					return false
				}
			}
			return true
		}(), fmt.Sprintf("every buffered event must be replayed (callEvent once per element, unconditionally); guards=%v", func() []string { if len(ce) > 0 { return GuardTerms(ce[0].Instr) }; return nil }()))
		for _, b := range fn.Blocks {
			if ret, ok := b.Instrs[len(b.Instrs)-1].(*ssa.Return); ok && !(len(b.Preds) == 0 && b.Index != 0) {
				early := false
				for _, g := range GuardTerms(ret) {
					if strings.Contains(g, "idx<") && strings.Contains(g, "len(s.receiveBuffer)") && strings.HasSuffix(g, "==true") {
						early = true
					}
				}
				c.Ob("C15-D3", name+"/no-return-inside-replay-loop", ret.Pos(), !early, "emitBuffered returns from inside the replay loop: the remaining events, the buffer reset and the flush are skipped")
			}
		}
	}
	{
		oc := p.Fn("sio", "clientSocket.onConnect")
		eb := CallsTo(Calls(oc), `\(\*sio\.clientSocket\)\.emitBuffered`)
		st := findInstrs(oc, storeValPred(`s\.state`, `0`))
		c.Ob("C15-D3", "sio.clientSocket.onConnect/flush-after-connected", oc.Pos(), len(eb) == 1 && len(st) == 1 && Dominates(st[0], eb[0].Instr), "onConnect must mark the socket connected and then flush the buffers")
		whoMayCall(c, "C15-D3", `\(\*sio\.clientSocket\)\.emitBuffered`, []string{"(*sio.clientSocket).onConnect"}, true)
	}
}
