package main

// Rules written for three genuine client-side defects found through round-4 side remarks
// (F37 event stranded in the receive buffer, F38 deferred ack suppressed, F39 stale
// replacement ack of the retry queue).

import (
	"fmt"
	"go/token"
	"strings"

	"golang.org/x/tools/go/ssa"
)

// bufferDecisionAtomic (C01-D12, shared with C15-D6): the decision "not connected → buffer the event" is taken while
// the receive buffer's mutex is held.
func bufferDecisionAtomic(c *Ctx, rule string) {
	p := c.P
	fn := p.Fn("sio", "clientSocket.onEvent")
	li := Locks(fn)
	fv := p.Field("sio", "clientSocket", "receiveBuffer")
	sv := p.Field("sio", "clientSocket", "state")
	stores := findInstrs(fn, fieldStorePred(fv))
	if len(stores) == 0 {
		c.Undecided("%s: onEvent never appends to receiveBuffer", rule)
		return
	}
	for _, st := range stores {
		// a read of s.state inside the same critical section of receiveBufferMu, before the append
		ok := false
		for _, fa := range FieldAccesses(fn) {
			if fa.Field != sv || fa.Write {
				continue
			}
			if li.HoldsAny(fa.Instr, "s.receiveBufferMu") && Dominates(fa.Instr, st) && SameRegion(li, fa.Instr, st, "s.receiveBufferMu") {
				ok = true
			}
		}
		c.Ob(rule, "sio.clientSocket.onEvent/buffer-decision-under-receiveBufferMu", st.Pos(), ok && li.HoldsW(st, "s.receiveBufferMu"),
			"the event is appended to receiveBuffer on the strength of a state read made BEFORE receiveBufferMu was taken: CONNECT is handled on another goroutine, so onConnect can set the state and emitBuffered can replay and clear the buffer in between — the event then sits in the buffer and is never delivered. The state must be (re-)read inside the critical section (emitBuffered takes the same mutex after the state is set); held="+li.Held(st).String())
	}
	// the send side (F56's repair): the decision "not connected → keep the frames for later" of _sendBuffers is taken
	// while sendBufferMu is held, in the critical section of the append — emitBuffered flushes under the same mutex
	// after onConnect has set the state, so frames appended on the strength of an OLDER state read would sit in the
	// buffer until the next reconnection
	{
		sf := p.Fn("sio", "clientSocket._sendBuffers")
		sli := Locks(sf)
		bv := p.Field("sio", "clientSocket", "sendBuffer")
		for _, st := range findInstrs(sf, fieldStorePred(bv)) {
			if Term(st.(*ssa.Store).Val) == "nil" {
				continue
			}
			ok := false
			for _, fa := range FieldAccesses(sf) {
				if fa.Field != sv || fa.Write {
					continue
				}
				if sli.HoldsAny(fa.Instr, "s.sendBufferMu") && Dominates(fa.Instr, st) && SameRegion(sli, fa.Instr, st, "s.sendBufferMu") {
					ok = true
				}
			}
			c.Ob(rule, "sio.clientSocket._sendBuffers/buffer-decision-under-sendBufferMu", st.Pos(), ok && sli.HoldsW(st, "s.sendBufferMu"),
				"the frames are appended to sendBuffer on the strength of a state read made before sendBufferMu was taken: onConnect can set the state and emitBuffered can flush the buffer in between — the frames stay in the buffer until the next reconnection; held="+sli.Held(st).String())
		}
	}
	// the other half: onConnect sets the state before emitBuffered, and emitBuffered clears under the mutex
	oc := p.Fn("sio", "clientSocket.onConnect")
	sts := findInstrs(oc, fieldStorePred(sv))
	eb := CallsTo(Calls(oc), `\(\*sio\.clientSocket\)\.emitBuffered`)
	okOrder := len(sts) >= 1 && len(eb) == 1
	for _, s := range sts {
		if len(eb) == 1 && !Dominates(s, eb[0].Instr) {
			okOrder = false
		}
	}
	pos := oc.Pos()
	if len(eb) > 0 {
		pos = eb[0].Pos()
	}
	c.Ob(rule, "sio.clientSocket.onConnect/state-before-flush", pos, okOrder, "onConnect must set the connected state before it calls emitBuffered (an event that sees 'not connected' under the buffer's mutex is then certain to be replayed)")
	ebf := p.Fn("sio", "clientSocket.emitBuffered")
	eli := Locks(ebf)
	clears := findInstrs(ebf, fieldStorePred(fv))
	okClear := len(clears) >= 1
	for _, cl := range clears {
		if !eli.HoldsW(cl, "s.receiveBufferMu") {
			okClear = false
		}
	}
	c.Ob(rule, "sio.clientSocket.emitBuffered/clears-under-receiveBufferMu", ebf.Pos(), okClear, "emitBuffered must clear the receive buffer while receiveBufferMu is held")
}

// deferredAckNotSuppressed (C03-D9): emitBuffered itself neither records an ack id as answered nor sends an ACK — both
// happen only in the sendAck closure, i.e. when a handler calls its ack function (F38, F42).
func deferredAckNotSuppressed(c *Ctx, rule string) {
	p := c.P
	fn := p.Fn("sio", "clientSocket.emitBuffered")
	marks, sends := 0, 0
	var pos ssa.Instruction
	for _, b := range fn.Blocks {
		for _, in := range b.Instrs {
			if mu, ok := in.(*ssa.MapUpdate); ok && Term(mu.Value) == "true" && strings.Contains(Term(mu.Map), "ackIDs") {
				marks++
				pos = in
			}
		}
	}
	for _, cs := range CallsTo(Calls(fn), `\(\*sio\.clientSocket\)\.sendAckPacket`) {
		if cs.Instr.Parent() == fn {
			sends++
			pos = cs.Instr
		}
	}
	at := fn.Pos()
	if pos != nil {
		at = pos.Pos()
	}
	c.Ob(rule, "sio.clientSocket.emitBuffered/acks-only-through-the-ack-function", at, marks == 0 && sends == 0,
		fmt.Sprintf("emitBuffered itself records ack ids as answered (%d) / sends ACK packets (%d): an empty ACK made up for a handler without an ack function uses up the id, and the real reply — of this handler later, or of another handler of the same event — is dropped by sendAck; on the direct path nothing is acknowledged unless a handler calls its ack function", marks, sends))
	// the closure handed to callEvent is the one place that does both, at most once per id
	n := 0
	for _, f := range WithAnons(fn) {
		if f == fn {
			continue
		}
		for _, cs := range CallsTo(Calls(f), `\(\*sio\.clientSocket\)\.sendAckPacket`) {
			if cs.Instr.Parent() == f {
				n++
			}
		}
	}
	c.Ob(rule, "sio.clientSocket.emitBuffered/ack-function-sends", fn.Pos(), n >= 1, "no closure of emitBuffered sends the ACK: a buffered event could never be acknowledged")
}

// replacementAckHeadGuard (C03-D10): the retry queue's replacement ack acts only while its packet is the head.
func replacementAckHeadGuard(c *Ctx, rule string) {
	p := c.P
	fn := p.Fn("sio", "clientPacketQueue.addToQueue")
	fv := p.Field("sio", "clientPacketQueue", "queuedPackets")
	n := 0
	headGuard := func(in ssa.Instruction) bool {
		return HasGuard(in, `^\(pq\.queuedPackets\[0\] != packet(:[^)]*)?\)==false$`) || HasGuard(in, `^\(pq\.queuedPackets\[0\] == packet(:[^)]*)?\)==true$`)
	}
	for _, f := range WithAnons(fn) {
		if f == fn {
			continue
		}
		li := Locks(f)
		var guardLoads []ssa.Instruction
		for _, b := range f.Blocks {
			for _, in := range b.Instrs {
				if bo, ok := in.(*ssa.BinOp); ok && (bo.Op == token.EQL || bo.Op == token.NEQ) && Term(bo.X) == "pq.queuedPackets[0]" && Term(bo.Y) == "packet" {
					guardLoads = append(guardLoads, in)
				}
			}
		}
		for _, st := range findInstrs(f, fieldStorePred(fv)) {
			if !strings.Contains(Term(st.(*ssa.Store).Val), "[1:]") {
				continue
			}
			n++
			same := false
			for _, g := range guardLoads {
				if li.HoldsAny(g, "pq.mu") && SameRegion(li, g, st, "pq.mu") {
					same = true
				}
			}
			c.Ob(rule, fmt.Sprintf("sio.clientPacketQueue.addToQueue/pop-only-own-head#%d", n), st.Pos(), headGuard(st) && same && li.HoldsW(st, "pq.mu"),
				fmt.Sprintf("the replacement ack pops the head of the retry queue under %v: it must first see that the head IS its own packet (queuedPackets[0] == packet, in the same critical section of pq.mu) — a packet re-sent on reconnect has one ack registered per try, and the losing one (the old try's timeout) otherwise pops the NEXT packet, which is then never delivered", GuardTerms(st)))
		}
		for _, cs := range CallsTo(Calls(f), `\(reflect\.Value\)\.Call`) {
			if cs.Instr.Parent() != f {
				continue
			}
			n++
			c.Ob(rule, fmt.Sprintf("sio.clientPacketQueue.addToQueue/user-ack-only-for-head#%d", n), cs.Pos(), headGuard(cs.Instr),
				fmt.Sprintf("the application's ack callback is invoked under %v, not behind the head guard: the stale callback of an earlier try invokes it a second time", GuardTerms(cs.Instr)))
		}
	}
	if n == 0 {
		c.Undecided("%s: no pop / user-ack call found in the replacement ack of addToQueue", rule)
	}
}

// subEventsRegisteredOnce (C18-D10): Connect called twice registers the socket's manager handlers once (F43).
func subEventsRegisteredOnce(c *Ctx, rule string) {
	p := c.P
	fn := p.Fn("sio", "clientSocket.registerSubEvents")
	li := Locks(fn)
	regs := CallsTo(Calls(fn), `\(\*sio\.handlerStore\[T\]\)\.onSubEvent`)
	if len(regs) == 0 {
		c.Undecided("%s: no onSubEvent call in clientSocket.registerSubEvents", rule)
		return
	}
	for _, r := range regs {
		if r.Instr.Parent() != fn {
			continue
		}
		guarded := false
		for _, g := range Guards(r.Instr) {
			t := Term(g.Cond)
			// "not registered yet": the deregistration closure is still nil, or the active flag is still false
			if (strings.Contains(t, "subDeregister != nil") && !g.Val) || (strings.Contains(t, "subDeregister == nil") && g.Val) || (strings.HasSuffix(t, ".active") && !g.Val) {
				guarded = true
			}
		}
		c.Ob(rule, "sio.clientSocket.registerSubEvents/once", r.Pos(), guarded && li.HoldsW(r.Instr, "s.activeMu"),
			fmt.Sprintf("the socket's open/error/close handlers are registered on the manager under %v, i.e. again on every Connect before the socket is connected: one close of the manager then runs the socket's OnDisconnect handlers once per Connect call (the reference client returns early when its subscriptions exist)", GuardTerms(r.Instr)))
	}
}

// refusedSocketLeavesNothing (C12-D7): the refusal path of Namespace.add leaves the rooms (F44).
func refusedSocketLeavesNothing(c *Ctx, rule string) {
	p := c.P
	fn := p.Fn("sio", "Namespace.add")
	rms := CallsTo(Calls(fn), `\(\*sio\.Namespace\)\.runMiddlewares`)
	if len(rms) == 0 {
		c.Undecided("%s: no runMiddlewares call in Namespace.add", rule)
		return
	}
	for _, rm := range rms {
		call, ok := rm.Instr.(*ssa.Call)
		if !ok {
			continue
		}
		in := rm.Instr.Parent() // the function the call is written in (add itself, or a private helper split off it)
		as := nonNilAssumes(in, call)
		skip, trail := PrunedCanReach(in, rm.Instr, as, nil, callPred(`\(\*sio\.serverSocket\)\.leaveAll`))
		c.Ob(rule, "sio.Namespace.add/refused-socket-leaves-its-rooms", rm.Pos(), !skip && len(as) > 0, "after a middleware refused the socket, add returns without leaveAll(): rooms a middleware (or the restored session) joined it to stay in the adapter for ever, one set per refused attempt — SocketRooms and room broadcasts still see the sid: "+trailString(p, trail))
	}
}

// parseErrorClosesConnection (C10-D12, shared with C06-D11): the client's parse-error path closes the Engine.IO socket (F46).
func parseErrorClosesConnection(c *Ctx, rule string) {
	p := c.P
	top := p.Fn("sio", "Manager.onEIOPacket")
	found, closes := false, false
	for _, f := range WithAnons(top) {
		oc := CallsTo(Calls(f), `\(\*sio\.Manager\)\.onClose`)
		for _, o := range oc {
			if o.Instr.Parent() != f {
				continue
			}
			found = true
			// on every path from onClose to the end of this function the connection is closed
			skip, _ := CanReachExitAvoiding(f, o.Instr, func(in ssa.Instruction) bool {
				call, ok := in.(ssa.CallInstruction)
				if !ok || !call.Common().IsInvoke() || call.Common().Method.Name() != "Close" {
					return false
				}
				return strings.Contains(call.Common().Value.Type().String(), "engine.io") || strings.Contains(call.Common().Value.Type().String(), "eio.")
			})
			// a nil test of the captured connection may skip the close: accept that one condition
			if skip {
				skip2, _ := PrunedCanReach(f, o.Instr, []Assume{{`\(.* != nil(:[^)]*)?\)`, true}, {`\(.* == nil(:[^)]*)?\)`, false}}, nil, func(in ssa.Instruction) bool {
					call, ok := in.(ssa.CallInstruction)
					return ok && call.Common().IsInvoke() && call.Common().Method.Name() == "Close"
				})
				skip = skip2
			}
			closes = !skip
			c.Ob(rule, "sio.Manager.onEIOPacket/parse-error-closes-the-connection", o.Pos(), closes, "after onClose(ReasonParseError) the Engine.IO socket is not closed: onClose only mutes its callbacks before reconnecting, so the abandoned connection keeps answering the server's pings — the server keeps the session, its sockets and rooms for ever, one more per undecodable frame")
		}
	}
	if !found {
		c.Undecided("%s: no onClose call on the parse-error path of Manager.onEIOPacket", rule)
	}
}
