package main

// C02-D8: a packet taken out of a queue is never put back.

import (
	"fmt"

	"golang.org/x/tools/go/ssa"
)

func noPutBack(c *Ctx, rule string) {
	p := c.P
	queues := []struct{ label, take, add string }{
		{"polling.pollQueue", `\(\*polling\.pollQueue\)\.(get|poll)`, `\(\*polling\.pollQueue\)\.add`},
		{"sio.packetQueue", `\(\*sio\.packetQueue\)\.(get|poll)`, `\(\*sio\.packetQueue\)\.add`},
	}
	for _, q := range queues {
		n := 0
		for _, fn := range p.SrcFuncs() {
			if fn.Parent() != nil || siteOf(fn) != nil || len(fn.Blocks) == 0 {
				continue
			}
			takes := CallsTo(CallsDeep(fn), q.take)
			if len(takes) == 0 {
				continue
			}
			n++
			// adds in the function itself (closures and private helpers included) and in the module functions it calls directly
			var adds []CallSite
			adds = append(adds, CallsTo(CallsDeep(fn), q.add)...)
			via := map[ssa.Instruction]string{}
			for _, cs := range CallsDeep(fn) {
				sc := cs.Common().StaticCallee()
				if sc == nil || !p.inModule(sc) || len(sc.Blocks) == 0 || originOf(sc) == originOf(fn) {
					continue
				}
				for _, a := range CallsTo(CallsDeep(sc), q.add) {
					adds = append(adds, a)
					via[a.Instr] = FuncName(sc)
				}
			}
			if len(adds) == 0 {
				c.Ob(rule, q.label+"/no-put-back@"+FuncName(fn), takes[0].Pos(), true, "takes packets from the queue and never adds to it")
				continue
			}
			for _, a := range adds {
				how := "itself"
				if v, ok := via[a.Instr]; ok {
					how = "through " + v
				}
				c.Ob(rule, q.label+"/no-put-back@"+FuncName(fn), a.Pos(), false, fmt.Sprintf("%s takes packets out of the %s and (%s) adds packets to it: what is put back goes to the tail, behind everything that was sent in the meantime — the frames of one emit are torn apart and later packets overtake earlier ones", FuncName(fn), q.label, how))
			}
		}
		if n == 0 {
			c.Undecided("%s: no consumer of %s found", rule, q.label)
		}
	}
}
