package main

// The ack-timeout purge of the client's offline buffer removes the frames of
// that emit and nothing else (C15-D5; the C03 side — all frames of the emit go —
// is C03-D3).

import (
	"fmt"
	"go/types"
	"strings"

	"golang.org/x/tools/go/ssa"
)

func ackPurgeOnlyOwnFrames(c *Ctx, rule string) {
	p := c.P
	rf := p.Fn("sio", "clientSocket.registerAckHandler")
	n := 0
	for _, f := range WithAnons(rf) {
		for _, cs := range Calls(f) {
			if !strings.HasPrefix(calleeName(cs.Common()), "slices.DeleteFunc") || len(cs.Common().Args) != 2 || !strings.HasSuffix(Term(cs.Common().Args[0]), ".sendBuffer") {
				continue
			}
			pc, isCl := cs.Common().Args[1].(*ssa.MakeClosure)
			if !isCl {
				c.Ob(rule, "sio.clientSocket.registerAckHandler/purge-predicate", cs.Pos(), false, "the purge predicate is not a function literal: cannot be inspected")
				continue
			}
			pf := pc.Fn.(*ssa.Function)
			item := pf.Params[0]
			it := regexpQuote(vname(item))
			for _, b := range pf.Blocks {
				ret, isRet := b.Instrs[len(b.Instrs)-1].(*ssa.Return)
				if !isRet || len(ret.Results) != 1 {
					continue
				}
				rt := Term(ret.Results[0])
				if rt == "false" {
					continue
				}
				n++
				// presence: a nil test of a pointer field of the item, or a bool field of the item
				presence := HasGuard(ret, `^\(`+it+`\.[A-Za-z_0-9]+ != nil(:[^)]*)?\)==true$`) || HasGuard(ret, `^\(`+it+`\.[A-Za-z_0-9]+ == nil(:[^)]*)?\)==false$`) ||
					HasGuard(ret, `^`+it+`\.[A-Za-z_0-9]+==true$`)
				// identity: the item's id equals the id of this ack (the closure's captured id)
				identity := HasGuard(ret, `^\(\*?`+it+`\.[A-Za-z_0-9]+ == [A-Za-z_0-9]+\)==true$`)
				if rt != "true" {
					// value form: `return p.ackID != nil && *p.ackID == id`
					presence = presence || strings.Contains(rt, " != nil") || strings.HasPrefix(rt, "φ(") && HasGuardOnPhi(ret.Results[0], `^\(`+it+`\.[A-Za-z_0-9]+ != nil(:[^)]*)?\)==true$`)
					identity = identity || regexpMustCompile(`.*\(\*?`+it+`\.[A-Za-z_0-9]+ == [A-Za-z_0-9]+\).*`).MatchString(rt)
				}
				// a pointer-typed id field makes presence a matter of the nil test; a value-typed id needs a separate flag
				c.Ob(rule, fmt.Sprintf("sio.clientSocket.registerAckHandler/purge-only-own-frames#%d", n), ret.Pos(), presence && identity,
					fmt.Sprintf("the purge predicate returns %s under %v: it must hold only for an item that HAS an ack (nil test of its id pointer, or a flag) AND whose id is this ack's — ack ids start at 0, so an item without an ack must not compare equal to any id; otherwise a timed-out emit removes the ack-less events waiting in the offline buffer and they are never delivered", rt, GuardTerms(ret)))
			}
		}
	}
	if n == 0 {
		c.Ob(rule, "sio.clientSocket.registerAckHandler/purge-predicate", rf.Pos(), false, "no slices.DeleteFunc purge of the offline buffer with an inspectable predicate found in the ack-timeout path")
	}
	// the item type can say "no ack": its id field is a pointer, or it has a bool next to it
	if st, ok := p.Named("sio", "sendBufferItem").Underlying().(*types.Struct); ok {
		can := false
		for i := 0; i < st.NumFields(); i++ {
			switch t := st.Field(i).Type().Underlying().(type) {
			case *types.Pointer:
				if b, isB := t.Elem().Underlying().(*types.Basic); isB && b.Info()&types.IsInteger != 0 {
					can = true
				}
			case *types.Basic:
				if t.Kind() == types.Bool {
					can = true
				}
			}
		}
		c.Ob(rule, "sio.sendBufferItem/can-say-no-ack", p.Named("sio", "sendBufferItem").Obj().Pos(), can, "sendBufferItem has neither a pointer-typed id nor a flag: 'no ack' cannot be told from ack id 0")
	}
}

// HasGuardOnPhi: one of the non-constant edges of a boolean phi is computed under the guard.
func HasGuardOnPhi(v ssa.Value, pattern string) bool {
	ph, ok := v.(*ssa.Phi)
	if !ok {
		return false
	}
	for i, e := range ph.Edges {
		if _, isK := e.(*ssa.Const); isK {
			continue
		}
		pred := ph.Block().Preds[i]
		if len(pred.Instrs) > 0 && HasGuard(pred.Instrs[len(pred.Instrs)-1], pattern) {
			return true
		}
	}
	return false
}
