package main

// Path queries on one function (A4), call-site resolution (A1) and the
// lockset analysis (A3).

import (
	"fmt"
	"go/constant"
	"go/token"
	"go/types"
	"regexp"
	"sort"
	"strings"

	"golang.org/x/tools/go/ssa"
)

// ---------------------------------------------------------------- call sites

type CallSite struct {
	Fn    *ssa.Function       // enclosing function
	Instr ssa.CallInstruction // *ssa.Call, *ssa.Go or *ssa.Defer
	Name  string              // resolved callee name (short)
}

func (c CallSite) Common() *ssa.CallCommon { return c.Instr.Common() }
func (c CallSite) Pos() token.Pos {
	if p := c.Instr.Pos(); p.IsValid() {
		return p
	}
	return c.Instr.Common().Pos()
}
func (c CallSite) IsGo() bool    { _, ok := c.Instr.(*ssa.Go); return ok }
func (c CallSite) IsDefer() bool { _, ok := c.Instr.(*ssa.Defer); return ok }

// Arg returns the i-th argument not counting the receiver.
func (c CallSite) Arg(i int) ssa.Value {
	cc := c.Common()
	if cc.IsInvoke() {
		if i < len(cc.Args) {
			return cc.Args[i]
		}
		return nil
	}
	off := 0
	if f := cc.StaticCallee(); f != nil && f.Signature.Recv() != nil {
		off = 1
	}
	if i+off < len(cc.Args) {
		return cc.Args[i+off]
	}
	return nil
}

// Recv returns the receiver value of a method call (invoke or static).
func (c CallSite) Recv() ssa.Value {
	cc := c.Common()
	if cc.IsInvoke() {
		return cc.Value
	}
	if f := cc.StaticCallee(); f != nil && f.Signature.Recv() != nil && len(cc.Args) > 0 {
		return cc.Args[0]
	}
	return nil
}

// Calls lists the call instructions of fn (not of its nested closures), in
// block/instruction order.
func Calls(fn *ssa.Function) []CallSite {
	var out []CallSite
	for _, b := range fn.Blocks {
		for _, in := range b.Instrs {
			if ci, ok := in.(ssa.CallInstruction); ok {
				out = append(out, CallSite{Fn: fn, Instr: ci, Name: calleeName(ci.Common())})
				if h := transparentCallee(in); h != nil {
					out = append(out, Calls(h)...)
				}
			}
		}
	}
	return out
}

// CallsDeep lists the call instructions of fn and all nested closures.
func CallsDeep(fn *ssa.Function) []CallSite {
	var out []CallSite
	seen := map[ssa.Instruction]bool{}
	for _, f := range WithAnons(fn) {
		for _, cs := range Calls(f) {
			if !seen[cs.Instr] {
				seen[cs.Instr] = true
				out = append(out, cs)
			}
		}
	}
	return out
}

// CallsTo filters call sites whose resolved callee name matches the regexp
// (anchored).
func CallsTo(sites []CallSite, pattern string) []CallSite {
	re := regexpMustCompile(pattern)
	var out []CallSite
	for _, s := range sites {
		if re.MatchString(s.Name) {
			out = append(out, s)
		}
	}
	return out
}

func isMethodNamed(c *ssa.CallCommon, names ...string) (string, bool) {
	var n string
	if c.IsInvoke() {
		n = c.Method.Name()
	} else if f := c.StaticCallee(); f != nil && f.Signature.Recv() != nil {
		n = f.Name()
	} else {
		return "", false
	}
	for _, x := range names {
		if x == n {
			return n, true
		}
	}
	return n, false
}

// ------------------------------------------------------------- positions

func instrIndex(in ssa.Instruction) int {
	for i, x := range in.Block().Instrs {
		if x == in {
			return i
		}
	}
	return -1
}

// Before reports whether a is executed before b on every path that reaches b
// (a dominates b).
func Dominates(a, b ssa.Instruction) bool {
	if a.Parent() != b.Parent() {
		// b inside a transparent helper: a must dominate (or be) its call site
		if s := siteOf(b.Parent()); s != nil {
			if a == ssa.Instruction(s) || Dominates(a, s) {
				return true
			}
		}
		// a inside a transparent helper: a must be executed on every path through the helper, and the site dominate b
		if s := siteOf(a.Parent()); s != nil {
			h := a.Parent()
			all := true
			for _, blk := range h.Blocks {
				if ret, ok := blk.Instrs[len(blk.Instrs)-1].(*ssa.Return); ok {
					if !(a.Block() == blk || a.Block().Dominates(blk)) {
						all = false
					}
					_ = ret
				}
			}
			if all && (b == ssa.Instruction(s) || Dominates(s, b)) && b != ssa.Instruction(s) {
				return true
			}
		}
		return false
	}
	if a.Block() == b.Block() {
		return instrIndex(a) < instrIndex(b)
	}
	return a.Block().Dominates(b.Block())
}

// edgeDominates: does the CFG edge from->to dominate block x?
// True when `to` dominates x and every other predecessor of `to` is dominated by `to`
// (i.e. the only way into `to` from outside its own region is this edge).
func edgeDominates(from, to, x *ssa.BasicBlock) bool {
	if !to.Dominates(x) {
		return false
	}
	for _, p := range to.Preds {
		if p == from {
			continue
		}
		if !to.Dominates(p) {
			return false
		}
	}
	// also a from->to edge must be unique (an If with both successors equal proves nothing)
	n := 0
	for _, s := range from.Succs {
		if s == to {
			n++
		}
	}
	return n == 1
}

// Guard describes one branch condition under which an instruction executes.
type Guard struct {
	Cond ssa.Value
	Val  bool // the condition evaluated to Val on every path to the instruction
	If   *ssa.If
}

// Guards returns the branch conditions that hold whenever `in` executes
// (conditions of dominating If instructions whose taken edge dominates in).
func Guards(in ssa.Instruction) []Guard {
	var out []Guard
	blk := in.Block()
	fn := blk.Parent()
	if s := siteOf(fn); s != nil {
		out = append(out, Guards(s)...)
	}
	for _, b := range fn.Blocks {
		if len(b.Instrs) == 0 {
			continue
		}
		ifi, ok := b.Instrs[len(b.Instrs)-1].(*ssa.If)
		if !ok {
			continue
		}
		if !b.Dominates(blk) {
			continue
		}
		if edgeDominates(b, b.Succs[0], blk) {
			out = append(out, expandGuard(Guard{ifi.Cond, true, ifi})...)
		}
		if edgeDominates(b, b.Succs[1], blk) {
			out = append(out, expandGuard(Guard{ifi.Cond, false, ifi})...)
		}
	}
	return out
}

// expandGuard normalises !x==true to x==false.
func expandGuard(g Guard) []Guard {
	out := []Guard{g}
	if u, ok := g.Cond.(*ssa.UnOp); ok && u.Op == token.NOT {
		out = append(out, expandGuard(Guard{u.X, !g.Val, g.If})...)
	}
	// the value form of && / || (`switch { case a && b: }`, `ok := a && b; if ok`): φ(false…, b) == true means the
	// evaluation went through b's block (so a held) and b held; dually φ(true…, b) == false for ||
	if ph, ok := g.Cond.(*ssa.Phi); ok {
		if bt, isB := ph.Type().Underlying().(*types.Basic); isB && bt.Kind() == types.Bool {
			var last ssa.Value
			lastIdx := -1
			shortVal := !g.Val // the constant the short-circuit edges carry
			okShape := true
			for i, e := range ph.Edges {
				if k, isK := e.(*ssa.Const); isK && k.Value != nil && k.Value.Kind() == constant.Bool && constant.BoolVal(k.Value) == shortVal {
					continue
				}
				if last != nil {
					okShape = false
				}
				last, lastIdx = e, i
			}
			if okShape && last != nil && lastIdx < len(ph.Block().Preds) {
				out = append(out, expandGuard(Guard{last, g.Val, g.If})...)
				pred := ph.Block().Preds[lastIdx]
				if len(pred.Instrs) > 0 {
					out = append(out, Guards(pred.Instrs[len(pred.Instrs)-1])...)
				}
			}
		}
	}
	return out
}

// GuardTerms returns guards as strings "cond==true"/"cond==false".
func GuardTerms(in ssa.Instruction) []string {
	var out []string
	for _, g := range Guards(in) {
		s := Term(g.Cond)
		if g.Val {
			out = append(out, s+"==true")
		} else {
			out = append(out, s+"==false")
		}
	}
	sort.Strings(out)
	return out
}

func HasGuard(in ssa.Instruction, pattern string) bool {
	re := regexpMustCompile(pattern)
	for _, g := range GuardTerms(in) {
		if re.MatchString(g) {
			return true
		}
	}
	return false
}

// ------------------------------------------------- must-pass-through queries

type instrPred func(ssa.Instruction) bool

func isNormalExit(b *ssa.BasicBlock) bool {
	if len(b.Instrs) == 0 {
		return false
	}
	_, ok := b.Instrs[len(b.Instrs)-1].(*ssa.Return)
	return ok
}

// CanReachExitAvoiding reports whether, starting right after instruction
// `from` (or at function entry when from == nil), some path reaches a normal
// return of the function without executing an instruction satisfying `stop`.
// It returns a witness block trail when such a path exists.
func CanReachExitAvoiding(fn *ssa.Function, from ssa.Instruction, stop instrPred) (bool, []*ssa.BasicBlock) {
	return canReach(fn, from, stop, func(b *ssa.BasicBlock, upto int) bool {
		return upto == len(b.Instrs) && isNormalExit(b)
	}, nil)
}

// CanReachAvoiding: from `from` can a path reach an instruction satisfying
// target without first executing one satisfying stop?
func CanReachAvoiding(fn *ssa.Function, from ssa.Instruction, target, stop instrPred) (bool, []*ssa.BasicBlock) {
	return canReach(fn, from, stop, nil, target)
}

func canReach(fn *ssa.Function, from ssa.Instruction, stop instrPred, atEnd func(*ssa.BasicBlock, int) bool, target instrPred) (bool, []*ssa.BasicBlock) {
	if len(fn.Blocks) == 0 {
		return false, nil
	}
	entry := fn.Blocks[0]
	fn = ownerOf(fn) // a transparent helper's returns resume in its caller
	type item struct {
		b     *ssa.BasicBlock
		start int
		trail []*ssa.BasicBlock
	}
	type key struct {
		b     *ssa.BasicBlock
		start int
	}
	var work []item
	if from == nil {
		work = append(work, item{entry, 0, nil})
	} else {
		work = append(work, item{from.Block(), instrIndex(from) + 1, nil})
	}
	seen := map[key]bool{}
	for len(work) > 0 {
		it := work[len(work)-1]
		work = work[:len(work)-1]
		k := key{it.b, it.start}
		if it.start == 0 || seen[k] {
			if seen[k] {
				continue
			}
		}
		seen[k] = true
		trail := append(append([]*ssa.BasicBlock{}, it.trail...), it.b)
		blocked := false
		descended := false
		for i := it.start; i < len(it.b.Instrs); i++ {
			in := it.b.Instrs[i]
			if target != nil && target(in) {
				return true, trail
			}
			if stop != nil && stop(in) {
				blocked = true
				break
			}
			// the body of a transparent helper is part of this function: continue inside it;
			// its returns come back to the instruction after this call
			if h := transparentCallee(in); h != nil && len(h.Blocks) > 0 {
				work = append(work, item{h.Blocks[0], 0, trail})
				descended = true
				break
			}
		}
		if blocked || descended {
			continue
		}
		// a return of a transparent helper resumes after its call site
		if f := it.b.Parent(); f != fn && len(it.b.Succs) == 0 {
			if s := siteOf(f); s != nil {
				if _, isRet := it.b.Instrs[len(it.b.Instrs)-1].(*ssa.Return); isRet {
					work = append(work, item{s.Block(), instrIndex(s) + 1, trail})
				}
				continue
			}
		}
		if atEnd != nil && atEnd(it.b, len(it.b.Instrs)) {
			return true, trail
		}
		for _, s := range it.b.Succs {
			work = append(work, item{s, 0, trail})
		}
	}
	return false, nil
}

func trailString(p *Program, trail []*ssa.BasicBlock) string {
	var parts []string
	for _, b := range trail {
		pos := token.NoPos
		for _, in := range b.Instrs {
			if in.Pos().IsValid() {
				pos = in.Pos()
				break
			}
		}
		parts = append(parts, p.Pos(pos))
	}
	return strings.Join(parts, " → ")
}

func callPred(pattern string) instrPred {
	re := regexpMustCompile(pattern)
	return func(in ssa.Instruction) bool {
		ci, ok := in.(ssa.CallInstruction)
		if !ok {
			return false
		}
		if _, isGo := in.(*ssa.Go); isGo {
			return false
		}
		return re.MatchString(calleeName(ci.Common()))
	}
}

func anyCallPred(pattern string) instrPred {
	re := regexpMustCompile(pattern)
	return func(in ssa.Instruction) bool {
		ci, ok := in.(ssa.CallInstruction)
		if !ok {
			return false
		}
		return re.MatchString(calleeName(ci.Common()))
	}
}

// ------------------------------------------------------------------ locksets

type LockMode int

const (
	LockW LockMode = iota + 1
	LockR
)

type lockOp struct {
	lock  string // address term of the mutex, e.g. "s.transportMu"
	mode  LockMode
	acq   bool
	defer_ bool
}

func isSyncLockType(T types.Type) bool {
	T = deref(T)
	nt, ok := types.Unalias(T).(*types.Named)
	if !ok {
		return false
	}
	obj := nt.Obj()
	if obj.Pkg() == nil {
		return false
	}
	path := obj.Pkg().Path()
	if path != "sync" && path != "github.com/sasha-s/go-deadlock" {
		return false
	}
	return obj.Name() == "Mutex" || obj.Name() == "RWMutex"
}

func isOnceType(T types.Type) bool {
	T = deref(T)
	nt, ok := types.Unalias(T).(*types.Named)
	if !ok {
		return false
	}
	obj := nt.Obj()
	if obj.Pkg() == nil {
		return false
	}
	path := obj.Pkg().Path()
	return (path == "sync" || path == "github.com/sasha-s/go-deadlock") && obj.Name() == "Once"
}

func lockOpOf(in ssa.Instruction) (lockOp, bool) {
	ci, ok := in.(ssa.CallInstruction)
	if !ok {
		return lockOp{}, false
	}
	if _, isGo := in.(*ssa.Go); isGo {
		return lockOp{}, false
	}
	cc := ci.Common()
	f := cc.StaticCallee()
	if f == nil || f.Signature.Recv() == nil || len(cc.Args) == 0 {
		return lockOp{}, false
	}
	if !isSyncLockType(f.Signature.Recv().Type()) {
		return lockOp{}, false
	}
	op := lockOp{lock: Addr(cc.Args[0])}
	_, op.defer_ = in.(*ssa.Defer)
	switch f.Name() {
	case "Lock":
		op.mode, op.acq = LockW, true
	case "RLock":
		op.mode, op.acq = LockR, true
	case "Unlock":
		op.mode, op.acq = LockW, false
	case "RUnlock":
		op.mode, op.acq = LockR, false
	default:
		return lockOp{}, false
	}
	return op, true
}

type LockSet map[string]LockMode

func (s LockSet) clone() LockSet {
	n := LockSet{}
	for k, v := range s {
		n[k] = v
	}
	return n
}

func (s LockSet) String() string {
	var parts []string
	for k, v := range s {
		if v == LockR {
			parts = append(parts, k+"(R)")
		} else {
			parts = append(parts, k)
		}
	}
	sort.Strings(parts)
	return "{" + strings.Join(parts, ",") + "}"
}

func intersect(a, b LockSet) LockSet {
	n := LockSet{}
	for k, v := range a {
		if w, ok := b[k]; ok {
			if v == LockR || w == LockR {
				// both held, weakest mode
				if v == w {
					n[k] = v
				} else {
					n[k] = LockR
				}
			} else {
				n[k] = LockW
			}
		}
	}
	return n
}

func equalSets(a, b LockSet) bool {
	if len(a) != len(b) {
		return false
	}
	for k, v := range a {
		if b[k] != v {
			return false
		}
	}
	return true
}

// LockInfo is the result of the must-hold analysis of one function: the set
// of locks certainly held immediately before each instruction.  A deferred
// unlock keeps the lock held until the function returns.
type LockInfo struct {
	fn     *ssa.Function
	before map[ssa.Instruction]LockSet
	// locks still held (non-deferred) at a normal return: lock -> return instruction
	LeakAtReturn map[string]ssa.Instruction
	// Unlock of a lock that is not certainly held
	BadUnlock []ssa.Instruction
	// deferred unlocks
	Deferred map[string]bool
	// locks assumed held at entry (closures run synchronously under the creator's locks)
	Entry LockSet
	// locks possibly held (on some path) immediately before each instruction
	mayBefore map[ssa.Instruction]LockSet
}

// MayHeld returns the locks held on at least one path just before in.
func (li *LockInfo) MayHeld(in ssa.Instruction) LockSet {
	if s, ok := li.mayBefore[in]; ok {
		return s
	}
	return LockSet{}
}

func union(a, b LockSet) LockSet {
	n := a.clone()
	for k, v := range b {
		if w, ok := n[k]; !ok || (w == LockR && v == LockW) {
			n[k] = v
		}
	}
	return n
}

func (li *LockInfo) computeMay(entry LockSet) {
	fn := li.fn
	li.mayBefore = map[ssa.Instruction]LockSet{}
	if len(fn.Blocks) == 0 {
		return
	}
	in := map[*ssa.BasicBlock]LockSet{fn.Blocks[0]: entry.clone()}
	out := map[*ssa.BasicBlock]LockSet{}
	changed := true
	for iter := 0; changed && iter < 200; iter++ {
		changed = false
		for _, b := range fn.Blocks {
			cur := LockSet{}
			if b == fn.Blocks[0] {
				cur = entry.clone()
			}
			for _, p := range b.Preds {
				if o, ok := out[p]; ok {
					cur = union(cur, o)
				}
			}
			in[b] = cur
			c2 := cur.clone()
			for _, ins := range b.Instrs {
				if op, ok := lockOpOf(ins); ok && !op.defer_ {
					if op.acq {
						c2[op.lock] = op.mode
					} else {
						delete(c2, op.lock)
					}
				}
			}
			if old, ok := out[b]; !ok || !equalSets(old, c2) {
				out[b] = c2
				changed = true
			}
		}
	}
	for _, b := range fn.Blocks {
		cur := in[b].clone()
		for _, ins := range b.Instrs {
			li.mayBefore[ins] = cur.clone()
			if op, ok := lockOpOf(ins); ok && !op.defer_ {
				if op.acq {
					cur[op.lock] = op.mode
				} else {
					delete(cur, op.lock)
				}
			}
		}
	}
}

func Locks(fn *ssa.Function) *LockInfo { return LocksFrom(fn, LockSet{}) }

// syncCallbackTakers: callees known to invoke a func argument synchronously,
// on the caller's goroutine, before they return.
var syncCallbackTakers = map[string]bool{"Each": true, "Do": true, "DeleteFunc": true, "ContainsFunc": true, "IndexFunc": true, "SortFunc": true}

// LocksInherit analyses fn; when fn is a closure created only as a direct
// argument of a synchronous callback taker, the analysis starts from the lock
// set held at that call in the (recursively analysed) parent.
var inheritMemo = map[*ssa.Function]*LockInfo{}
var inheritBusy = map[*ssa.Function]bool{}
var inheritProg *Program

func LocksInherit(fn *ssa.Function) *LockInfo {
	if li, ok := inheritMemo[fn]; ok {
		return li
	}
	if inheritBusy[fn] {
		return Locks(fn)
	}
	inheritBusy[fn] = true
	li := locksInherit(fn)
	delete(inheritBusy, fn)
	inheritMemo[fn] = li
	return li
}

// callerEntry: for an unexported method, the locks (relative to its receiver)
// that every static call site in the module holds.
func callerEntry(p *Program, fn *ssa.Function) LockSet {
	if p == nil || fn.Signature.Recv() == nil || len(fn.Params) == 0 {
		return LockSet{}
	}
	n := fn.Name()
	if len(n) == 0 || (n[0] >= 'A' && n[0] <= 'Z') {
		return LockSet{}
	}
	recv := vname(fn.Params[0])
	var entry LockSet
	first := true
	for _, caller := range p.SrcFuncs() {
		for _, cs := range Calls(caller) {
			sc := cs.Common().StaticCallee()
			if sc == nil || originOf(sc) != fn {
				continue
			}
			if cs.IsGo() || cs.IsDefer() {
				return LockSet{}
			}
			arg := stripAmp(Term(cs.Common().Args[0]))
			h := LockSet{}
			for l, m := range LocksInherit(caller).Held(cs.Instr) {
				if strings.HasPrefix(l, arg+".") {
					h[recv+strings.TrimPrefix(l, arg)] = m
				}
			}
			if first {
				entry = h
				first = false
			} else {
				entry = intersect(entry, h)
			}
		}
	}
	if first {
		return LockSet{}
	}
	// a method value taken anywhere (bound method used as callback) defeats the census
	return entry
}

func locksInherit(fn *ssa.Function) *LockInfo {
	parent := fn.Parent()
	if parent == nil {
		if e := callerEntry(inheritProg, fn); len(e) > 0 && !methodValueTaken(inheritProg, fn) {
			return LocksFrom(fn, e)
		}
		return Locks(fn)
	}
	var entry LockSet
	first := true
	ok := true
	for _, b := range parent.Blocks {
		for _, in := range b.Instrs {
			mc, isMC := in.(*ssa.MakeClosure)
			if !isMC || mc.Fn != ssa.Value(fn) {
				continue
			}
			if mc.Referrers() == nil {
				ok = false
				continue
			}
			for _, r := range *mc.Referrers() {
				call, isCall := r.(*ssa.Call)
				if !isCall {
					ok = false
					continue
				}
				name := ""
				if call.Call.IsInvoke() {
					name = call.Call.Method.Name()
				} else if sc := call.Call.StaticCallee(); sc != nil {
					name = originOf(sc).Name()
				}
				if !syncCallbackTakers[name] {
					ok = false
					continue
				}
				pli := LocksInherit(parent)
				h := pli.Held(call)
				// deferred unlocks of the parent keep the lock held during the call: Held() already reflects that
				if first {
					entry = h.clone()
					first = false
				} else {
					entry = intersect(entry, h)
				}
			}
		}
	}
	if !ok || first {
		return Locks(fn)
	}
	return LocksFrom(fn, entry)
}

func LocksFrom(fn *ssa.Function, entry LockSet) *LockInfo {
	li := &LockInfo{fn: fn, before: map[ssa.Instruction]LockSet{}, LeakAtReturn: map[string]ssa.Instruction{}, Deferred: map[string]bool{}, Entry: entry}
	if len(fn.Blocks) == 0 {
		return li
	}
	li.computeMay(entry)
	in := map[*ssa.BasicBlock]LockSet{}
	out := map[*ssa.BasicBlock]LockSet{}
	reach := map[*ssa.BasicBlock]bool{fn.Blocks[0]: true}
	in[fn.Blocks[0]] = entry.clone()
	// deferred set is flow-insensitive on purpose: a `defer mu.Unlock()` anywhere
	// releases at exit; we only use it to excuse "held at return".
	changed := true
	for iter := 0; changed && iter < 200; iter++ {
		changed = false
		for _, b := range fn.Blocks {
			if b != fn.Blocks[0] {
				var cur LockSet
				first := true
				for _, p := range b.Preds {
					if !reach[p] {
						continue
					}
					if first {
						cur = out[p].clone()
						first = false
					} else {
						cur = intersect(cur, out[p])
					}
				}
				if first {
					continue
				}
				reach[b] = true
				in[b] = cur
			}
			cur := in[b].clone()
			for _, ins := range b.Instrs {
				if op, ok := lockOpOf(ins); ok {
					if op.defer_ {
						if !op.acq {
							li.Deferred[op.lock] = true
						}
						continue
					}
					if op.acq {
						cur[op.lock] = op.mode
					} else {
						delete(cur, op.lock)
					}
				}
			}
			if old, ok := out[b]; !ok || !equalSets(old, cur) {
				out[b] = cur
				changed = true
			}
		}
	}
	for _, b := range fn.Blocks {
		if !reach[b] {
			continue
		}
		cur := in[b].clone()
		for _, ins := range b.Instrs {
			li.before[ins] = cur.clone()
			if op, ok := lockOpOf(ins); ok && !op.defer_ {
				if op.acq {
					cur[op.lock] = op.mode
				} else {
					if _, held := cur[op.lock]; !held {
						li.BadUnlock = append(li.BadUnlock, ins)
					}
					delete(cur, op.lock)
				}
			}
			if _, isRet := ins.(*ssa.Return); isRet {
				for l := range cur {
					if _, inherited := li.Entry[l]; inherited {
						continue // held by the creator before and after the callback
					}
					if !li.Deferred[l] {
						li.LeakAtReturn[l] = ins
					}
				}
			}
		}
	}
	return li
}

// Held returns the locks certainly held just before in.
func (li *LockInfo) Held(in ssa.Instruction) LockSet {
	if s, ok := li.before[in]; ok {
		return s
	}
	// an instruction of a transparent helper: the helper starts with the locks held at its call site
	if f := in.Parent(); f != nil && f != li.fn {
		if s := siteOf(f); s != nil {
			entry := LockSet{}
			for k, v := range li.Held(s) {
				entry[k] = v
			}
			sub := LocksFrom(f, entry)
			if hs, ok := sub.before[in]; ok {
				return hs
			}
		}
	}
	return LockSet{}
}

func (li *LockInfo) HoldsW(in ssa.Instruction, lock string) bool {
	return li.Held(in)[lock] == LockW
}

func (li *LockInfo) HoldsAny(in ssa.Instruction, lock string) bool {
	_, ok := li.Held(in)[lock]
	return ok
}

// ------------------------------------------------------- field access census

type FieldAccess struct {
	Fn    *ssa.Function
	Instr ssa.Instruction // the load (UnOp), store (Store) or address-taking instr
	Base  string          // term of the struct value
	Field *types.Var
	Write bool
	Addr  *ssa.FieldAddr
}

// FieldAccesses lists loads and stores of struct fields (through FieldAddr) in fn.
// Address-taking uses that are neither a plain load nor a plain store (e.g.
// passing &s.f, or calling a pointer method on it) are reported with
// Instr = the FieldAddr itself and Write=true conservatively only when
// `conservative` is set.
func FieldAccesses(fn *ssa.Function) []FieldAccess {
	var out []FieldAccess
	for _, b := range fn.Blocks {
		for _, in := range b.Instrs {
			if h := transparentCallee(in); h != nil {
				out = append(out, FieldAccesses(h)...)
			}
			fa, ok := in.(*ssa.FieldAddr)
			if !ok {
				continue
			}
			fld := fieldVar(fa.X.Type(), fa.Field)
			if fld == nil {
				continue
			}
			base := Term(fa.X)
			refs := fa.Referrers()
			if refs == nil {
				continue
			}
			for _, r := range *refs {
				switch r := r.(type) {
				case *ssa.UnOp:
					if r.Op == token.MUL && r.X == fa {
						out = append(out, FieldAccess{fn, r, base, fld, false, fa})
					}
				case *ssa.Store:
					if r.Addr == fa {
						out = append(out, FieldAccess{fn, r, base, fld, true, fa})
					}
				}
			}
		}
	}
	return out
}

func fieldVar(T types.Type, idx int) *types.Var {
	T = T.Underlying()
	if p, ok := T.(*types.Pointer); ok {
		T = p.Elem().Underlying()
	}
	if st, ok := T.(*types.Struct); ok && idx < st.NumFields() {
		// the field of the generic declaration, not of the instantiation the method body sees
		// (handlerStore[T] inside its own methods is an instance with its own field objects)
		return st.Field(idx).Origin()
	}
	return nil
}

// ------------------------------------------------------------ small helpers

func stripAmp(s string) string { return strings.TrimPrefix(s, "&") }

func containsStr(xs []string, s string) bool {
	for _, x := range xs {
		if x == s {
			return true
		}
	}
	return false
}

// OnceBodies finds closures passed to (*sync.Once).Do in fn: returns the
// closure function and the address term of the Once.
type OnceBody struct {
	Site CallSite
	Once string
	Body *ssa.Function
}

func OnceBodies(fn *ssa.Function) []OnceBody {
	var out []OnceBody
	for _, cs := range Calls(fn) {
		f := cs.Common().StaticCallee()
		if f == nil || f.Name() != "Do" || f.Signature.Recv() == nil || !isOnceType(f.Signature.Recv().Type()) {
			continue
		}
		recv := cs.Common().Args[0]
		// go-deadlock's Once embeds sync.Once: x.Do is the promoted method on &x.Once — name the outer value
		if fa, ok := recv.(*ssa.FieldAddr); ok {
			if fv := fieldVar(fa.X.Type(), fa.Field); fv != nil && fv.Embedded() && isOnceType(deref(fa.X.Type())) {
				recv = fa.X
			}
		}
		ob := OnceBody{Site: cs, Once: Addr(recv)}
		switch a := cs.Common().Args[1].(type) {
		case *ssa.MakeClosure:
			ob.Body = a.Fn.(*ssa.Function)
		case *ssa.Function:
			ob.Body = a
		}
		out = append(out, ob)
	}
	return out
}

// rawTop returns the outermost named function containing fn (closures resolved).
func rawTop(fn *ssa.Function) *ssa.Function {
	for fn.Parent() != nil {
		fn = fn.Parent()
	}
	return fn
}

// EnclosingTop returns the top-level function fn's code belongs to: closures are
// resolved to their function, transparent helpers to the function they were
// extracted from.
func EnclosingTop(fn *ssa.Function) *ssa.Function {
	top := fn
	for i := 0; i < 24; i++ {
		if s := transparentSite[top]; s != nil {
			top = s.Parent()
			continue
		}
		if top.Parent() != nil {
			top = top.Parent()
			continue
		}
		break
	}
	return top
}

// ------------------------------------------------ path-pruned reachability

// Assume fixes the outcome of branch conditions whose term matches Re.
type Assume struct {
	Re  string
	Val bool
}

// CondEval decides a branch condition itself: it gets the condition and the
// integer constants the path assigned to phis.
type CondEval func(cond ssa.Value, phiInts map[*ssa.Phi]int64) (val, known bool)

var activeCondEval CondEval // set for the duration of PrunedCanReachEval (single-threaded analyser)

// activePathRets: results returned by transparent helpers on the path being explored.
var activePathRets map[*ssa.Call][]ssa.Value

func substRet(v ssa.Value) (ssa.Value, bool) {
	switch x := v.(type) {
	case *ssa.Extract:
		if call, ok := x.Tuple.(*ssa.Call); ok {
			if rs, ok := activePathRets[call]; ok && x.Index < len(rs) {
				return rs[x.Index], true
			}
		}
	case *ssa.Call:
		if rs, ok := activePathRets[x]; ok && len(rs) == 1 {
			return rs[0], true
		}
	}
	return v, false
}

func PrunedCanReachEval(fn *ssa.Function, from ssa.Instruction, assumes []Assume, eval CondEval, target, stop instrPred) (bool, []*ssa.BasicBlock) {
	activeCondEval = eval
	defer func() { activeCondEval = nil }()
	return PrunedCanReach(fn, from, assumes, target, stop)
}

func condValue(cond ssa.Value, assumes []Assume) (bool, bool) {
	return condValuePhi(cond, assumes, nil)
}

func condValuePhi(cond ssa.Value, assumes []Assume, phiVals map[*ssa.Phi]bool) (bool, bool) {
	return condValuePhiInt(cond, assumes, phiVals, nil)
}

func condValuePhiInt(cond ssa.Value, assumes []Assume, phiVals map[*ssa.Phi]bool, phiInts map[*ssa.Phi]int64) (bool, bool) {
	if u, ok := cond.(*ssa.UnOp); ok && u.Op == token.NOT {
		v, known := condValuePhiInt(u.X, assumes, phiVals, phiInts)
		return !v, known
	}
	// the scenario comes first: a condition the caller made an assumption about takes the assumed edge
	// (constants a path happens to assign to a phi must not override the scenario being asked about)
	if len(assumes) > 0 {
		t := Term(cond)
		for _, a := range assumes {
			if regexpMustCompile(a.Re).MatchString(t) {
				return a.Val, true
			}
		}
		// the same comparison written the other way round (`x != nil` where the scenario speaks of `x == nil`,
		// `a >= b` for `a < b`): the complement of what was assumed
		if bo, ok := cond.(*ssa.BinOp); ok {
			comp := map[token.Token]token.Token{token.EQL: token.NEQ, token.NEQ: token.EQL, token.LSS: token.GEQ, token.GEQ: token.LSS, token.GTR: token.LEQ, token.LEQ: token.GTR}
			if cop, isCmp := comp[bo.Op]; isCmp {
				ct := "(" + Term(bo.X) + " " + cop.String() + " " + Term(bo.Y) + ")"
				for _, a := range assumes {
					if regexpMustCompile(a.Re).MatchString(ct) {
						return !a.Val, true
					}
				}
			}
		}
	}
	// comparison of a result of a transparent helper: decided from what this path returned
	if bo, ok := cond.(*ssa.BinOp); ok && len(activePathRets) > 0 {
		x, okx := substRet(bo.X)
		y, oky := substRet(bo.Y)
		if okx || oky {
			isNil := func(v ssa.Value) bool {
				k, isK := v.(*ssa.Const)
				return isK && k.Value == nil
			}
			if isNil(x) && isNil(y) {
				switch bo.Op {
				case token.EQL:
					return true, true
				case token.NEQ:
					return false, true
				}
			}
			ts := "(" + Term(x) + " " + bo.Op.String() + " " + Term(y) + ")"
			for _, a := range assumes {
				if regexpMustCompile(a.Re).MatchString(ts) {
					return a.Val, true
				}
			}
			// a freshly built error (fmt.Errorf, errors.New, a wrapped error) is not nil
			if isNil(y) {
				if c, isCall := x.(*ssa.Call); isCall && c.Call.StaticCallee() != nil {
					switch c.Call.StaticCallee().String() {
					case "fmt.Errorf", "errors.New":
						return bo.Op == token.NEQ, true
					}
				}
			}
		}
	}
	// comparison of an integer phi the path assigned a constant to
	if bo, ok := cond.(*ssa.BinOp); ok && phiInts != nil {
		if ph, isPhi := bo.X.(*ssa.Phi); isPhi {
			if x, known := phiInts[ph]; known {
				if k, isK := bo.Y.(*ssa.Const); isK && k.Value != nil && k.Value.Kind() == constant.Int {
					y := k.Int64()
					switch bo.Op {
					case token.EQL:
						return x == y, true
					case token.NEQ:
						return x != y, true
					case token.LSS:
						return x < y, true
					case token.LEQ:
						return x <= y, true
					case token.GTR:
						return x > y, true
					case token.GEQ:
						return x >= y, true
					}
				}
			}
		}
	}
	if activeCondEval != nil {
		if v, known := activeCondEval(cond, phiInts); known {
			return v, true
		}
	}
	if k, ok := cond.(*ssa.Const); ok && k.Value != nil && k.Value.Kind() == constant.Bool {
		return constant.BoolVal(k.Value), true
	}
	if ph, ok := cond.(*ssa.Phi); ok {
		if v, known := phiVals[ph]; known {
			return v, true
		}
	}
	return false, false
}

// PrunedCanReach: starting after `from` (entry when nil), can some path reach
// an instruction satisfying target without executing one satisfying stop,
// when every branch whose condition matches an assumption takes only the
// assumed edge?  target == nil means "a normal return".  Boolean phis (the
// lowering of && / ||, also when stored in a local) are evaluated along the
// path from the edge they were entered through.
func PrunedCanReach(fn *ssa.Function, from ssa.Instruction, assumes []Assume, target, stop instrPred) (bool, []*ssa.BasicBlock) {
	if len(fn.Blocks) == 0 {
		return false, nil
	}
	entry := fn.Blocks[0]
	fn = ownerOf(fn) // a transparent helper's returns resume in its caller
	type item struct {
		b       *ssa.BasicBlock
		pred    *ssa.BasicBlock
		start   int
		trail   []*ssa.BasicBlock
		phiVals map[*ssa.Phi]bool
		phiInts map[*ssa.Phi]int64
		rets    map[*ssa.Call][]ssa.Value // results returned by transparent helpers along this path
	}
	var work []item
	if from == nil {
		work = append(work, item{entry, nil, 0, nil, nil, nil, nil})
	} else {
		work = append(work, item{from.Block(), nil, instrIndex(from) + 1, nil, nil, nil, nil})
	}
	defer func() { activePathRets = nil }()
	seen := map[string]bool{}
	keyOf := func(b *ssa.BasicBlock, pv map[*ssa.Phi]bool, pi map[*ssa.Phi]int64) string {
		var parts []string
		for ph, v := range pv {
			parts = append(parts, fmt.Sprintf("%s=%v", ph.Name(), v))
		}
		for ph, v := range pi {
			parts = append(parts, fmt.Sprintf("%s=%d", ph.Name(), v))
		}
		sort.Strings(parts)
		return fmt.Sprintf("%p/%d|%s", b.Parent(), b.Index, strings.Join(parts, ","))
	}
	for len(work) > 0 {
		it := work[len(work)-1]
		work = work[:len(work)-1]
		pv := it.phiVals
		pi := it.phiInts
		pathRets := it.rets
		activePathRets = pathRets
		if it.start == 0 {
			// evaluate boolean phis of this block from the incoming edge
			if it.pred != nil {
				idx := -1
				for i, p := range it.b.Preds {
					if p == it.pred {
						idx = i
					}
				}
				for _, in := range it.b.Instrs {
					ph, ok := in.(*ssa.Phi)
					if !ok {
						break
					}
					if b, isB := ph.Type().Underlying().(*types.Basic); isB && b.Info()&types.IsInteger != 0 && idx >= 0 {
						// integer phi: remember a constant assigned along this edge (parallel semantics: read the old map)
						npi := map[*ssa.Phi]int64{}
						for k, v := range pi {
							npi[k] = v
						}
						delete(npi, ph)
						switch e := ph.Edges[idx].(type) {
						case *ssa.Const:
							if e.Value != nil && e.Value.Kind() == constant.Int {
								npi[ph] = e.Int64()
							}
						case *ssa.Phi:
							if v, known := it.phiInts[e]; known {
								npi[ph] = v
							}
						}
						pi = npi
						continue
					}
					if b, isB := ph.Type().Underlying().(*types.Basic); !isB || b.Kind() != types.Bool || idx < 0 {
						continue
					}
					npv := map[*ssa.Phi]bool{}
					for k, v := range pv {
						npv[k] = v
					}
					delete(npv, ph)
					if v, known := condValuePhi(ph.Edges[idx], assumes, pv); known {
						npv[ph] = v
					}
					pv = npv
				}
			}
			k := keyOf(it.b, pv, pi)
			for cl, rs := range pathRets {
				k += "|" + cl.Name() + "="
				for _, r := range rs {
					k += r.Name() + ","
				}
			}
			if seen[k] {
				continue
			}
			seen[k] = true
		}
		trail := append(append([]*ssa.BasicBlock{}, it.trail...), it.b)
		blocked := false
		descended := false
		for i := it.start; i < len(it.b.Instrs); i++ {
			in := it.b.Instrs[i]
			if target != nil && target(in) {
				return true, trail
			}
			if stop != nil && stop(in) {
				blocked = true
				break
			}
			if h := transparentCallee(in); h != nil && len(h.Blocks) > 0 {
				work = append(work, item{h.Blocks[0], nil, 0, trail, pv, pi, pathRets})
				descended = true
				break
			}
		}
		if blocked || descended {
			continue
		}
		if f := it.b.Parent(); f != fn && len(it.b.Succs) == 0 {
			if s := siteOf(f); s != nil {
				if ret, isRet := it.b.Instrs[len(it.b.Instrs)-1].(*ssa.Return); isRet {
					// remember what this path returns: conditions on the call's results are decided from it
					npr := map[*ssa.Call][]ssa.Value{}
					for k, v := range pathRets {
						npr[k] = v
					}
					npr[s] = ret.Results
					pathRets = npr
					work = append(work, item{s.Block(), nil, instrIndex(s) + 1, trail, pv, pi, pathRets})
				}
				continue
			}
		}
		if target == nil && isNormalExit(it.b) {
			return true, trail
		}
		succs := it.b.Succs
		if len(it.b.Instrs) > 0 {
			if ifi, ok := it.b.Instrs[len(it.b.Instrs)-1].(*ssa.If); ok {
				if v, known := condValuePhiInt(ifi.Cond, assumes, pv, pi); known {
					if v {
						succs = succs[:1]
					} else {
						succs = succs[1:2]
					}
				}
			}
		}
		for _, s := range succs {
			work = append(work, item{s, it.b, 0, trail, pv, pi, pathRets})
		}
	}
	return false, nil
}

// storePred matches a Store (or MapUpdate) whose target address term matches.
func storePred(addrPattern string) instrPred {
	re := regexpMustCompile(addrPattern)
	return func(in ssa.Instruction) bool {
		switch s := in.(type) {
		case *ssa.Store:
			return re.MatchString(Addr(s.Addr))
		case *ssa.MapUpdate:
			return re.MatchString(Term(s.Map))
		}
		return false
	}
}

// storeValPred matches a Store to addrPattern of a value whose term matches valPattern.
func storeValPred(addrPattern, valPattern string) instrPred {
	re := regexpMustCompile(addrPattern)
	rv := regexpMustCompile(valPattern)
	return func(in ssa.Instruction) bool {
		if s, ok := in.(*ssa.Store); ok {
			return re.MatchString(Addr(s.Addr)) && rv.MatchString(Term(s.Val))
		}
		return false
	}
}

func orPred(ps ...instrPred) instrPred {
	return func(in ssa.Instruction) bool {
		for _, p := range ps {
			if p(in) {
				return true
			}
		}
		return false
	}
}

// unlockPred matches a non-deferred Unlock/RUnlock of the given lock term.
func unlockPred(lock string) instrPred {
	return func(in ssa.Instruction) bool {
		op, ok := lockOpOf(in)
		return ok && !op.acq && !op.defer_ && op.lock == lock
	}
}

// SameRegion reports whether a and b (a executed first) are always in one
// critical section of lock: lock is held at both, and no path from a reaches
// an unlock of it before reaching b.
func SameRegion(li *LockInfo, a, b ssa.Instruction, lock string) bool {
	if !li.HoldsAny(a, lock) || !li.HoldsAny(b, lock) {
		return false
	}
	isB := func(in ssa.Instruction) bool { return in == b }
	// an unlock u with a path a → u (not through b) and a path u → b splits the region
	for _, u := range findInstrs(li.fn, unlockPred(lock)) {
		isU := func(in ssa.Instruction) bool { return in == u }
		if r1, _ := CanReachAvoiding(li.fn, a, isU, isB); !r1 {
			continue
		}
		if r2, _ := CanReachAvoiding(li.fn, u, isB, nil); r2 {
			return false
		}
	}
	return true
}

// fieldStorePred matches a Store whose address is a FieldAddr of the given field.
func fieldStorePred(f *types.Var) instrPred {
	return func(in ssa.Instruction) bool {
		s, ok := in.(*ssa.Store)
		if !ok {
			return false
		}
		fa, ok := s.Addr.(*ssa.FieldAddr)
		return ok && fieldVar(fa.X.Type(), fa.Field) == f
	}
}

// fieldLoadPred matches a load through a FieldAddr of the given field.
func fieldLoadPred(f *types.Var) instrPred {
	return func(in ssa.Instruction) bool {
		u, ok := in.(*ssa.UnOp)
		if !ok || u.Op != token.MUL {
			return false
		}
		fa, ok := u.X.(*ssa.FieldAddr)
		return ok && fieldVar(fa.X.Type(), fa.Field) == f
	}
}

// firstInstr returns the first instruction of fn (with nested closures when deep)
// satisfying pred.
func findInstrs(fn *ssa.Function, pred instrPred) []ssa.Instruction {
	var out []ssa.Instruction
	for _, b := range fn.Blocks {
		for _, in := range b.Instrs {
			if pred(in) {
				out = append(out, in)
			}
			if h := transparentCallee(in); h != nil {
				out = append(out, findInstrs(h, pred)...)
			}
		}
	}
	return out
}

// loadPred matches a load whose address term matches.
func loadPred(addrPattern string) instrPred {
	re := regexpMustCompile(addrPattern)
	return func(in ssa.Instruction) bool {
		if u, ok := in.(*ssa.UnOp); ok && u.Op == token.MUL {
			return re.MatchString(Addr(u.X))
		}
		return false
	}
}

// selectStates returns, for every Select in fn, its states.
type SelState struct {
	Sel   *ssa.Select
	Index int
	Send  bool
	Chan  string
}

func SelectStates(fn *ssa.Function) []SelState {
	var out []SelState
	for _, b := range fn.Blocks {
		for _, in := range b.Instrs {
			if s, ok := in.(*ssa.Select); ok {
				for i, st := range s.States {
					out = append(out, SelState{s, i, st.Dir == types.SendOnly, Term(st.Chan)})
				}
			}
		}
	}
	return out
}

// selCasePred matches the first instruction of the block entered when select
// `sel` chose state idx (blocks guarded by `sel#0 == idx`).
func blocksOfSelectCase(sel *ssa.Select, idx int) []*ssa.BasicBlock {
	var out []*ssa.BasicBlock
	fn := sel.Parent()
	for _, b := range fn.Blocks {
		if len(b.Instrs) == 0 {
			continue
		}
		ifi, ok := b.Instrs[len(b.Instrs)-1].(*ssa.If)
		if !ok {
			continue
		}
		bo, ok := ifi.Cond.(*ssa.BinOp)
		if !ok || bo.Op != token.EQL {
			continue
		}
		ex, ok := bo.X.(*ssa.Extract)
		if !ok || ex.Tuple != sel || ex.Index != 0 {
			continue
		}
		c, ok := bo.Y.(*ssa.Const)
		if !ok || c.Int64() != int64(idx) {
			continue
		}
		out = append(out, b.Succs[0])
	}
	// a select with a single case and no default has no dispatch If: the body follows directly
	return out
}

// unwrapConv strips interface/type conversions that do not change the value.
func unwrapConv(v ssa.Value) ssa.Value {
	for {
		switch x := v.(type) {
		case *ssa.ChangeInterface:
			v = x.X
		case *ssa.MakeInterface:
			v = x.X
		case *ssa.ChangeType:
			v = x.X
		default:
			return v
		}
	}
}

// ------------------------------------------------ transitive field effects (A7, field level)

type fieldRW struct {
	reads, writes map[*types.Var]ssa.Instruction
}

// transFieldRW collects the struct fields read and written by fn and, through
// statically resolved calls (incl. closures created in fn, deferred calls and
// invoked closures), by module callees up to the given depth.  Closing a
// channel stored in a field counts as a write of that field, receiving from it
// as a read.
func transFieldRW(p *Program, fn *ssa.Function, depth int) fieldRW {
	rw := fieldRW{map[*types.Var]ssa.Instruction{}, map[*types.Var]ssa.Instruction{}}
	seen := map[*ssa.Function]bool{}
	var visit func(f *ssa.Function, d int)
	visit = func(f *ssa.Function, d int) {
		if f == nil || seen[f] || f.Blocks == nil {
			return
		}
		seen[f] = true
		for _, a := range FieldAccesses(f) {
			if a.Write {
				if _, ok := rw.writes[a.Field]; !ok {
					rw.writes[a.Field] = a.Instr
				}
			} else {
				if _, ok := rw.reads[a.Field]; !ok {
					rw.reads[a.Field] = a.Instr
				}
			}
		}
		for _, b := range f.Blocks {
			for _, in := range b.Instrs {
				switch in := in.(type) {
				case *ssa.Call:
					if bi, ok := in.Call.Value.(*ssa.Builtin); ok && bi.Name() == "close" {
						if fv := chanFieldOf(in.Call.Args[0]); fv != nil {
							rw.writes[fv] = in
						}
					}
				case *ssa.MapUpdate:
					if u, ok := in.Map.(*ssa.UnOp); ok {
						if fa, ok := u.X.(*ssa.FieldAddr); ok {
							if fv := fieldVar(fa.X.Type(), fa.Field); fv != nil {
								rw.writes[fv] = in
							}
						}
					}
				}
			}
		}
		if d <= 0 {
			return
		}
		for _, cs := range Calls(f) {
			cc := cs.Common()
			var callee *ssa.Function
			if sc := cc.StaticCallee(); sc != nil {
				callee = sc
			}
			if callee != nil && p.inModule(callee) {
				visit(callee, d-1)
			}
			// closures passed as arguments (Once.Do(func), forEach(func)) run as part of the call
			for _, a := range cc.Args {
				if mc, ok := a.(*ssa.MakeClosure); ok {
					visit(mc.Fn.(*ssa.Function), d-1)
				}
			}
		}
	}
	visit(fn, depth)
	return rw
}

// varargElems: for the `new([N]T)[:]` slice go/ssa builds for variadic calls
// and slice literals, return the values stored into its elements.
func varargElems(v ssa.Value) []ssa.Value {
	sl, ok := v.(*ssa.Slice)
	if !ok {
		return nil
	}
	al, ok := sl.X.(*ssa.Alloc)
	if !ok || al.Referrers() == nil {
		return nil
	}
	var out []ssa.Value
	for _, r := range *al.Referrers() {
		ia, ok := r.(*ssa.IndexAddr)
		if !ok || ia.Referrers() == nil {
			continue
		}
		for _, r2 := range *ia.Referrers() {
			if st, ok := r2.(*ssa.Store); ok && st.Addr == ia {
				out = append(out, st.Val)
			}
		}
	}
	return out
}

// retTerm: term of the i-th result of a return; for named results spilled to
// an Alloc (functions with defer) the value last stored to it in the same block.
func retTerm(ret *ssa.Return, i int) string {
	v := ret.Results[i]
	if u, ok := v.(*ssa.UnOp); ok && u.Op == token.MUL {
		if al, ok := u.X.(*ssa.Alloc); ok {
			b := ret.Block()
			for k := len(b.Instrs) - 1; k >= 0; k-- {
				if st, ok := b.Instrs[k].(*ssa.Store); ok && st.Addr == ssa.Value(al) {
					return Term(st.Val)
				}
			}
		}
	}
	return Term(v)
}

var reCache = map[string]*regexp.Regexp{}

func regexpMustCompile(pattern string) *regexp.Regexp {
	if re, ok := reCache[pattern]; ok {
		return re
	}
	re := regexp.MustCompile("^(?:" + pattern + ")$")
	reCache[pattern] = re
	return re
}

// unwrapLoadAddr: for a value of the form *(&X[i].f) or *(&X[i]) return the IndexAddr.
func unwrapLoadAddr(v ssa.Value) (*ssa.IndexAddr, bool) {
	for i := 0; i < 6; i++ {
		switch x := v.(type) {
		case *ssa.UnOp:
			v = x.X
		case *ssa.FieldAddr:
			v = x.X
		case *ssa.IndexAddr:
			return x, true
		default:
			return nil, false
		}
	}
	return nil, false
}

// methodValueTaken: fn is used as a value (bound method / function value) somewhere in the module.
func methodValueTaken(p *Program, fn *ssa.Function) bool {
	for _, f := range p.SrcFuncs() {
		for _, b := range f.Blocks {
			for _, in := range b.Instrs {
				switch x := in.(type) {
				case *ssa.MakeClosure:
					if bf, ok := x.Fn.(*ssa.Function); ok && bf.Synthetic != "" && strings.Contains(bf.Name(), fn.Name()+"$bound") {
						return true
					}
				}
				for _, op := range in.Operands(nil) {
					if *op == ssa.Value(fn) {
						if ci, ok := in.(ssa.CallInstruction); ok && ci.Common().Value == ssa.Value(fn) {
							continue
						}
						return true
					}
				}
			}
		}
	}
	return false
}

// effReturns: the return instructions at which fn's results are decided.  A
// return that merely forwards the results of a transparent helper called right
// before it (`return s.secondHalf(...)`, the shape a split function has) is
// replaced by the helper's own returns.
func effReturns(fn *ssa.Function) []*ssa.Return {
	var out []*ssa.Return
	for _, b := range fn.Blocks {
		if len(b.Instrs) == 0 || (len(b.Preds) == 0 && b.Index != 0) {
			continue
		}
		ret, ok := b.Instrs[len(b.Instrs)-1].(*ssa.Return)
		if !ok {
			continue
		}
		if h := forwardedHelper(ret); h != nil {
			out = append(out, effReturns(h)...)
			continue
		}
		out = append(out, ret)
	}
	return out
}

func forwardedHelper(ret *ssa.Return) *ssa.Function {
	if len(ret.Results) == 0 {
		return nil
	}
	var call *ssa.Call
	for i, r := range ret.Results {
		var c *ssa.Call
		switch x := r.(type) {
		case *ssa.Extract:
			if x.Index != i {
				return nil
			}
			c, _ = x.Tuple.(*ssa.Call)
		case *ssa.Call:
			if len(ret.Results) != 1 {
				return nil
			}
			c = x
		}
		if c == nil || (call != nil && c != call) {
			return nil
		}
		call = c
	}
	return transparentCallee(call)
}
