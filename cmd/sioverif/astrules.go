package main

// Syntax-tree pattern rules (A8), type-resolved.

import (
	"go/ast"
	"go/importer"
	"go/parser"
	"go/token"
	"go/types"

	"golang.org/x/tools/go/packages"
)

// DelInRange is one `S = append(S[:i], S[i+1:]...)` (direct or through a local
// remove-closure) executed inside `for i, … := range S`.
type DelInRange struct {
	Pos        token.Pos
	Func       string // enclosing declared function
	Slice      string
	LeavesLoop bool // the statement is immediately followed by return / a break that leaves the range loop
}

func isDeleteAppend(info *types.Info, call *ast.CallExpr, sliceStr string, key types.Object, sliceIsParam bool) bool {
	// append(S[:k], S[k+1:]...)
	id, ok := call.Fun.(*ast.Ident)
	if !ok || id.Name != "append" || len(call.Args) != 2 || !call.Ellipsis.IsValid() {
		return false
	}
	if _, isBuiltin := info.Uses[id].(*types.Builtin); !isBuiltin {
		return false
	}
	a, ok1 := call.Args[0].(*ast.SliceExpr)
	b, ok2 := call.Args[1].(*ast.SliceExpr)
	if !ok1 || !ok2 {
		return false
	}
	if types.ExprString(a.X) != sliceStr || types.ExprString(b.X) != sliceStr {
		return false
	}
	if a.Low != nil || a.High == nil || b.High != nil || b.Low == nil {
		return false
	}
	hi, ok := a.High.(*ast.Ident)
	if !ok || info.Uses[hi] != key {
		return false
	}
	be, ok := b.Low.(*ast.BinaryExpr)
	if !ok || be.Op != token.ADD {
		return false
	}
	x, ok := be.X.(*ast.Ident)
	if !ok || info.Uses[x] != key {
		return false
	}
	if lit, ok := be.Y.(*ast.BasicLit); !ok || lit.Value != "1" {
		return false
	}
	return true
}

// removeClosures finds local `name := func(slice []T, s int) []T { return append(slice[:s], slice[s+1:]...) }`.
func removeClosures(info *types.Info, body *ast.BlockStmt) map[types.Object]bool {
	out := map[types.Object]bool{}
	ast.Inspect(body, func(n ast.Node) bool {
		as, ok := n.(*ast.AssignStmt)
		if !ok || len(as.Lhs) != 1 || len(as.Rhs) != 1 {
			return true
		}
		lit, ok := as.Rhs[0].(*ast.FuncLit)
		if !ok || lit.Type.Params == nil || lit.Type.Params.NumFields() != 2 {
			return true
		}
		id, ok := as.Lhs[0].(*ast.Ident)
		if !ok {
			return true
		}
		var p0, p1 *ast.Ident
		var all []*ast.Ident
		for _, f := range lit.Type.Params.List {
			all = append(all, f.Names...)
		}
		if len(all) != 2 {
			return true
		}
		p0, p1 = all[0], all[1]
		for _, st := range lit.Body.List {
			ret, ok := st.(*ast.ReturnStmt)
			if !ok || len(ret.Results) != 1 {
				continue
			}
			call, ok := ret.Results[0].(*ast.CallExpr)
			if !ok {
				continue
			}
			if isDeleteAppend(info, call, p0.Name, info.Defs[p1], true) {
				if obj := info.Defs[id]; obj != nil {
					out[obj] = true
				} else if obj := info.Uses[id]; obj != nil {
					out[obj] = true
				}
			}
		}
		return true
	})
	return out
}

func findDeleteInRange(info *types.Info, file *ast.File) []DelInRange {
	var out []DelInRange
	for _, d := range file.Decls {
		fd, ok := d.(*ast.FuncDecl)
		if !ok || fd.Body == nil {
			continue
		}
		name := fd.Name.Name
		if fd.Recv != nil && len(fd.Recv.List) == 1 {
			name = types.ExprString(fd.Recv.List[0].Type) + "." + name
		}
		out = append(out, delInRangeIn(info, fd.Body, name)...)
	}
	return out
}

func delInRangeIn(info *types.Info, body *ast.BlockStmt, fname string) []DelInRange {
	var out []DelInRange
	removers := removeClosures(info, body)
	// find range statements anywhere (including inside closures)
	ast.Inspect(body, func(n ast.Node) bool {
		var rs ast.Stmt
		var loopBody *ast.BlockStmt
		var key types.Object
		sliceStr := "" // "" = any slice (index loops)
		switch l := n.(type) {
		case *ast.RangeStmt:
			if l.Key == nil {
				return true
			}
			keyID, ok := l.Key.(*ast.Ident)
			if !ok || keyID.Name == "_" {
				return true
			}
			key = info.Defs[keyID]
			if key == nil {
				key = info.Uses[keyID]
			}
			if tv, ok := info.Types[l.X]; ok {
				if _, isSlice := tv.Type.Underlying().(*types.Slice); !isSlice {
					return true
				}
			}
			sliceStr = types.ExprString(l.X)
			rs, loopBody = l, l.Body
		case *ast.ForStmt:
			// for …; …; i++  — a forward index loop
			inc, ok := l.Post.(*ast.IncDecStmt)
			if !ok || inc.Tok != token.INC {
				return true
			}
			id, ok := inc.X.(*ast.Ident)
			if !ok {
				return true
			}
			key = info.Uses[id]
			if key == nil {
				key = info.Defs[id]
			}
			rs, loopBody = l, l.Body
		default:
			return true
		}
		if key == nil {
			return true
		}
		var stack []ast.Node
		ast.Inspect(loopBody, func(n ast.Node) bool {
			if n == nil {
				stack = stack[:len(stack)-1]
				return true
			}
			if _, ok := n.(*ast.FuncLit); ok {
				return false
			}
			stack = append(stack, n)
			blk, ok := n.(*ast.BlockStmt)
			if !ok {
				return true
			}
			for i, st := range blk.List {
				as, ok := st.(*ast.AssignStmt)
				if !ok || len(as.Lhs) != 1 || len(as.Rhs) != 1 {
					continue
				}
				sliceStr := sliceStr
				if sliceStr == "" {
					sliceStr = types.ExprString(as.Lhs[0])
				}
				if types.ExprString(as.Lhs[0]) != sliceStr {
					continue
				}
				call, ok := as.Rhs[0].(*ast.CallExpr)
				if !ok {
					continue
				}
				del := isDeleteAppend(info, call, sliceStr, key, false)
				if !del {
					if fid, ok := call.Fun.(*ast.Ident); ok && removers[info.Uses[fid]] && len(call.Args) == 2 && types.ExprString(call.Args[0]) == sliceStr {
						if kid, ok := call.Args[1].(*ast.Ident); ok && info.Uses[kid] == key {
							del = true
						}
					}
				}
				if !del {
					continue
				}
				leaves := false
				if i+1 < len(blk.List) {
					switch nx := blk.List[i+1].(type) {
					case *ast.ReturnStmt:
						leaves = true
					case *ast.IncDecStmt:
						// index loops: `i--` right after the deletion re-examines the slot
						if id, ok := nx.X.(*ast.Ident); ok && nx.Tok == token.DEC && info.Uses[id] == key {
							if _, isFor := rs.(*ast.ForStmt); isFor {
								leaves = true
							}
						}
					case *ast.BranchStmt:
						if nx.Tok == token.BREAK {
							if nx.Label != nil {
								leaves = labelOf(body, rs) == nx.Label.Name
							} else {
								// the innermost breakable statement enclosing the break must be rs itself
								inner := ast.Node(rs)
								for _, s := range stack {
									switch s.(type) {
									case *ast.ForStmt, *ast.RangeStmt, *ast.SwitchStmt, *ast.TypeSwitchStmt, *ast.SelectStmt:
										inner = s
									}
								}
								leaves = inner == ast.Node(rs)
							}
						}
					}
				}
				out = append(out, DelInRange{Pos: as.Pos(), Func: fname, Slice: sliceStr, LeavesLoop: leaves})
			}
			return true
		})
		return true
	})
	return out
}

func labelOf(root ast.Node, target ast.Stmt) string {
	name := ""
	ast.Inspect(root, func(n ast.Node) bool {
		if ls, ok := n.(*ast.LabeledStmt); ok && ls.Stmt == target {
			name = ls.Label.Name
		}
		return true
	})
	return name
}

// ---------------------------------------------------------- positive control

const delInRangeControl = `package ctl
type T struct{ xs []int }
func (t *T) bad(v int) {
	for i, x := range t.xs {
		if x == v {
			t.xs = append(t.xs[:i], t.xs[i+1:]...)
		}
	}
}
func (t *T) badClosure(vs ...int) {
	remove := func(slice []int, s int) []int { return append(slice[:s], slice[s+1:]...) }
	for i, x := range t.xs {
		for _, v := range vs {
			if x == v {
				t.xs = remove(t.xs, i)
				break
			}
		}
	}
}
func (t *T) badIndexLoop(v int) {
	list := t.xs
	for i := 0; i < len(list); i++ {
		if list[i] == v {
			list = append(list[:i], list[i+1:]...)
		}
	}
	t.xs = list
}
func (t *T) goodIndexLoop(v int) {
	for i := 0; i < len(t.xs); i++ {
		if t.xs[i] == v {
			t.xs = append(t.xs[:i], t.xs[i+1:]...)
			i--
		}
	}
}
func (t *T) good(v int) {
	for i, x := range t.xs {
		if x == v {
			t.xs = append(t.xs[:i], t.xs[i+1:]...)
			break
		}
	}
}
func (t *T) goodFilter(v int) {
	kept := t.xs[:0]
	for _, x := range t.xs {
		if x != v {
			kept = append(kept, x)
		}
	}
	t.xs = kept
}
`

// controlDelInRange runs the matcher on a tiny embedded program that must
// yield exactly two violating and one safe instance; otherwise the matcher is
// broken and nothing it says about /repo can be trusted.
func controlDelInRange() {
	fset := token.NewFileSet()
	f, err := parser.ParseFile(fset, "ctl.go", delInRangeControl, 0)
	if err != nil {
		anchorFail("control: %v", err)
	}
	info := &types.Info{Types: map[ast.Expr]types.TypeAndValue{}, Defs: map[*ast.Ident]types.Object{}, Uses: map[*ast.Ident]types.Object{}}
	conf := types.Config{Importer: importer.Default()}
	if _, err := conf.Check("ctl", fset, []*ast.File{f}, info); err != nil {
		anchorFail("control: %v", err)
	}
	sites := findDeleteInRange(info, f)
	bad, good := 0, 0
	for _, s := range sites {
		if s.LeavesLoop {
			good++
		} else {
			bad++
		}
	}
	if bad != 3 || good != 2 {
		anchorFail("positive control for delete-inside-range failed: bad=%d good=%d (want 3,2)", bad, good)
	}
}

// fileByName returns the syntax of the file with the given base name in pkg.
func fileByName(p *Program, pk *packages.Package, base string) *ast.File {
	for i, f := range pk.CompiledGoFiles {
		if len(f) >= len(base) && f[len(f)-len(base):] == base && (len(f) == len(base) || f[len(f)-len(base)-1] == '/') {
			return pk.Syntax[i]
		}
	}
	anchorFail("file %s not found in package %s", base, pk.PkgPath)
	return nil
}
