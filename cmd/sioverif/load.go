package main

// Loading of /repo (type-checked syntax + SSA) and anchor lookup.
//
// Everything the rules look at is resolved through go/types and go/ssa; an
// anchor (package, type, method, field) that no longer resolves aborts the run
// with exit code 2 ("cannot decide") rather than letting a rule pass vacuously.

import (
	"fmt"
	"go/ast"
	"go/token"
	"go/types"
	"os"
	"sort"
	"strings"

	"golang.org/x/tools/go/callgraph"
	"golang.org/x/tools/go/callgraph/cha"
	"golang.org/x/tools/go/callgraph/vta"
	"golang.org/x/tools/go/packages"
	"golang.org/x/tools/go/ssa"
	"golang.org/x/tools/go/ssa/ssautil"
)

const modPath = "github.com/karagenc/socket.io-go"

// short package names used in rule tables and reports
var shortNames = map[string]string{
	"":                                "sio",
	"adapter":                         "adapter",
	"parser":                          "parser",
	"parser/json":                     "jsonparser",
	"engine.io":                       "eio",
	"engine.io/parser":                "eioparser",
	"engine.io/transport":             "transport",
	"engine.io/transport/polling":     "polling",
	"engine.io/transport/websocket":   "websocket",
	"engine.io/transport/webtransport": "webtransport",
	"internal/sync":                   "isync",
	"internal/utils":                  "utils",
}

type anchorError struct{ msg string }

func (e anchorError) Error() string { return e.msg }

func anchorFail(format string, a ...any) {
	panic(anchorError{fmt.Sprintf(format, a...)})
}

type Program struct {
	RepoDir string
	Tags    string
	Fset    *token.FileSet
	Pkgs    []*packages.Package
	byShort map[string]*packages.Package
	Prog    *ssa.Program
	ssaPkg  map[string]*ssa.Package

	cg      *callgraph.Graph
	allFns  map[*ssa.Function]bool
	srcFns  []*ssa.Function // all functions (incl. anonymous) with source in the module
	fnOfLit map[*ast.FuncLit]*ssa.Function
}

func shortOf(pkgPath string) (string, bool) {
	if pkgPath == modPath {
		return "sio", true
	}
	if strings.HasPrefix(pkgPath, modPath+"/") {
		rel := strings.TrimPrefix(pkgPath, modPath+"/")
		if s, ok := shortNames[rel]; ok {
			return s, true
		}
		return rel, true
	}
	return pkgPath, false
}

func Load(repoDir, tags string, env []string) *Program {
	cfg := &packages.Config{
		Mode:  packages.LoadAllSyntax,
		Dir:   repoDir,
		Tests: false,
		Env:   append(os.Environ(), append([]string{"GOFLAGS=-mod=mod", "GOPROXY=off", "GOSUMDB=off", "GOTOOLCHAIN=local", "GOWORK=off"}, env...)...),
	}
	if tags != "" {
		cfg.BuildFlags = []string{"-tags", tags}
	}
	pkgs, err := packages.Load(cfg, "./...")
	if err != nil {
		anchorFail("load: %v", err)
	}
	if len(pkgs) == 0 {
		anchorFail("load: zero packages")
	}
	p := &Program{RepoDir: repoDir, Tags: tags, Pkgs: pkgs, byShort: map[string]*packages.Package{}, ssaPkg: map[string]*ssa.Package{}}
	nerr := 0
	packages.Visit(pkgs, nil, func(pk *packages.Package) {
		for _, e := range pk.Errors {
			if strings.HasPrefix(pk.PkgPath, modPath) {
				fmt.Fprintf(os.Stderr, "load error: %s: %v\n", pk.PkgPath, e)
				nerr++
			}
		}
	})
	if nerr > 0 {
		anchorFail("load: %d type/load errors in module packages", nerr)
	}
	p.Fset = pkgs[0].Fset
	prog, spkgs := ssautil.AllPackages(pkgs, ssa.InstantiateGenerics)
	prog.Build()
	p.Prog = prog
	for i, pk := range pkgs {
		s, in := shortOf(pk.PkgPath)
		if !in {
			continue
		}
		p.byShort[s] = pk
		p.ssaPkg[s] = spkgs[i]
	}
	for _, need := range []string{"sio", "adapter", "parser", "jsonparser", "eio", "eioparser", "transport", "polling", "websocket", "webtransport"} {
		if p.byShort[need] == nil || p.ssaPkg[need] == nil {
			anchorFail("package %q not loaded", need)
		}
	}
	p.collectSrcFns()
	p.buildDisplayNames()
	inheritProg = p
	inheritMemo = map[*ssa.Function]*LockInfo{}
	return p
}

func (p *Program) collectSrcFns() {
	p.fnOfLit = map[*ast.FuncLit]*ssa.Function{}
	seen := map[*ssa.Function]bool{}
	var add func(f *ssa.Function)
	add = func(f *ssa.Function) {
		if f == nil || seen[f] {
			return
		}
		seen[f] = true
		if f.Blocks != nil {
			p.srcFns = append(p.srcFns, f)
		}
		if lit, ok := f.Syntax().(*ast.FuncLit); ok {
			p.fnOfLit[lit] = f
		}
		for _, a := range f.AnonFuncs {
			add(a)
		}
	}
	for short, sp := range p.ssaPkg {
		_ = short
		for _, m := range sp.Members {
			switch m := m.(type) {
			case *ssa.Function:
				add(m)
			case *ssa.Type:
				nt, ok := m.Type().(*types.Named)
				if !ok {
					continue
				}
				for i := 0; i < nt.NumMethods(); i++ {
					add(p.Prog.FuncValue(nt.Method(i)))
				}
			}
		}
	}
	sort.Slice(p.srcFns, func(i, j int) bool { return p.srcFns[i].Pos() < p.srcFns[j].Pos() })
}

// IsExample reports whether fn belongs to an example program (loaded, but not
// subject to rules).
func (p *Program) inScope(fn *ssa.Function) bool {
	if fn.Pkg == nil {
		return false
	}
	path := fn.Pkg.Pkg.Path()
	if !strings.HasPrefix(path, modPath) {
		return false
	}
	if strings.Contains(path, "/examples/") || strings.HasSuffix(path, "/examples") {
		return false
	}
	return true
}

// SrcFuncs returns every function of the module (outside examples), including
// anonymous ones and generic origins.
func (p *Program) SrcFuncs() []*ssa.Function {
	var out []*ssa.Function
	for _, f := range p.srcFns {
		if p.inScope(f) {
			out = append(out, f)
		}
	}
	return out
}

func (p *Program) Pkg(short string) *packages.Package {
	pk := p.byShort[short]
	if pk == nil {
		anchorFail("package %q not found", short)
	}
	return pk
}

func (p *Program) Named(short, typeName string) *types.Named {
	obj := p.Pkg(short).Types.Scope().Lookup(typeName)
	if obj == nil {
		anchorFail("type %s.%s not found", short, typeName)
	}
	tn, ok := obj.(*types.TypeName)
	if !ok {
		anchorFail("%s.%s is not a type", short, typeName)
	}
	nt, ok := types.Unalias(tn.Type()).(*types.Named)
	if !ok {
		anchorFail("%s.%s is not a named type", short, typeName)
	}
	return nt
}

func (p *Program) Struct(short, typeName string) *types.Struct {
	st, ok := p.Named(short, typeName).Underlying().(*types.Struct)
	if !ok {
		anchorFail("%s.%s is not a struct", short, typeName)
	}
	return st
}

func (p *Program) Field(short, typeName, field string) *types.Var {
	st := p.Struct(short, typeName)
	for i := 0; i < st.NumFields(); i++ {
		if fdisp(st.Field(i)) == field {
			return st.Field(i)
		}
	}
	anchorFail("field %s.%s.%s not found", short, typeName, field)
	return nil
}

func (p *Program) HasField(short, typeName, field string) bool {
	st := p.Struct(short, typeName)
	for i := 0; i < st.NumFields(); i++ {
		if fdisp(st.Field(i)) == field {
			return true
		}
	}
	return false
}

// MethodObj returns the *types.Func of a (possibly generic) method.
func (p *Program) MethodObj(short, typeName, method string) *types.Func {
	nt := p.Named(short, typeName)
	for i := 0; i < nt.NumMethods(); i++ {
		if fndisp(nt.Method(i)) == method {
			return nt.Method(i)
		}
	}
	if it, ok := nt.Underlying().(*types.Interface); ok {
		for i := 0; i < it.NumMethods(); i++ {
			if it.Method(i).Name() == method {
				return it.Method(i)
			}
		}
	}
	anchorFail("method %s.%s.%s not found", short, typeName, method)
	return nil
}

func (p *Program) HasMethod(short, typeName, method string) bool {
	nt := p.Named(short, typeName)
	for i := 0; i < nt.NumMethods(); i++ {
		if fndisp(nt.Method(i)) == method {
			return true
		}
	}
	return false
}

// FnOpt is Fn for helpers a refactoring may inline away: nil when the function does not exist.
func (p *Program) FnOpt(short, name string) (fn *ssa.Function) {
	defer func() {
		if r := recover(); r != nil {
			if _, ok := r.(anchorError); ok {
				fn = nil
				return
			}
			panic(r)
		}
	}()
	return p.Fn(short, name)
}

// Fn resolves "Type.method" or "func" in package short to its SSA function.
func (p *Program) Fn(short, name string) *ssa.Function {
	if i := strings.Index(name, "."); i >= 0 {
		m := p.MethodObj(short, name[:i], name[i+1:])
		f := p.Prog.FuncValue(m)
		if f == nil || f.Blocks == nil {
			anchorFail("no SSA body for %s.%s", short, name)
		}
		return f
	}
	sp := p.ssaPkg[short]
	if sp == nil {
		anchorFail("package %q not found", short)
	}
	f := sp.Func(name)
	if f == nil {
		// renamed unexported function: look it up under its reference name
		for _, m := range sp.Members {
			if mf, ok := m.(*ssa.Function); ok {
				if obj, ok := mf.Object().(*types.Func); ok && fndisp(obj) == name {
					f = mf
				}
			}
		}
	}
	if f == nil || f.Blocks == nil {
		anchorFail("function %s.%s not found", short, name)
	}
	return f
}

func (p *Program) FuncObj(short, name string) *types.Func {
	obj := p.Pkg(short).Types.Scope().Lookup(name)
	f, ok := obj.(*types.Func)
	if !ok {
		anchorFail("function %s.%s not found", short, name)
	}
	return f
}

func (p *Program) Global(short, name string) *ssa.Global {
	sp := p.ssaPkg[short]
	g, ok := sp.Members[name].(*ssa.Global)
	if !ok {
		anchorFail("global %s.%s not found", short, name)
	}
	return g
}

func (p *Program) ConstVal(short, name string) string {
	obj := p.Pkg(short).Types.Scope().Lookup(name)
	c, ok := obj.(*types.Const)
	if !ok {
		anchorFail("constant %s.%s not found", short, name)
	}
	return c.Val().ExactString()
}

// WithAnons returns fn followed by all its nested anonymous functions.
func WithAnons(fn *ssa.Function) []*ssa.Function {
	out := []*ssa.Function{fn}
	for _, a := range fn.AnonFuncs {
		out = append(out, WithAnons(a)...)
	}
	// the closures of a transparent helper belong to its caller; the helper itself is reached
	// through the caller's instruction searches, so only its closures are added here
	for _, h := range transparentCalleesOf(fn) {
		for _, a := range h.AnonFuncs {
			out = append(out, WithAnons(a)...)
		}
		for _, hh := range transparentCalleesOf(h) {
			out = append(out, WithAnons(hh)[1:]...)
		}
	}
	return out
}

func (p *Program) Pos(pos token.Pos) string {
	if !pos.IsValid() {
		return "-"
	}
	ps := p.Fset.Position(pos)
	f := ps.Filename
	if strings.HasPrefix(f, p.RepoDir+"/") {
		f = strings.TrimPrefix(f, p.RepoDir+"/")
	}
	return fmt.Sprintf("%s:%d:%d", f, ps.Line, ps.Column)
}

// FuncName gives a stable short name for an SSA function:
// sio.(*serverConn).onEIOPacket, sio.(*serverConn).onParserFinish$1, ...
func FuncName(fn *ssa.Function) string {
	if fn == nil {
		return "<nil>"
	}
	s := fn.String()
	if len(dispFunc) > 0 {
		top := fn
		for top.Parent() != nil {
			top = top.Parent()
		}
		if obj, ok := originOf(top).Object().(*types.Func); ok {
			if n, ok := dispFunc[obj.Origin()]; ok {
				// replace the function's own name (last component before any $ / [ suffix of closures and instances)
				ts := top.String()
				if i := strings.LastIndex(ts, "."+obj.Name()); i >= 0 {
					renamed := ts[:i] + "." + n + ts[i+1+len(obj.Name()):]
					s = renamed + strings.TrimPrefix(s, ts)
				}
			}
		}
	}
	return shortenPaths(s)
}

// fndisp: the display (reference) name of a function or method.
func fndisp(f *types.Func) string {
	if n, ok := dispFunc[f.Origin()]; ok {
		return n
	}
	return f.Name()
}

func shortenPaths(s string) string {
	// longest paths first
	type kv struct{ k, v string }
	var kvs []kv
	for rel, short := range shortNames {
		full := modPath
		if rel != "" {
			full += "/" + rel
		}
		kvs = append(kvs, kv{full, short})
	}
	sort.Slice(kvs, func(i, j int) bool { return len(kvs[i].k) > len(kvs[j].k) })
	for _, e := range kvs {
		s = strings.ReplaceAll(s, e.k+".", e.v+".")
	}
	s = strings.ReplaceAll(s, "github.com/deckarep/golang-set/v2.", "mapset.")
	s = strings.ReplaceAll(s, "nhooyr.io/websocket.", "nws.")
	return s
}

// CallGraph builds (once) a VTA-refined call graph of the whole program.
func (p *Program) CallGraph() *callgraph.Graph {
	if p.cg != nil {
		return p.cg
	}
	p.allFns = ssautil.AllFunctions(p.Prog)
	p.cg = vta.CallGraph(p.allFns, cha.CallGraph(p.Prog))
	return p.cg
}

// FileOf returns the parsed file containing pos, and its package.
func (p *Program) FileOf(pos token.Pos) (*ast.File, *packages.Package) {
	for _, pk := range p.byShort {
		for _, f := range pk.Syntax {
			if f.Pos() <= pos && pos <= f.End() {
				return f, pk
			}
		}
	}
	return nil, nil
}
