package main

// C19 — no lost wake-up.  Also hosts the generic "signal channel" census used
// by C14 (heartbeat mailboxes).

import (
	"fmt"
	"go/token"
	"go/types"
	"strings"

	"golang.org/x/tools/go/ssa"
)

func init() {
	register(&PropertySpec{
		ID:         "C19",
		NotDecided: "absence of lost wake-ups over all interleavings (a schedule property); only the buffered-signal discipline, publish-before-signal, re-read-after-wake and the drainer-loop shape are decided.",
		Run:        runC19,
	})
}

type chanField struct {
	short, typ, field string
}

// signalChanInfo collects, for a channel-typed struct field, its sends,
// receives and creation sites over the whole module.
type signalChanInfo struct {
	field       *types.Var
	owner       string
	sendsNB     []ssa.Instruction // non-blocking sends (select with default)
	sendsBlk    []ssa.Instruction
	recvs       []ssa.Instruction
	closes      []ssa.Instruction
	makes       []*ssa.MakeChan
	otherStores []ssa.Instruction
}

func chanFieldOf(v ssa.Value) *types.Var {
	// v is the channel value: a load of a FieldAddr
	if u, ok := v.(*ssa.UnOp); ok && u.Op == token.MUL {
		if fa, ok := u.X.(*ssa.FieldAddr); ok {
			return fieldVar(fa.X.Type(), fa.Field)
		}
	}
	return nil
}

func signalCensus(p *Program) map[*types.Var]*signalChanInfo {
	m := map[*types.Var]*signalChanInfo{}
	get := func(f *types.Var) *signalChanInfo {
		if m[f] == nil {
			m[f] = &signalChanInfo{field: f}
		}
		return m[f]
	}
	for _, fn := range p.SrcFuncs() {
		for _, b := range fn.Blocks {
			for _, in := range b.Instrs {
				switch in := in.(type) {
				case *ssa.Select:
					for _, st := range in.States {
						f := chanFieldOf(st.Chan)
						if f == nil {
							continue
						}
						if st.Dir == types.SendOnly {
							if in.Blocking {
								get(f).sendsBlk = append(get(f).sendsBlk, in)
							} else {
								get(f).sendsNB = append(get(f).sendsNB, in)
							}
						} else {
							get(f).recvs = append(get(f).recvs, in)
						}
					}
				case *ssa.Send:
					if f := chanFieldOf(in.Chan); f != nil {
						get(f).sendsBlk = append(get(f).sendsBlk, in)
					}
				case *ssa.UnOp:
					if in.Op == token.ARROW {
						if f := chanFieldOf(in.X); f != nil {
							get(f).recvs = append(get(f).recvs, in)
						}
					}
				case *ssa.Call:
					if bi, ok := in.Call.Value.(*ssa.Builtin); ok && bi.Name() == "close" {
						if f := chanFieldOf(in.Call.Args[0]); f != nil {
							get(f).closes = append(get(f).closes, in)
						}
					}
				case *ssa.Store:
					fa, ok := in.Addr.(*ssa.FieldAddr)
					if !ok {
						continue
					}
					f := fieldVar(fa.X.Type(), fa.Field)
					if f == nil {
						continue
					}
					if _, isChan := f.Type().Underlying().(*types.Chan); !isChan {
						continue
					}
					v := in.Val
					if ct, ok := v.(*ssa.ChangeType); ok {
						v = ct.X
					}
					if mk, ok := v.(*ssa.MakeChan); ok {
						get(f).makes = append(get(f).makes, mk)
					} else {
						get(f).otherStores = append(get(f).otherStores, in)
					}
				}
			}
		}
	}
	return m
}

// checkBufferedSignal: rule "a channel field all of whose sends are
// non-blocking and which is received somewhere must be created with
// capacity >= 1" applied to the given fields.
func checkBufferedSignal(c *Ctx, rule string, fields []chanField, exceptions map[string]string) {
	census := signalCensus(c.P)
	for _, cf := range fields {
		fv := c.P.Field(cf.short, cf.typ, cf.field)
		name := cf.short + "." + cf.typ + "." + cf.field
		info := census[fv]
		if info == nil {
			anchorFail("signal channel %s has no sends, receives or creation site", name)
		}
		if reason, ok := exceptions[name]; ok {
			c.Except(rule, name, fv.Pos(), reason)
			continue
		}
		if len(info.sendsBlk) > 0 || len(info.sendsNB) == 0 {
			// not a drop-if-full signal: a blocking send cannot be lost
			c.Ob(rule, name, fv.Pos(), len(info.sendsNB)+len(info.sendsBlk) > 0, fmt.Sprintf("non-blocking sends=%d blocking sends=%d: not a drop-if-full signal; rule satisfied trivially only if a sender exists", len(info.sendsNB), len(info.sendsBlk)))
			continue
		}
		if len(info.makes) == 0 {
			c.Ob(rule, name, fv.Pos(), false, "no make(chan) stored to this field was found")
			continue
		}
		if len(info.otherStores) > 0 {
			c.Ob(rule, name+"/store", info.otherStores[0].Pos(), false, "the field is assigned a channel that is not a make(chan …) expression; its capacity cannot be established")
		}
		for _, mk := range info.makes {
			k, isConst := mk.Size.(*ssa.Const)
			ok := isConst && k.Int64() >= 1
			c.Ob(rule, name, mk.Pos(), ok, fmt.Sprintf("all %d sends are non-blocking (select with default), %d receive sites; created with capacity %s — a signal sent while no receiver is parked is dropped unless capacity >= 1", len(info.sendsNB), len(info.recvs), Term(mk.Size)))
		}
	}
	// discovery: report any other drop-if-full channel field in the module that is unbuffered
	for fv, info := range census {
		if len(info.sendsNB) == 0 || len(info.sendsBlk) > 0 || len(info.recvs) == 0 {
			continue
		}
		listed := false
		for _, cf := range fields {
			if c.P.Field(cf.short, cf.typ, cf.field) == fv {
				listed = true
			}
		}
		if !listed {
			c.Note("other drop-if-full signal channel discovered: %s (checked by its owning property)", fv.Name())
		}
	}
}

func runC19(c *Ctx) {
	p := c.P
	c.Rule("C19-D1", "a wake-up channel whose every send is non-blocking (select/default) and which a consumer waits on after a separately locked emptiness check must be created with capacity >= 1 (else a producer running between check and wait loses the signal)", 2)
	checkBufferedSignal(c, "C19-D1", []chanField{
		{"polling", "pollQueue", "ready"},
		{"sio", "packetQueue", "ready"},
		{"sio", "packetQueue", "drain"},
		{"sio", "packetQueue", "_reset"},
		{"sio", "packetQueue", "_close"},
	}, map[string]string{
		"sio.packetQueue.drain": "a missed drain signal only delays tearing the queue down (waitForDrain is bounded by its timeout); no packet waits on it",
	})

	c.Rule("C19-D2", "publish before signal: in add(), every path to the send on `ready` first stores the packets; and every path from that store to return performs the send", 2)
	for _, a := range []struct{ short, fn, recv string }{{"sio", "packetQueue.add", "pq"}, {"polling", "pollQueue.add", "pq"}} {
		fn := p.Fn(a.short, a.fn)
		recv := vname(fn.Params[0])
		isSig := func(in ssa.Instruction) bool {
			if s, ok := in.(*ssa.Select); ok {
				for _, st := range s.States {
					if st.Dir == types.SendOnly && Term(st.Chan) == recv+".ready" {
						return true
					}
				}
			}
			if s, ok := in.(*ssa.Send); ok {
				return Term(s.Chan) == recv+".ready"
			}
			return false
		}
		sigs := findInstrs(fn, isSig)
		if len(sigs) == 0 {
			c.Ob("C19-D2", a.short+"."+a.fn+"/signal", fn.Pos(), false, "no send on "+recv+".ready in add(): the consumer is never woken")
			continue
		}
		isStore := storePred(regexpQuote(recv + ".packets"))
		early, trail := CanReachAvoiding(fn, nil, isSig, isStore)
		c.Ob("C19-D2", a.short+"."+a.fn+"/store-before-signal", sigs[0].Pos(), !early, "a path reaches the signal without storing to "+recv+".packets: "+trailString(p, trail))
		stores := findInstrs(fn, isStore)
		if len(stores) == 0 {
			c.Ob("C19-D2", a.short+"."+a.fn+"/store", fn.Pos(), false, "add() never stores to "+recv+".packets")
		}
		for _, st := range stores {
			skip, trail := CanReachExitAvoiding(fn, st, isSig)
			c.Ob("C19-D2", a.short+"."+a.fn+"/signal-after-store", st.Pos(), !skip, "a path from the store returns without signalling `ready`: "+trailString(p, trail))
		}
		// all frames of one call are published in one critical section (shared with C02-D1)
	}

	c.Rule("C19-D3", "re-read after wake: once a token was received from `ready`, the consumer calls get() before it returns AND before it blocks again (a token consumed without re-reading strands the packets it announced)", 2)
	for _, a := range []struct{ short, fn string }{{"sio", "packetQueue.poll"}, {"polling", "pollQueue.poll"}} {
		fn := p.Fn(a.short, a.fn)
		recv := vname(fn.Params[0])
		isGet := callPred(`\(\*` + a.short + `\.` + strings.Split(a.fn, ".")[0] + `\)\.get`)
		isBlockingWait := func(in ssa.Instruction) bool {
			switch x := in.(type) {
			case *ssa.Select:
				return x.Blocking
			case *ssa.UnOp:
				return x.Op == token.ARROW
			}
			return false
		}
		check := func(from ssa.Instruction, startBlock *ssa.BasicBlock, pos token.Pos) {
			var first ssa.Instruction = from
			if startBlock != nil {
				// start at the head of the case body: emulate "after a pseudo instruction before the block"
				if isGet(startBlock.Instrs[0]) {
					c.Ob("C19-D3", a.short+"."+a.fn, pos, true, "get() is the first call of the `<-ready` case")
					return
				}
				first = startBlock.Instrs[0]
				if isBlockingWait(first) {
					c.Ob("C19-D3", a.short+"."+a.fn, pos, false, "the `<-ready` case blocks again before calling get()")
					return
				}
			}
			skip, trail := CanReachExitAvoiding(fn, first, isGet)
			again, trail2 := CanReachAvoiding(fn, first, isBlockingWait, isGet)
			switch {
			case skip:
				c.Ob("C19-D3", a.short+"."+a.fn, pos, false, "after `<-ready` a path returns without calling get(): "+trailString(p, trail))
			case again:
				c.Ob("C19-D3", a.short+"."+a.fn, pos, false, "after a token was taken from `ready` a path blocks again without calling get(): the packets announced by that token wait for an unrelated wake-up or the timeout: "+trailString(p, trail2))
			default:
				c.Ob("C19-D3", a.short+"."+a.fn, pos, true, "every path from `<-ready` calls get() before returning or blocking again")
			}
		}
		found := 0
		for _, st := range SelectStates(fn) {
			if st.Send || st.Chan != recv+".ready" {
				continue
			}
			found++
			blks := blocksOfSelectCase(st.Sel, st.Index)
			if len(blks) == 0 {
				// empty case bodies: all cases continue right after the select
				check(st.Sel, nil, st.Sel.Pos())
				continue
			}
			for _, b := range blks {
				check(nil, b, st.Sel.Pos())
			}
		}
		for _, in := range findInstrs(fn, func(in ssa.Instruction) bool {
			u, ok := in.(*ssa.UnOp)
			return ok && u.Op == token.ARROW && Term(u.X) == recv+".ready"
		}) {
			found++
			check(in, nil, in.Pos())
		}
		if found == 0 {
			c.Ob("C19-D3", a.short+"."+a.fn, fn.Pos(), false, "poll() never waits on `ready`")
		}
	}

	c.Rule("C19-D3b", "a poll that can be woken by a stale token must not answer empty early: pollQueue.poll returns an empty result only after the timeout case (every return not preceded by the timeout receive yields packets obtained from get() under a non-empty test), packetQueue.poll reports ok=false for an empty wake-up and its caller retries", 1)
	{
		// packetQueue.poll: ok result true only when len(packets) != 0 ; pollAndSend continues when !ok (D4).
		fn := p.Fn("sio", "packetQueue.poll")
		for _, b := range fn.Blocks {
			ret, ok := b.Instrs[len(b.Instrs)-1].(*ssa.Return)
			if !ok || len(ret.Results) != 3 {
				continue
			}
			okv := Term(ret.Results[1])
			if okv == "false" {
				continue
			}
			// ok may be true here: require the guard len(get()) != 0 on the path that makes it true
			good := false
			if okv == "true" {
				good = HasGuard(ret, `\(len\(pq\.get\(\)\) != 0\)==true`) || HasGuard(ret, `\(len\(pq\.get\(\)\) == 0\)==false`) || HasGuard(ret, `\(len\(pq\.get\(\)\) > 0\)==true`)
			} else if ph, isPhi := ret.Results[1].(*ssa.Phi); isPhi {
				good = true
				for i, e := range ph.Edges {
					if k, isC := e.(*ssa.Const); isC && Term(k) == "true" {
						// predecessor i must be guarded by the non-empty test
						pred := ph.Block().Preds[i]
						last := pred.Instrs[len(pred.Instrs)-1]
						if !(HasGuard(last, `\(len\(pq\.get\(\)\) != 0\)==true`) || HasGuard(last, `\(len\(pq\.get\(\)\) > 0\)==true`)) {
							good = false
						}
					} else if !isC {
						good = false
					}
				}
			}
			c.Ob("C19-D3b", "sio.packetQueue.poll/ok-implies-nonempty", ret.Pos(), good, "poll() may report ok=true ("+okv+") without a dominating non-empty test of get()'s result")
		}
	}

	c.Rule("C19-D4", "drainer loop: pollAndSend returns only when poll reported closed, and forwards poll's packets unmodified to Socket.Send when ok", 2)
	{
		fn := p.Fn("sio", "packetQueue.pollAndSend")
		for _, b := range fn.Blocks {
			if ret, ok := b.Instrs[len(b.Instrs)-1].(*ssa.Return); ok {
				c.Ob("C19-D4", "sio.packetQueue.pollAndSend/return", ret.Pos(), HasGuard(ret, `pq\.poll\(\)#2==true`), fmt.Sprintf("return not guarded by closed==true; guards=%v", GuardTerms(ret)))
			}
		}
		sends := CallsTo(Calls(fn), `\(eio\.Socket\)\.Send`)
		if len(sends) == 0 {
			c.Ob("C19-D4", "sio.packetQueue.pollAndSend/send", fn.Pos(), false, "pollAndSend never calls Socket.Send")
		}
		for _, s := range sends {
			arg := Term(s.Common().Args[0])
			c.Ob("C19-D4", "sio.packetQueue.pollAndSend/send", s.Pos(), arg == "pq.poll()#0" && !s.IsGo(), "Send receives "+arg+" (expected exactly poll()'s first result, called synchronously)")
			// every ok result is forwarded: from poll call, assuming ok=true and closed=false, must reach Send
		}
		polls := CallsTo(Calls(fn), `\(\*sio\.packetQueue\)\.poll`)
		for _, pl := range polls {
			skip, trail := PrunedCanReach(fn, pl.Instr, []Assume{{`pq\.poll\(\)#1`, true}, {`pq\.poll\(\)#2`, false}}, callPred(`\(\*sio\.packetQueue\)\.poll`), callPred(`\(eio\.Socket\)\.Send`))
			c.Ob("C19-D4", "sio.packetQueue.pollAndSend/forward-every-ok", pl.Pos(), !skip, "with ok=true and closed=false a path polls again without calling Send: "+trailString(p, trail))
		}
		if len(polls) == 0 {
			c.Ob("C19-D4", "sio.packetQueue.pollAndSend/poll", fn.Pos(), false, "pollAndSend never calls poll")
		}
	}

	c.Rule("C19-D6", "drain/close hand-shake: the queue is closed (which wipes it and stops the drainer) only after waitForDrain returned, in both closePacketQueue helpers", 2)
	for _, fnn := range []string{"serverConn.closePacketQueue", "Manager.closePacketQueue"} {
		top := p.Fn("sio", fnn)
		n := 0
		for _, fn := range WithAnons(top) {
			cls := CallsTo(Calls(fn), `\(\*sio\.packetQueue\)\.close`)
			for _, cl := range cls {
				n++
				early, trail := CanReachAvoiding(fn, nil, func(in ssa.Instruction) bool { return in == cl.Instr }, callPred(`\(\*sio\.packetQueue\)\.waitForDrain`))
				same := true
				for _, w := range CallsTo(Calls(fn), `\(\*sio\.packetQueue\)\.waitForDrain`) {
					if stripAmp(Term(w.Common().Args[0])) != stripAmp(Term(cl.Common().Args[0])) {
						same = false
					}
				}
				c.Ob("C19-D6", "sio."+fnn, cl.Pos(), !early && same, "packetQueue.close() is reachable before waitForDrain() of the same queue: packets still queued behind an in-flight Send are wiped instead of sent: "+trailString(p, trail))
			}
		}
		if n == 0 {
			c.Ob("C19-D6", "sio."+fnn, top.Pos(), false, "closePacketQueue never closes the queue (the drainer goroutine would leak)")
		}
	}
	whoMayCall(c, "C19-D6", `\(\*sio\.packetQueue\)\.close`, []string{"(*sio.serverConn).closePacketQueue", "(*sio.Manager).closePacketQueue"}, true)
	// the drain token is a rendezvous: it must reach only a waiter that is parked NOW.  With a buffer, ordinary traffic
	// leaves a stale token behind and a later waitForDrain returns at once, before the in-flight batch was sent.
	{
		df := p.Field("sio", "packetQueue", "drain")
		n := 0
		for _, fn := range p.SrcFuncs() {
			for _, st := range findInstrs(fn, fieldStorePred(df)) {
				n++
				mk, isMk := st.(*ssa.Store).Val.(*ssa.MakeChan)
				okCap := false
				if isMk {
					if k, isK := mk.Size.(*ssa.Const); isK && k.Value != nil && k.Int64() == 0 {
						okCap = true
					}
				}
				c.Ob("C19-D6", "sio.packetQueue.drain/unbuffered@"+FuncName(fn), st.Pos(), okCap, "the drain channel is created as "+Term(st.(*ssa.Store).Val)+": it must be unbuffered, a buffered token outlives the drain it reports and lets close() wipe packets that were queued before the close began")
			}
		}
		if n == 0 {
			c.Undecided("C19-D6: no store to packetQueue.drain found")
		}
	}

	c.Rule("C19-D7", "a packet queued at the moment of an upgrade is carried over: the old transport's queue is read inside the write-locked swap region, after the swap (shared with C07-D2) — read before the swap, a Send in the gap "+
		"lands in the discarded transport's queue, where nobody polls any more", 12)
	swapRegion(c, "C19-D7")

	c.Rule("C19-D8", "nothing is enqueued on a transport that has been abandoned: the transport's Send is called on the transport field itself while transportMu is read-held (shared with C07-D8) — a Send that "+
		"picked the transport before upgradeTo swapped and drained it puts its packet on a queue nobody polls any more: no wake-up will ever come for it", 2)
	sendUnderTransportLock(c, "C19-D8")

	c.Rule("C19-D9", "a forced disconnect flushes first (F65, known finding): serverConn.close waits for the packet queue before it closes the Engine.IO socket", 1)
	forcedCloseFlushesFirst(c, "C19-D9")

	c.Rule("C19-D5", "who may consume: packetQueue.get/poll are called only from poll/pollAndSend; pollQueue.get only from poll and QueuedPackets (a second consumer would steal packets)", 3)
	whoMayCall(c, "C19-D5", `\(\*sio\.packetQueue\)\.get`, []string{"(*sio.packetQueue).poll"}, true)
	whoMayCall(c, "C19-D5", `\(\*sio\.packetQueue\)\.poll`, []string{"(*sio.packetQueue).pollAndSend"}, true)
	whoMayCall(c, "C19-D5", `\(\*polling\.pollQueue\)\.get`, []string{"(*polling.pollQueue).poll", "(*polling.ServerTransport).QueuedPackets"}, true)
}

func regexpQuote(s string) string {
	r := strings.NewReplacer(".", `\.`, "(", `\(`, ")", `\)`, "*", `\*`, "[", `\[`, "]", `\]`, "$", `\$`, "+", `\+`, "|", `\|`, "?", `\?`)
	return r.Replace(s)
}

// whoMayCall: every call site of callee (module-wide) lies in one of the
// allowed functions (top-level names).  needOne: at least one call must exist.
func whoMayCall(c *Ctx, rule, calleePattern string, allowed []string, needOne bool) {
	n := 0
	for _, fn := range c.P.SrcFuncs() {
		if siteOf(fn) != nil {
			continue // its calls are listed with its owner
		}
		for _, cs := range CallsTo(Calls(fn), calleePattern) {
			n++
			top := FuncName(ownerOf(EnclosingTop(fn)))
			ok := containsStr(allowed, top)
			c.Ob(rule, cs.Name+"<-"+FuncName(fn), cs.Pos(), ok, fmt.Sprintf("%s is called from %s; allowed callers: %v", cs.Name, FuncName(fn), allowed))
		}
	}
	if needOne && n == 0 {
		c.Ob(rule, calleePattern+"/exists", token.NoPos, false, "no call site of "+calleePattern+" found")
	}
}
