package main

// Transparent helpers.  A refactoring that extracts a block into a new private
// helper, or splits a function in two, must not change a verdict.  A function
// is *transparent* when it does not exist in the reference tree (refnames.json),
// is unexported, is not used as a value, and has exactly one call site in the
// module, a plain synchronous call.  The queries then treat its body as part of
// its caller: terms of its parameters are the terms of the arguments at that
// site, instruction searches and reachability descend into it and come back at
// its returns, guards and held locks of the call site extend into it.

import (
	"go/ast"
	"go/types"
	"strings"

	"golang.org/x/tools/go/ssa"
)

var transparentSite = map[*ssa.Function]*ssa.Call{}

func (p *Program) buildTransparent(rfile *refFile) {
	transparentSite = map[*ssa.Function]*ssa.Call{}
	if rfile == nil || len(rfile.Funcs) == 0 {
		return
	}
	inRef := func(fn *ssa.Function) bool {
		obj, ok := fn.Object().(*types.Func)
		if !ok || obj.Pkg() == nil {
			return true
		}
		if _, renamed := dispFunc[obj.Origin()]; renamed {
			return true
		}
		key := obj.Pkg().Path()
		if sig, ok := obj.Type().(*types.Signature); ok && sig.Recv() != nil {
			T := sig.Recv().Type()
			if pt, ok := T.(*types.Pointer); ok {
				T = pt.Elem()
			}
			if nt, ok := types.Unalias(T).(*types.Named); ok {
				key += "." + nt.Obj().Name()
			}
		}
		for _, n := range rfile.Funcs[key].Names {
			if n == obj.Name() {
				return true
			}
		}
		return false
	}
	cands := map[*ssa.Function]bool{}
	for _, f := range p.SrcFuncs() {
		if f.Parent() != nil || f.Synthetic != "" || len(f.Blocks) == 0 {
			continue
		}
		if f.Object() == nil || ast.IsExported(f.Name()) || f.Name() == "init" || f.Name() == "main" {
			continue
		}
		if f.TypeParams().Len() > 0 || f.Origin() != nil {
			continue
		}
		if !inRef(f) {
			cands[f] = true
		}
	}
	sites := map[*ssa.Function][]ssa.Instruction{}
	valueUse := map[*ssa.Function]bool{}
	for _, f := range p.SrcFuncs() {
		for _, b := range f.Blocks {
			for _, in := range b.Instrs {
				var callee *ssa.Function
				if ci, ok := in.(ssa.CallInstruction); ok {
					callee = ci.Common().StaticCallee()
					if callee != nil && cands[callee] {
						sites[callee] = append(sites[callee], in)
					}
				}
				for _, op := range in.Operands(nil) {
					if fv, ok := (*op).(*ssa.Function); ok && cands[fv] {
						if ci, isCall := in.(ssa.CallInstruction); isCall && ci.Common().Value == ssa.Value(fv) {
							continue
						}
						valueUse[fv] = true
					}
				}
			}
		}
	}
	for f := range cands {
		if valueUse[f] || len(sites[f]) != 1 {
			continue
		}
		call, ok := sites[f][0].(*ssa.Call)
		if !ok || call.Parent() == f {
			continue
		}
		transparentSite[f] = call
	}
	// immediately invoked function literals (`func() { mu.Lock(); defer mu.Unlock(); … }()`): the body runs exactly
	// here, synchronously — part of the enclosing function
	for _, f := range p.SrcFuncs() {
		for _, b := range f.Blocks {
			for _, in := range b.Instrs {
				call, ok := in.(*ssa.Call)
				if !ok {
					continue
				}
				mc, ok := call.Call.Value.(*ssa.MakeClosure)
				if !ok || mc.Referrers() == nil {
					continue
				}
				only := true
				for _, r := range *mc.Referrers() {
					if r != ssa.Instruction(call) {
						if _, isDbg := r.(*ssa.DebugRef); !isDbg {
							only = false
						}
					}
				}
				if af, isFn := mc.Fn.(*ssa.Function); isFn && only && len(af.Blocks) > 0 {
					transparentSite[af] = call
				}
			}
		}
	}
	// no cycles through transparent functions
	for f := range transparentSite {
		seen := map[*ssa.Function]bool{}
		for g := f; g != nil; {
			if seen[g] {
				delete(transparentSite, f)
				break
			}
			seen[g] = true
			s := transparentSite[g]
			if s == nil {
				break
			}
			g = rawTop(s.Parent())
		}
	}
}

// siteOf: the call site of the transparent function that contains in (nil when in lies in an ordinary function).
func siteOf(fn *ssa.Function) *ssa.Call {
	if len(transparentSite) == 0 || fn == nil {
		return nil
	}
	return transparentSite[fn]
}

// transparentCallee: in is the (unique) call of a transparent function.
func transparentCallee(in ssa.Instruction) *ssa.Function {
	if len(transparentSite) == 0 {
		return nil
	}
	call, ok := in.(*ssa.Call)
	if !ok {
		return nil
	}
	sc := call.Call.StaticCallee()
	if sc == nil || transparentSite[sc] != call {
		return nil
	}
	return sc
}

// ownerOf: the ordinary function a (possibly transparent) function's body belongs to.
func ownerOf(fn *ssa.Function) *ssa.Function {
	for i := 0; i < 12; i++ {
		s := siteOf(fn)
		if s == nil {
			return fn
		}
		fn = s.Parent()
	}
	return fn
}

// transparentCalleesOf lists the transparent functions called (directly) from fn.
func transparentCalleesOf(fn *ssa.Function) []*ssa.Function {
	if len(transparentSite) == 0 {
		return nil
	}
	var out []*ssa.Function
	for h, site := range transparentSite {
		if site.Parent() == fn {
			out = append(out, h)
		}
	}
	if len(out) > 1 {
		sortFuncs(out)
	}
	return out
}

func sortFuncs(fs []*ssa.Function) {
	for i := 1; i < len(fs); i++ {
		for j := i; j > 0 && strings.Compare(fs[j-1].String(), fs[j].String()) > 0; j-- {
			fs[j-1], fs[j] = fs[j], fs[j-1]
		}
	}
}

func init() {
	debugHooks["transparent"] = func(p *Program) {
		for h, s := range transparentSite {
			println(FuncName(h), "<-", FuncName(s.Parent()))
		}
	}
}

func init() {
	debugHooks["r3r7"] = func(p *Program) {
		hh := p.Fn("eio", "Server.handleHandshake")
		isErr := callPred(`eio\.writeServerError`)
		for _, e := range findInstrs(hh, isErr) {
			r0, _ := PrunedCanReach(hh, nil, nil, func(in ssa.Instruction) bool { return in == e }, nil)
			r1, tr := PrunedCanReach(hh, nil, []Assume{{`\(r\.Method != "GET"\)`, false}, {`\(r\.Method == "GET"\)`, true}}, func(in ssa.Instruction) bool { return in == e }, nil)
			println(p.Pos(e.Pos()), FuncName(e.Parent()), "reach(no assume)=", r0, "reach(GET)=", r1, trailString(p, tr))
		}
	}
}

// resolveParam: a parameter of a transparent helper is the argument at its call site.
func resolveParam(v ssa.Value) ssa.Value {
	for i := 0; i < 8; i++ {
		par, ok := v.(*ssa.Parameter)
		if !ok {
			return v
		}
		s := siteOf(par.Parent())
		if s == nil {
			return v
		}
		found := false
		for j, q := range par.Parent().Params {
			if q == par && j < len(s.Call.Args) {
				v = s.Call.Args[j]
				found = true
			}
		}
		if !found {
			return v
		}
	}
	return v
}
