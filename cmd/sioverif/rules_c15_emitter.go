package main

// C15-D7: the Emitter's modifiers are cumulative.

import (
	"fmt"
	"go/types"
	"strings"

	"golang.org/x/tools/go/ssa"
)

func c15EmitterModifiers(c *Ctx) {
	p := c.P
	c.Rule("C15-D7", "modifiers are cumulative: every method of Emitter that returns an Emitter returns the receiver's copy with fields changed — or a new value in which EVERY field of Emitter is set — so that "+
		"socket.Volatile().Timeout(d) is still volatile (an emit that loses the flag while disconnected is buffered and delivered after the reconnect instead of being dropped)", 2)
	nt := p.Named("sio", "Emitter")
	st := nt.Underlying().(*types.Struct)
	n := 0
	for _, fn := range p.SrcFuncs() {
		if fn.Parent() != nil || fn.Signature.Recv() == nil || len(fn.Blocks) == 0 {
			continue
		}
		if !types.Identical(fn.Signature.Recv().Type(), nt) && !types.Identical(deref(fn.Signature.Recv().Type()), nt) {
			continue
		}
		rs := fn.Signature.Results()
		if rs.Len() != 1 || !types.Identical(rs.At(0).Type(), nt) {
			continue
		}
		n++
		recv := fn.Params[0]
		for _, b := range fn.Blocks {
			ret, ok := b.Instrs[len(b.Instrs)-1].(*ssa.Return)
			if !ok || len(ret.Results) != 1 {
				continue
			}
			missing := ""
			switch v := ret.Results[0].(type) {
			case *ssa.Parameter:
				if v != recv {
					missing = "the result is not the receiver"
				}
			case *ssa.UnOp:
				al, isAl := v.X.(*ssa.Alloc)
				if !isAl || al.Referrers() == nil {
					missing = "the result is " + Term(v)
					break
				}
				// the receiver spilled to memory (its fields are then assigned), or a new composite
				fromRecv := false
				set := map[int]bool{}
				for _, r := range *al.Referrers() {
					switch y := r.(type) {
					case *ssa.Store:
						if y.Addr == ssa.Value(al) && y.Val == ssa.Value(recv) {
							fromRecv = true
						}
					case *ssa.FieldAddr:
						if y.Referrers() != nil {
							for _, rr := range *y.Referrers() {
								if st2, isSt := rr.(*ssa.Store); isSt && st2.Addr == ssa.Value(y) {
									set[y.Field] = true
								}
							}
						}
					}
				}
				if !fromRecv {
					var miss []string
					for i := 0; i < st.NumFields(); i++ {
						if !set[i] {
							miss = append(miss, fdisp(st.Field(i)))
						}
					}
					if len(miss) > 0 {
						missing = "a new Emitter is returned in which " + strings.Join(miss, ", ") + " keep their zero value"
					}
				}
			default:
				missing = "the result is " + Term(v)
			}
			c.Ob("C15-D7", "sio.Emitter."+fn.Name()+"/carries-earlier-modifiers", ret.Pos(), missing == "", fmt.Sprintf("%s: the modifiers applied before %s() are lost", missing, fn.Name()))
		}
	}
	if n < 2 {
		c.Undecided("C15-D7: only %d modifier methods of Emitter found", n)
	}
}
