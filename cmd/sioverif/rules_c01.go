package main

// C01 — every event reaches the peer exactly once, intact.

import (
	"go/token"
	"fmt"
	"regexp"
	"strings"

	"golang.org/x/tools/go/ssa"
)

func init() {
	register(&PropertySpec{
		ID:         "C01",
		NotDecided: "equality of decoded and emitted values, loss or duplication that depends on payload size, schedule, the JSON library or the network; decided are the send-path error discipline, that every Message frame reaches the parser under its mutex, that dispatch is keyed by the decoded namespace and event name, and (shared with C13) that the transports' read limits agree with the announced limit.",
		Run:        runC01,
	})
}

var enqueuePat = `\(\*sio\.serverConn\)\.sendBuffers|dyn:s\.sendBuffers|\(\*sio\.inMemoryAdapter\)\.apply|\(\*adapter\.inMemoryAdapter\)\.apply|\(\*sio\.serverConn\)\.packet|\(\*sio\.Manager\)\.packet`
var errSinkPat = `\(\*sio\.(serverSocket|clientSocket|serverConn|Manager)\)\.(onError|onFatalError)`

// errorDiscipline checks one call site producing (value, error): the error is
// tested; with err != nil the enqueue is unreachable and an error sink (or a
// return of the error / panic) is reached; with err == nil the enqueue is
// reached on every path and receives the produced value.
func errorDiscipline(c *Ctx, rule string, fn *ssa.Function, cs CallSite, errIdx int, enqueue string, wantArg bool, extra ...Assume) {
	name := FuncName(fn) + "#" + shortCallee(cs.Name)
	call, ok := cs.Instr.(*ssa.Call)
	if !ok {
		c.Ob(rule, name, cs.Pos(), false, "producer called with go/defer: its error cannot be handled")
		return
	}
	T := Term(call)
	errT := regexpQuote(fmt.Sprintf("(%s#%d != nil)", T, errIdx))
	errEq := regexpQuote(fmt.Sprintf("(%s#%d == nil)", T, errIdx))
	// is the error extracted at all?
	used := false
	for _, r := range *call.Referrers() {
		if ex, ok := r.(*ssa.Extract); ok && ex.Index == errIdx && ex.Referrers() != nil && len(*ex.Referrers()) > 0 {
			used = true
		}
	}
	c.Ob(rule, name+"/error-tested", cs.Pos(), used, "the error result of "+cs.Name+" is discarded")
	if !used {
		return
	}
	isEnq := orPred(anyCallPred(enqueue), storePred(`s\.sendBuffer`))
	// err != nil → enqueue unreachable
	reach, trail := PrunedCanReach(fn, call, []Assume{{errT, true}, {errEq, false}}, isEnq, nil)
	c.Ob(rule, name+"/no-enqueue-on-error", cs.Pos(), !reach, "with a non-nil error the enqueue is still reachable: "+trailString(c.P, trail))
	// err != nil → a sink is reached before returning: onError/onFatalError/panic or the error is returned
	isSink := func(in ssa.Instruction) bool {
		if anyCallPred(errSinkPat)(in) {
			return true
		}
		if _, ok := in.(*ssa.Panic); ok {
			return true
		}
		if ret, ok := in.(*ssa.Return); ok {
			for _, r := range ret.Results {
				if strings.Contains(Term(r), T+fmt.Sprintf("#%d", errIdx)) {
					return true
				}
			}
		}
		return false
	}
	silent, trail := PrunedCanReach(fn, call, []Assume{{errT, true}, {errEq, false}}, nil, isSink)
	c.Ob(rule, name+"/error-reported", cs.Pos(), !silent, "with a non-nil error a path returns without onError/onFatalError/panic/returning the error: "+trailString(c.P, trail))
	// err == nil → enqueue on every path (other producers' errors may still abort: they are checked at their own site)
	otherErr := func(in ssa.Instruction) bool { return isSink(in) }
	skip, trail := PrunedCanReach(fn, call, append([]Assume{{errT, false}, {errEq, true}}, extra...), nil, orPred(isEnq, otherErr))
	c.Ob(rule, name+"/enqueue-on-success", cs.Pos(), !skip, "with a nil error a path returns without enqueuing: "+trailString(c.P, trail))
	if wantArg {
		found := false
		for _, e := range findInstrs(fn, isEnq) {
			for _, a := range e.(ssa.CallInstruction).Common().Args {
				if Term(a) == T+"#0" {
					found = true
				}
			}
		}
		// closures may capture the buffers (adapter.Broadcast)
		if !found {
			for _, af := range WithAnons(fn)[1:] {
				for _, cs2 := range Calls(af) {
					for _, a := range cs2.Common().Args {
						if Term(a) == "buffers" {
							found = true
						}
					}
				}
			}
		}
		c.Ob(rule, name+"/encoded-frames-enqueued", cs.Pos(), found, "the frames returned by "+cs.Name+" are not what is enqueued")
	}
}

func shortCallee(n string) string {
	re := regexp.MustCompile(`[A-Za-z0-9_]+$`)
	return re.FindString(n)
}

func runC01(c *Ctx) {
	p := c.P

	c.Rule("C01-D1", "send-path error discipline: every error of Parser.Encode / eioparser.NewPacket on a send path is tested; on error nothing is enqueued and the error reaches onError/onFatalError/panic/the caller; on success the produced frames are enqueued on every path", 40)
	nEnc, nNew := 0, 0
	for _, a := range []struct{ short, fn string }{
		{"sio", "serverSocket.emit"}, {"sio", "serverSocket.sendControlPacket"}, {"sio", "serverSocket.sendAckPacket"},
		{"sio", "clientSocket.emit"}, {"sio", "clientSocket.sendControlPacket"}, {"sio", "clientSocket.sendAckPacket"},
		{"sio", "serverConn.connectError"}, {"sio", "newServerSocket"}, {"adapter", "inMemoryAdapter.Broadcast"},
	} {
		fn := p.Fn(a.short, a.fn)
		sites := CallsTo(Calls(fn), `\(parser\.Parser\)\.Encode`)
		if len(sites) == 0 {
			c.Ob("C01-D1", a.short+"."+a.fn+"/encodes", fn.Pos(), false, "no Parser.Encode call in this send-path function")
		}
		for _, cs := range sites {
			nEnc++
			errorDiscipline(c, "C01-D1", fn, cs, 1, enqueuePat, true)
		}
	}
	for _, a := range []struct{ short, fn, enq string }{
		{"sio", "serverConn.sendBuffers", `\(\*sio\.serverConn\)\.packet|\(\*sio\.packetQueue\)\.add`},
		{"sio", "clientSocket._sendBuffers", `\(\*sio\.Manager\)\.packet|\(\*sio\.packetQueue\)\.add`},
	} {
		fn := p.Fn(a.short, a.fn)
		for _, cs := range CallsTo(Calls(fn), `eioparser\.NewPacket`) {
			nNew++
			errorDiscipline(c, "C01-D1", fn, cs, 1, a.enq+`|dyn:.*`, false, Assume{`volatile`, false})
			// every frame is a Message packet
			t := Term(cs.Arg(0))
			c.Ob("C01-D1", FuncName(fn)+"#NewPacket/type", cs.Pos(), t == "4", "frame built with packet type "+t+" (expected PacketTypeMessage = 4)")
		}
	}
	c.Note("C01-D1 covered %d Encode sites and %d NewPacket sites", nEnc, nNew)
	// no other Encode site exists outside this table (a new send path must be added here)
	for _, fn := range p.SrcFuncs() {
		if siteOf(fn) != nil {
			continue // a transparent helper's calls are listed with its owner
		}
		for _, cs := range CallsTo(Calls(fn), `\(parser\.Parser\)\.Encode`) {
			top := FuncName(ownerOf(EnclosingTop(fn)))
			known := false
			for _, k := range []string{"(*sio.serverSocket).emit", "(*sio.serverSocket).sendControlPacket", "(*sio.serverSocket).sendAckPacket", "(*sio.clientSocket).emit", "(*sio.clientSocket).sendControlPacket", "(*sio.clientSocket).sendAckPacket", "(*sio.serverConn).connectError", "sio.newServerSocket", "(*adapter.inMemoryAdapter).Broadcast"} {
				if top == k {
					known = true
				}
			}
			c.Ob("C01-D1", "Encode-site@"+FuncName(fn), cs.Pos(), known && fn.Parent() == nil, "Parser.Encode is called from "+FuncName(fn)+", which is not in the table of checked send paths")
		}
	}

	c.Rule("C01-D2", "no Message frame bypasses the parser: in both onEIOPacket every packet of type Message is handed to parser.Add with its own Data under no further condition, and the loop is left early only after a parse error was routed to the fatal path", 8)
	for _, a := range []struct{ fn, fatal string }{
		{"serverConn.onEIOPacket", `\(\*sio\.serverConn\)\.onFatalError`},
		{"Manager.onEIOPacket", `\(\*sio\.Manager\)\.onClose`},
	} {
		fn := p.Fn("sio", a.fn)
		adds := CallsTo(Calls(fn), `\(parser\.Parser\)\.Add`)
		name := "sio." + a.fn
		if len(adds) != 1 {
			c.Ob("C01-D2", name+"/add", fn.Pos(), false, fmt.Sprintf("expected exactly one parser.Add call, found %d", len(adds)))
			continue
		}
		ad := adds[0]
		arg := Term(ad.Arg(0))
		okArg, _ := regexp.MatchString(`^packets\[.*\]\.Data$`, arg)
		c.Ob("C01-D2", name+"/add-data", ad.Pos(), okArg, "parser.Add receives "+arg+" (expected the Data of the current packet)")
		cb := Term(ad.Arg(1))
		c.Ob("C01-D2", name+"/add-callback", ad.Pos(), strings.Contains(cb, "onParserFinish"), "parser.Add's finish callback is "+cb+" (expected onParserFinish)")
		// guards: exactly {loop condition, Type == Message}
		var extra []string
		typeGuard := false
		for _, g := range GuardTerms(ad.Instr) {
			switch {
			case regexp.MustCompile(`^\(packets\[.*\]\.Type == 4\)==true$`).MatchString(g):
				typeGuard = true
			case regexp.MustCompile(`^\(packets\[.*\]\.Type != 4\)==false$`).MatchString(g):
				typeGuard = true
			case strings.Contains(g, "< len(packets)") && strings.HasSuffix(g, "==true"):
			default:
				extra = append(extra, g)
			}
		}
		c.Ob("C01-D2", name+"/message-guard", ad.Pos(), typeGuard, "parser.Add is not guarded by `packet.Type == PacketTypeMessage`")
		c.Ob("C01-D2", name+"/no-extra-condition", ad.Pos(), len(extra) == 0, fmt.Sprintf("parser.Add runs only under additional condition(s) %v: Message frames not meeting them silently bypass the parser", extra))
		// early returns only after the fatal path
		T := Term(ad.Instr.(*ssa.Call))
		for _, b := range fn.Blocks {
			ret, ok := b.Instrs[len(b.Instrs)-1].(*ssa.Return)
			if !ok || (len(b.Preds) == 0 && b.Index != 0) {
				continue
			}
			loopDone := false
			errBranch := false
			for _, g := range GuardTerms(ret) {
				if strings.Contains(g, "< len(packets)") && strings.HasSuffix(g, "==false") {
					loopDone = true
				}
				if g == "("+T+" != nil)==true" {
					errBranch = true
				}
				// the error lives in a cell because a function literal captures it
				for _, gg := range Guards(ret) {
					if bo, isB := gg.Cond.(*ssa.BinOp); isB && gg.Val && bo.Op == token.NEQ && loadOfCellHolding(bo.X, ad.Instr.(*ssa.Call)) {
						errBranch = true
					}
				}
			}
			if loopDone {
				c.Ob("C01-D2", name+"/return", ret.Pos(), true, "return after the loop is exhausted")
				continue
			}
			fatal := false
			if errBranch {
				// the fatal call dominates the return
				for _, f := range findInstrs(fn, anyCallPred(a.fatal)) {
					if f.Parent() == fn && Dominates(f, ret) {
						fatal = true
					}
				}
				// or a function literal started here that routes it on every path
				for _, bb := range fn.Blocks {
					for _, in := range bb.Instrs {
						ci, isCI := in.(ssa.CallInstruction)
						if !isCI {
							continue
						}
						if mc, isMC := ci.Common().Value.(*ssa.MakeClosure); isMC && Dominates(in, ret) {
							if skip, _ := CanReachExitAvoiding(mc.Fn.(*ssa.Function), nil, anyCallPred(a.fatal)); !skip {
								fatal = true
							}
						}
					}
				}
			}
			c.Ob("C01-D2", name+"/return", ret.Pos(), errBranch && fatal, "the packet loop is left early without a parse error routed to "+a.fatal+" (remaining frames of the batch are dropped)")
		}
	}

	c.Rule("C01-D3", "parser state under its mutex: Add and Reset of the connection's parser are called only with the sibling parserMu write-held", 4)
	{
		n := 0
		for _, fn := range p.SrcFuncs() {
			top := EnclosingTop(fn)
			if top.Pkg == nil || top.Pkg.Pkg.Path() != modPath {
				continue
			}
			li := Locks(fn)
			for _, cs := range CallsTo(Calls(fn), `\(parser\.Parser\)\.(Add|Reset)`) {
				recv := Term(cs.Common().Value) // c.parser / m.parser
				if !strings.HasSuffix(recv, ".parser") {
					c.Ob("C01-D3", cs.Name+"@"+FuncName(fn), cs.Pos(), false, "parser method called on "+recv+", not on a connection's parser field")
					continue
				}
				n++
				lock := strings.TrimSuffix(recv, ".parser") + ".parserMu"
				c.Ob("C01-D3", shortCallee(cs.Name)+"@"+FuncName(fn), cs.Pos(), li.HoldsW(cs.Instr, lock), cs.Name+" on "+recv+" without "+lock+" held; held="+li.Held(cs.Instr).String())
			}
		}
		if n == 0 {
			c.Ob("C01-D3", "sites", p.Fn("sio", "serverConn.onEIOPacket").Pos(), false, "no Add/Reset call found")
		}
	}

	c.Rule("C01-D4", "dispatch key: sockets are looked up by the decoded header's namespace, handlers by the decoded event name, and onEvent runs once per handler returned; the parser hands finish() the header and event name that parseHeader produced", 10)
	dispatchKeys(c, "C01-D4")

	c.Rule("C01-D6", "dispatch iterates a snapshot: the handler list handed to the dispatch loop is a fresh copy, so a handler that registers/removes handlers mid-dispatch cannot make another handler miss this event or receive an earlier one", 2)
	freshResult(c, "C01-D6", "sio.eventHandlerStore.getAll", p.Fn("sio", "eventHandlerStore.getAll"))
	freshResult(c, "C01-D6", "sio.handlerStore.getAll", p.Fn("sio", "handlerStore.getAll"))

	c.Rule("C01-D5", "read limits agree with the announced limit (shared with C13-D2/D4): every websocket connection gets SetReadLimit on all paths, the announced maxPayload is the enforced field", 4)
	websocketReadLimit(c, "C01-D5")
	announcedEqualsEnforced(c, "C01-D5")

	c.Rule("C01-D7", "the client's polling batcher neither skips nor oversizes (shared with C13-D3): after a batch was cut at maxPayload the scan restarts at the first remaining packet, prefix sent and suffix kept are cut at the same index, "+
		"the remainder is always sent — a batch above maxPayload is answered 413 and the transport closed, every event in it lost", 5)
	batcherShape(c, "C01-D7")

	c.Rule("C01-D9", "no frame is lost or misdelivered between layers (shared rules): each connection decodes with its own parser (C10-D9: a shared parser makes one client's frame another client's attachment), "+
		"and packets are handed to the current transport under transportMu (C07-D8: a send in flight on the discarded transport is lost)", 5)
	c10ParserPerConnectionRule(c, "C01-D9")
	sendUnderTransportLock(c, "C01-D9")
	c01Round4(c)
	c.Rule("C01-D14", "a queued frame is not rewritten: the text frame encodeString returns is the Bytes() of a buffer allocated in that call (no pooled, global or per-parser buffer, which the next Encode would rewrite while the frame is still queued)", 1)
	frameOwnsItsStorage(c, "C01-D14")

	c.Rule("C01-D13", "the connection handlers have run before the socket's first event can be dispatched (F69, known finding): in Namespace.doConnect the fan-out over the OnAnyConnection/OnConnection handlers is synchronous and precedes the CONNECT reply — "+
		"a fan-out started on a goroutine after the reply races with the client's first events, which are dispatched with the handler set of that moment and dropped silently", 1)
	connectionHandlersBeforeFirstEvent(c, "C01-D13")

	c.Rule("C01-D8", "transport upgrade keeps packets whole (shared with C02-D5/C07-D2): the swap, the flush of the old transport's queue onto the new one and the UPGRADE bookkeeping happen in one write-locked region, "+
		"so a concurrent Send cannot land between a binary event's header and its attachments", 12)
	swapRegion(c, "C01-D8")
}

func dispatchKeys(c *Ctx, rule string) {
	p := c.P
	{
		fn := p.Fn("sio", "serverConn.onParserFinish")
		var sites []CallSite
		for _, f := range WithAnons(fn) {
			sites = append(sites, CallsTo(Calls(f), `\(\*sio\.serverSocketStore\)\.getByNsp`)...)
		}
		if len(sites) != 1 {
			c.Ob(rule, "sio.serverConn.onParserFinish/lookup", fn.Pos(), false, fmt.Sprintf("expected one getByNsp, found %d", len(sites)))
		} else {
			a := Term(sites[0].Arg(0))
			c.Ob(rule, "sio.serverConn.onParserFinish/lookup", sites[0].Pos(), a == "header.Namespace", "socket looked up by "+a+" (expected header.Namespace)")
		}
		for _, f := range WithAnons(fn) {
			for _, cs := range CallsTo(Calls(f), `\(\*sio\.serverSocket\)\.onPacket`) {
				recv := stripAmp(Term(cs.Common().Args[0]))
				okr := strings.HasSuffix(recv, "getByNsp(header.Namespace)#0")
				args := []string{Term(cs.Arg(0)), Term(cs.Arg(1)), Term(cs.Arg(2))}
				c.Ob(rule, "sio.serverConn.onParserFinish/dispatch", cs.Pos(), okr && args[0] == "header" && args[1] == "eventName" && args[2] == "decode", fmt.Sprintf("onPacket called on %s with %v (expected the looked-up socket and the callback's own header, eventName, decode)", recv, args))
			}
		}
	}
	{
		fn := p.Fn("sio", "Manager.onParserFinish")
		sites := CallsTo(Calls(fn), `\(\*sio\.clientSocketStore\)\.get`)
		if len(sites) != 1 {
			c.Ob(rule, "sio.Manager.onParserFinish/lookup", fn.Pos(), false, fmt.Sprintf("expected one clientSocketStore.get, found %d", len(sites)))
		} else {
			a := Term(sites[0].Arg(0))
			c.Ob(rule, "sio.Manager.onParserFinish/lookup", sites[0].Pos(), a == "header.Namespace", "socket looked up by "+a+" (expected header.Namespace)")
		}
		for _, cs := range CallsTo(Calls(fn), `\(\*sio\.clientSocket\)\.onPacket`) {
			recv := stripAmp(Term(cs.Common().Args[0]))
			args := []string{Term(cs.Arg(0)), Term(cs.Arg(1)), Term(cs.Arg(2))}
			c.Ob(rule, "sio.Manager.onParserFinish/dispatch", cs.Pos(), strings.HasSuffix(recv, "get(header.Namespace)#0") && args[0] == "header" && args[1] == "eventName" && args[2] == "decode", fmt.Sprintf("onPacket called on %s with %v", recv, args))
		}
	}
	for _, tn := range []string{"serverSocket", "clientSocket"} {
		fn := p.Fn("sio", tn+".onPacket")
		ga := CallsTo(Calls(fn), `\(\*sio\.eventHandlerStore\)\.getAll`)
		name := "sio." + tn + ".onPacket"
		if len(ga) != 1 {
			c.Ob(rule, name+"/handlers", fn.Pos(), false, fmt.Sprintf("expected one eventHandlers.getAll, found %d", len(ga)))
			continue
		}
		a := Term(ga[0].Arg(0))
		recv := stripAmp(Term(ga[0].Common().Args[0]))
		c.Ob(rule, name+"/handlers", ga[0].Pos(), a == "eventName" && recv == "s.eventHandlers", "handlers looked up with "+recv+".getAll("+a+") (expected s.eventHandlers.getAll(eventName))")
		other, trail := PrunedCanReach(fn, nil, []Assume{{`\(header\.Type == 2\)`, false}, {`\(header\.Type == 5\)`, false}}, func(in ssa.Instruction) bool { return in == ga[0].Instr }, nil)
		c.Ob(rule, name+"/event-type-guard", ga[0].Pos(), !other, "event handlers are looked up for a packet that is neither EVENT nor BINARY_EVENT: "+trailString(p, trail))
		for _, ty := range []string{"2", "5"} {
			var as []Assume
			for _, t2 := range []string{"0", "1", "2", "3", "4", "5", "6"} {
				as = append(as, Assume{`\(header\.Type == ` + t2 + `\)`, t2 == ty})
			}
			skip, trail := PrunedCanReach(fn, nil, as, nil, func(in ssa.Instruction) bool { return in == ga[0].Instr })
			c.Ob(rule, name+"/dispatches-type-"+ty, ga[0].Pos(), !skip, "a packet of type "+ty+" returns without looking up its handlers: "+trailString(p, trail))
		}
		oe := CallsTo(Calls(fn), `\(\*sio\.`+tn+`\)\.onEvent`)
		if len(oe) != 1 {
			c.Ob(rule, name+"/onEvent", fn.Pos(), false, fmt.Sprintf("expected one onEvent call, found %d", len(oe)))
			continue
		}
		var hArg string
		for i := 0; i < 6; i++ {
			if v := oe[0].Arg(i); v != nil && strings.Contains(Term(v), "getAll(eventName)[") {
				hArg = Term(v)
			}
		}
		c.Ob(rule, name+"/once-per-handler", oe[0].Pos(), hArg != "" && inLoop(oe[0].Instr.Block()) && !oe[0].IsGo(), "onEvent must be called synchronously once per element of getAll(eventName); handler argument: "+hArg)
		// header/decode forwarded
		fwd := 0
		for i := 0; i < 6; i++ {
			if v := oe[0].Arg(i); v != nil && (Term(v) == "header" || Term(v) == "decode") {
				fwd++
			}
		}
		c.Ob(rule, name+"/forwards-packet", oe[0].Pos(), fwd == 2, "onEvent must receive this packet's header and decode")
	}
	// parser: finish(header, eventName, decode) wired from parseHeader
	{
		fn := p.Fn("jsonparser", "Parser.Add")
		n := 0
		for _, cs := range Calls(fn) {
			if !strings.HasPrefix(cs.Name, "dyn:finish") {
				continue
			}
			n++
			a0, a1 := Term(cs.Common().Args[0]), Term(cs.Common().Args[1])
			ok := (a0 == "p.parseHeader(data)#0" && a1 == "p.parseHeader(data)#2") || (strings.HasSuffix(a0, ".header") && strings.HasSuffix(a1, ".eventName") && strings.TrimSuffix(a0, ".header") == strings.TrimSuffix(a1, ".eventName"))
			c.Ob(rule, "jsonparser.Parser.Add/finish", cs.Pos(), ok, "finish("+a0+", "+a1+", …): header and event name must come from the same parseHeader result / the same reconstructor")
		}
		c.Ob(rule, "jsonparser.Parser.Add/finish-sites", fn.Pos(), n == 2, fmt.Sprintf("%d finish() call sites (expected 2: single-frame and after the last attachment)", n))
		// the reconstructor keeps what parseHeader produced
		hdr := p.Field("jsonparser", "reconstructor", "header")
		evn := p.Field("jsonparser", "reconstructor", "eventName")
		for _, st := range findInstrs(fn, fieldStorePred(hdr)) {
			c.Ob(rule, "jsonparser.Parser.Add/reconstructor.header", st.Pos(), Term(st.(*ssa.Store).Val) == "p.parseHeader(data)#0", "reconstructor.header = "+Term(st.(*ssa.Store).Val))
		}
		for _, st := range findInstrs(fn, fieldStorePred(evn)) {
			c.Ob(rule, "jsonparser.Parser.Add/reconstructor.eventName", st.Pos(), Term(st.(*ssa.Store).Val) == "p.parseHeader(data)#2", "reconstructor.eventName = "+Term(st.(*ssa.Store).Val))
		}
	}
}

// frameOwnsItsStorage (C01-D14): the text frame encodeString returns is queued (poll queue, packet
// queue, websocket writer) and read later, after encodeString has returned and possibly run again.
// It must therefore be storage made by that very call: every bytes.Buffer whose Bytes() leaves
// the function is a local of it (an allocation in encodeString), never a buffer obtained from a
// pool, a global or a field of the parser, which the next Encode would rewrite under the reader.
func frameOwnsItsStorage(c *Ctx, rule string) {
	p := c.P
	fn := p.Fn("jsonparser", "Parser.encodeString")
	name := "jsonparser.Parser.encodeString"
	n := 0
	for _, cs := range Calls(fn) {
		if !regexpMatch(`\(\*bytes\.Buffer\)\.Bytes$`, cs.Name) || len(cs.Common().Args) == 0 {
			continue
		}
		// only a Bytes() result that is itself returned (whole, resliced or through a φ) matters:
		// a copy of it (append([]byte(nil), b...), bytes.Clone, string conversion) owns its storage
		val, isVal := cs.Instr.(ssa.Value)
		if !isVal || !reachesReturnUncopied(val, map[ssa.Value]bool{}) {
			continue
		}
		n++
		recv := cs.Common().Args[0]
		al, isAlloc := recv.(*ssa.Alloc)
		ok := isAlloc && al.Parent() == fn
		c.Ob(rule, fmt.Sprintf("%s/frame-buffer-is-local#%d", name, n), cs.Pos(), ok,
			"the frame is the Bytes() of "+Term(recv)+", which is not a buffer allocated in this call: the frame is still queued when the next Encode reuses that buffer, and the peer receives another event's bytes")
	}
	c.Ob(rule, name+"/frame-source-inspected", fn.Pos(), true, "")
}

func reachesReturnUncopied(v ssa.Value, seen map[ssa.Value]bool) bool {
	if seen[v] {
		return false
	}
	seen[v] = true
	refs := v.Referrers()
	if refs == nil {
		return false
	}
	for _, r := range *refs {
		switch x := r.(type) {
		case *ssa.Return:
			return true
		case *ssa.Slice:
			if x.X == v && reachesReturnUncopied(x, seen) {
				return true
			}
		case *ssa.Phi:
			if reachesReturnUncopied(x, seen) {
				return true
			}
		case *ssa.ChangeType:
			if reachesReturnUncopied(x, seen) {
				return true
			}
		case *ssa.Store:
			// results spilled to a local because of a defer: follow the loads of that local
			if al, ok := x.Addr.(*ssa.Alloc); ok && x.Val == v && al.Referrers() != nil {
				for _, ar := range *al.Referrers() {
					if ld, ok := ar.(*ssa.UnOp); ok && ld.Op == token.MUL && reachesReturnUncopied(ld, seen) {
						return true
					}
				}
			}
		}
	}
	return false
}
