package main

// C08-D11: what is handed to the Socket.IO encoder is something it accepts (F45).

import (
	"fmt"
	"go/types"
	"strings"

	"golang.org/x/tools/go/callgraph"
	"golang.org/x/tools/go/ssa"
)

func encoderArgumentsAccepted(c *Ctx, rule string) {
	p := c.P
	cg := p.CallGraph()
	n := 0
	for _, fn := range p.SrcFuncs() {
		if fn.Pkg == nil {
			continue
		}
		if sh, _ := shortOf(fn.Pkg.Pkg.Path()); sh != "sio" && sh != "adapter" {
			continue
		}
		for _, cs := range Calls(fn) {
			if !cs.Common().IsInvoke() || cs.Common().Method.Name() != "Encode" || len(cs.Common().Args) != 2 || cs.Instr.Parent() != fn {
				continue
			}
			if !strings.HasSuffix(cs.Common().Value.Type().String(), "parser.Parser") {
				continue
			}
			n++
			bad := ""
			seen := map[ssa.Value]bool{}
			var walk func(v ssa.Value, depth int)
			walk = func(v ssa.Value, depth int) {
				if seen[v] || bad != "" || depth > 4 {
					return
				}
				seen[v] = true
				switch x := v.(type) {
				case *ssa.Const:
				case *ssa.MakeInterface:
					switch t := x.X.Type().Underlying().(type) {
					case *types.Pointer:
					case *types.Struct:
						_ = t // the encoder's documented exception (the `_empty` sentinel)
					default:
						bad = fmt.Sprintf("a %s by value (%s)", x.X.Type().String(), trunc(Term(x.X), 40))
					}
				case *ssa.Phi:
					for _, e := range x.Edges {
						walk(e, depth)
					}
				case *ssa.Parameter:
					// the callers' arguments
					node := cg.Nodes[x.Parent()]
					idx := -1
					for i, q := range x.Parent().Params {
						if q == x {
							idx = i
						}
					}
					if node == nil || idx < 0 {
						return
					}
					for _, e := range node.In {
						if e.Site == nil || !p.inModule(e.Caller.Func) {
							continue
						}
						args := e.Site.Common().Args
						j := idx
						if e.Site.Common().IsInvoke() {
							j = idx - 1
						}
						if j >= 0 && j < len(args) {
							walk(args[j], depth+1)
						}
					}
				case *ssa.UnOp:
					if al, isAl := x.X.(*ssa.Alloc); isAl && al.Referrers() != nil {
						for _, r := range *al.Referrers() {
							if st, isSt := r.(*ssa.Store); isSt && st.Addr == ssa.Value(al) {
								walk(st.Val, depth)
							}
						}
					}
				}
			}
			walk(cs.Common().Args[1], 0)
			c.Ob(rule, "encode-argument@"+FuncName(fn), cs.Pos(), bad == "", "the encoder is handed "+bad+": it accepts pointers only and answers everything else with an error — the packet (here: the CONNECT of a client that presents its session id) is never sent")
		}
	}
	_ = callgraph.Edge{}
	if n < 3 {
		c.Undecided("%s: only %d Encode call sites found", rule, n)
	}
}
