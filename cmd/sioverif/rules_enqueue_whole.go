package main

import (
	"golang.org/x/tools/go/ssa"
)

// phiLeaves resolves v through φ-nodes (cycle-safe).
func phiLeaves(v ssa.Value) []ssa.Value {
	var out []ssa.Value
	seen := map[ssa.Value]bool{}
	var walk func(ssa.Value)
	walk = func(x ssa.Value) {
		if seen[x] {
			return
		}
		seen[x] = true
		if ph, ok := x.(*ssa.Phi); ok {
			for _, e := range ph.Edges {
				walk(e)
			}
			return
		}
		out = append(out, x)
	}
	walk(v)
	return out
}

// wholePacketArg reports whether an enqueue argument is, on every path, the slice made with `lenOf` elements (every
// frame of the packet being sent), possibly with OLDER frames put in front of it in one piece (`append(older,
// packets...)`: the frames of this packet are still contiguous and complete, and the call is still one call).
// olderLen, when the second form occurs, receives the length term of the slice put in front.
func wholePacketArg(arg ssa.Value, lenOf string) (ok bool, olderLen []string) {
	isWhole := func(v ssa.Value) bool {
		for _, l := range phiLeaves(v) {
			mk, isMake := l.(*ssa.MakeSlice)
			if !isMake || Term(mk.Len) != lenOf {
				return false
			}
		}
		return true
	}
	for _, l := range phiLeaves(arg) {
		if mk, isMake := l.(*ssa.MakeSlice); isMake && Term(mk.Len) == lenOf {
			continue
		}
		if call, isCall := l.(*ssa.Call); isCall {
			if b, isB := call.Call.Value.(*ssa.Builtin); isB && b.Name() == "append" && len(call.Call.Args) == 2 && isWhole(call.Call.Args[1]) {
				for _, f := range phiLeaves(call.Call.Args[0]) {
					if mk, isMake := f.(*ssa.MakeSlice); isMake {
						olderLen = append(olderLen, Term(mk.Len))
					} else {
						olderLen = append(olderLen, Term(f))
					}
				}
				continue
			}
		}
		return false, nil
	}
	return true, olderLen
}
